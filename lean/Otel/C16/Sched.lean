import Otel.C16.Model
import Otel.C16.Script
import Otel.C16.Spec
import Otel.C16.Propagator
/-
C16 — deterministic replay of a *forced* scenario script on the LTS (driver glue; core Lean only).

Two instances of the LTS are driven: `ms` (global MeterProvider) and `ts` (global TracerProvider = one unit,
tracers = its instruments). Every operation of the script runs in a thread of its own; the gated installer is
thread 0. An operation whose next label is not enabled (it needs a lock the parked installer holds) stays
*pending* and is retried whenever the installer stops (eager scheduler) — exactly what the harness does with
goroutines. The installer's free choices (`range` over Go maps) are resolved from the observed gate names.
-/
namespace Otel.C16

inductive MH where | ph (m : Nat) | direct deriving Repr, DecidableEq
inductive IH where | ph (j : Nat) | direct deriving Repr, DecidableEq
inductive CH where | ph (r : Nat) | direct deriving Repr, DecidableEq

/-- pending stages -/
inductive POp where
  | M (k : Nat) | K (i k kind : Nat) | R (c k : Nat) (is : List Nat) | RB (c k : Nat) (is : List Nat)
  | U1 (c : Nat) | U2 (c : Nat)
  | T (t : Nat)
  | IM | IT
deriving Repr

inductive GateAt where | meter | inst (i : Nat) | reg deriving Repr

structure Sim where
  ms : St := {}
  ts : St := { nM := 1 }
  tmp : TMP.PSt := {}                          -- the global TextMapPropagator's LTS
  meters : List (Nat × MH) := []
  insts : List (Nat × IH × Nat) := []          -- script id, handle, kind
  cbs : List (Nat × CH × List Nat) := []       -- script id, handle, observed script instruments
  dRec : List (Nat × Nat) := []                -- measurements on SDK-direct instruments (script id, v), newest first
  dDead : List Nat := []                       -- SDK-direct registrations that were unregistered
  tracers : List (Nat × Nat) := []             -- script tracer → instrument of `ts`
  spanInfo : List (Nat × Bool × Option Nat) := []  -- span → (reached the SDK, span context it hands on = nearest real ancestor-or-self's parent link)
  props : List (Nat × Nat) := []
  active : Bool := false                       -- a gated installer is between start and finish
  onTracer : Bool := false
  gm : Bool := false
  gi : Bool := false
  gr : Bool := false
  gateAt : Option GateAt := none
  obsGates : List String := []
  obsRej : List Nat := []                      -- callbacks never invoked in the observed run (resolves whether a registration
                                               -- naming own AND foreign observables was rejected as a whole: Go map order)
  cbForeign : List (Nat × List Nat) := []      -- foreign instruments a partially accepted callback also observes
  obsOc : List String := []                    -- observed results of the OC / CC operations still to come (only `skip` is read)
  gates : List String := []                    -- model's gate sequence, newest first
  pend : List (Nat × POp) := []
  nextTid : Nat := 1
  tags : List String := []
  bad : Bool := false
  ocs : List String := []                      -- results of the OC / CC operations, newest first
  extraInv : List (Nat × Nat) := []            -- callback invocations caused by OC / CC: (script callback, count)
  dObs : List (Nat × Nat × Nat × Nat) := []    -- observations of SDK-direct callbacks (no global wrapper in between):
                                               -- (reader, script instrument, script callback, value)

def lookup {α : Type} (l : List (Nat × α)) (k : Nat) : Option α := (l.find? (·.1 == k)).map (·.2)

def Sim.tag (x : Sim) (t : String) : Sim := if x.tags.contains t then x else { x with tags := t :: x.tags }

def meterName (x : Sim) (m : Nat) : String :=
  match x.meters.find? (fun p => p.2 == MH.ph m) with
  | some (k, _) => s!"m{k}"
  | none => "m?"

def instName (x : Sim) (j : Nat) : String :=
  if x.onTracer then
    match x.tracers.find? (fun p => p.2 == j) with
    | some (t, _) => s!"t{t}"
    | none => "t?"
  else
    match x.insts.find? (fun p => p.2.1 == IH.ph j) with
    | some (i, _) => s!"i{i}"
    | none => "i?"

/-- the LTS instance the gated installer works on -/
def Sim.cur (x : Sim) : St := if x.onTracer then x.ts else x.ms
def Sim.setCur (x : Sim) (s : St) : Sim := if x.onTracer then { x with ts := s } else { x with ms := s }

inductive AdvStatus where | running | atGate | done | stuck deriving DecidableEq, Repr

/-- advance installer thread `tid` on the current instance until a gate, the end, or a disabled label -/
def adv (tid : Nat) (gated : Bool) : Nat → Sim → Sim × AdvStatus
  | 0, x => (x, .stuck)
  | f + 1, x =>
    let s := x.cur
    let go (a : Act) (x : Sim) : Sim × AdvStatus :=
      match step false x.cur tid a with
      | some s' => adv tid gated f (x.setCur s')
      | none => (x, .stuck)
    match s.frame tid with
    | .idle => go .instBegin x
    | .iOnce => go .instLockProv x
    | .iProv =>
      if allDone s then go .instProvUnlock x
      else
        let cands := (List.range s.nM).filter (fun m => !s.mDone m)
        let byObs := cands.find? (fun m => x.obsGates.head? == some (meterName x m))
        let m := if gated ∧ x.gm then byObs.getD (cands.headD 0) else cands.headD 0
        match step false s tid (.instLockMeter m) with
        | none => (x, .stuck)
        | some s' =>
          let x := x.setCur s'
          if gated ∧ x.gm then
            ({ x with gates := meterName x m :: x.gates, obsGates := x.obsGates.drop 1, gateAt := some .meter }.tag "gate:m", .atGate)
          else adv tid gated f x
    | .iMeterLocked _ => go .instSetDel x
    | .iInsts m =>
      match s.pend m with
      | i0 :: _ =>
        let byObs := (s.pend m).find? (fun i => x.obsGates.head? == some (instName x i))
        let i := if gated ∧ x.gi then byObs.getD i0 else i0
        if gated ∧ x.gi then
          ({ x with gates := instName x i :: x.gates, obsGates := x.obsGates.drop 1, gateAt := some (.inst i) }.tag "gate:i", .atGate)
        else go (.instInst i) x
      | [] =>
        match s.registry m with
        | _ :: _ => go .instRegLock x
        | [] => go .instMeterDone x
    | .iRegLocked _ r =>
      if s.rUnreg r = .none then go .instRegBody (x.tag "instRegSkip")
      else if gated ∧ x.gr then
        ({ x with gates := "r" :: x.gates, obsGates := x.obsGates.drop 1, gateAt := some .reg }.tag "gate:r", .atGate)
      else go .instRegBody (x.tag "instReg")
    | .iUnlocked => go .instOnceDone x
    | .iStore =>
      match step false s tid .instStore with
      | some s' => (x.setCur s', .done)
      | none => (x, .stuck)
    | _ => (x, .stuck)

def FUEL : Nat := 100000

/-- one attempt at a pending operation: `none` = completed -/
def tryOp (x : Sim) (tid : Nat) (p : POp) : Sim × Option POp :=
  match p with
  | .M k =>
    if x.ms.stored then ({ x with meters := if (lookup x.meters k).isSome then x.meters else (k, .direct) :: x.meters }.tag "meterSdk", none)
    else if x.ms.provOwner = none then
      if (lookup x.meters k).isSome then (x.tag "meterGet", none)
      else if x.ms.provDel then ({ x with meters := (k, .direct) :: x.meters }.tag "meterSdk", none)
      else match step false x.ms tid .meterNew with
        | some s' => ({ x with ms := s', meters := (k, .ph x.ms.nM) :: x.meters }.tag "meterNew", none)
        | none => (x, some p)
    else (x.tag "blocked:M", some p)
  | .K i k kind =>
    match lookup x.meters k with
    | none => ({ x with bad := true }, none)
    | some .direct => ({ x with insts := (i, .direct, kind) :: x.insts }.tag "mkSdk", none)
    | some (.ph m) =>
      match step false x.ms tid (.mk m kind) with
      | some s' => ({ x with ms := s', insts := (i, .ph x.ms.nI, kind) :: x.insts }.tag (if x.ms.mDel m then "mkDelegated" else "mkPlaceholder"), none)
      | none => (x.tag "blocked:K", some p)
  | .R c k is =>
    match lookup x.meters k with
    | none => ({ x with bad := true }, none)
    | some .direct => ({ x with cbs := (c, .direct, is) :: x.cbs }.tag "regSdk", none)
    | some (.ph m) =>
      match step false x.ms tid (.reg m) with
      | some s' => ({ x with ms := s', cbs := (c, .ph x.ms.nR, is) :: x.cbs }.tag (if x.ms.mDel m then "regDelegated" else "regPlaceholder"), none)
      | none => (x.tag "blocked:R", some p)
  | .RB c k is =>
    match lookup x.meters k with
    | some (.ph m) =>
      let isOwn := fun (i : Nat) => match lookup x.insts i with
        | some (.ph j, _) => x.ms.iMeter j == m
        | _ => false
      let own := is.filter isOwn
      let foreign := is.filter (fun i => !isOwn i)
      let partialAcc := !own.isEmpty && !x.obsRej.contains c
      match step false x.ms tid (if partialAcc then .regPartial m else .regBad m) with
      | some s' =>
        ({ x with ms := s', cbs := (c, .ph x.ms.nR, own) :: x.cbs, cbForeign := (c, foreign) :: x.cbForeign }.tag
            (if partialAcc then "regAcceptedWithError" else if own.isEmpty then "regRejectedLater" else "regMixRejected"), none)
      | none => if x.ms.mDel m then ({ x with bad := true }, none) else (x.tag "blocked:R", some p)
    | _ => ({ x with bad := true }, none)     -- on an SDK meter the error goes to the caller: not generated
  | .U1 c =>
    match lookup x.cbs c with
    | none => ({ x with bad := true }, none)
    | some (.direct, _) => ({ x with dDead := c :: x.dDead }.tag "unregSdkDirect", none)
    | some (.ph r, _) =>
      match step false x.ms tid (.unregTake r) with
      | some s' => ({ x with ms := s' }, some (.U2 c))
      | none => (x.tag "blocked:Utake", some p)
  | .U2 _ =>
    let tg := match x.ms.frame tid with
      | .unregTaken _ .none => "unregNil"
      | .unregTaken _ .closure => "unregClosure"
      | .unregTaken _ .sdk => "unregSdk"
      | _ => "unreg?"
    match step false x.ms tid .unregCall with
    | some s' => ({ x with ms := s' }.tag tg, none)
    | none => (x.tag "blocked:Ucall", some p)
  | .T t =>
    match step false x.ts tid (.mk 0 0) with
    | some s' => ({ x with ts := s', tracers := (t, x.ts.nI) :: x.tracers }.tag (if x.ts.mDel 0 then "tracerSdk" else "tracerPlaceholder"), none)
    | none => (x.tag "blocked:T", some p)
  | .IM =>
    let (y, st) := adv tid false FUEL { x with onTracer := false }
    let y := { y with onTracer := x.onTracer }
    if st = .done then (y.tag "installM", none) else (y.tag "blocked:IM", some p)
  | .IT =>
    let (y, st) := adv tid false FUEL { x with onTracer := true }
    let y := { y with onTracer := x.onTracer }
    if st = .done then (y.tag "installT", none) else (y.tag "blocked:IT", some p)

/-- retry every pending operation until nothing moves -/
def settle : Nat → Sim → Sim
  | 0, x => x
  | f + 1, x =>
    let (x', moved) := x.pend.foldl (fun (acc : Sim × Bool) (tp : Nat × POp) =>
        let (y, mv) := acc
        let (y', r) := tryOp { y with pend := [] } tp.1 tp.2
        let y' := { y' with pend := y.pend }
        match r with
        | none => (y', true)
        | some p' =>
          let same := match tp.2, p' with
            | .U1 _, .U2 _ => false
            | _, _ => true
          ({ y' with pend := y'.pend ++ [(tp.1, p')] }, mv || !same)) ({ x with pend := [] }, false)
    if moved then settle f x' else x'

/-- start an operation in a fresh thread -/
def launch (x : Sim) (p : POp) : Sim :=
  let tid := x.nextTid
  let x := { x with nextTid := tid + 1 }
  let (y, r) := tryOp x tid p
  match r with
  | none => y
  | some p' => settle 100 { y with pend := y.pend ++ [(tid, p')] }

/-- the gated installer moved: handle the result -/
def afterAdv (r : Sim × AdvStatus) : Sim :=
  let (x, st) := r
  match st with
  | .atGate => settle 100 x
  | .done => settle 100 { x with active := false, gateAt := none }
  | _ => { x with gateAt := none }     -- stuck: stays active; the final status will be `hang`

def release (x : Sim) : Sim :=
  if ¬ x.active then x else
  match x.gateAt with
  | none => x
  | some g =>
    let a : Act := match g with
      | .meter => .instSetDel
      | .inst i => .instInst i
      | .reg => .instRegBody
    let x := match g with
      | .reg => x.tag "instReg"
      | _ => x
    match step false x.cur 0 a with
    | none => { x with gateAt := none }
    | some s' => afterAdv (adv 0 true FUEL ({ x with gateAt := none }.setCur s'))

def releaseAll : Nat → Sim → Sim
  | 0, x => x
  | f + 1, x => if x.active ∧ x.gateAt.isSome then releaseAll f (release x) else x

/-- SetTextMapPropagator(d) as one uninterrupted call (it shares no lock with anything the gated installer holds) -/
def setProp (x : Sim) (d : Nat) : Sim :=
  let ls := if x.tmp.onceDone then TMP.setLabelsFast x.nextTid d else TMP.setLabels x.nextTid d
  match TMP.prun x.tmp ls with
  | some s' => { x with tmp := s', nextTid := x.nextTid + 1 }.tag (if x.tmp.onceDone then "setPropAgain" else "setPropFirst")
  | none => { x with bad := true }

/-- the SDK holds this callback -/
def liveCb (x : Sim) (c : Nat) (h : CH) : Bool :=
  match h with
  | .ph r => x.ms.sdkReg r == x.ms.sdkUnreg r + 1
  | .direct => !x.dDead.contains c

def insByKey {α : Type} (x : Nat × α) : List (Nat × α) → List (Nat × α)
  | [] => [x]
  | y :: r => if x.1 ≤ y.1 then x :: y :: r else y :: insByKey x r

def liveCbs (x : Sim) : List (Nat × CH × List Nat) :=
  (x.cbs.foldr insByKey []).filter fun (c, h, _) => liveCb x c h

def stepMs (x : Sim) (tid : Nat) (a : Act) : Sim :=
  match step false x.ms tid a with
  | some s' => { x with ms := s' }
  | none => { x with bad := true }

/-- the body of the user function of callback c: one `Observe(inst, c+1)` per instrument -/
def cbBody (x : Sim) (tid reader c : Nat) (h : CH) (is : List Nat) : Sim :=
  (is ++ (lookup x.cbForeign c).getD []).foldl (fun x i =>
    match h, lookup x.insts i with
    | .ph _, some (.ph j, _) => stepMs x tid (.cbObserve j (c + 1))
    | _, some _ => { x with dObs := (reader, i, c, c + 1) :: x.dObs }
    | _, none => { x with bad := true }) x

def cbEnter (x : Sim) (tid reader : Nat) (h : CH) : Sim :=
  match h with
  | .ph r => stepMs x tid (.cbBegin r reader)
  | .direct => x
def cbLeave (x : Sim) (tid : Nat) (h : CH) : Sim :=
  match h with
  | .ph _ => stepMs x tid .cbEnd
  | .direct => x

/-- one complete invocation of a callback on behalf of `reader` -/
def cbWhole (x : Sim) (tid reader : Nat) (e : Nat × CH × List Nat) : Sim :=
  let x := { x with extraInv := (e.1, 1) :: x.extraInv }
  cbLeave (cbBody (cbEnter x tid reader e.2.1) tid reader e.1 e.2.1 e.2.2) tid e.2.1

/-- what `reader`'s Observers received among the observations made since the log had `n0` entries -/
def readerPoints (x : Sim) (n0 d0 reader : Nat) : List (Nat × Nat × Nat) :=
  let newLog := x.ms.obsLog.take (x.ms.obsLog.length - n0)
  let ph := newLog.filterMap fun e =>
    if e.target == reader && e.unwrapped && e.own then
      match x.insts.find? (fun p => p.2.1 == IH.ph e.inst), x.cbs.find? (fun p => p.2.1 == CH.ph e.r) with
      | some (i, _), some (c, _) => some (i, c, e.v)
      | _, _ => none
    else none
  let dr := (x.dObs.take (x.dObs.length - d0)).filterMap fun (rd, i, c, v) => if rd == reader then some (i, c, v) else none
  ph ++ dr

/-- `OC c`: reader 0 (thread tA) enters callback c and parks before it observes; reader 1 (thread tB) runs a complete
cycle; reader 0 resumes, then invokes its remaining callbacks. `CC`: one cycle of each reader (all cycles are alike). -/
def collectOp (x : Sim) (parkAt : Option Nat) : Sim :=
  let skipped := x.active && x.obsOc.head? == some "skip"
  let x := { x with obsOc := x.obsOc.drop 1 }
  -- during an installation the harness collects only while no operation has ever been pending (an unblocked operation
  -- may still be on its way); whether it did is read off the observation
  if skipped then { x with ocs := "skip" :: x.ocs }.tag "ocSkipped" else
  let x := if x.active then x.tag "ocDuringInstall" else x
  let n0 := x.ms.obsLog.length
  let d0 := x.dObs.length
  let tA := x.nextTid
  let tB := x.nextTid + 1
  let x := { x with nextTid := x.nextTid + 2 }
  let live := liveCbs x
  let parked := live.find? (fun e => some e.1 == parkAt)
  let rest := live.filter (fun e => some e.1 != parkAt)
  let x := match parked with
    | some e => (cbEnter { x with extraInv := (e.1, 1) :: x.extraInv } tA 0 e.2.1).tag "ocParked"
    | none => x.tag (if parkAt.isSome then "ocNotLive" else "ccCycle")
  let x := live.foldl (fun x e => cbWhole x tB 1 e) x
  let x := match parked with
    | some e => cbLeave (cbBody x tA 0 e.1 e.2.1 e.2.2) tA e.2.1
    | none => x
  let x := rest.foldl (fun x e => cbWhole x tA 0 e) x
  let x := if live.any (fun e => e.2.1 == CH.direct) then x.tag "ocDirectCb" else x
  let x := if live.length ≥ 2 then x.tag "ocManyCbs" else x
  { x with ocs := s!"A={Spec.renderPoints (readerPoints x n0 d0 0)}/B={Spec.renderPoints (readerPoints x n0 d0 1)}~0" :: x.ocs }

def applyOp (x : Sim) : Op → Sim
  | .M k => launch x (.M k)
  | .K i k kind => launch x (.K i k kind)
  | .R c k is => launch x (.R c k is)
  | .RB c k is => launch x (.RB c k is)
  | .U c => launch x (.U1 c)
  | .T t => launch x (.T t)
  | .A i v =>
    match lookup x.insts i with
    | none => { x with bad := true }
    | some (.direct, _) => { x with dRec := (i, v) :: x.dRec }.tag "addSdk"
    | some (.ph j, _) =>
      let tid := x.nextTid
      match step false x.ms tid (.addLoad j v 0) with
      | none => { x with bad := true }
      | some s1 =>
        match step false s1 tid .addFwd with
        | none => { x with bad := true }
        | some s2 => { x with ms := s2, nextTid := tid + 1 }.tag (if x.ms.iDel j then "addForwarded" else "addDropped")
  | .TS t j => if (lookup x.spanInfo j).isSome then launch x (.T t) else { x with bad := true }
  | .S t id par =>
    let ctxTag := match par with | some p => p + 1 | none => 0
    -- what the SDK will see as the parent: the parent itself if it is a real span, else what the placeholder inherited
    let eff : Option (Option Nat) := match par with
      | none => some none
      | some p => (lookup x.spanInfo p).map fun (real, inh) => if real then some p else inh
    match lookup x.tracers t, eff with
    | none, _ => { x with bad := true }
    | _, none => { x with bad := true }
    | some j, some eff =>
      let x := { x with spanInfo := (id, x.ts.iDel j, eff) :: x.spanInfo }
      let x := if par.isSome then x.tag (if x.ts.iDel j then "spanChildForwarded" else "spanChildNonRecording") else x
      let tid := x.nextTid
      match step false x.ts tid (.addLoad j id ctxTag) with
      | none => { x with bad := true }
      | some s1 =>
        match step false s1 tid .addFwd with
        | none => { x with bad := true }
        | some s2 => { x with ts := s2, nextTid := tid + 1 }.tag (if x.ts.iDel j then "spanForwarded" else "spanNonRecording")
  | .P id =>
    match TMP.prun x.tmp (TMP.injLabels x.nextTid id) with
    | some s' =>
      let v := match s'.plog.head? with | some (_, some d) => d | _ => 0
      { x with tmp := s', nextTid := x.nextTid + 1, props := (id, v) :: x.props }.tag (if v = 0 then "injectNoop" else "injectForwarded")
    | none => { x with bad := true }
  | .PG id =>
    match x.tmp.stored with
    | some _ =>
      match TMP.pstep x.tmp x.nextTid (.gInject id) with
      | some s' =>
        let v := match s'.glog.head? with | some (_, d) => d | none => 0
        { x with tmp := s', nextTid := x.nextTid + 1, props := (id, v) :: x.props }.tag "injectGlobal"
      | none => { x with bad := true }
    | none =>    -- the global value still is the placeholder
      match TMP.prun x.tmp (TMP.injLabels x.nextTid id) with
      | some s' => { x with tmp := s', nextTid := x.nextTid + 1, props := (id, 0) :: x.props }.tag "injectNoop"
      | none => { x with bad := true }
  | .IM => launch x .IM
  | .IT => launch x .IT
  | .IP => setProp x 1
  | .IP2 => setProp x 2
  | .GM lvl =>
    if x.active then { x with bad := true } else
    afterAdv (adv 0 true FUEL { x with active := true, onTracer := false, gm := lvl ≥ 1, gi := lvl ≥ 2, gr := lvl ≥ 2 })
  | .GT =>
    if x.active then { x with bad := true } else
    afterAdv (adv 0 true FUEL { x with active := true, onTracer := true, gm := false, gi := true, gr := false })
  | .N => release x
  | .F => settle 100 (releaseAll 10000 x)
  | .Y => x
  | .XM =>
    if x.ms.stored then launch x .IM      -- current is the SDK: an ordinary second SetMeterProvider
    else match step false x.ms x.nextTid .selfSet with
      | some s' => { x with ms := s', nextTid := x.nextTid + 1 }.tag "selfSetM"
      | none => { x with bad := true }
  | .XT =>
    if x.ts.stored then launch x .IT
    else match step false x.ts x.nextTid .selfSet with
      | some s' => { x with ts := s', nextTid := x.nextTid + 1 }.tag "selfSetT"
      | none => { x with bad := true }
  | .XP =>
    match x.tmp.stored with
    | some d => setProp x d            -- current is no placeholder: an ordinary SetTextMapPropagator(current)
    | none =>
      match TMP.pstep x.tmp x.nextTid .selfSet with
      | some s' => { x with tmp := s', nextTid := x.nextTid + 1 }.tag "selfSetP"
      | none => { x with bad := true }
  | .OC c => collectOp x (some c)
  | .CC n =>
    let y := collectOp x none
    -- the remaining n-1 cycles of each reader repeat the first one (no label of a cycle changes what the next one reads)
    { y with extraInv := (liveCbs y).map (fun e => (e.1, 2 * (n - 1))) ++ y.extraInv }
  | .par _ => { x with bad := true }

def runOps (x : Sim) (ops : List Op) : Sim := applyOp (ops.foldl applyOp x) .F

end Otel.C16
