/-
C16 — syntax of scenario scripts (shared by the Spec oracle and by the LTS replay; no semantics here).
-/
namespace Otel.C16

inductive Op where
  | M (k : Nat) | K (i k kind : Nat) | A (i v : Nat) | R (c k : Nat) (is : List Nat) | U (c : Nat)
  | T (t : Nat) | S (t id : Nat) (par : Option Nat) | P (id : Nat)
  | TS (t j : Nat)      -- tracer t := (span j).TracerProvider().Tracer("t<t>")
  | IM | IT | IP | GM (lvl : Nat) | GT | N | F | Y
  | XM | XT | XP        -- self-set: Set…Provider(Get…Provider()) / SetTextMapPropagator(GetTextMapPropagator())
  | RB (c k : Nat) (is : List Nat)   -- RegisterCallback on meter k naming an observable of ANOTHER meter: the placeholder
                        -- accepts it, the SDK will reject it when the registration is forwarded
  | IP2                 -- otel.SetTextMapPropagator(Baggage{}) — a second, different propagator
  | PG (id : Nat)       -- Inject through otel.GetTextMapPropagator() obtained at call time
  | OC (c : Nat)        -- overlapping collections of the delegate's two readers, reader 0 parked inside callback c
  | CC (n : Nat)        -- n free-running collection cycles of each of the two readers, concurrently
  | par (threads : List (List Op))
deriving Repr

end Otel.C16
