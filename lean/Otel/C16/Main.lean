import Otel.Base.Wire
import Otel.C16.Sched
import Otel.C16.Spec
open Otel Otel.Wire Otel.C16

/-! Line kinds (see harness/bb/c16global):
`forced <gen> <script> => <status> <gates> <sync> <observable> <callbacks> <spans> <inject> pend=<…>`
   controlled schedule; replayed on the LTS (gate names resolve the installer's map-iteration choices);
   `agree` = the model's 7 observation tokens equal the implementation's; `spec` = `Spec.globalOK`.
`stress <gen> <script> => …` free-running goroutines; judged by `Spec.globalOK` only (agree = oracle). -/

def dropS (s : String) (n : Nat) : String := (s.drop n).toString

def splitGroups (toks : List String) : List (List String) :=
  let (cur, acc) := toks.foldl (fun (st : List String × List (List String)) t =>
      if t == "|" then ([], st.1.reverse :: st.2) else (t :: st.1, st.2)) ([], [])
  ((cur.reverse :: acc).reverse).filter (· ≠ [])

def parseNats (s : String) : Option (List Nat) := (s.splitOn ",").mapM (·.toNat?)

def parseBasic : List String → Option Op
  | ["M", k] => k.toNat?.map .M
  | ["K", i, k, kind] => do pure (.K (← i.toNat?) (← k.toNat?) (← kind.toNat?))
  | ["A", i, v] => do pure (.A (← i.toNat?) (← v.toNat?))
  | ["R", c, k, is] => do pure (.R (← c.toNat?) (← k.toNat?) (← parseNats is))
  | ["RB", c, k, is] => do pure (.RB (← c.toNat?) (← k.toNat?) (← parseNats is))
  | ["U", c] => c.toNat?.map .U
  | ["T", t] => t.toNat?.map .T
  | ["S", t, id] => do pure (.S (← t.toNat?) (← id.toNat?) none)
  | ["S", t, id, p] => do
    if p.startsWith "^" then pure (.S (← t.toNat?) (← id.toNat?) (some (← (dropS p 1).toNat?))) else none
  | ["TS", t, j] => do pure (.TS (← t.toNat?) (← j.toNat?))
  | ["P", id] => id.toNat?.map .P
  | ["IM"] => some .IM
  | ["IT"] => some .IT
  | ["IP"] => some .IP
  | ["IP2"] => some .IP2
  | ["PG", id] => id.toNat?.map .PG
  | ["GM", l] => l.toNat?.map .GM
  | ["GT"] => some .GT
  | ["N"] => some .N
  | ["F"] => some .F
  | ["Y", _] => some .Y
  | ["W", _] => some .Y        -- which recording delegate the harness installs (SDK / one type per kind): invisible to the model
  | ["XM"] => some .XM
  | ["XT"] => some .XT
  | ["XP"] => some .XP
  | ["OC", c] => c.toNat?.map .OC
  | ["CC", n] => n.toNat?.map .CC
  | _ => none

structure PSt where
  ops : List Op := []                   -- reversed
  inPar : Bool := false
  threads : List (List Op) := []        -- reversed
  cur : List Op := []                   -- reversed

def parseScript (gs : List (List String)) : Option (List Op) := do
  let st ← gs.foldlM (fun (st : PSt) g =>
    match g with
    | ["["] => if st.inPar then none else some { st with inPar := true, threads := [], cur := [] }
    | [";"] => if st.inPar then some { st with threads := st.cur.reverse :: st.threads, cur := [] } else none
    | ["]"] => if st.inPar then
        some { st with inPar := false, ops := .par ((st.cur.reverse :: st.threads).reverse) :: st.ops, threads := [], cur := [] }
      else none
    | g => do
      let op ← parseBasic g
      if st.inPar then pure { st with cur := op :: st.cur } else pure { st with ops := op :: st.ops }) {}
  if st.inPar then none else pure st.ops.reverse

def parseKV (s : String) : Option (List (Nat × String)) :=
  if s == "-" then some [] else
  (s.splitOn ",").mapM fun e =>
    match (dropS e 1).splitOn "=" with
    | [k, v] => k.toNat?.map (·, v)
    | _ => none

def parseKN (s : String) : Option (List (Nat × Nat)) := do
  let l ← parseKV s
  l.mapM fun (k, v) => v.toNat?.map (k, ·)

/-- the `oc=` token (absent in lines recorded before the OC / CC operations existed = no such operation) -/
def ocTok (rest : List String) : String := (rest.find? (·.startsWith "oc=")).getD "oc=-"
def ocOf (rest : List String) : List String :=
  let v := dropS (ocTok rest) 3
  if v == "-" then [] else v.splitOn ","

def parseObs : List String → Option Spec.Obs
  | status :: gates :: sync :: obsv :: cbs :: spans :: props :: rest => do
    let spanToks := if spans == "-" then [] else spans.splitOn ","
    let spanPar ← spanToks.mapM fun e =>
      match e.splitOn "^" with
      | [a] => a.toNat?.map (·, none)
      | [a, "?"] => a.toNat?.map (·, some 4000000000)      -- a parent the exporter never saw
      | [a, b] => do pure (← a.toNat?, some (← b.toNat?))
      | _ => none
    let spans := spanPar.map (·.1)
    pure { status := status, gates := if gates == "-" then [] else gates.splitOn ",",
           sync := ← parseKV sync, obsv := ← parseKV obsv, cbs := ← parseKN cbs, spans := spans, spanPar := spanPar, props := ← parseKN props,
           oc := ocOf rest }
  | _ => none

def joinOr (l : List String) : String := if l.isEmpty then "-" else ",".intercalate l

def insBy {α : Type} (x : Nat × α) : List (Nat × α) → List (Nat × α)
  | [] => [x]
  | y :: r => if x.1 ≤ y.1 then x :: y :: r else y :: insBy x r
def sortBy {α : Type} (l : List (Nat × α)) : List (Nat × α) := l.foldr insBy []

def renderModel (x : Sim) : String :=
  let status := if x.bad then "bad" else if x.active || !x.pend.isEmpty then "hang"
    else if x.ms.handled > 0 then "err:handled" else "ok"
  let insts := sortBy x.insts
  let valsOf (i : Nat) (h : IH) : List Nat :=
    match h with
    | .ph j => ((x.ms.recorded.filter (·.1 == j)).map (·.2)).reverse
    | .direct => ((x.dRec.filter (·.1 == i)).map (·.2)).reverse
  let sync := (insts.filter (·.2.2 < 8)).map fun (i, h, kind) =>
    let vs := valsOf i h
    let v := if vs.isEmpty then "-"
      else if kind = 2 ∨ kind = 6 then s!"{vs.length}:{vs.foldl (· + ·) 0}"
      else if kind = 3 ∨ kind = 7 then toString (vs.getLast?.getD 0)
      else toString (vs.foldl (· + ·) 0)
    s!"i{i}={v}"
  let cbsS := sortBy x.cbs
  let obsv := (insts.filter (·.2.2 ≥ 8)).map fun (i, _, _) =>
    let cs := (cbsS.filter fun (c, h, is) => liveCb x c h && is.contains i).map (·.1)
    let v := if cs.isEmpty then "-" else ";".intercalate (cs.map fun c => s!"{c}:{c + 1}")
    s!"i{i}={v}"
  let extra (c : Nat) : Nat := (x.extraInv.filter (·.1 == c)).foldl (fun a p => a + p.2) 0
  let cbs := cbsS.map fun (c, h, _) => s!"c{c}={(if liveCb x c h then 2 else 0) + extra c}"
  let spans := Spec.sortNat (x.ts.recorded.map (·.2))
  let props := (sortBy x.props).map fun (p, v) => s!"p{p}={v}"
  " ".intercalate [status, joinOr x.gates.reverse, joinOr sync, joinOr obsv, joinOr cbs,
                   joinOr (spans.map fun s => match lookup x.spanInfo s with
                     | some (_, some p) => s!"{s}^{p}"
                     | _ => toString s), joinOr props, "oc=" ++ joinOr x.ocs.reverse]

def step (_ : Unit) (toks : List String) : Unit × Option Verdict :=
  let (inp, obsT) := splitObs toks
  match inp with
  | kind :: _gen :: rest =>
    match parseScript (splitGroups rest), parseObs obsT with
    | some ops, some obs =>
      let specOK := Spec.globalOK ops obs
      let nt := Spec.nontrivial ops obs
      if kind == "forced" then
        let x := runOps { obsGates := obs.gates, obsOc := obs.oc, obsRej := (obs.cbs.filter (·.2 == 0)).map (·.1) } ops
        let m := renderModel x
        let o := " ".intercalate (obsT.take 7 ++ [ocTok (obsT.drop 7)])
        ((), some { agree := m == o, spec := if specOK then "ok" else "FAIL", nontrivial := nt,
                    branches := joinOr x.tags.reverse, model := m })
      else if kind == "stress" then
        ((), some { agree := specOK, spec := if specOK then "ok" else "FAIL", nontrivial := nt,
                    branches := "stress", model := "-" })
      else ((), none)
    | _, _ => ((), none)
  | _ => ((), none)

def main : IO Unit := Otel.Wire.run () step
