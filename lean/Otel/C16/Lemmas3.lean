import Otel.C16.Lemmas2
/-
C16 — registration invariants of the current code (`old = false`): the SDK sees each placeholder registration at
most once; the closure stored in `unreg` is taken by exactly one Unregister call.
-/
namespace Otel.C16

structure RegInv (s : St) : Prop where
  once : ∀ r, s.sdkReg r ≤ 1
  /-- SDK registrations = SDK unregistrations + handles still stored + handles taken by a call in flight -/
  balance : ∀ r, s.sdkReg r = s.sdkUnreg r + (if s.rUnreg r = .sdk then 1 else 0) + (if s.tok r = true then 1 else 0)
  tokFrame : ∀ t r, s.frame t = .unregTaken r .sdk → s.tok r = true
  tokUnique : ∀ t t' r, s.frame t = .unregTaken r .sdk → s.frame t' = .unregTaken r .sdk → t = t'
  called : ∀ r, r < s.nR → (s.rUnreg r = .none ↔ s.unregCalled r = true)
  closureIn : ∀ r, s.rUnreg r = .closure → s.rBad r = false → r ∈ s.registry (s.rMeter r)
  /-- only a registration the placeholder accepted can be marked; fresh indices are unmarked -/
  badLt : ∀ r, s.rBad r = true → r < s.nR
  noDrop : s.dropOnErr = false
  member : ∀ m r, r ∈ s.registry m → s.rUnreg r ≠ .sdk ∧ s.rMeter r = m ∧ r < s.nR
  lockedIn : ∀ t m r, s.frame t = .iRegLocked m r → r ∈ s.registry m
  closureZero : ∀ r, s.rUnreg r = .closure → s.sdkReg r = 0
  nodup : ∀ m, (s.registry m).Nodup
  regMeter : ∀ r, r < s.nR → s.rMeter r < s.nM
  takenBound : ∀ t r u, s.frame t = .unregTaken r u → r < s.nR
  takenNil : ∀ t r u, s.frame t = .unregTaken r u → s.rUnreg r = .none

theorem regInv_init : RegInv St.init := by
  constructor <;> simp [St.init]

set_option maxHeartbeats 6400000 in
theorem regInv_step {s s' : St} {t : Nat} {a : Act}
    (L : LockInv s) (O : NoOld s) (I : RegInv s) (h : step false s t a = some s') : RegInv s' := by
  have u2 : ∀ t m r, s.frame t = .iRegLocked m r → s.mOwner m = some t ∧ s.rOwner r = some t := by
    intro t m r hf
    exact ⟨L.hMeter m t (by simp [hf, meterFrame]), L.hReg r t (by simp [hf, regFrame])⟩
  have u3 : ∀ t m, s.frame t = .iInsts m → s.mOwner m = some t := by
    intro t m hf; exact L.hMeter m t (by simp [hf, meterFrame])
  have u4 : ∀ t m, s.frame t = .iMeterLocked m → s.mOwner m = some t := by
    intro t m hf; exact L.hMeter m t (by simp [hf, meterFrame])
  have u1 : ∀ t t' m r r', s.frame t = .iRegLocked m r → s.frame t' = .iRegLocked m r' → t = t' := by
    intro t t' m r r' h1 h2
    have a := (u2 t m r h1).1
    have b := (u2 t' m r' h2).1
    rw [a] at b; exact Option.some.inj b
  have uc : ∀ r, s.rUnreg r ≠ .none → s.rUnreg r ≠ .sdk → s.rUnreg r = .closure := by
    intro r; cases s.rUnreg r <;> simp
  obtain ⟨o1⟩ := O
  obtain ⟨i1, i2, i3, i4, i5, i6, i6b, i6c, i7, i8, i9, i10, i11, i12, i13⟩ := I
  cases a <;> lts_step h [List.Nodup.mem_erase_iff, List.nodup_append, List.Nodup.erase]

theorem regInv_reachable {s : St} (h : Reachable false s) : RegInv s := by
  induction h with
  | init => exact regInv_init
  | step t a hr hs ih => exact regInv_step (lockInv_reachable hr) (noOld_reachable hr) ih hs

end Otel.C16
