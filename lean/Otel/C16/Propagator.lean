import Otel.C16.Lemmas
/-
C16 — the global TextMapPropagator (internal/global/propagator.go + SetTextMapPropagator / TextMapPropagator of
state.go) as a labelled transition system of its own (it shares no lock with the providers).

  `onceOwner/onceDone`  delegateTextMapPropagatorOnce
  `mtxOwner`            textMapPropagator.mtx of the placeholder handed out before anything was set
  `pOnce/pDel`          the placeholder's own `once` and `delegate`
  `stored`              globalPropagators (none = still the placeholder)
  `plog`                ghost: Inject calls made THROUGH THE PLACEHOLDER and the propagator that served them (none = noop)
  `glog`                ghost: Inject calls made through `otel.GetTextMapPropagator()` at call time

Propagators are numbers (`d`); threads are an unbounded pool, an idle thread may begin any call.
-/
namespace Otel.C16.TMP
open Otel.C16 (upd upd_apply upd_same)

inductive PFrame where
  | idle
  | sOnce (d : Nat)      -- SetTextMapPropagator(d): inside delegateTextMapPropagatorOnce.Do
  | sLocked (d : Nat)    -- def.SetDelegate(d): holds p.mtx
  | sInOnce (d : Nat)    -- p.mtx released (or current was no placeholder), still inside the Once
  | sStore (d : Nat)     -- Once returned, before globalPropagators.Store
  | jLocked (c : Nat)    -- placeholder.Inject #c: effectiveDelegate holds p.mtx
  | jCall (c : Nat) (h : Option Nat)  -- effectiveDelegate returned h; before h.Inject
deriving DecidableEq, Repr

inductive PAct where
  | setBegin (d : Nat)   -- guard passed (not a self-set); once.Do entry, or fast path when done
  | setLock              -- current := TextMapPropagator(); placeholder ⇒ def.SetDelegate: p.mtx.Lock
  | setDo                -- p.once.Do(func(){ p.delegate = d }); p.mtx.Unlock
  | setOnceDone          -- delegateTextMapPropagatorOnce.Do returns
  | setStore             -- globalPropagators.Store
  | selfSet              -- SetTextMapPropagator(TextMapPropagator()) while the placeholder is the global value
  | injLock (c : Nat)    -- placeholder.Inject: effectiveDelegate: p.mtx.Lock
  | injGot               -- … read p.delegate (nil ⇒ noop); Unlock
  | injCall              -- delegate.Inject(ctx, carrier)
  | gInject (c : Nat)    -- otel.GetTextMapPropagator().Inject after a propagator was stored (one atomic load)
deriving DecidableEq, Repr

structure PSt where
  onceOwner : Option Nat := none
  onceDone : Bool := false
  mtxOwner : Option Nat := none
  pOnce : Bool := false
  pDel : Option Nat := none
  stored : Option Nat := none
  plog : List (Nat × Option Nat) := []
  glog : List (Nat × Nat) := []
  frame : Nat → PFrame := fun _ => .idle

def PSt.init : PSt := {}

def pstep (s : PSt) (t : Nat) (a : PAct) : Option PSt :=
  match a with
  | .setBegin d =>
    if s.frame t = .idle then
      if s.onceDone then some { s with frame := upd s.frame t (.sStore d) }
      else if s.onceOwner = none then some { s with onceOwner := some t, frame := upd s.frame t (.sOnce d) }
      else none
    else none
  | .setLock =>
    match s.frame t with
    | .sOnce d =>
      match s.stored with
      | none =>
        if s.mtxOwner = none then some { s with mtxOwner := some t, frame := upd s.frame t (.sLocked d) } else none
      | some _ => some { s with frame := upd s.frame t (.sInOnce d) }   -- current is no placeholder: nothing to delegate
    | _ => none
  | .setDo =>
    match s.frame t with
    | .sLocked d =>
      if s.pOnce then some { s with mtxOwner := none, frame := upd s.frame t (.sInOnce d) }
      else some { s with pOnce := true, pDel := some d, mtxOwner := none, frame := upd s.frame t (.sInOnce d) }
    | _ => none
  | .setOnceDone =>
    match s.frame t with
    | .sInOnce d => some { s with onceOwner := none, onceDone := true, frame := upd s.frame t (.sStore d) }
    | _ => none
  | .setStore =>
    match s.frame t with
    | .sStore d => some { s with stored := some d, frame := upd s.frame t .idle }
    | _ => none
  | .selfSet => if s.frame t = .idle ∧ s.stored = none then some s else none
  | .injLock c =>
    if s.frame t = .idle ∧ s.mtxOwner = none then
      some { s with mtxOwner := some t, frame := upd s.frame t (.jLocked c) }
    else none
  | .injGot =>
    match s.frame t with
    | .jLocked c => some { s with mtxOwner := none, frame := upd s.frame t (.jCall c s.pDel) }
    | _ => none
  | .injCall =>
    match s.frame t with
    | .jCall c h => some { s with plog := (c, h) :: s.plog, frame := upd s.frame t .idle }
    | _ => none
  | .gInject c =>
    match s.stored with
    | some d => if s.frame t = .idle then some { s with glog := (c, d) :: s.glog } else none
    | none => none

inductive PReach : PSt → Prop where
  | init : PReach PSt.init
  | step {s s' : PSt} (t : Nat) (a : PAct) : PReach s → pstep s t a = some s' → PReach s'

def prun (s : PSt) : List (Nat × PAct) → Option PSt
  | [] => some s
  | (t, a) :: r => match pstep s t a with
    | some s' => prun s' r
    | none => none

theorem preach_prun {s s' : PSt} (l : List (Nat × PAct)) (hs : PReach s) (h : prun s l = some s') : PReach s' := by
  induction l generalizing s with
  | nil => simp [prun] at h; exact h ▸ hs
  | cons x r ih =>
    obtain ⟨t, a⟩ := x
    simp only [prun] at h
    split at h
    · next s1 h1 => exact ih (PReach.step t a hs h1) h
    · exact absurd h (by simp)

/-- the sequential executions of whole calls (what the script replay uses) -/
def setLabels (t d : Nat) : List (Nat × PAct) :=
  [(t, .setBegin d), (t, .setLock), (t, .setDo), (t, .setOnceDone), (t, .setStore)]
def setLabelsFast (t d : Nat) : List (Nat × PAct) := [(t, .setBegin d), (t, .setStore)]
def injLabels (t c : Nat) : List (Nat × PAct) := [(t, .injLock c), (t, .injGot), (t, .injCall)]

syntax "plts_step " ident " [" Lean.Parser.Tactic.grindParam,* "]" : tactic
macro_rules
  | `(tactic| plts_step $h:ident [$ls,*]) => `(tactic|
      (simp only [pstep] at $h:ident <;> (repeat' split at $h:ident) <;>
        (first | (simp at $h:ident; done)
               | (simp only [Option.some.injEq] at $h:ident; subst $h:ident; constructor <;>
                   (try simp only [upd_apply]) <;> grind [$ls,*]))))

def onceF : PFrame → Prop
  | .sOnce _ | .sLocked _ | .sInOnce _ => True
  | _ => False
def mtxF : PFrame → Prop
  | .sLocked _ | .jLocked _ => True
  | _ => False

structure PInv (s : PSt) : Prop where
  once : ∀ t, s.onceOwner = some t → onceF (s.frame t)
  mtx : ∀ t, s.mtxOwner = some t → mtxF (s.frame t)
  hOnce : ∀ t, onceF (s.frame t) → s.onceOwner = some t
  hMtx : ∀ t, mtxF (s.frame t) → s.mtxOwner = some t
  /-- the Once is over ⇒ the placeholder has its delegate, for good -/
  doneDel : s.onceDone = true → s.pOnce = true ∧ s.pDel ≠ none
  inOnceDel : ∀ t d, s.frame t = .sInOnce d → s.pOnce = true ∧ s.pDel ≠ none
  storeDone : ∀ t d, s.frame t = .sStore d → s.onceDone = true
  storedDone : s.stored ≠ none → s.onceDone = true
  pOnceDel : s.pOnce = true ↔ s.pDel ≠ none
  notDoneNoOwner : s.onceDone = true → s.onceOwner = none

theorem pinv_init : PInv PSt.init := by
  constructor <;> simp [PSt.init, onceF, mtxF]

set_option maxHeartbeats 3200000 in
theorem pinv_step {s s' : PSt} {t : Nat} {a : PAct} (I : PInv s) (h : pstep s t a = some s') : PInv s' := by
  obtain ⟨i1, i2, i3, i4, i5, i6, i7, i8, i9, i10⟩ := I
  cases a <;> plts_step h [onceF, mtxF]

theorem pinv_reach {s : PSt} (h : PReach s) : PInv s := by
  induction h with
  | init => exact pinv_init
  | step t a _ hs ih => exact pinv_step ih hs

end Otel.C16.TMP
