import Otel.C16.Lemmas5
import Otel.C16.Lemmas6
import Otel.C16.Props
/-
C16 — property theorems about forwarded callbacks (`unwrapCallback` / `unwrapObs`, internal/global/meter.go:590):
the SDK may invoke the callback it was given for a registration from any number of collection cycles (readers) at the
same time — labels `cbBegin r o` / `cbObserve i v` / `cbEnd` of any number of threads, interleaved with everything else
(installation, Unregister, measurements). Clause "every … measurement made afterwards reaches the SDK" for
observations: an observation reaches the Observer of the collection it was made for, on the SDK's own instrument.
-/
namespace Otel.C16

/-- **each invocation observes into the observer of ITS collection**: in every reachable state (any number of
overlapping invocations of any callbacks, any interleaving, both Unregister variants) every observation made so far
was delivered to the Observer its invocation was started with -/
theorem callback_observes_into_own_collection {old : Bool} {s : St} (hr : Reachable old s) :
    ∀ e, e ∈ s.obsLog → e.target = e.coll :=
  (cbInv_reachable hr).log

/-- an invocation in flight owns its wrapper: the `obs` it forwards to is the Observer it was invoked with, and only
a callback the SDK was given is ever invoked -/
theorem callback_invocation_owns_its_wrapper {old : Bool} {s : St} (hr : Reachable old s) {t r o w : Nat}
    (hf : s.frame t = .cbRun r o w) : w = o ∧ r < s.nR ∧ 1 ≤ s.sdkReg r :=
  (cbInv_reachable hr).own t r o w hf

/-- two overlapping invocations of the SAME callback for different collections do not interfere: an observation by
one of them goes to its own collection and leaves the other invocation (and its wrapper) untouched -/
theorem overlapping_invocations_do_not_interfere {old : Bool} {s s' : St} (hr : Reachable old s)
    {t t' r o o' w w' i v : Nat} (_hne : t ≠ t') (hf : s.frame t = .cbRun r o w) (hf' : s.frame t' = .cbRun r o' w')
    (h : step old s t (.cbObserve i v) = some s') :
    (∃ e, s'.obsLog = e :: s.obsLog ∧ e.r = r ∧ e.coll = o ∧ e.target = o ∧ e.inst = i ∧ e.v = v) ∧
      s'.frame t' = .cbRun r o' o' ∧ s'.frame t = .cbRun r o o := by
  have I := cbInv_reachable hr
  have hw := (I.own t r o w hf).1
  have hw' := (I.own t' r o' w' hf').1
  have hns := I.notShared
  subst hw hw'
  simp only [step, hf] at h
  split at h
  · simp only [Option.some.injEq] at h
    subst h
    simp [hns, hf, hf']
  · simp at h

/-- per reader: what a reader's Observers received is exactly what was observed on its behalf -/
theorem reader_receives_exactly_its_observations {old : Bool} {s : St} (hr : Reachable old s) (o : Nat) :
    s.obsLog.filter (fun e => e.target == o) = s.obsLog.filter (fun e => e.coll == o) := by
  apply List.filter_congr
  intro e he
  rw [callback_observes_into_own_collection hr e he]

/-- current code: while the SDK can invoke the callback of registration `r`, every instrument of that meter has its
delegate (`meter.setDelegate` re-creates the instruments before it re-registers the callbacks), so … -/
theorem callback_sees_delegated_instruments {s : St} (hr : Reachable false s) {t r o w i : Nat}
    (hf : s.frame t = .cbRun r o w) (hi : i < s.nI) (hm : s.iMeter i = s.rMeter r) : s.iDel i = true := by
  have I := (cbInv_reachable hr).own t r o w hf
  have C := (cbDelInv_reachable hr).sdkDel r I.2.1 I.2.2
  have D := delInv_reachable hr
  cases h : s.iDel i with
  | true => rfl
  | false =>
    have := D.pending i hi h
    rw [hm, C.2] at this
    simp at this

/-- … an observation of an instrument of the callback's own meter is enabled, unwrapped to the SDK's instrument and
delivered to the Observer of the invocation's collection -/
theorem callback_observation_reaches_sdk {s : St} (hr : Reachable false s) {t r o w i : Nat} (v : Nat)
    (hf : s.frame t = .cbRun r o w) (hi : i < s.nI) (hm : s.iMeter i = s.rMeter r) :
    ∃ s', step false s t (.cbObserve i v) = some s' ∧
      s'.obsLog = { r := r, coll := o, target := o, inst := i, v := v, unwrapped := true, own := true } :: s.obsLog := by
  have I := cbInv_reachable hr
  have hw := (I.own t r o w hf).1
  have hd := callback_sees_delegated_instruments hr hf hi hm
  subst hw
  simp only [step, hf, hi, if_true]
  exact ⟨_, rfl, by simp [I.notShared, hd, hm]⟩

/-- a callback can be invoked as soon as, and only if, the SDK was given it -/
theorem callback_invocable_iff_registered {old : Bool} {s : St} {t r o : Nat} (hf : s.frame t = .idle) :
    (step old s t (.cbBegin r o)).isSome = true ↔ (r < s.nR ∧ 1 ≤ s.sdkReg r) := by
  simp only [step, hf, true_and]
  by_cases h : r < s.nR ∧ 1 ≤ s.sdkReg r
  · simp only [h, and_self, if_true, iff_true]
    split <;> simp
  · simp [h]

/-! ### registrations the SDK rejects (error path of `registration.setDelegate`; formerly assumed away) -/

/-- a registration the SDK rejects is never registered and never invocable -/
theorem rejected_callback_never_live {old : Bool} {s : St} (hr : Reachable old s) {r : Nat} (hb : s.rBad r = true) :
    s.sdkReg r = 0 ∧ ∀ t o, step old s t (.cbBegin r o) = none := by
  have B := (badInv_reachable hr).zero r hb
  refine ⟨B.1, ?_⟩
  intro t o
  simp [step, B.1]

/-- the rejection is handled where it happens and the loop over the registry goes on: the step that meets a rejected
registration reports one error, removes it from the registry and leaves every other registration as it was; with
`callback_registered_once` (which quantifies over runs containing any number of rejected registrations) every OTHER
callback is registered exactly once after the installation -/
theorem rejected_callback_does_not_stop_the_others {s s' : St} {t m r : Nat} (hf : s.frame t = .iRegLocked m r)
    (hb : s.rBad r = true) (hu : s.rUnreg r ≠ .none) (h : step false s t .instRegBody = some s') :
    s'.handled = s.handled + 1 ∧ s'.frame t = .iInsts m ∧ s'.registry m = (s.registry m).erase r ∧
      s'.rUnreg = s.rUnreg ∧ s'.sdkReg = s.sdkReg := by
  simp only [step, hf, hu, hb, if_false, if_true, Option.some.injEq] at h
  subst h
  simp

/-- non-vacuity: a rejected registration in front of a good one on the same meter — after the installation the good
one is registered once, the rejected one never, one error was handled -/
example : ((runLabels false St.init
    [(0, .meterNew), (0, .mk 0 10), (0, .regBad 0), (0, .reg 0),
     (2, .instBegin), (2, .instLockProv), (2, .instLockMeter 0), (2, .instSetDel), (2, .instInst 0),
     (2, .instRegLock), (2, .instRegBody), (2, .instRegLock), (2, .instRegBody),
     (2, .instMeterDone), (2, .instProvUnlock), (2, .instOnceDone), (2, .instStore)]).map
    fun s => (s.sdkReg 0, s.sdkReg 1, s.handled, s.onceDone)) = some (0, 1, 1, true) := by decide

/-- **accepted with an error** (own and foreign observables; fix c3e813c, former finding F50): the step that forwards
such a registration registers it with the SDK, reports the error and KEEPS the SDK's Registration -/
theorem accepted_with_error_is_registered_and_reported {s s' : St} {t m r : Nat} (hr : Reachable false s)
    (hf : s.frame t = .iRegLocked m r) (he : s.rErr r = true) (hb : s.rBad r = false) (hu : s.rUnreg r ≠ .none)
    (h : step false s t .instRegBody = some s') :
    s'.sdkReg r = s.sdkReg r + 1 ∧ s'.handled = s.handled + 1 ∧ s'.rUnreg r = .sdk := by
  have hn := (regInv_reachable hr).noDrop
  simp only [step, hf, hu, hb, he, hn, if_false, if_true, Bool.false_eq_true, Option.some.injEq] at h
  subst h
  simp

/-- … so Unregister is effective afterwards: once the call has been made (and returned) the SDK holds no live
registration for it — the clause "unless it had been unregistered" for a registration accepted with an error -/
theorem accepted_with_error_unregister_effective {s : St} (hr : Reachable false s) {r : Nat} (hlt : r < s.nR)
    (_he : s.rErr r = true) (hu : s.unregCalled r = true) (ht : s.tok r = false) : s.sdkReg r = s.sdkUnreg r :=
  callback_unregistered_not_live hr hlt hu ht

/-- the three outcomes of forwarding a registration, after the installation and without an Unregister call:
rejected ⇒ never registered; accepted or accepted-with-error ⇒ registered exactly once and live -/
theorem forwarded_registration_three_outcomes {s : St} (hr : Reachable false s) (hd : s.onceDone = true) {r : Nat}
    (hlt : r < s.nR) (hu : s.unregCalled r = false) :
    (s.rBad r = true → s.sdkReg r = 0) ∧ (s.rBad r = false → s.sdkReg r = 1 ∧ s.sdkUnreg r = 0) :=
  ⟨fun hb => ((badInv_reachable hr).zero r hb).1, fun hb => callback_registered_once hr hd hlt hu hb⟩

/-- F50 (before fix c3e813c `registration.setDelegate` returned on ANY error): a registration accepted with an error
stays live in the SDK after its Unregister has been called and has returned -/
theorem F50_dropped_registration_witness :
    ∃ s, runLabels false { St.init with dropOnErr := true }
        [(0, .meterNew), (0, .mk 0 10), (0, .regPartial 0),
         (2, .instBegin), (2, .instLockProv), (2, .instLockMeter 0), (2, .instSetDel), (2, .instInst 0),
         (2, .instRegLock), (2, .instRegBody), (2, .instMeterDone), (2, .instProvUnlock), (2, .instOnceDone),
         (2, .instStore), (1, .unregTake 0), (1, .unregCall)] = some s ∧
      s.unregCalled 0 = true ∧ s.tok 0 = false ∧ s.frame 1 = .idle ∧ s.sdkReg 0 = 1 ∧ s.sdkUnreg 0 = 0 := by
  have h : ((runLabels false { St.init with dropOnErr := true }
        [(0, .meterNew), (0, .mk 0 10), (0, .regPartial 0),
         (2, .instBegin), (2, .instLockProv), (2, .instLockMeter 0), (2, .instSetDel), (2, .instInst 0),
         (2, .instRegLock), (2, .instRegBody), (2, .instMeterDone), (2, .instProvUnlock), (2, .instOnceDone),
         (2, .instStore), (1, .unregTake 0), (1, .unregCall)]).map
      fun s => (s.unregCalled 0, s.tok 0, s.frame 1, s.sdkReg 0, s.sdkUnreg 0)) = some (true, false, .idle, 1, 0) := by
    decide
  match hrun : runLabels false { St.init with dropOnErr := true } _ with
  | none => simp [hrun] at h
  | some s =>
    simp only [hrun, Option.map_some, Option.some.injEq, Prod.mk.injEq] at h
    exact ⟨s, rfl, h.1, h.2.1, h.2.2.1, h.2.2.2.1, h.2.2.2.2⟩

/-- non-vacuity: the same run on the code as it is — registered, one error, unregistered by the Unregister call -/
example : ((runLabels false St.init
        [(0, .meterNew), (0, .mk 0 10), (0, .regPartial 0),
         (2, .instBegin), (2, .instLockProv), (2, .instLockMeter 0), (2, .instSetDel), (2, .instInst 0),
         (2, .instRegLock), (2, .instRegBody), (2, .instMeterDone), (2, .instProvUnlock), (2, .instOnceDone),
         (2, .instStore), (5, .cbBegin 0 0), (5, .cbEnd), (1, .unregTake 0), (1, .unregCall)]).map
      fun s => (s.handled, s.sdkReg 0, s.sdkUnreg 0)) = some (1, 1, 1) := by decide

/-! ### fresh entities (formerly an assumption of the model) -/

/-- no label touches an index that has not been handed out: the placeholder meter `meterNew` creates (it only
increments `nM`) has a free lock, no delegate, empty `instruments` and `registry` -/
theorem new_meter_is_fresh {old : Bool} {s s' : St} {t : Nat} (hr : Reachable old s)
    (h : step old s t .meterNew = some s') :
    s'.nM = s.nM + 1 ∧ s'.mOwner s.nM = none ∧ s'.mDel s.nM = false ∧ s'.mDone s.nM = false ∧
      s'.pend s.nM = [] ∧ s'.registry s.nM = [] := by
  have F := freshInv_reachable hr
  simp only [step] at h
  split at h
  · simp only [Option.some.injEq] at h
    subst h
    exact ⟨rfl, F.mOwner _ (Nat.le_refl _), F.mDel _ (Nat.le_refl _), F.mDone _ (Nat.le_refl _),
      F.pend _ (Nat.le_refl _), F.registry _ (Nat.le_refl _)⟩
  · simp at h

/-- everything a frame, `m.instruments` or `m.registry` mentions has been handed out -/
theorem maps_mention_existing_entities {old : Bool} {s : St} (hr : Reachable old s) :
    (∀ m i, i ∈ s.pend m → i < s.nI) ∧ (∀ m r, r ∈ s.registry m → r < s.nR) :=
  ⟨(freshInv_reachable hr).pendLt, (freshInv_reachable hr).regLt⟩

/-! ### the variant the wrapper must not be: one `*unwrapObs` per wrapped callback, `obs` overwritten per invocation -/

/-- registration before the installation, installation, then two readers collect at overlapping times: reader 0 (thread 5)
enters the callback, reader 1 (thread 6) enters, observes and leaves, reader 0 observes -/
def overlapLabels : List (Nat × Act) :=
  [(0, .meterNew), (0, .mk 0 10), (0, .reg 0),
   (2, .instBegin), (2, .instLockProv), (2, .instLockMeter 0), (2, .instSetDel), (2, .instInst 0),
   (2, .instRegLock), (2, .instRegBody), (2, .instMeterDone), (2, .instProvUnlock), (2, .instOnceDone), (2, .instStore),
   (5, .cbBegin 0 0), (6, .cbBegin 0 1), (6, .cbObserve 0 2), (6, .cbEnd), (5, .cbObserve 0 1), (5, .cbEnd)]

/-- with a wrapper shared by all invocations the observation reader 0's cycle makes lands in reader 1's Observer -/
theorem shared_wrapper_misdirects_witness :
    ∃ s, runLabels false { St.init with sharedWrap := true } overlapLabels = some s ∧
      ∃ e, e ∈ s.obsLog ∧ e.coll = 0 ∧ e.target = 1 := by
  have h : ((runLabels false { St.init with sharedWrap := true } overlapLabels).map
      fun s => s.obsLog.any (fun e => e.coll == 0 && e.target == 1)) = some true := by decide
  match hrun : runLabels false { St.init with sharedWrap := true } overlapLabels with
  | none => simp [hrun] at h
  | some s =>
    simp only [hrun, Option.map_some, Option.some.injEq, List.any_eq_true, Bool.and_eq_true, beq_iff_eq] at h
    obtain ⟨e, he, h1, h2⟩ := h
    exact ⟨s, rfl, e, he, h1, h2⟩

/-- non-vacuity: the same schedule on the code as it is — both observations arrive at their own reader, unwrapped -/
example :
    ((runLabels false St.init overlapLabels).map fun s => s.obsLog.map fun e => (e.coll, e.target, e.v, e.unwrapped))
      = some [(0, 0, 1, true), (1, 1, 2, true)] := by decide

/-- non-vacuity of `callback_invocable_iff_registered`: before the installation the SDK cannot invoke the callback -/
example : (runLabels false St.init [(0, .meterNew), (0, .mk 0 10), (0, .reg 0), (5, .cbBegin 0 0)]).isNone = true := by
  decide

end Otel.C16
