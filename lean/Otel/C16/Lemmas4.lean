import Otel.C16.Lemmas3
/-
C16 — progress lemmas (lock-rank argument unfolded over the four ranks once < prov < meter < reg).
-/
namespace Otel.C16

/-- some thread that is inside a call can take a step -/
def Progress (s : St) : Prop := ∃ t a, s.frame t ≠ .idle ∧ (step false s t a).isSome = true

theorem progress_regLocked {s : St} {t m r : Nat} (hf : s.frame t = .iRegLocked m r) : Progress s := by
  by_cases hu : s.rUnreg r = .none
  · exact ⟨t, .instRegBody, by simp [hf], by simp [step, hf, hu]⟩
  · exact ⟨t, .instRegBody, by simp [hf], by simp only [step, hf, hu, if_false]; (repeat' split) <;> simp⟩

theorem progress_insts {s : St} (L : LockInv s) (O : NoOld s) {t m : Nat} (hf : s.frame t = .iInsts m) :
    Progress s := by
  cases hp : s.pend m with
  | cons i rest =>
    exact ⟨t, .instInst i, by simp [hf], by simp [step, hf, hp]⟩
  | nil =>
    cases hr : s.registry m with
    | nil => exact ⟨t, .instMeterDone, by simp [hf], by simp [step, hf, hp, hr]⟩
    | cons r rest =>
      cases ho : s.rOwner r with
      | none => exact ⟨t, .instRegLock, by simp [hf], by simp [step, hf, hp, hr, ho]⟩
      | some t2 =>
        have h2 := L.reg r t2 ho
        cases hf2 : s.frame t2 <;> simp [hf2, regFrame] at h2
        · exact absurd hf2 (O.no t2 _)
        · exact progress_regLocked hf2

theorem progress_meterHolder {s : St} (L : LockInv s) (O : NoOld s) {t m : Nat}
    (h : meterFrame m (s.frame t)) : Progress s := by
  cases hf : s.frame t <;> simp [hf, meterFrame] at h
  · exact ⟨t, .instSetDel, by simp [hf], by simp [step, hf]⟩
  · exact progress_insts L O hf
  · exact progress_regLocked hf

theorem progress_prov {s : St} (L : LockInv s) (O : NoOld s) {t : Nat} (hf : s.frame t = .iProv) :
    Progress s := by
  by_cases hd : allDone s = true
  · exact ⟨t, .instProvUnlock, by simp [hf], by simp [step, hf, hd]⟩
  · have : ∃ m, m < s.nM ∧ s.mDone m = false := by
      simp only [allDone, decide_eq_true_eq] at hd
      have := Classical.not_forall.mp hd
      obtain ⟨m, hm⟩ := this
      refine ⟨m, ?_⟩
      by_cases h1 : m < s.nM
      · refine ⟨h1, ?_⟩
        cases hx : s.mDone m
        · rfl
        · exact absurd (fun _ => hx) hm
      · exact absurd (fun h => absurd h h1) hm
    obtain ⟨m, hm, hnd⟩ := this
    cases ho : s.mOwner m with
    | none => exact ⟨t, .instLockMeter m, by simp [hf], by simp [step, hf, hm, hnd, ho]⟩
    | some t2 => exact progress_meterHolder L O (L.meter m t2 ho)

theorem progress_provHolder {s : St} (L : LockInv s) (O : NoOld s) {t : Nat}
    (h : provFrame (s.frame t)) : Progress s := by
  cases hf : s.frame t <;> simp [hf, provFrame] at h
  · exact progress_prov L O hf
  · exact ⟨t, .instSetDel, by simp [hf], by simp [step, hf]⟩
  · exact progress_insts L O hf
  · exact progress_regLocked hf

theorem progress_any {s : St} (L : LockInv s) (O : NoOld s) {t : Nat} (hne : s.frame t ≠ .idle) :
    Progress s := by
  cases hf : s.frame t with
  | idle => exact absurd hf hne
  | addLoaded i v c d =>
    cases d
    · exact ⟨t, .addFwd, by simp [hf], by simp [step, hf]⟩
    · exact ⟨t, .addFwd, by simp [hf], by simp [step, hf]⟩
  | unregTaken r u =>
    cases u with
    | none => exact ⟨t, .unregCall, by simp [hf], by simp [step, hf]⟩
    | sdk => exact ⟨t, .unregCall, by simp [hf], by simp [step, hf]⟩
    | closure =>
      cases ho : s.mOwner (s.rMeter r) with
      | none => exact ⟨t, .unregCall, by simp [hf], by simp [step, hf, ho]⟩
      | some t2 => exact progress_meterHolder L O (L.meter _ t2 ho)
  | oUnregHeld r => exact absurd hf (O.no t r)
  | iOnce =>
    cases ho : s.provOwner with
    | none => exact ⟨t, .instLockProv, by simp [hf], by simp [step, hf, ho]⟩
    | some t2 => exact progress_provHolder L O (L.prov t2 ho)
  | iProv => exact progress_prov L O hf
  | iMeterLocked m => exact progress_meterHolder L O (t := t) (m := m) (by simp [hf, meterFrame])
  | iInsts m => exact progress_insts L O hf
  | iRegLocked m r => exact progress_regLocked hf
  | iUnlocked => exact ⟨t, .instOnceDone, by simp [hf], by simp [step, hf]⟩
  | iStore => exact ⟨t, .instStore, by simp [hf], by simp [step, hf]⟩
  | cbRun r o w => exact ⟨t, .cbEnd, by simp [hf], by simp [step, hf]⟩

end Otel.C16
