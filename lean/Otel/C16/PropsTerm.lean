import Otel.C16.Lemmas7
import Otel.C16.Lemmas4
/-
C16 — termination of the installer's loops (formerly the assumption "termination of the installer's loops … is not
proved: global_deadlock_free is the progress half"). Current code (`Reachable false`).
-/
namespace Otel.C16

/-- while the installer works inside meter `m` (it holds `m.mtx`), no step of any OTHER thread changes `m.instruments`,
`m.registry` or the installer's frame: instrument constructors, RegisterCallback and the pre-delegation Unregister
closure all wait for `m.mtx` -/
theorem installer_meter_loop_undisturbed {s s' : St} {t t' m : Nat} {a : Act} (hr : Reachable false s)
    (hf : delFrame m (s.frame t)) (hne : t' ≠ t) (h : step false s t' a = some s') :
    s'.pend m = s.pend m ∧ s'.registry m = s.registry m ∧ s'.frame t = s.frame t :=
  loop_undisturbed (lockInv_reachable hr) hf hne h

/-- every step of the installer inside meter `m` strictly decreases `loopMeasure` (instruments left + 2 · registrations
left + 1), or leaves the meter completed -/
theorem installer_meter_loop_decreases {s s' : St} {t m : Nat} {a : Act} (hr : Reachable false s)
    (hf : delFrame m (s.frame t)) (h : step false s t a = some s') :
    (delFrame m (s'.frame t) ∧ loopMeasure s' t m < loopMeasure s t m) ∨
      (s'.frame t = .iProv ∧ s'.mDone m = true ∧ s.pend m = [] ∧ s.registry m = []) :=
  loop_decreases (regInv_reachable hr) hf h

/-- inside a meter the installer itself can always take a step (it never waits there: the only lock it takes,
`unregMu` of the front registration, cannot be held by anyone else in the current code) -/
theorem installer_can_step_inside_meter {s : St} {t m : Nat} (hr : Reachable false s)
    (hf : delFrame m (s.frame t)) : ∃ a s', step false s t a = some s' := by
  suffices h : ∃ a, (step false s t a).isSome = true by
    obtain ⟨a, ha⟩ := h
    obtain ⟨s', hs'⟩ := Option.isSome_iff_exists.mp ha
    exact ⟨a, s', hs'⟩
  have L := lockInv_reachable hr
  have O := noOld_reachable hr
  have R := regInv_reachable hr
  cases hft : s.frame t with
  | iInsts m' =>
    cases hp : s.pend m' with
    | cons i tl => exact ⟨.instInst i, by simp [step, hft, hp]⟩
    | nil =>
      cases hrg : s.registry m' with
      | nil => exact ⟨.instMeterDone, by simp [step, hft, hp, hrg]⟩
      | cons r tl =>
        cases ho : s.rOwner r with
        | none => exact ⟨.instRegLock, by simp [step, hft, hp, hrg, ho]⟩
        | some t2 =>
          exfalso
          have h2 := L.reg r t2 ho
          cases hf2 : s.frame t2 with
          | oUnregHeld r' => exact O.no t2 _ hf2
          | iRegLocked m2 r' =>
            have hr' : r' = r := by simpa [hf2, regFrame] using h2
            subst hr'
            have hin := R.lockedIn t2 m2 _ hf2
            have hm2 := (R.member m2 _ hin).2.1
            have hm := (R.member m' r' (by rw [hrg]; simp)).2.1
            have ho2 := L.hMeter m2 t2 (by simp [hf2, meterFrame])
            have ho1 := L.hMeter m' t (by simp [hft, meterFrame])
            rw [← hm2, hm, ho1] at ho2
            have : t = t2 := Option.some.inj ho2
            subst this
            rw [hft] at hf2
            exact Frame.noConfusion hf2
          | _ => simp [hf2, regFrame] at h2
  | iRegLocked m' r => exact ⟨.instRegBody, by simp only [step, hft]; (repeat' split) <;> simp⟩
  | _ => simp [hft, delFrame] at hf

/-- **the loop over one meter terminates**: from any reachable state in which the installer is inside meter `m`, at
most `loopMeasure` further steps of the installer ALONE complete the meter — and by `installer_meter_loop_undisturbed`
no other thread can prolong this -/
theorem installer_completes_meter {s : St} {t m : Nat} (hr : Reachable false s) (hf : delFrame m (s.frame t)) :
    ∃ l : List Act, l.length ≤ loopMeasure s t m + 1 ∧
      ∃ s', runLabels false s (l.map fun a => (t, a)) = some s' ∧ s'.frame t = .iProv ∧ s'.mDone m = true := by
  generalize hn : loopMeasure s t m = n
  induction n using Nat.strongRecOn generalizing s with
  | _ n ih =>
    obtain ⟨a, s1, h1⟩ := installer_can_step_inside_meter hr hf
    rcases installer_meter_loop_decreases hr hf h1 with ⟨hf1, hlt⟩ | ⟨hp, hd, _, _⟩
    · obtain ⟨l, hl, s', hrun, hfp, hdone⟩ := ih (loopMeasure s1 t m) (by omega) (Reachable.step t a hr h1) hf1 rfl
      exact ⟨a :: l, by simp; omega, s', by simp [runLabels, h1, hrun], hfp, hdone⟩
    · exact ⟨[a], by simp, s1, by simp [runLabels, h1], hp, hd⟩

/-- the outer loop: while the installer holds `p.mtx` no meter can be created (`Meter()` waits for it), and a completed
meter stays completed — the number of meters still to do only decreases -/
theorem installer_outer_loop_bounded {s s' : St} {t t' : Nat} {a : Act} (hr : Reachable false s)
    (hf : provFrame (s.frame t)) (h : step false s t' a = some s') :
    s'.nM = s.nM ∧ ∀ m, s.mDone m = true → s'.mDone m = true := by
  have L := lockInv_reachable hr
  have ho : s.provOwner = some t := L.hProv t hf
  cases a <;> simp only [step] at h <;> (repeat' split at h) <;>
    (first | (simp at h; done)
           | (simp only [Option.some.injEq] at h; subst h; (try simp only [upd_apply]); grind))

/-- non-vacuity: the installer inside a meter with one instrument and one registration needs 4 steps -/
example : ((runLabels false St.init
    [(0, .meterNew), (0, .mk 0 10), (0, .reg 0), (2, .instBegin), (2, .instLockProv), (2, .instLockMeter 0), (2, .instSetDel)]).map
    fun s => (loopMeasure s 2 0, decide (s.frame 2 = .iInsts 0))) = some (4, true) := by decide

end Otel.C16
