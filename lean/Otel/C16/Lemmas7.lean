import Otel.C16.Lemmas3
/-
C16 — the installer's loop over ONE meter terminates: while it holds the meter's lock nobody else can add to
`m.instruments` / `m.registry`, and each of its own steps decreases a measure (formerly: "termination … not proved").
-/
namespace Otel.C16

/-- steps the installer still needs inside meter `m` (upper bound) -/
def loopMeasure (s : St) (t m : Nat) : Nat :=
  (s.pend m).length + 2 * (s.registry m).length +
    (match s.frame t with
     | .iRegLocked _ _ => 0
     | _ => 1)

theorem loop_undisturbed {s s' : St} {t t' m : Nat} {a : Act} (L : LockInv s)
    (hf : delFrame m (s.frame t)) (hne : t' ≠ t) (h : step false s t' a = some s') :
    s'.pend m = s.pend m ∧ s'.registry m = s.registry m ∧ s'.frame t = s.frame t := by
  have ho : s.mOwner m = some t := by
    cases hft : s.frame t <;> simp [hft, delFrame] at hf
    · exact L.hMeter m t (by simp [hft, meterFrame, hf])
    · exact L.hMeter m t (by simp [hft, meterFrame, hf])
  have u2 : ∀ t2 m2 r, s.frame t2 = .iRegLocked m2 r → s.mOwner m2 = some t2 := by
    intro t2 m2 r h2; exact L.hMeter m2 t2 (by simp [h2, meterFrame])
  have u3 : ∀ t2 m2, s.frame t2 = .iInsts m2 → s.mOwner m2 = some t2 := by
    intro t2 m2 h2; exact L.hMeter m2 t2 (by simp [h2, meterFrame])
  have u4 : ∀ t2 m2, s.frame t2 = .iMeterLocked m2 → s.mOwner m2 = some t2 := by
    intro t2 m2 h2; exact L.hMeter m2 t2 (by simp [h2, meterFrame])
  cases a <;> simp only [step] at h <;> (repeat' split at h) <;>
    (first | (simp at h; done)
           | (simp only [Option.some.injEq] at h; subst h; (try simp only [upd_apply]); grind))

theorem loop_decreases {s s' : St} {t m : Nat} {a : Act} (R : RegInv s)
    (hf : delFrame m (s.frame t)) (h : step false s t a = some s') :
    (delFrame m (s'.frame t) ∧ loopMeasure s' t m < loopMeasure s t m) ∨
      (s'.frame t = .iProv ∧ s'.mDone m = true ∧ s.pend m = [] ∧ s.registry m = []) := by
  have e1 : ∀ (l : List Nat) (x : Nat), x ∈ l → (l.erase x).length + 1 = l.length := by
    intro l x hx; rw [List.length_erase_of_mem hx]; have := List.length_pos_of_mem hx; omega
  have e2 : ∀ t2 m2 r, s.frame t2 = .iRegLocked m2 r → r ∈ s.registry m2 := R.lockedIn
  cases hft : s.frame t <;> simp [hft, delFrame] at hf
  · -- iInsts m
    subst hf
    cases a <;> simp only [step, hft] at h <;> (repeat' split at h) <;>
      (first | (simp at h; done)
             | (simp only [Option.some.injEq] at h; subst h
                simp only [loopMeasure, delFrame, upd_apply, hft]
                grind))
  · -- iRegLocked m r
    subst hf
    cases a <;> simp only [step, hft] at h <;> (repeat' split at h) <;>
      (first | (simp at h; done)
             | (simp only [Option.some.injEq] at h; subst h
                simp only [loopMeasure, delFrame, upd_apply, hft]
                grind))

end Otel.C16
