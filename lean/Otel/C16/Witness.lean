import Otel.C16.Lemmas
/-
C16 — the original `Registration.Unregister` (variant `old = true`): the lock-order inversion F15 as a reachable
state of the LTS in which two threads wait for each other for ever.
-/
namespace Otel.C16

/-- thread 0: Meter(); RegisterCallback (placeholder registration 0); SetMeterProvider up to `m.delegate = meter`
(holds p.mtx and meter.mtx, next: registration.setDelegate → unregMu.Lock).
thread 1: Registration.Unregister, original code: unregMu.Lock (next: the closure → meter.mtx.Lock). -/
def wLabels : List (Nat × Act) :=
  [(0, .meterNew), (0, .reg 0), (0, .instBegin), (0, .instLockProv), (0, .instLockMeter 0), (0, .instSetDel),
   (1, .oUnregLock 0)]

def wOpt : Option St := runLabels true St.init wLabels

theorem wOpt_isSome : wOpt.isSome = true := by decide

def wState : St := wOpt.get wOpt_isSome

theorem wState_run : runLabels true St.init wLabels = some wState := by
  simp [wState, wOpt]

def quiet : Frame → Prop
  | .idle | .addLoaded _ _ _ _ | .cbRun _ _ _ => True
  | _ => False

/-- the stuck configuration; inductive under every step of every thread -/
structure Stuck (s : St) : Prop where
  f0 : s.frame 0 = .iInsts 0
  f1 : s.frame 1 = .oUnregHeld 0
  m0 : s.mOwner 0 = some 0
  r0 : s.rOwner 0 = some 1
  pend0 : s.pend 0 = []
  reg0 : s.registry 0 = [0]
  un0 : s.rUnreg 0 = .closure
  rm0 : s.rMeter 0 = 0
  once : s.onceOwner = some 0
  onceD : s.onceDone = false
  prov : s.provOwner = some 0
  nM : s.nM = 1
  nR : s.nR = 1
  others : ∀ t, t ≠ 0 → t ≠ 1 → quiet (s.frame t)

theorem stuck_wState : Stuck wState := by
  constructor
  case others =>
    intro t h0 h1
    simp [wState, wOpt, wLabels, runLabels, step, St.init, upd, h0, h1, quiet]
  all_goals decide

set_option maxHeartbeats 1600000 in
theorem stuck_step {s s' : St} {t : Nat} {a : Act} (I : Stuck s) (h : step true s t a = some s') : Stuck s' := by
  obtain ⟨i1, i2, i3, i4, i5, i6, i7, i8, i9, i10, i11, i12, i13, i14⟩ := I
  cases a <;> lts_step h [quiet]

theorem stuck_forever {s s' : St} (l : List (Nat × Act)) (I : Stuck s) (h : runLabels true s l = some s') :
    Stuck s' := by
  induction l generalizing s with
  | nil => simp [runLabels] at h; exact h ▸ I
  | cons x r ih =>
    obtain ⟨t, a⟩ := x
    simp only [runLabels] at h
    split at h
    · next s1 h1 => exact ih (stuck_step I h1) h
    · exact absurd h (by simp)

end Otel.C16
