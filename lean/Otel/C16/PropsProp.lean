import Otel.C16.Propagator
/-
C16 — property theorems for the global TextMapPropagator (clauses "start forwarding as soon as installation returns"
and "completes without deadlock" for SetTextMapPropagator / the placeholder propagator; formerly oracle-only).
-/
namespace Otel.C16.TMP
open Otel.C16 (upd upd_apply upd_same)

/-- what the placeholder ever forwards to: nothing yet, or its (only) delegate -/
structure PLogInv (s : PSt) : Prop where
  log : ∀ e, e ∈ s.plog → e.2 = none ∨ e.2 = s.pDel
  call : ∀ t c h, s.frame t = .jCall c h → h = none ∨ h = s.pDel
  pOnceDel : s.pOnce = true ↔ s.pDel ≠ none

theorem plogInv_step {s s' : PSt} {t : Nat} {a : PAct} (I : PLogInv s) (h : pstep s t a = some s') : PLogInv s' := by
  obtain ⟨i1, i2, i3⟩ := I
  cases a <;> plts_step h []

theorem plogInv_reach {s : PSt} (h : PReach s) : PLogInv s := by
  induction h with
  | init => exact ⟨by simp [PSt.init], by simp [PSt.init], by simp [PSt.init]⟩
  | step t a _ hs ih => exact plogInv_step ih hs

/-- the placeholder's delegate is set at most once: no label ever changes it afterwards (a second
SetTextMapPropagator stores its propagator as the global value but does not re-delegate) -/
theorem propagator_delegate_set_once {s s' : PSt} {t d : Nat} {a : PAct} (hr : PReach s)
    (h : pstep s t a = some s') (hd : s.pDel = some d) : s'.pDel = some d := by
  have I := pinv_reach hr
  have hp : s.pOnce = true := I.pOnceDel.mpr (by simp [hd])
  cases a <;> simp only [pstep] at h <;> (repeat' split at h) <;>
    (first | (simp at h; done) | (simp only [Option.some.injEq] at h; subst h; simp_all))

/-- **forwarding as soon as installation returns**: once any SetTextMapPropagator call has returned (something is
stored), the placeholder handed out before has a delegate `d0`, and an Inject through it is served by `d0` -/
theorem propagator_forwards_after_install {s : PSt} (hr : PReach s) (hs : s.stored ≠ none) :
    ∃ d0, s.pDel = some d0 ∧
      ∀ t c, s.frame t = .idle → s.mtxOwner = none →
        ∃ s', prun s (injLabels t c) = some s' ∧ s'.plog = (c, some d0) :: s.plog ∧ s'.frame t = .idle := by
  have I := pinv_reach hr
  have hd := (I.doneDel (I.storedDone hs)).2
  cases hp : s.pDel with
  | none => exact absurd hp hd
  | some d0 =>
    refine ⟨d0, rfl, ?_⟩
    intro t c hf hm
    simp [injLabels, prun, pstep, hf, hm, hp]

/-- an Inject through the placeholder is served by the no-op propagator or by the placeholder's one delegate, never
by anything else (in particular never by a propagator set later) -/
theorem propagator_inject_served_by_first_delegate {s : PSt} (hr : PReach s) :
    ∀ e, e ∈ s.plog → e.2 = none ∨ e.2 = s.pDel :=
  (plogInv_reach hr).log

/-- before anything was set the placeholder is a no-op -/
theorem propagator_noop_before_install {s s1 s2 : PSt} {t c : Nat} (hd : s.pDel = none)
    (h1 : pstep s t .injGot = some s1) (hf : s.frame t = .jLocked c) (h2 : pstep s1 t .injCall = some s2) :
    s2.plog = (c, none) :: s.plog := by
  simp only [pstep, hf, Option.some.injEq] at h1
  subst h1
  simp [pstep, hd] at h2
  subst h2
  rfl

/-- **no deadlock** (Once < p.mtx, never nested the other way): whenever some call is in progress, some in-progress
call can take a step -/
theorem propagator_deadlock_free {s : PSt} (hr : PReach s) (h : ∃ t, s.frame t ≠ .idle) :
    ∃ t a, s.frame t ≠ .idle ∧ (pstep s t a).isSome = true := by
  have I := pinv_reach hr
  have holder : ∀ t2, s.mtxOwner = some t2 → ∃ t a, s.frame t ≠ .idle ∧ (pstep s t a).isSome = true := by
    intro t2 ho
    have hm := I.mtx t2 ho
    cases hf : s.frame t2 <;> simp [hf, mtxF] at hm
    · exact ⟨t2, .setDo, by simp [hf], by simp only [pstep, hf]; split <;> simp⟩
    · exact ⟨t2, .injGot, by simp [hf], by simp [pstep, hf]⟩
  obtain ⟨t, hne⟩ := h
  cases hf : s.frame t with
  | idle => exact absurd hf hne
  | sOnce d =>
    cases hst : s.stored with
    | some x => exact ⟨t, .setLock, by simp [hf], by simp [pstep, hf, hst]⟩
    | none =>
      cases ho : s.mtxOwner with
      | none => exact ⟨t, .setLock, by simp [hf], by simp [pstep, hf, hst, ho]⟩
      | some t2 => exact holder t2 ho
  | sLocked d => exact ⟨t, .setDo, by simp [hf], by simp only [pstep, hf]; split <;> simp⟩
  | sInOnce d => exact ⟨t, .setOnceDone, by simp [hf], by simp [pstep, hf]⟩
  | sStore d => exact ⟨t, .setStore, by simp [hf], by simp [pstep, hf]⟩
  | jLocked c => exact ⟨t, .injGot, by simp [hf], by simp [pstep, hf]⟩
  | jCall c h => exact ⟨t, .injCall, by simp [hf], by simp [pstep, hf]⟩

/-- no lock is held when every thread is idle -/
theorem propagator_locks_free_when_idle {s : PSt} (hr : PReach s) (h : ∀ t, s.frame t = .idle) :
    s.onceOwner = none ∧ s.mtxOwner = none := by
  have I := pinv_reach hr
  constructor
  · cases ho : s.onceOwner with
    | none => rfl
    | some t => have := I.once t ho; simp [h t, onceF] at this
  · cases ho : s.mtxOwner with
    | none => rfl
    | some t => have := I.mtx t ho; simp [h t, mtxF] at this

/-- a self-set is a no-op that leaves the Once available -/
theorem propagator_self_set_is_noop {s s' : PSt} {t : Nat} (h : pstep s t .selfSet = some s') : s' = s := by
  simp only [pstep] at h
  split at h
  · exact (Option.some.inj h).symm
  · simp at h

/-- the global getter serves what was stored last -/
theorem propagator_getter_serves_stored {s s' : PSt} {t c : Nat} (h : pstep s t (.gInject c) = some s') :
    ∃ d, s.stored = some d ∧ s'.glog = (c, d) :: s.glog := by
  simp only [pstep] at h
  split at h
  · next d hd =>
    split at h
    · exact ⟨d, hd, by rw [← Option.some.inj h]⟩
    · simp at h
  · simp at h

/-! ### non-vacuity -/

/-- Inject (noop) · Set(1) · Inject (served by 1) · Set(2) on the fast path · Inject (still served by 1), getter serves 2 -/
def demo : List (Nat × PAct) :=
  injLabels 0 0 ++ [(3, .selfSet)] ++ setLabels 1 1 ++ injLabels 0 1 ++ setLabelsFast 2 2 ++ injLabels 0 2 ++ [(0, .gInject 3)]

example : ((prun PSt.init demo).map fun s => (s.plog, s.glog, s.stored, s.pDel))
    = some ([(2, some 1), (1, some 1), (0, none)], [(3, 2)], some 2, some 1) := by decide

/-- two concurrent setters: the second waits for the Once (`setBegin` disabled), then takes the fast path -/
example : (prun PSt.init [(1, .setBegin 1), (2, .setBegin 2)]).isNone = true := by decide
example : ((prun PSt.init ([(1, .setBegin 1), (1, .setLock), (0, .injLock 0)])).isNone) = true := by decide

end Otel.C16.TMP
