import Otel.C16.Lemmas
/-
C16 — delegation invariants: nothing handed out before or during the installation is left behind.
-/
namespace Otel.C16

def delFrame (m : Nat) : Frame → Prop
  | .iInsts m' | .iRegLocked m' _ => m' = m
  | _ => False

structure DelInv (s : St) : Prop where
  doneDel : ∀ m, s.mDone m = true → s.mDel m = true
  doneEmpty : ∀ m, s.mDone m = true → s.pend m = [] ∧ s.registry m = []
  /-- a handed-out instrument without a delegate is in its meter's `instruments` map -/
  pending : ∀ i, i < s.nI → s.iDel i = false → i ∈ s.pend (s.iMeter i)
  instMeter : ∀ i, i < s.nI → s.iMeter i < s.nM
  onceAll : s.onceDone = true → ∀ m, m < s.nM → s.mDone m = true
  unlockedAll : ∀ t, s.frame t = .iUnlocked → ∀ m, m < s.nM → s.mDone m = true
  oncePD : s.onceDone = true → s.provDel = true
  unlockedPD : ∀ t, s.frame t = .iUnlocked → s.provDel = true
  provPD : ∀ t, provFrame (s.frame t) → s.provDel = true
  frameDel : ∀ t m, delFrame m (s.frame t) → s.mDel m = true

theorem delInv_init : DelInv St.init := by
  constructor <;> simp [St.init, provFrame, delFrame]

theorem allDone_iff (s : St) : allDone s = true ↔ ∀ m, m < s.nM → s.mDone m = true := by
  simp [allDone]

set_option maxHeartbeats 3200000 in
theorem delInv_step {old : Bool} {s s' : St} {t : Nat} {a : Act}
    (I : DelInv s) (h : step old s t a = some s') : DelInv s' := by
  obtain ⟨i1, i2, i3, i4, i5, i6, i7, i8, i9, i10⟩ := I
  cases a <;> lts_step h [provFrame, delFrame, allDone_iff]

theorem delInv_reachable {old : Bool} {s : St} (h : Reachable old s) : DelInv s := by
  induction h with
  | init => exact delInv_init
  | step t a _ hs ih => exact delInv_step ih hs

end Otel.C16
