/-
C16 — generated tie.  `Otel.Gen.C16` is regenerated from /repo's current source by tools/go2lean on every run of
bin/check (checks/gentie.json); the theorems below are re-checked against the regenerated text.
Sites (internal/global): `SetTracerProvider` (state.go: self-delegation guard, once-only delegation, store),
`tracerProvider.setDelegate` and `tracerProvider.Tracer` (trace.go) as decision skeletons whose leaves list the
ordered effects of the path.  These are the atomic operations the C16 model assumes: a delegate is installed at most
once and forwarded to every tracer handed out before; a tracer requested after delegation comes from the delegate;
before delegation the same (name, version, schema, attrs) key yields the same tracer; all of it under `p.mtx`.
-/
import Otel.Gen.C16

namespace Otel.C16.GenTie

/-- `SetTracerProvider`: installing the default delegating provider into itself is refused (logged, nothing stored,
no delegation); every other call delegates (inside `delegateTraceOnce`) and then stores the new provider -/
theorem gen_set_tracer_provider_table (curDefault newDefault same : Bool) :
    Otel.Gen.C16.setTracerProvider curDefault newDefault same =
      (if curDefault && newDefault && same then ("return", ["logSelfDelegation"])
       else ("<end>", ["once{setDelegate}", "store"])) := by
  cases curDefault <;> cases newDefault <;> cases same <;> rfl

/-- `tracerProvider.setDelegate`: the delegate is recorded first, then forwarded to every tracer created so far, and
the tracer map is dropped — all under the lock -/
theorem gen_provider_set_delegate_table (n : Int) (hn : 0 ≤ n) :
    Otel.Gen.C16.providerSetDelegate n =
      (if n = 0 then ("return", ["lock", "deferUnlock", "setDelegate"])
       else ("<end>", ["lock", "deferUnlock", "setDelegate", "forwardToTracers", "dropTracers"])) := by
  unfold Otel.Gen.C16.providerSetDelegate
  by_cases h : n = 0 <;> simp [h] <;> (try omega) <;> (repeat' split) <;> (try simp_all) <;> omega

/-- `tracerProvider.Tracer`: with a delegate the request is forwarded and nothing is remembered; without one a known
key returns the cached tracer and a new key creates and remembers one (creating the map first if needed) -/
theorem gen_provider_tracer_table (hasDelegate noMap known : Bool) :
    Otel.Gen.C16.providerTracer hasDelegate noMap known =
      (if hasDelegate then ("delegate.Tracer", ["lock", "deferUnlock"])
       else
         (if known then "cached" else "new",
          ["lock", "deferUnlock"] ++ (if noMap then ["initMap"] else []) ++ (if known then [] else ["newTracer", "remember"]))) := by
  cases hasDelegate <;> cases noMap <;> cases known <;> rfl

/-- a tracer is remembered exactly when it is newly created, and never once a delegate is installed -/
theorem gen_provider_tracer_remember_iff (hasDelegate noMap known : Bool) :
    "remember" ∈ (Otel.Gen.C16.providerTracer hasDelegate noMap known).2 ↔ (hasDelegate = false ∧ known = false) := by
  rw [gen_provider_tracer_table]; cases hasDelegate <;> cases noMap <;> cases known <;> decide

end Otel.C16.GenTie
