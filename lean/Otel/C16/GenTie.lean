/-
C16 — generated tie.  `Otel.Gen.C16` is regenerated from /repo's current source by tools/go2lean on every run of
bin/check (checks/gentie.json); the theorems below are re-checked against the regenerated text.
Sites (internal/global): `SetTracerProvider` (state.go: self-delegation guard, once-only delegation, store),
`tracerProvider.setDelegate` and `tracerProvider.Tracer` (trace.go) as decision skeletons whose leaves list the
ordered effects of the path.  These are the atomic operations the C16 model assumes: a delegate is installed at most
once and forwarded to every tracer handed out before; a tracer requested after delegation comes from the delegate;
before delegation the same (name, version, schema, attrs) key yields the same tracer; all of it under `p.mtx`.
-/
import Otel.Gen.C16

namespace Otel.C16.GenTie

/-- `SetTracerProvider`: installing the default delegating provider into itself is refused (logged, nothing stored,
no delegation); every other call delegates (inside `delegateTraceOnce`) and then stores the new provider -/
theorem gen_set_tracer_provider_table (curDefault newDefault same : Bool) :
    Otel.Gen.C16.setTracerProvider curDefault newDefault same =
      (if curDefault && newDefault && same then ("return", ["logSelfDelegation"])
       else ("<end>", ["once{setDelegate}", "store"])) := by
  cases curDefault <;> cases newDefault <;> cases same <;> rfl

/-- `tracerProvider.setDelegate`: the delegate is recorded first, then forwarded to every tracer created so far, and
the tracer map is dropped — all under the lock -/
theorem gen_provider_set_delegate_table (n : Int) (hn : 0 ≤ n) :
    Otel.Gen.C16.providerSetDelegate n =
      (if n = 0 then ("return", ["lock", "deferUnlock", "setDelegate"])
       else ("<end>", ["lock", "deferUnlock", "setDelegate", "forwardToTracers", "dropTracers"])) := by
  unfold Otel.Gen.C16.providerSetDelegate
  by_cases h : n = 0 <;> simp [h] <;> (try omega) <;> (repeat' split) <;> (try simp_all) <;> omega

/-- `tracerProvider.Tracer`: with a delegate the request is forwarded and nothing is remembered; without one a known
key returns the cached tracer and a new key creates and remembers one (creating the map first if needed) -/
theorem gen_provider_tracer_table (hasDelegate noMap known : Bool) :
    Otel.Gen.C16.providerTracer hasDelegate noMap known =
      (if hasDelegate then ("delegate.Tracer", ["lock", "deferUnlock"])
       else
         (if known then "cached" else "new",
          ["lock", "deferUnlock"] ++ (if noMap then ["initMap"] else []) ++ (if known then [] else ["newTracer", "remember"]))) := by
  cases hasDelegate <;> cases noMap <;> cases known <;> rfl

/-- a tracer is remembered exactly when it is newly created, and never once a delegate is installed -/
theorem gen_provider_tracer_remember_iff (hasDelegate noMap known : Bool) :
    "remember" ∈ (Otel.Gen.C16.providerTracer hasDelegate noMap known).2 ↔ (hasDelegate = false ∧ known = false) := by
  rw [gen_provider_tracer_table]; cases hasDelegate <;> cases noMap <;> cases known <;> decide

/-! ### internal/global/meter.go: delegating a callback registration -/

/-- `registration.setDelegate` (after the F50 repair): nothing is registered once `Unregister` ran; otherwise the
callback is registered with the delegate through the unwrapping adapters, an error is reported, and the returned
registration is KEPT whenever it is non-nil — error or not — so that `Unregister` can still remove the callback;
all under `unregMu` -/
theorem gen_registration_set_delegate_table (unregistered registerErr noReg : Bool) :
    Otel.Gen.C16.registrationSetDelegate unregistered registerErr noReg =
      (if unregistered then ("return", ["lock", "deferUnlock"])
       else if registerErr && noReg then ("return", ["lock", "deferUnlock", "register(unwrapped)", "handleErr"])
       else ("<end>", ["lock", "deferUnlock", "register(unwrapped)"] ++ (if registerErr then ["handleErr"] else []) ++
                      ["keepRegistration"])) := by
  cases unregistered <;> cases registerErr <;> cases noReg <;> rfl

/-- a live registration returned by the delegate is never dropped -/
theorem gen_registration_kept_iff (unregistered registerErr noReg : Bool) :
    "keepRegistration" ∈ (Otel.Gen.C16.registrationSetDelegate unregistered registerErr noReg).2 ↔
      (unregistered = false ∧ ¬ (registerErr = true ∧ noReg = true)) := by
  rw [gen_registration_set_delegate_table]
  cases unregistered <;> cases registerErr <;> cases noReg <;> decide

/-- `unwrapCallback`: every invocation of the wrapped callback gets a FRESH `unwrapObs` around the observer it was
called with (no observer is shared between invocations or callbacks) -/
theorem gen_unwrap_callback_fresh_observer : Otel.Gen.C16.unwrapCallbackBody = "f(ctx,&unwrapObs{obs:obs})" := by decide

end Otel.C16.GenTie
