import Otel.C16.Script
/-
C16 — the property restated without any reference to the model's internals.

(A) `globalOK script obs` — the run-time oracle, evaluated on what the REAL implementation produced for a
scenario: a reference reading of the script ("what a perfect forwarding layer does") against the data
collected from the SDK after the scenario:
  * the scenario completed (`ok`: no hang, panic, API error, handled error, data race);
  * every measurement made after the installation returned is in the collected data, every measurement made
    before it started is not, measurements concurrent with it may or may not be (exact totals: the observed
    sum/count must be `post + some sub-multiset of concurrent`); gauges report the last sequential value;
  * every callback that was registered (before, during or after the installation) and not unregistered is
    invoked exactly once per Collect (2 collects) and its observations are in the data; an unregistered one
    is never invoked;
  * spans: started after SetTracerProvider returned ⇒ exported exactly once; before ⇒ never;
  * the propagator obtained before SetTextMapPropagator forwards afterwards.

(B) state predicates used as the conclusions of the theorems (`Props.lean`) are stated there directly on the
LTS state (ghost recorder / SDK registration counters); the executable oracle above is the same statement
read on the observable side (collected data instead of ghost counters).
-/
namespace Otel.C16.Spec
open Otel.C16

inductive Phase where | pre | conc | post deriving DecidableEq, Repr

structure Obs where
  status : String
  gates : List String
  sync : List (Nat × String)
  obsv : List (Nat × String)
  cbs : List (Nat × Nat)
  spans : List Nat
  spanPar : List (Nat × Option Nat)      -- exported span → the exported span the SDK recorded as its parent
  props : List (Nat × Nat)
  oc : List String := []                 -- one result per OC / CC operation: `A=<points>/B=<points>~<differing cycles>`
deriving Repr

structure Ref where
  mPh : Phase := .pre
  tPh : Phase := .pre
  pPh : Phase := .pre
  pFirst : Option Nat := none            -- the propagator of the first SetTextMapPropagator (1 = TraceContext, 2 = Baggage)
  pLast : Option Nat := none             -- the propagator stored last
  gatesLeft : Nat := 0
  gatedT : Bool := false
  kinds : List (Nat × Nat) := []
  postVals : List (Nat × Nat) := []      -- newest first
  concVals : List (Nat × Nat) := []
  seqLast : List (Nat × Nat) := []       -- sequential post-installation values since the last parallel block, newest first
  cbs : List (Nat × List Nat) := []
  dead : List Nat := []
  postSpans : List Nat := []
  concSpans : List Nat := []
  spanPar : List (Nat × Nat) := []       -- span → the span whose context it was started under (script)
  props : List (Nat × Option Nat) := []
  preEntities : Nat := 0
  bad : List Nat := []                   -- callbacks the SDK rejects (RB)
  partialOK : List Nat := []             -- callbacks the SDK accepts WITH an error (RB naming own and foreign observables)
  rej : List Nat := []                   -- (input) RB callbacks never invoked in this run: a registration naming own and
                                         -- foreign observables is rejected as a whole when the foreign instrument's meter
                                         -- has not been delegated yet (Go map order of the installer) — read off the observation
  instMeter : List (Nat × Nat) := []     -- instrument → meter
  deadPre : List Nat := []               -- Unregister calls made before the installation began
  deadConc : List Nat := []              -- … while it was in progress
  colls : List (Nat × List Nat × Bool) := []  -- per OC / CC operation, newest first: cycles per reader, callbacks live
                                              -- then (exact = false: made while the installation was in progress —
                                              -- which of the registered callbacks the SDK already holds is the installer's progress)
deriving Repr

def insertNat (x : Nat) : List Nat → List Nat
  | [] => [x]
  | y :: r => if x ≤ y then x :: y :: r else y :: insertNat x r
def sortNat (l : List Nat) : List Nat := l.foldr insertNat []

/-- callbacks the SDK holds at this moment of a sequential script -/
def liveNow (r : Ref) : List Nat :=
  sortNat ((r.cbs.map (·.1)).filter fun c => r.mPh == .post && !r.dead.contains c && !r.bad.contains c)

/-- while the installation is in progress: callbacks that MAY already be registered with the SDK -/
def concCandidates (r : Ref) : List Nat :=
  sortNat ((r.cbs.map (·.1)).filter fun c => !r.deadPre.contains c && !r.bad.contains c)

def containsOp (p : Op → Bool) (ops : List Op) : Bool := ops.any p

/-- sequential reading of one operation; `sync` = the installation call returns in this thread (plain IM/IT) -/
def refOp (G : Nat) (r : Ref) : Op → Ref
  | .M _ => r
  | .K i k kind => { r with instMeter := (i, k) :: r.instMeter, kinds := (i, kind) :: r.kinds, preEntities := if r.mPh = .pre then r.preEntities + 1 else r.preEntities }
  | .A i v =>
    match r.mPh with
    | .pre => r
    | .conc => { r with concVals := (i, v) :: r.concVals }
    | .post => { r with postVals := (i, v) :: r.postVals, seqLast := (i, v) :: r.seqLast }
  | .R c _ is => { r with cbs := (c, is) :: r.cbs, preEntities := if r.mPh = .pre then r.preEntities + 1 else r.preEntities }
  | .RB c k is =>
    let own := is.filter fun i => ((r.instMeter.find? (·.1 == i)).map (·.2)) == some k
    let pe := if r.mPh = .pre then r.preEntities + 1 else r.preEntities
    if own.isEmpty || r.rej.contains c then { r with cbs := (c, own) :: r.cbs, bad := c :: r.bad, preEntities := pe }
    else { r with cbs := (c, own) :: r.cbs, partialOK := c :: r.partialOK, preEntities := pe }
  | .U c => { r with dead := c :: r.dead,
                     deadPre := if r.mPh = .pre then c :: r.deadPre else r.deadPre,
                     deadConc := if r.mPh = .conc then c :: r.deadConc else r.deadConc }
  | .T _ => r
  | .TS _ _ => r
  | .S _ id par =>
    let r := match par with
      | some j => { r with spanPar := (id, j) :: r.spanPar }
      | none => r
    match r.tPh with
    | .pre => r
    | .conc => { r with concSpans := id :: r.concSpans }
    | .post => { r with postSpans := id :: r.postSpans }
  | .P id =>    -- through the placeholder obtained before anything was set: served by the FIRST propagator set, for good
    { r with props := (id, match r.pPh with | .pre => some 0 | .post => some (r.pFirst.getD 0) | .conc => none) :: r.props }
  | .PG id =>   -- through the global value of the moment: the propagator stored last
    { r with props := (id, match r.pPh with | .pre => some 0 | .post => some (r.pLast.getD 0) | .conc => none) :: r.props }
  | .IM => if r.mPh = .pre then { r with mPh := .post } else r   -- at a gate the call is only launched: still concurrent
  | .IT => if r.tPh = .pre then { r with tPh := .post } else r
  | .IP => { r with pPh := .post, pFirst := r.pFirst <|> some 1, pLast := some 1 }
  | .IP2 => { r with pPh := .post, pFirst := r.pFirst <|> some 2, pLast := some 2 }
  | .GM _ =>
    if r.mPh = .post then r
    else if G = 0 then { r with mPh := .post }
    else { r with mPh := .conc, gatesLeft := G - 1, gatedT := false }
  | .GT =>
    if r.tPh = .post then r
    else if G = 0 then { r with tPh := .post }
    else { r with tPh := .conc, gatesLeft := G - 1, gatedT := true }
  | .N =>
    if r.gatedT then
      if r.tPh = .conc then (if r.gatesLeft = 0 then { r with tPh := .post } else { r with gatesLeft := r.gatesLeft - 1 }) else r
    else
      if r.mPh = .conc then (if r.gatesLeft = 0 then { r with mPh := .post } else { r with gatesLeft := r.gatesLeft - 1 }) else r
  | .F =>
    if r.gatedT then (if r.tPh = .conc then { r with tPh := .post } else r)
    else (if r.mPh = .conc then { r with mPh := .post } else r)
  | .Y => r
  | .XM | .XT | .XP => r     -- a self-set is documented to be a no-op (it only logs an error)
  | .OC _ => { r with colls := (1, if r.mPh = .conc then concCandidates r else liveNow r, decide (r.mPh ≠ .conc)) :: r.colls }
  | .CC n => { r with colls := (n, if r.mPh = .conc then concCandidates r else liveNow r, decide (r.mPh ≠ .conc)) :: r.colls }
  | .par _ => r

def isIM : Op → Bool | .IM => true | _ => false
def isIT : Op → Bool | .IT => true | _ => false
def isIP : Op → Bool | .IP => true | _ => false

/-- inside a thread of a parallel block an installation call returns in program order -/
def refThreadOp (r : Ref) : Op → Ref
  | .IM => { r with mPh := .post }
  | .IT => { r with tPh := .post }
  | op => refOp 0 r op

def refTop (G : Nat) (r : Ref) : Op → Ref
  | .par threads =>
    let hasM := threads.any (containsOp isIM)
    let hasT := threads.any (containsOp isIT)
    let hasP := threads.any (containsOp isIP)
    let m0 := if r.mPh = .pre ∧ hasM then Phase.conc else r.mPh
    let t0 := if r.tPh = .pre ∧ hasT then Phase.conc else r.tPh
    let p0 := if r.pPh = .pre ∧ hasP then Phase.conc else r.pPh
    let r1 := threads.foldl (fun acc th => th.foldl refThreadOp { acc with mPh := m0, tPh := t0, pPh := p0 }) { r with seqLast := [] }
    { r1 with mPh := if hasM then .post else r.mPh, tPh := if hasT then .post else r.tPh,
              pPh := if hasP then .post else r.pPh, seqLast := [] }
  | op => refOp G r op

def reference (G : Nat) (ops : List Op) (rej : List Nat := []) : Ref := refTop G (ops.foldl (refTop G) { rej := rej }) .F

/-- achievable (count, sum) pairs of sub-multisets -/
def subsetPairs : List Nat → List (Nat × Nat)
  | [] => [(0, 0)]
  | v :: r => let ps := subsetPairs r; ps ++ ps.map (fun (c, s) => (c + 1, s + v))

def valsOf (l : List (Nat × Nat)) (i : Nat) : List Nat := ((l.filter (·.1 == i)).map (·.2)).reverse

def lookupS {α : Type} (l : List (Nat × α)) (k : Nat) : Option α := (l.find? (·.1 == k)).map (·.2)

def parsePair (s : String) : Option (Nat × Nat) :=
  match s.splitOn ":" with
  | [a, b] => do let x ← a.toNat?; let y ← b.toNat?; pure (x, y)
  | _ => none

def syncOK (r : Ref) (i kind : Nat) (o : String) : Bool :=
  let post := valsOf r.postVals i
  let conc := (valsOf r.concVals i).take 14
  let pc := post.length
  let ps := post.foldl (· + ·) 0
  if kind = 2 ∨ kind = 6 then
    let (c, s) := if o == "-" then (0, 0) else (parsePair o).getD (0, 0)
    let wf := o == "-" || ((parsePair o).isSome && c > 0)
    wf && c ≥ pc && s ≥ ps && (subsetPairs conc).contains (c - pc, s - ps)
  else if kind = 3 ∨ kind = 7 then
    match lookupS r.seqLast i with
    | some v => o == toString v
    | none => (o == "-" && post.isEmpty) || (post ++ conc).any (fun v => o == toString v)
  else
    let n := if o == "-" then some 0 else o.toNat?
    match n with
    | none => false
    | some n => n ≥ ps && ((subsetPairs conc).map (·.2)).contains (n - ps) && (o == "-" || n > 0)

/-- the nearest ancestor (in the script's context chain) that reached the SDK: a placeholder span only hands on the
span context it found in its own context, so the SDK sees the nearest real ancestor as the parent -/
def firstReal (par : List (Nat × Nat)) (real : List Nat) : Nat → Option Nat → Option Nat
  | 0, _ => none
  | _, none => none
  | f + 1, some j => if real.contains j then some j else firstReal par real f (lookupS par j)

def live (r : Ref) (c : Nat) : Bool := r.mPh == .post && !r.dead.contains c && !r.bad.contains c

/-- the status the scenario must end with: a rejected registration that was forwarded is reported to the global error
handler (and nothing else is) -/
def statusOK (r : Ref) (status : String) : Bool :=
  -- still registered when the installer reached it (never unregistered, or only after the installation): certainly
  -- forwarded and rejected; unregistered while the installation was in progress: either
  let definite := (r.bad ++ r.partialOK).any fun c => !r.deadPre.contains c && !r.deadConc.contains c
  let possible := (r.bad ++ r.partialOK).any fun c => !r.deadPre.contains c
  if r.mPh != .post then status == "ok"
  else if definite then status == "err:handled"
  else if possible then status == "ok" || status == "err:handled"
  else status == "ok"

def obsvExpected (r : Ref) (i : Nat) : String :=
  let cs := sortNat ((r.cbs.filter (fun (c, is) => live r c && is.contains i)).map (·.1))
  if cs.isEmpty then "-" else ";".intercalate (cs.map fun c => s!"{c}:{c + 1}")

def insTriple (x : Nat × Nat × Nat) : List (Nat × Nat × Nat) → List (Nat × Nat × Nat)
  | [] => [x]
  | y :: r =>
    if x.1 < y.1 ∨ (x.1 = y.1 ∧ (x.2.1 < y.2.1 ∨ (x.2.1 = y.2.1 ∧ x.2.2 ≤ y.2.2))) then x :: y :: r
    else y :: insTriple x r
def sortTriples (l : List (Nat × Nat × Nat)) : List (Nat × Nat × Nat) := l.foldr insTriple []

/-- the observations one collection cycle delivers to ITS reader: (instrument, callback, value), rendered sorted -/
def renderPoints (pts : List (Nat × Nat × Nat)) : String :=
  if pts.isEmpty then "-" else ";".intercalate ((sortTriples pts).map fun (i, c, v) => s!"i{i}.{c}.{v}")

/-- what a reader must receive in one cycle: every live callback's observations (callback c observes c+1 on each of
its instruments) — its own, all of them, nothing from the other reader's cycle -/
def cyclePoints (r : Ref) (liveCbs : List Nat) : List (Nat × Nat × Nat) :=
  liveCbs.flatMap fun c => ((lookupS r.cbs c).getD []).map fun i => (i, c, c + 1)

/-- the callbacks whose points occur in a rendered cycle `i<inst>.<cb>.<v>;…` -/
def cbsOfPoints (pts : String) : List Nat :=
  if pts == "-" then [] else
  sortNat (((pts.splitOn ";").filterMap fun p => match p.splitOn "." with
    | [_, c, _] => c.toNat?
    | _ => none).eraseDups)

def ocExpectedFor (r : Ref) (l : List Nat) : String :=
  let p := renderPoints (cyclePoints r l)
  s!"A={p}/B={p}~0"

/-- one OC / CC result against its expectation. Exact: both readers received exactly the points of the callbacks live
then. During the installation: the same for SOME subset of the candidates — the one read off reader 0's points. -/
def ocOK (r : Ref) (e : Nat × List Nat × Bool) (got : String) : Bool :=
  if e.2.2 then got == ocExpectedFor r e.2.1
  else if got == "skip" then true     -- the harness does not collect during an installation once an operation has been pending
  else
    let a := ((got.splitOn "/B=").headD "").drop 2 |>.toString
    let s := cbsOfPoints a
    s.all (e.2.1.contains ·) && got == ocExpectedFor r s

/-- the callbacks an OC / CC operation invoked: the live ones, resp. (during the installation) those seen -/
def collSeen (e : Nat × List Nat × Bool) (got : String) : List Nat :=
  if e.2.2 then e.2.1 else if got == "skip" then [] else cbsOfPoints (((got.splitOn "/B=").headD "").drop 2 |>.toString)

/-- invocations of callback c caused by the OC / CC operations (two readers, n cycles each) -/
def collInvocations (r : Ref) (oc : List String) (c : Nat) : Nat :=
  (r.colls.reverse.zip oc).foldl (fun acc (e, got) => if (collSeen e got).contains c then acc + 2 * e.1 else acc) 0

def nodupNat : List Nat → Bool
  | [] => true
  | x :: r => !r.contains x && nodupNat r

/-- the oracle -/
def globalOK (ops : List Op) (o : Obs) : Bool :=
  let r := reference o.gates.length ops ((o.cbs.filter (·.2 == 0)).map (·.1))
  let syncIds := sortNat ((r.kinds.filter (·.2 < 8)).map (·.1))
  let obsvIds := sortNat ((r.kinds.filter (·.2 ≥ 8)).map (·.1))
  statusOK r o.status
  && o.sync.map (·.1) == syncIds
  && o.obsv.map (·.1) == obsvIds
  && o.sync.all (fun (i, v) => syncOK r i ((lookupS r.kinds i).getD 0) v)
  && o.obsv.all (fun (i, v) => v == obsvExpected r i)
  && o.cbs.map (·.1) == sortNat (r.cbs.map (·.1))
  && o.cbs.all (fun (c, n) => n == (if live r c then 2 else 0) + collInvocations r o.oc c)
  && o.oc.length == r.colls.length
  && (r.colls.reverse.zip o.oc).all (fun (e, got) => ocOK r e got)
  && nodupNat o.spans
  && r.postSpans.all (o.spans.contains ·)
  && o.spans.all (fun s => r.postSpans.contains s || r.concSpans.contains s)
  && o.spanPar.all (fun (s, p) => p == firstReal r.spanPar o.spans (r.spanPar.length + 1) (lookupS r.spanPar s))
  && o.props.map (·.1) == sortNat (r.props.map (·.1))
  && o.props.all (fun (p, v) => match lookupS r.props p with
      | some (some e) => v == e
      | some none => v ≤ 1
      | none => false)

/-- non-trivial scenario: something was handed out before the installation and something reached the SDK -/
def nontrivial (ops : List Op) (o : Obs) : Bool :=
  let r := reference o.gates.length ops
  r.preEntities > 0 && (!r.postVals.isEmpty || r.cbs.any (fun (c, _) => live r c) || !r.postSpans.isEmpty)

end Otel.C16.Spec
