/-
C16 — the global delegating MeterProvider (internal/global/{state,meter,instruments}.go) as a labelled
transition system. The global TracerProvider (trace.go) is the same system restricted to ONE unit
(`tracerProvider.mtx` = the unit's lock, tracers = its instruments, `Start` = `addLoad`/`addFwd`,
no registrations); the driver replays tracer operations on a second instance of this LTS.

Labels = atomic sections of the Go code. A mutex-protected region that calls nothing that can block
is ONE label (enabled iff the mutex is free); regions that acquire further locks or call into the
delegate are split at every acquisition, so that "holding A while waiting for B" is a state.

Locks are `Option Nat` owners:
  `onceOwner`   delegateMeterOnce (sync.Once: a second caller waits until the first has finished)
  `provOwner`   meterProvider.mtx
  `mOwner m`    meter.mtx of placeholder meter m
  `rOwner r`    registration.unregMu of placeholder registration r
Atomics: `iDel i` (the `delegate atomic.Value` of instrument i), `stored` (globalMeterProvider).

Threads are an unbounded pool `frame : Nat → Frame`; an idle thread may begin any API call
(so the theorems quantify over all programs and all schedules at once).

`step old …`: `old = false` is the current code (Unregister takes the closure under `unregMu` and
calls it after unlocking, fix 0adb2b2); `old = true` is the original Unregister (calls the closure
while holding `unregMu`), kept as a separate variant for the deadlock witness F15.

Ghost components (not in the Go state): `sdkReg/sdkUnreg` (how often the SDK saw RegisterCallback /
Unregister for r), `tok` (an Unregister call in flight holds the SDK handle of r), `unregCalled`,
`recorded/dropped` (the abstract SDK recorder), `mDone` (= the meter left `p.meters`' iteration).
-/
namespace Otel.C16

/-- `registration.unreg`: nil / the pre-delegation closure (locks meter.mtx, removes the registry
element) / the SDK registration's `Unregister` -/
inductive Unreg where
  | none | closure | sdk
deriving DecidableEq, Repr

inductive Frame where
  | idle
  | addLoaded (i v c : Nat) (d : Bool) -- Add/Record/Start: delegate loaded (d = it was non-nil), not yet forwarded;
                                       -- c = what the caller's context carries (0 = nothing, j+1 = span j): never read
  | unregTaken (r : Nat) (u : Unreg)   -- Unregister (current code): closure taken, unregMu released
  | oUnregHeld (r : Nat)               -- Unregister (original code): holds unregMu
  | iOnce                              -- SetMeterProvider: inside once.Do, before p.mtx.Lock
  | iProv                              -- holds p.mtx, p.delegate set, between meters
  | iMeterLocked (m : Nat)             -- holds m.mtx, before provider.Meter() returned   [gate point]
  | iInsts (m : Nat)                   -- m.delegate set; instrument loop, then registry loop
  | iRegLocked (m r : Nat)             -- registration.setDelegate: holds r.unregMu       [gate point]
  | iUnlocked                          -- p.mtx released, still inside once.Do
  | iStore                             -- once.Do returned, before globalMeterProvider.Store
  | cbRun (r o w : Nat)                -- the SDK, collecting for reader/collection o, is inside the wrapped callback of
                                       -- registration r (`unwrapCallback`'s closure); w = the `obs` field of the
                                       -- `*unwrapObs` that THIS invocation handed to the user function
deriving DecidableEq, Repr

inductive Act where
  | meterNew                 -- Meter(name), new name: Lock p.mtx; delegate == nil; insert; Unlock
  | meterGet                 -- Meter(name), known name or delegate != nil: Lock; lookup / delegate.Meter; Unlock
  | mk (m k : Nat)           -- instrument constructor (kind k of the 14) on placeholder meter m (whole critical section)
  | addLoad (i v c : Nat)    -- Add/Record/Start(ctx c): `i.delegate.Load()`
  | addFwd                   -- forward to the loaded delegate, or drop
  | reg (m : Nat)            -- RegisterCallback on placeholder meter m (whole critical section)
  | regPartial (m : Nat)     -- the same, naming own AND foreign observables: the SDK will register it for the own ones and
                             -- return an error as well (sdk/metric RegisterCallback: live Registration + error)
  | regBad (m : Nat)         -- RegisterCallback on a NOT yet delegated placeholder meter m naming an observable the SDK will
                             -- reject (an instrument of another meter): the placeholder accepts it silently
  | unregTake (r : Nat)      -- Unregister: Lock unregMu; unreg := c.unreg; c.unreg = nil; Unlock
  | unregCall                -- … then `unreg()` (closure: Lock m.mtx; registry.Remove; Unlock)
  | oUnregLock (r : Nat)     -- original Unregister: Lock unregMu (deferred unlock)
  | oUnregCall               -- original: c.unreg() under unregMu; c.unreg = nil; Unlock
  | instBegin                -- SetMeterProvider: once.Do entry (or fast path when done)
  | instLockProv             -- p.mtx.Lock; p.delegate = provider
  | instLockMeter (m : Nat)  -- next meter of `range p.meters`: m.mtx.Lock
  | instSetDel               -- meter := provider.Meter(…); m.delegate = meter
  | instInst (i : Nat)       -- next instrument of `range m.instruments`: inst.setDelegate(meter) (atomic store)
  | instRegLock              -- front of m.registry: r.unregMu.Lock
  | instRegBody              -- unreg == nil ? skip : RegisterCallback with the SDK, unreg = reg.Unregister; Unlock; registry.Remove
  | instMeterDone            -- m.instruments = nil; m.registry.Init(); m.mtx.Unlock
  | instProvUnlock           -- p.meters = nil; p.mtx.Unlock
  | instOnceDone             -- once.Do returns
  | instStore                -- globalMeterProvider.Store
  | selfSet                  -- SetMeterProvider(MeterProvider()) while the placeholder is still the global value:
                             -- `current == mp` guard: Error(…); return — before the once, nothing stored
  | cbBegin (r o : Nat)      -- the SDK invokes the callback it was given for registration r, with the Observer of
                             -- collection o: `unwrapCallback(f)(ctx, obs)` builds `&unwrapObs{obs: obs}` and calls f
  | cbObserve (i v : Nat)    -- inside f: `uo.ObserveInt64(inst i, v)` = `uo.obs.ObserveInt64(unwrap(inst i), v)`
  | cbEnd                    -- f returns
deriving DecidableEq, Repr

def upd {α : Type} (f : Nat → α) (k : Nat) (v : α) : Nat → α := fun x => if x = k then v else f x

/-- one observation made by the user function of registration `r` while it ran on behalf of collection `coll`:
it was delivered to the Observer of collection `target`, for instrument `inst` (`unwrapped` = the placeholder had a
delegate, so the SDK saw its own instrument; otherwise the SDK sees a foreign instrument and drops the value) -/
structure ObsEntry where
  r : Nat
  coll : Nat
  target : Nat
  inst : Nat
  v : Nat
  unwrapped : Bool
  own : Bool        -- the instrument belongs to the registration's meter (the SDK drops observations of any other)
deriving DecidableEq, Repr

structure St where
  onceOwner : Option Nat := none
  onceDone : Bool := false
  stored : Bool := false
  provOwner : Option Nat := none
  provDel : Bool := false
  nM : Nat := 0
  mOwner : Nat → Option Nat := fun _ => none
  mDel : Nat → Bool := fun _ => false
  mDone : Nat → Bool := fun _ => false
  pend : Nat → List Nat := fun _ => []        -- m.instruments (ids of placeholder instruments)
  registry : Nat → List Nat := fun _ => []    -- m.registry
  nI : Nat := 0
  iMeter : Nat → Nat := fun _ => 0
  iDel : Nat → Bool := fun _ => false
  iKind : Nat → Nat := fun _ => 0               -- which constructor made the instrument (never read by any label)
  nR : Nat := 0
  rMeter : Nat → Nat := fun _ => 0
  rOwner : Nat → Option Nat := fun _ => none
  rUnreg : Nat → Unreg := fun _ => .none
  sdkReg : Nat → Nat := fun _ => 0
  sdkUnreg : Nat → Nat := fun _ => 0
  tok : Nat → Bool := fun _ => false
  unregCalled : Nat → Bool := fun _ => false
  recorded : List (Nat × Nat) := []
  dropped : List (Nat × Nat) := []
  /-- ghost: observations made inside forwarded callbacks, newest first -/
  obsLog : List ObsEntry := []
  /-- the SDK will reject this registration (`RegisterCallback` returns an error) -/
  rBad : Nat → Bool := fun _ => false
  /-- the SDK will accept this registration AND return an error (some of its observables are foreign) -/
  rErr : Nat → Bool := fun _ => false
  /-- variant switch (never changed by a label; `false` = the code since fix c3e813c): `registration.setDelegate`
  returns on ANY error and drops a live Registration that came with it (former finding F50) — for the witness only -/
  dropOnErr : Bool := false
  /-- errors handed to the global error handler by `registration.setDelegate` -/
  handled : Nat := 0
  /-- variant switch (never changed by a label; `false` = the code as it is): the `*unwrapObs` is allocated once per
  wrapped callback and its `obs` field (`rWrap r`) overwritten by every invocation — kept for the witness only -/
  sharedWrap : Bool := false
  rWrap : Nat → Nat := fun _ => 0
  frame : Nat → Frame := fun _ => .idle

def St.init : St := {}

def allDone (s : St) : Bool := decide (∀ m, m < s.nM → s.mDone m = true)

def step (old : Bool) (s : St) (t : Nat) (a : Act) : Option St :=
  match a with
  | .meterNew =>
    if s.frame t = .idle ∧ s.provOwner = none ∧ s.provDel = false then
      -- the fields of meter `nM` still have their initial values (nothing touches an index ≥ nM)
      some { s with nM := s.nM + 1 }
    else none
  | .meterGet =>
    if s.frame t = .idle ∧ s.provOwner = none then some s else none
  | .mk m k =>
    if s.frame t = .idle ∧ m < s.nM ∧ s.mOwner m = none then
      if s.mDel m then
        -- `return m.delegate.Int64Counter(…)`: an SDK instrument is handed out
        some { s with nI := s.nI + 1, iMeter := upd s.iMeter s.nI m, iDel := upd s.iDel s.nI true,
                      iKind := upd s.iKind s.nI k }
      else
        some { s with nI := s.nI + 1, iMeter := upd s.iMeter s.nI m, iDel := upd s.iDel s.nI false,
                      iKind := upd s.iKind s.nI k,
                      pend := upd s.pend m (s.pend m ++ [s.nI]) }
    else none
  | .addLoad i v c =>
    if s.frame t = .idle ∧ i < s.nI then
      some { s with frame := upd s.frame t (.addLoaded i v c (s.iDel i)) }
    else none
  | .addFwd =>
    match s.frame t with
    | .addLoaded i v _ d =>
      if d then some { s with frame := upd s.frame t .idle, recorded := (i, v) :: s.recorded }
      else some { s with frame := upd s.frame t .idle, dropped := (i, v) :: s.dropped }
    | _ => none
  | .reg m =>
    if s.frame t = .idle ∧ m < s.nM ∧ s.mOwner m = none then
      if s.mDel m then
        -- `return m.delegate.RegisterCallback(…)`: the SDK registration itself is handed out
        some { s with nR := s.nR + 1, rMeter := upd s.rMeter s.nR m,
                      rUnreg := upd s.rUnreg s.nR .sdk, sdkReg := upd s.sdkReg s.nR 1,
                      sdkUnreg := upd s.sdkUnreg s.nR 0, tok := upd s.tok s.nR false,
                      unregCalled := upd s.unregCalled s.nR false }
      else
        some { s with nR := s.nR + 1, rMeter := upd s.rMeter s.nR m,
                      rUnreg := upd s.rUnreg s.nR .closure, sdkReg := upd s.sdkReg s.nR 0,
                      sdkUnreg := upd s.sdkUnreg s.nR 0, tok := upd s.tok s.nR false,
                      unregCalled := upd s.unregCalled s.nR false,
                      registry := upd s.registry m (s.registry m ++ [s.nR]) }
    else none
  | .regPartial m =>
    if s.frame t = .idle ∧ m < s.nM ∧ s.mOwner m = none ∧ s.mDel m = false then
      some { s with nR := s.nR + 1, rMeter := upd s.rMeter s.nR m,
                    rUnreg := upd s.rUnreg s.nR .closure, sdkReg := upd s.sdkReg s.nR 0,
                    sdkUnreg := upd s.sdkUnreg s.nR 0, tok := upd s.tok s.nR false,
                    unregCalled := upd s.unregCalled s.nR false, rBad := upd s.rBad s.nR false,
                    rErr := upd s.rErr s.nR true,
                    registry := upd s.registry m (s.registry m ++ [s.nR]) }
    else none
  | .regBad m =>
    if s.frame t = .idle ∧ m < s.nM ∧ s.mOwner m = none ∧ s.mDel m = false then
      some { s with nR := s.nR + 1, rMeter := upd s.rMeter s.nR m,
                    rUnreg := upd s.rUnreg s.nR .closure, sdkReg := upd s.sdkReg s.nR 0,
                    sdkUnreg := upd s.sdkUnreg s.nR 0, tok := upd s.tok s.nR false,
                    unregCalled := upd s.unregCalled s.nR false, rBad := upd s.rBad s.nR true,
                    rErr := upd s.rErr s.nR false,
                    registry := upd s.registry m (s.registry m ++ [s.nR]) }
    else none
  | .unregTake r =>
    if old = false ∧ s.frame t = .idle ∧ r < s.nR ∧ s.rOwner r = none then
      some { s with rUnreg := upd s.rUnreg r .none, unregCalled := upd s.unregCalled r true,
                    tok := upd s.tok r (s.tok r || decide (s.rUnreg r = .sdk)),
                    frame := upd s.frame t (.unregTaken r (s.rUnreg r)) }
    else none
  | .unregCall =>
    match s.frame t with
    | .unregTaken _ .none => some { s with frame := upd s.frame t .idle }
    | .unregTaken r .closure =>
      if s.mOwner (s.rMeter r) = none then
        some { s with registry := upd s.registry (s.rMeter r) ((s.registry (s.rMeter r)).erase r),
                      frame := upd s.frame t .idle }
      else none
    | .unregTaken r .sdk =>
      some { s with sdkUnreg := upd s.sdkUnreg r (s.sdkUnreg r + 1), tok := upd s.tok r false,
                    frame := upd s.frame t .idle }
    | _ => none
  | .oUnregLock r =>
    if old = true ∧ s.frame t = .idle ∧ r < s.nR ∧ s.rOwner r = none then
      some { s with rOwner := upd s.rOwner r (some t), unregCalled := upd s.unregCalled r true,
                    frame := upd s.frame t (.oUnregHeld r) }
    else none
  | .oUnregCall =>
    match s.frame t with
    | .oUnregHeld r =>
      match s.rUnreg r with
      | .none => some { s with rOwner := upd s.rOwner r none, frame := upd s.frame t .idle }
      | .closure =>
        if s.mOwner (s.rMeter r) = none then
          some { s with registry := upd s.registry (s.rMeter r) ((s.registry (s.rMeter r)).erase r),
                        rUnreg := upd s.rUnreg r .none, rOwner := upd s.rOwner r none,
                        frame := upd s.frame t .idle }
        else none
      | .sdk =>
        some { s with sdkUnreg := upd s.sdkUnreg r (s.sdkUnreg r + 1), rUnreg := upd s.rUnreg r .none,
                      rOwner := upd s.rOwner r none, frame := upd s.frame t .idle }
    | _ => none
  | .instBegin =>
    if s.frame t = .idle then
      if s.onceDone then some { s with frame := upd s.frame t .iStore }
      else if s.onceOwner = none then some { s with onceOwner := some t, frame := upd s.frame t .iOnce }
      else none
    else none
  | .instLockProv =>
    if s.frame t = .iOnce ∧ s.provOwner = none then
      some { s with provOwner := some t, provDel := true, frame := upd s.frame t .iProv }
    else none
  | .instLockMeter m =>
    if s.frame t = .iProv ∧ m < s.nM ∧ s.mDone m = false ∧ s.mOwner m = none then
      some { s with mOwner := upd s.mOwner m (some t), frame := upd s.frame t (.iMeterLocked m) }
    else none
  | .instSetDel =>
    match s.frame t with
    | .iMeterLocked m => some { s with mDel := upd s.mDel m true, frame := upd s.frame t (.iInsts m) }
    | _ => none
  | .instInst i =>
    match s.frame t with
    | .iInsts m =>
      if i ∈ s.pend m then
        some { s with iDel := upd s.iDel i true, pend := upd s.pend m ((s.pend m).erase i) }
      else none
    | _ => none
  | .instRegLock =>
    match s.frame t with
    | .iInsts m =>
      if s.pend m = [] then
        match s.registry m with
        | r :: _ =>
          if s.rOwner r = none then
            some { s with rOwner := upd s.rOwner r (some t), frame := upd s.frame t (.iRegLocked m r) }
          else none
        | [] => none
      else none
    | _ => none
  | .instRegBody =>
    match s.frame t with
    | .iRegLocked m r =>
      if s.rUnreg r = .none then
        -- "Unregister already called."
        some { s with rOwner := upd s.rOwner r none, registry := upd s.registry m ((s.registry m).erase r),
                      frame := upd s.frame t (.iInsts m) }
      else if s.rBad r then
        -- the SDK rejects the registration: `GetErrorHandler().Handle(err); return` — `unreg` keeps the pre-delegation
        -- closure, the element is removed from the registry all the same and the loop goes on with the next one
        some { s with rOwner := upd s.rOwner r none, registry := upd s.registry m ((s.registry m).erase r),
                      handled := s.handled + 1, frame := upd s.frame t (.iInsts m) }
      else if s.rErr r then
        -- the SDK registers the callback for its own observables and returns an error as well: the error is handled
        -- and the Registration is KEPT (`if reg == nil { return }`, fix c3e813c) …
        if s.dropOnErr then
          -- … before that fix: `return` on any error — the SDK holds the callback, `unreg` keeps the closure (F50)
          some { s with rOwner := upd s.rOwner r none, registry := upd s.registry m ((s.registry m).erase r),
                        sdkReg := upd s.sdkReg r (s.sdkReg r + 1), handled := s.handled + 1,
                        frame := upd s.frame t (.iInsts m) }
        else
          some { s with rOwner := upd s.rOwner r none, registry := upd s.registry m ((s.registry m).erase r),
                        rUnreg := upd s.rUnreg r .sdk, sdkReg := upd s.sdkReg r (s.sdkReg r + 1),
                        handled := s.handled + 1, frame := upd s.frame t (.iInsts m) }
      else
        some { s with rOwner := upd s.rOwner r none, registry := upd s.registry m ((s.registry m).erase r),
                      rUnreg := upd s.rUnreg r .sdk, sdkReg := upd s.sdkReg r (s.sdkReg r + 1),
                      frame := upd s.frame t (.iInsts m) }
    | _ => none
  | .instMeterDone =>
    match s.frame t with
    | .iInsts m =>
      if s.pend m = [] ∧ s.registry m = [] then
        some { s with mOwner := upd s.mOwner m none, mDone := upd s.mDone m true,
                      frame := upd s.frame t .iProv }
      else none
    | _ => none
  | .instProvUnlock =>
    if s.frame t = .iProv ∧ allDone s = true then
      some { s with provOwner := none, frame := upd s.frame t .iUnlocked }
    else none
  | .instOnceDone =>
    if s.frame t = .iUnlocked then
      some { s with onceOwner := none, onceDone := true, frame := upd s.frame t .iStore }
    else none
  | .instStore =>
    if s.frame t = .iStore then some { s with stored := true, frame := upd s.frame t .idle } else none
  | .selfSet =>
    -- the guard sits BEFORE `delegateMeterOnce.Do`: the once is not consumed, no field changes.
    -- (Once the SDK is stored, `current` is no placeholder and the call is an ordinary second
    -- SetMeterProvider = `instBegin` on the fast path.)
    if s.frame t = .idle ∧ s.stored = false then some s else none
  | .cbBegin r o =>
    -- only a callback the SDK was given (registration.setDelegate or RegisterCallback on a delegated meter, both
    -- through `unwrapCallback`) can be invoked; the SDK may invoke it from any number of collections at once
    if s.frame t = .idle ∧ r < s.nR ∧ 1 ≤ s.sdkReg r then
      if s.sharedWrap then some { s with rWrap := upd s.rWrap r o, frame := upd s.frame t (.cbRun r o o) }
      else some { s with frame := upd s.frame t (.cbRun r o o) }
    else none
  | .cbObserve i v =>
    match s.frame t with
    | .cbRun r o w =>
      if i < s.nI then
        some { s with obsLog := { r := r, coll := o, target := if s.sharedWrap then s.rWrap r else w,
                                  inst := i, v := v, unwrapped := s.iDel i,
                                  own := decide (s.iMeter i = s.rMeter r) } :: s.obsLog }
      else none
    | _ => none
  | .cbEnd =>
    match s.frame t with
    | .cbRun _ _ _ => some { s with frame := upd s.frame t .idle }
    | _ => none

/-- states reachable in variant `old` -/
inductive Reachable (old : Bool) : St → Prop where
  | init : Reachable old St.init
  | step {s s' : St} (t : Nat) (a : Act) : Reachable old s → step old s t a = some s' → Reachable old s'

/-- run a list of labels (used by the driver and by the witness) -/
def runLabels (old : Bool) (s : St) : List (Nat × Act) → Option St
  | [] => some s
  | (t, a) :: r => match step old s t a with
    | some s' => runLabels old s' r
    | none => none

theorem reachable_runLabels {old : Bool} {s s' : St} (l : List (Nat × Act))
    (hs : Reachable old s) (h : runLabels old s l = some s') : Reachable old s' := by
  induction l generalizing s with
  | nil => simp [runLabels] at h; exact h ▸ hs
  | cons x r ih =>
    obtain ⟨t, a⟩ := x
    simp only [runLabels] at h
    split at h
    · next s1 h1 => exact ih (Reachable.step t a hs h1) h
    · exact absurd h (by simp)

end Otel.C16
