/-
C08 — a reader's aggregation selector concerns that reader only (Bystander.lean).
-/
import Otel.C08.Bystander
import Otel.C08.Props
namespace Otel.C08
open Otel.C02

private theorem bstep_sys (x : BSys) (op : Op) : (x.step op).sys = x.sys.step op := by
  cases op <;> simp only [BSys.step]
  case record j a v => split <;> (try split) <;> rfl

/-- **A bystander reader has no effect.**  Whatever instrument kinds a third reader's aggregation selector drops and
whatever the history, the delta and the cumulative reader go through exactly the states — and report exactly the
records — of the twin model without it. -/
theorem bystander_reader_has_no_effect (is : List InstCfg) (slots : List (List Nat)) (drop : List Kind) (ops : List Op) :
    (BSys.run is slots drop ops).sys = Sys.run is slots ops := by
  have key : ∀ (ops : List Op) (x : BSys), (ops.foldl BSys.step x).sys = ops.foldl Sys.step x.sys := by
    intro ops
    induction ops with
    | nil => intro x; rfl
    | cons op l ih => intro x; rw [List.foldl_cons, List.foldl_cons, ih, bstep_sys]
  exact key ops (BSys.init is slots drop)

/-- … hence the whole oracle conjunction holds of the twin readers' records with a bystander present -/
theorem twin_all_clauses_with_bystander (is : List InstCfg) (slots : List (List Nat)) (drop : List Kind) (ops : List Op) :
    oracle is slots ops (modelORecs (BSys.run is slots drop ops).sys.recs) = true := by
  rw [bystander_reader_has_no_effect]
  exact twin_all_clauses is slots ops

/-- an instrument the bystander drops stays registerable (and observed) as long as the twin readers keep it: what the
bystander's selector says never makes `RegisterCallback` refuse an instrument the other readers aggregate -/
theorem bystander_drop_keeps_registerable (is : List InstCfg) (slots : List (List Nat)) (drop : List Kind) (j : Nat)
    (i : InstCfg) (hi : is[j]? = some i) (hlive : (match mkAgg i with | .off => false | _ => true) = true) :
    (BSys.init is slots drop).registerable j = true := by
  have hd : (Sys.init is slots).d[j]? = some (mkAgg i) := by simp [Sys.init, hi]
  simp only [BSys.registerable, BSys.init, hd]
  revert hlive
  cases mkAgg i <;> simp

/-! non-vacuity: the bystander drops observable counters; the twin readers still report the observation -/
example :
    let is : List InstCfg := [⟨false, .obsCounter, .dflt, false⟩]
    let ops := [Op.reg 0, .obs 0 1 5, .col]
    (BSys.run is [[0]] [.obsCounter] ops).b.all (fun g => match g with | .off => true | _ => false) = true ∧
    ((BSys.run is [[0]] [.obsCounter] ops).sys.recs.map fun r => r.2.2.length) = [1, 1] := by
  decide

end Otel.C08
