/-
C08 — the interval clause of the oracle holds of the model's own records for every history of operations:
(1) every point of every record of `Sys.run` carries the model times of its window (start = cycle for the delta reader,
0 = creation for the cumulative reader, time = cycle + 1); (2) for records with such stamps the flags computed by
`flagRecs` satisfy `Spec.deltaIntervalOK` / `Spec.cumulativeIntervalOK`.
-/
import Otel.C08.HistInterval
namespace Otel.C08
open Otel.C02 Otel.C08.Spec

/-! ### flags -/

/-- every point of every stream of every record carries the model times of its window, and no stream is empty -/
def StampsOK (recs : List (Nat × Bool × List Stream)) : Prop :=
  ∀ r ∈ recs, ∀ st ∈ r.2.2, st.pts ≠ [] ∧ ∀ p ∈ st.pts, p.start = (if r.2.1 then r.1 else 0) ∧ p.time = r.1 + 1

/-- every remembered earlier report carries the model times of its window -/
def PrevOK (prev : PrevMap) : Prop := ∀ e ∈ prev, e.2.2.2 = e.2.1 + 1 ∧ e.2.2.1 = (if e.1.1 then e.2.1 else 0)

theorem lookup_mem {α β : Type} [BEq α] [LawfulBEq α] (a : α) (l : List (α × β)) (b : β) (h : l.lookup a = some b) :
    (a, b) ∈ l := by
  induction l with
  | nil => simp [List.lookup] at h
  | cons p l ih =>
    obtain ⟨k, v⟩ := p
    rw [List.lookup_cons] at h
    by_cases hk : a == k
    · simp only [hk, Option.some.injEq] at h
      have : a = k := by simpa using hk
      subst this; subst h; exact List.mem_cons_self ..
    · have hk' : (a == k) = false := by simpa using hk
      simp only [hk'] at h
      exact List.mem_cons_of_mem _ (ih h)

theorem mkInterval_delta (pv : Option (Nat × Nat × Nat)) (cycle : Nat) (p0 : Pt PV) (pts : List (Pt PV))
    (hpv : ∀ c s t, pv = some (c, s, t) → t = c + 1)
    (h0 : p0.start = cycle ∧ p0.time = cycle + 1) (hall : ∀ q ∈ pts, q.start = cycle ∧ q.time = cycle + 1) :
    deltaIntervalOK cycle (mkInterval pv cycle p0 pts) = true := by
  have hu : (pts.all fun q => q.start == p0.start && q.time == p0.time) = true := by
    rw [List.all_eq_true]; intro q hq; simp [hall q hq, h0.1, h0.2]
  simp only [deltaIntervalOK, Bool.and_eq_true]
  refine ⟨⟨⟨⟨?_, ?_⟩, ?_⟩, ?_⟩, ?_⟩
  · simp [mkInterval, h0.1, h0.2]
  · simpa [mkInterval] using hu
  · simp [mkInterval, clsT, h0.2]
  · rcases pv with _ | ⟨c, s, t⟩
    · simp [mkInterval]
    · have := hpv c s t rfl
      by_cases hc : c + 1 = cycle
      · simp [mkInterval, hc, h0.1, this]
      · simp [mkInterval, hc]
  · by_cases hc : cycle = 0 <;> simp [mkInterval, clsT, h0.1, hc]

theorem mkInterval_cumulative (pv : Option (Nat × Nat × Nat)) (cycle : Nat) (p0 : Pt PV) (pts : List (Pt PV))
    (hpv : ∀ c s t, pv = some (c, s, t) → s = 0)
    (h0 : p0.start = 0 ∧ p0.time = cycle + 1) (hall : ∀ q ∈ pts, q.start = 0 ∧ q.time = cycle + 1) :
    cumulativeIntervalOK cycle (mkInterval pv cycle p0 pts) = true := by
  have hu : (pts.all fun q => q.start == p0.start && q.time == p0.time) = true := by
    rw [List.all_eq_true]; intro q hq; simp [hall q hq, h0.1, h0.2]
  simp only [cumulativeIntervalOK, Bool.and_eq_true]
  refine ⟨⟨⟨⟨?_, ?_⟩, ?_⟩, ?_⟩, ?_⟩
  · simp [mkInterval, h0.1]
  · simpa [mkInterval] using hu
  · simp [mkInterval, clsT, h0.2]
  · rcases pv with _ | ⟨c, s, t⟩
    · simp [mkInterval]
    · have := hpv c s t rfl
      simp [mkInterval, h0.1, this]
  · simp [mkInterval, clsT, h0.1]

/-- the interval predicate the oracle applies to a stream of a record -/
def ivOK (cycle : Nat) (delta : Bool) (iv : Interval) : Bool :=
  if delta then deltaIntervalOK cycle iv else cumulativeIntervalOK cycle iv

theorem flagStreams_ok (cycle : Nat) (delta : Bool) (prev : PrevMap) (streams : List Stream) (hp : PrevOK prev)
    (hs : ∀ st ∈ streams, ∀ p ∈ st.pts, p.start = (if delta then cycle else 0) ∧ p.time = cycle + 1) :
    PrevOK (flagStreams cycle delta prev streams).1 ∧
    ∀ ms ∈ (flagStreams cycle delta prev streams).2, ivOK cycle delta ms.iv = true := by
  induction streams generalizing prev with
  | nil => exact ⟨hp, by intro ms h; cases h⟩
  | cons st rest ih =>
    have hrest : ∀ st ∈ rest, ∀ p ∈ st.pts, p.start = (if delta then cycle else 0) ∧ p.time = cycle + 1 :=
      fun s hs' => hs s (List.mem_cons_of_mem _ hs')
    have hst := hs st (List.mem_cons_self ..)
    have hsorted : ∀ q ∈ sortPts st.pts, q.start = (if delta then cycle else 0) ∧ q.time = cycle + 1 :=
      fun q hq => hst q ((sortPts_perm st.pts).mem_iff.mp hq)
    cases hh : (sortPts st.pts).head? with
    | none => simp only [flagStreams, hh]; exact ih prev hp hrest
    | some p0 =>
      simp only [flagStreams, hh]
      have hp0mem : p0 ∈ sortPts st.pts := by
        obtain ⟨ys, hys⟩ := List.head?_eq_some_iff.mp hh
        rw [hys]; exact List.mem_cons_self ..
      have h0 := hsorted p0 hp0mem
      have hp' : PrevOK (((delta, st.inst), (cycle, p0.start, p0.time)) :: prev) := by
        intro e he
        rcases List.mem_cons.mp he with rfl | he
        · exact ⟨h0.2, h0.1⟩
        · exact hp e he
      obtain ⟨ih1, ih2⟩ := ih _ hp' hrest
      refine ⟨ih1, ?_⟩
      intro ms hms
      rcases List.mem_cons.mp hms with rfl | hms
      · simp only [ivOK]
        cases delta with
        | true =>
          simp only [if_true] at h0 hsorted ⊢
          apply mkInterval_delta _ _ _ _ _ h0 hsorted
          intro c s t hl
          exact (hp _ (lookup_mem _ _ _ hl)).1
        | false =>
          simp only [Bool.false_eq_true, if_false] at h0 hsorted ⊢
          apply mkInterval_cumulative _ _ _ _ _ h0 hsorted
          intro c s t hl
          have := (hp _ (lookup_mem _ _ _ hl)).2
          simpa using this
      · exact ih2 ms hms

theorem flagRecs_ok (prev : PrevMap) (recs : List (Nat × Bool × List Stream)) (hp : PrevOK prev) (hs : StampsOK recs) :
    ∀ rc ∈ flagRecs prev recs, ∀ ms ∈ rc.2.2, ivOK rc.1 rc.2.1 ms.iv = true := by
  induction recs generalizing prev with
  | nil => intro rc h; cases h
  | cons r rest ih =>
    obtain ⟨cycle, delta, streams⟩ := r
    have h1 := flagStreams_ok cycle delta prev streams hp
      (fun st hst p hpm => ((hs (cycle, delta, streams) (List.mem_cons_self ..) st hst).2 p hpm))
    intro rc hrc
    simp only [flagRecs] at hrc
    rcases List.mem_cons.mp hrc with rfl | hrc
    · exact h1.2
    · exact ih _ h1.1 (fun r hr => hs r (List.mem_cons_of_mem _ hr)) rc hrc

/-- records with the model's time stamps pass the oracle's interval clause -/
theorem intervalsOK_of_stamps (recs : List (Nat × Bool × List Stream)) (hs : StampsOK recs) :
    intervalsOK (modelORecs recs) = true := by
  simp only [intervalsOK, modelORecs, List.all_eq_true, List.mem_map]
  rintro r ⟨rc, hrc, rfl⟩ s hs'
  simp only [List.mem_map] at hs'
  obtain ⟨ms, hms, rfl⟩ := hs'
  have := flagRecs_ok [] recs (by intro e he; cases he) hs rc hrc ms hms
  simpa [ivOK] using this

/-! ### the model's records carry the model times -/

theorem collectAll_aggs (tp : Temporality) (t : Nat) (aggs : List Agg) (j : Nat) :
    (collectAll tp t aggs j).1 = aggs.map fun g => (g.collect tp t).1 := by
  induction aggs generalizing j with
  | nil => rfl
  | cons g gs ih => simp only [collectAll, List.map_cons, ih]

theorem collectAll_mem (tp : Temporality) (t : Nat) (aggs : List Agg) (j : Nat) :
    ∀ st ∈ (collectAll tp t aggs j).2, st.pts ≠ [] ∧ ∃ g ∈ aggs, st.pts = outPts (g.collect tp t).2 := by
  induction aggs generalizing j with
  | nil => intro st h; cases h
  | cons g gs ih =>
    intro st hst
    have ih' : ∀ st ∈ (collectAll tp t gs (j + 1)).2, st.pts ≠ [] ∧ ∃ g' ∈ g :: gs, st.pts = outPts (g'.collect tp t).2 := by
      intro st hst
      obtain ⟨h1, g', hg', h2⟩ := ih (j + 1) st hst
      exact ⟨h1, g', List.mem_cons_of_mem _ hg', h2⟩
    simp only [collectAll] at hst
    cases hout : (g.collect tp t).2 with
    | none => rw [hout] at hst; exact ih' st hst
    | some v =>
      obtain ⟨dt, pts⟩ := v
      rw [hout] at hst
      by_cases he : pts.isEmpty = true
      · simp only [he, if_true] at hst; exact ih' st hst
      · simp only [he] at hst
        rcases List.mem_cons.mp hst with rfl | hst
        · refine ⟨?_, g, List.mem_cons_self .., by simp [hout, outPts]⟩
          intro hnil; apply he; simp only [] at hnil; simp [hnil]
        · exact ih' st hst

theorem modify_all {α : Type} (P : α → Prop) (f : α → α) (hf : ∀ g, P g → P (f g)) (l : List α) (j : Nat)
    (h : ∀ g ∈ l, P g) : ∀ g ∈ l.modify j f, P g := by
  intro g hg
  obtain ⟨i, hi⟩ := List.getElem?_of_mem hg
  rw [List.getElem?_modify] at hi
  cases hl : l[i]? with
  | none => rw [hl] at hi; simp at hi
  | some g' =>
    rw [hl] at hi
    simp only [Option.map_eq_map, Option.map_some, Option.some.injEq] at hi
    have hg' : P g' := h g' (List.mem_of_getElem? hl)
    by_cases hji : j = i
    · simp only [hji, if_true] at hi; rw [← hi]; exact hf g' hg'
    · simp only [hji, if_false] at hi; rw [← hi]; exact hg'

theorem replay_all (P : Agg → Prop) (hP : ∀ g a x, P g → P (g.measure a x)) (cb : List Nat)
    (cur : List (Nat × Attr × Int)) (aggs : List Agg) (h : ∀ g ∈ aggs, P g) : ∀ g ∈ replay cb cur aggs, P g := by
  induction cur generalizing aggs with
  | nil => exact h
  | cons o l ih =>
    simp only [replay, List.foldl_cons] at ih ⊢
    by_cases ho : cb.contains o.1 = true
    · simp only [ho, if_true]
      exact ih _ (modify_all P _ (fun g hg => hP g _ _ hg) aggs o.1 h)
    · simp only [ho]; exact ih _ h

theorem callbacks_all (P : Agg → Prop) (hP : ∀ g a x, P g → P (g.measure a x)) (cbs : List (List Nat))
    (cur : List (Nat × Attr × Int)) (aggs : List Agg) (h : ∀ g ∈ aggs, P g) :
    ∀ g ∈ cbs.foldl (fun aggs cb => replay cb cur aggs) aggs, P g := by
  induction cbs generalizing aggs with
  | nil => exact h
  | cons cb cbs ih => simp only [List.foldl_cons]; exact ih _ (replay_all P hP cb cur aggs h)

/-- the aggregators of the reader after the callbacks of a collection ran -/
def Sys.fedAggs (s : Sys) (delta : Bool) : List Agg :=
  s.callbacks.foldl (fun aggs cb => replay cb s.cur aggs) (if delta then s.d else s.c)

theorem Sys.collectReader_recs (s : Sys) (delta : Bool) :
    (s.collectReader delta).recs = s.recs ++ [(s.cycle, delta,
      (collectAll (if delta then .delta else .cumulative) (s.cycle + 1) (s.fedAggs delta) 0).2)] := by
  cases delta <;> rfl

theorem Sys.collectReader_d (s : Sys) (delta : Bool) :
    (s.collectReader delta).d = if delta then (collectAll .delta (s.cycle + 1) (s.fedAggs true) 0).1 else s.d := by
  cases delta <;> rfl

theorem Sys.collectReader_c (s : Sys) (delta : Bool) :
    (s.collectReader delta).c = if delta then s.c else (collectAll .cumulative (s.cycle + 1) (s.fedAggs false) 0).1 := by
  cases delta <;> rfl

theorem Sys.collectReader_rest (s : Sys) (delta : Bool) :
    (s.collectReader delta).insts = s.insts ∧ (s.collectReader delta).slots = s.slots ∧
    (s.collectReader delta).regs = s.regs ∧ (s.collectReader delta).cur = s.cur ∧
    (s.collectReader delta).cycle = s.cycle := by
  cases delta <;> exact ⟨rfl, rfl, rfl, rfl, rfl⟩

/-- the model-time invariant of the twin-reader system -/
structure TimeInv (s : Sys) : Prop where
  d : ∀ g ∈ s.d, g.start = none ∨ g.start = some s.cycle
  c : ∀ g ∈ s.c, g.start = none ∨ g.start = some 0
  recs : StampsOK s.recs

theorem mkAgg_start (i : InstCfg) : (mkAgg i).start = none ∨ (mkAgg i).start = some 0 := by
  obtain ⟨f, k, sel, cb⟩ := i
  cases k <;> cases sel <;> simp [mkAgg, effectiveSel, Agg.start]

theorem timeInv_init (is : List InstCfg) (slots : List (List Nat)) : TimeInv (Sys.init is slots) where
  d := by
    intro g hg
    simp only [Sys.init, List.mem_map] at hg
    obtain ⟨i, _, rfl⟩ := hg
    exact mkAgg_start i
  c := by
    intro g hg
    simp only [Sys.init, List.mem_map] at hg
    obtain ⟨i, _, rfl⟩ := hg
    exact mkAgg_start i
  recs := by intro r hr; cases hr

theorem start_pres (v : Option Nat) : ∀ (g : Agg) (a : Attr) (x : Int), (g.start = none ∨ g.start = v) →
    ((g.measure a x).start = none ∨ (g.measure a x).start = v) := by
  intro g a x h; rw [Agg.start_measure]; exact h

/-- one reader's collection: new aggregators and the appended record carry the right stamps -/
theorem collect_stamps (tp : Temporality) (cycle : Nat) (v : Nat) (aggs : List Agg)
    (h : ∀ g ∈ aggs, g.start = none ∨ g.start = some v) :
    ∀ st ∈ (collectAll tp (cycle + 1) aggs 0).2, st.pts ≠ [] ∧ ∀ p ∈ st.pts, p.start = v ∧ p.time = cycle + 1 := by
  intro st hst
  obtain ⟨h1, g, hg, h2⟩ := collectAll_mem tp (cycle + 1) aggs 0 st hst
  refine ⟨h1, ?_⟩
  intro p hp
  rw [h2] at hp
  have := Agg.points_collect g tp (cycle + 1) p hp
  rcases h g hg with hs | hs
  · rw [hs] at this; simp at this
  · rw [hs] at this; exact ⟨by simpa using this.1, this.2⟩

theorem timeInv_step (s : Sys) (op : Op) (h : TimeInv s) : TimeInv (s.step op) := by
  cases op with
  | record j a v =>
    simp only [Sys.step]
    cases s.insts[j]? with
    | none => exact h
    | some i =>
      by_cases ha : i.kind.async = true
      · simp only [ha, if_true]; exact h
      · have ha' : i.kind.async = false := by simpa using ha
        simp only [ha', Bool.false_eq_true, if_false]
        exact { d := modify_all (fun g : Agg => g.start = none ∨ g.start = some s.cycle) _
                       (fun g hg => start_pres _ g a v hg) s.d j h.d,
                c := modify_all (fun g : Agg => g.start = none ∨ g.start = some 0) _
                       (fun g hg => start_pres _ g a v hg) s.c j h.c,
                recs := h.recs }
  | obs j a v => exact { d := h.d, c := h.c, recs := h.recs }
  | reg k =>
    simp only [Sys.step]
    by_cases hk : k < s.slots.length
    · simp only [hk, if_true]; exact { d := h.d, c := h.c, recs := h.recs }
    · simp only [hk, if_false]; exact h
  | unreg k => exact { d := h.d, c := h.c, recs := h.recs }
  | col =>
    simp only [Sys.step]
    have r1 := Sys.collectReader_rest s true
    have hfd : ∀ g ∈ s.fedAggs true, g.start = none ∨ g.start = some s.cycle :=
      callbacks_all (fun g => g.start = none ∨ g.start = some s.cycle) (start_pres _) _ _ _ h.d
    have hfc : ∀ g ∈ (s.collectReader true).fedAggs false, g.start = none ∨ g.start = some 0 := by
      unfold Sys.fedAggs
      apply callbacks_all (fun g => g.start = none ∨ g.start = some 0) (start_pres _)
      simp only [Bool.false_eq_true, if_false, Sys.collectReader_c, if_true]; exact h.c
    refine { d := ?_, c := ?_, recs := ?_ }
    · simp only [Sys.collectReader_d, Bool.false_eq_true, if_false, if_true, Sys.collectReader_rest]
      rw [collectAll_aggs]
      intro g hg
      simp only [List.mem_map] at hg
      obtain ⟨g', hg', rfl⟩ := hg
      rw [Agg.start_collect_delta]
      rcases hfd g' hg' with h1 | h1 <;> simp [h1]
    · simp only [Sys.collectReader_c, Bool.false_eq_true, if_false]
      rw [collectAll_aggs]
      intro g hg
      simp only [List.mem_map] at hg
      obtain ⟨g', hg', rfl⟩ := hg
      rw [Agg.start_collect_cumulative]
      exact hfc g' hg'
    · simp only [Sys.collectReader_recs, r1.2.2.2.2]
      intro r hr
      simp only [List.mem_append, List.mem_singleton] at hr
      rcases hr with (hr | rfl) | rfl
      · exact h.recs r hr
      · intro st hst
        simpa using collect_stamps .delta s.cycle s.cycle _ hfd st hst
      · intro st hst
        simpa using collect_stamps .cumulative s.cycle 0 _ hfc st hst

theorem timeInv_run (is : List InstCfg) (slots : List (List Nat)) (ops : List Op) : TimeInv (Sys.run is slots ops) := by
  unfold Sys.run
  induction ops using snoc_induction with
  | hnil => exact timeInv_init is slots
  | hsnoc l op ih => rw [List.foldl_append]; exact timeInv_step _ op ih

end Otel.C08
