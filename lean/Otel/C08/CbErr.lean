/-
C08 — callback errors and point self-consistency (core Lean only; used by the driver and by Props.lean).

`pipeline.produce` JOINS the errors returned by the observable callbacks and carries on: every compute function
runs, the ResourceMetrics is filled, and the joined error is returned TOGETHER with the data
(pipeline.go:128-182; `ManualReader.Collect` hands both to the caller).  So a failing callback changes the error
status of the collection and nothing else.  The twin model `Sys` knows nothing about errors; this file wraps it:
`XOp.cberr` makes the callbacks of the next cycle fail (after they made their observations).
-/
import Otel.C08.Oracle
namespace Otel.C08
open Otel.C02

inductive XOp where
  | op (o : Op)
  /-- every callback that runs in the next cycle returns an error after making its observations -/
  | cberr
  /-- the contexts of the next cycle's collections are cancelled while instrument `j` is being aggregated.
  `pipeline.produce` consults `ctx.Err()` only in the callback loops (pipeline.go:128-153), never in the aggregation
  loop: the collection completes, returns all its data and (callback errors aside) a nil error — no effect at all. -/
  | cancelAt (j : Nat)
deriving Repr

/-- does a callback really exist in the pipelines?  An instrument-level callback is added only when the instrument
got an aggregate function (meter.go:141-168: error ⇒ return, drop ⇒ continue, before `addCallback`); a
`RegisterCallback` registration is a no-op unless at least one of its instruments is registerable (meter.go:480-545). -/
def liveInst (is : List InstCfg) (j : Nat) : Bool :=
  match is[j]? with
  | some i => i.kind.async && (match mkAgg i with | .off => false | _ => true)
  | none => false

def Sys.hasLiveCallback (s : Sys) : Bool :=
  ((List.range s.insts.length).any fun j =>
      liveInst s.insts j && (match s.insts[j]? with | some i => i.cb | none => false)) ||
  s.regs.any fun k => ((s.slots[k]?).getD []).any fun j => liveInst s.insts j

structure XSys where
  sys : Sys
  failNext : Bool := false
  /-- error status of every collection, in the order of `sys.recs`: (cycle, reader is delta, Collect returned an error) -/
  errs : List (Nat × Bool × Bool) := []
deriving Repr

def XSys.step (x : XSys) : XOp → XSys
  | .cberr => { x with failNext := true }
  | .cancelAt _ => x
  | .op .col =>
    let e := x.failNext && x.sys.hasLiveCallback
    { sys := x.sys.step .col, failNext := false
      errs := x.errs ++ [(x.sys.cycle, true, e), (x.sys.cycle, false, e)] }
  | .op o => { x with sys := x.sys.step o }

def XSys.run (is : List InstCfg) (slots : List (List Nat)) (xs : List XOp) : XSys :=
  xs.foldl XSys.step { sys := Sys.init is slots }

/-- the history without the error script -/
def eraseErr (xs : List XOp) : List Op :=
  xs.filterMap fun
    | .op o => some o
    | .cberr => none
    | .cancelAt _ => none

/-! ### self-consistency of a reported histogram point (explicit or exponential): the bucket counts add up to Count -/

/-- vector `count :: sum :: bucket counts` -/
def vecSelfConsistent : Spec.Vec → Bool
  | c :: _ :: counts => c == counts.foldl (· + ·) 0
  | _ => true

/-- every histogram / exponential-histogram point of every observed record -/
def pointsSelfConsistent (recs : List ORec) : Bool :=
  recs.all fun r => r.streams.all fun s =>
    !(s.ty.startsWith "H" || s.ty.startsWith "X") || s.pts.all fun p => vecSelfConsistent p.2

/-! ### Min / Max of histogram points (reference semantics, independent of the aggregator model)

The aggregator model does not report Min/Max (`PV.hist` carries count, sum, buckets).  What the implementation reports is
judged against this reference: a delta point carries the smallest and largest value that reached the instrument for
that attribute set in the cycle, a cumulative point those of all cycles so far; with `NoMinMax` both are absent
(`metricdata.Extrema` without a value — also when the destination point is recycled memory, F40). -/

/-- values that reached instrument `j` in a cycle, as (attribute, value): synchronous records for synchronous
instruments, the observations replayed by the callbacks registered for it for observable ones -/
def cycleValues (insts : List InstCfg) (c : CycleIn) (j : Nat) : List (Nat × Int) :=
  match insts[j]? with
  | some i => if i.kind.async then effObs c j else (c.recorded.filter (·.1 == j)).map (·.2)
  | none => []

def extremaOf (vals : List (Nat × Int)) (a : Nat) : Option (Int × Int) :=
  match (vals.filter (·.1 == a)).map (·.2) with
  | [] => none
  | v :: vs => some (vs.foldl min v, vs.foldl max v)

/-- expected Min/Max of the point of attribute `a` reported for instrument `j` at cycle `k` -/
def refExtrema (insts : List InstCfg) (noMM : List Bool) (cyc : List CycleIn) (j k : Nat) (delta : Bool) (a : Nat) :
    Option (Int × Int) :=
  if noMM.getD j false then none
  else
    let cs := if delta then (cyc.drop k).take 1 else cyc.take (k + 1)
    extremaOf (cs.flatMap fun c => cycleValues insts c j) a

/-- the instrument's histogram aggregation does not collect a sum (up-down counters, gauges) -/
def noSumInst (insts : List InstCfg) (j : Nat) : Bool :=
  match insts[j]? with
  | some i => (match mkAgg i with | .hist h => h.noSum | .expo h => h.noSum | _ => false)
  | none => false

def renderExtrema : Option (Int × Int) → String
  | none => "-"
  | some (lo, hi) => s!"{lo}~{hi}"

end Otel.C08
