/-
C08 — callback errors and point self-consistency (core Lean only; used by the driver and by Props.lean).

`pipeline.produce` JOINS the errors returned by the observable callbacks and carries on: every compute function
runs, the ResourceMetrics is filled, and the joined error is returned TOGETHER with the data
(pipeline.go:128-182; `ManualReader.Collect` hands both to the caller).  So a failing callback changes the error
status of the collection and nothing else.  The twin model `Sys` knows nothing about errors; this file wraps it:
`XOp.cberr` makes the callbacks of the next cycle fail (after they made their observations).
-/
import Otel.C08.Oracle
namespace Otel.C08
open Otel.C02

inductive XOp where
  | op (o : Op)
  /-- every callback that runs in the next cycle returns an error after making its observations -/
  | cberr
deriving Repr

/-- does a callback really exist in the pipelines?  An instrument-level callback is added only when the instrument
got an aggregate function (meter.go:141-168: error ⇒ return, drop ⇒ continue, before `addCallback`); a
`RegisterCallback` registration is a no-op unless at least one of its instruments is registerable (meter.go:480-545). -/
def liveInst (is : List InstCfg) (j : Nat) : Bool :=
  match is[j]? with
  | some i => i.kind.async && (match mkAgg i with | .off => false | _ => true)
  | none => false

def Sys.hasLiveCallback (s : Sys) : Bool :=
  ((List.range s.insts.length).any fun j =>
      liveInst s.insts j && (match s.insts[j]? with | some i => i.cb | none => false)) ||
  s.regs.any fun k => ((s.slots[k]?).getD []).any fun j => liveInst s.insts j

structure XSys where
  sys : Sys
  failNext : Bool := false
  /-- error status of every collection, in the order of `sys.recs`: (cycle, reader is delta, Collect returned an error) -/
  errs : List (Nat × Bool × Bool) := []
deriving Repr

def XSys.step (x : XSys) : XOp → XSys
  | .cberr => { x with failNext := true }
  | .op .col =>
    let e := x.failNext && x.sys.hasLiveCallback
    { sys := x.sys.step .col, failNext := false
      errs := x.errs ++ [(x.sys.cycle, true, e), (x.sys.cycle, false, e)] }
  | .op o => { x with sys := x.sys.step o }

def XSys.run (is : List InstCfg) (slots : List (List Nat)) (xs : List XOp) : XSys :=
  xs.foldl XSys.step { sys := Sys.init is slots }

/-- the history without the error script -/
def eraseErr (xs : List XOp) : List Op :=
  xs.filterMap fun
    | .op o => some o
    | .cberr => none

/-! ### self-consistency of a reported histogram point (explicit or exponential): the bucket counts add up to Count -/

/-- vector `count :: sum :: bucket counts` -/
def vecSelfConsistent : Spec.Vec → Bool
  | c :: _ :: counts => c == counts.foldl (· + ·) 0
  | _ => true

/-- every histogram / exponential-histogram point of every observed record -/
def pointsSelfConsistent (recs : List ORec) : Bool :=
  recs.all fun r => r.streams.all fun s =>
    !(s.ty.startsWith "H" || s.ty.startsWith "X") || s.pts.all fun p => vecSelfConsistent p.2

/-! ### the Sum field of a histogram point whose instrument does not collect a sum

For up-down counters and gauges (synchronous or observable) the histogram aggregations are built with `noSum`
(pipeline.go:502-520) and `histogram.delta/cumulative`, `expoHistogram.delta/cumulative` then simply do not WRITE the
`Sum` field of the destination point (`if !s.noSum { hDPts[i].Sum = val.total }`).  The destination points are
recycled memory of the caller's ResourceMetrics, so with a reused ResourceMetrics the field keeps whatever the
previous occupant of that slot stored (finding reported by the C08 builder; nondeterministic through map iteration
order, hence not modellable).  The driver therefore treats that field as NOT OBSERVED: it is set to 0 before the
comparison with the model and before the oracle, and a branch tag counts how often a non-zero value was seen. -/

def noSumInst (is : List InstCfg) (j : Nat) : Bool :=
  match is[j]? with
  | some i => (match mkAgg i with | .hist h => h.noSum | .expo h => h.noSum | _ => false)
  | none => false

def zeroSum : Spec.Vec → Spec.Vec
  | c :: _ :: counts => c :: 0 :: counts
  | v => v

def normStream (insts : List InstCfg) (s : OStream) : OStream :=
  match noSumInst insts s.inst with
  | true => { s with pts := s.pts.map fun p => (p.1, zeroSum p.2) }
  | false => s

def normalizeNoSum (insts : List InstCfg) (recs : List ORec) : List ORec :=
  recs.map fun r => { r with streams := r.streams.map (normStream insts) }

end Otel.C08
