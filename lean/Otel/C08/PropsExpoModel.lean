/-
C08 — the bucket-level twin equation of exponential histograms, proved for C07's model of the data point.

Feed the cycles of a history to `Otel.C07.run` (the model of `expoHistogramDataPoint.record` with its rescaling) — all of
them to ONE cumulative point, each cycle to a FRESH delta point.  If the index function is coherent across scales and no
value is left out by the scale-underflow return, then after rescaling everything to the common scale the cumulative
buckets are, bucket by bucket and for both signs, the sum of the delta buckets: `XB.twinBucketsAt`, the very predicate the
driver evaluates on the implementation's points.
-/
import Otel.C08.PropsExpo
import Otel.C07.LemmasPlace
namespace Otel.C08.XB
open Otel.C07 Otel.C07.Spec

/-- the bucket index (at scale `s`) a measurement contributes to the buckets of sign `sg`, if any -/
def binOf (L : Int → Val → Int) (s : Int) (sg : Bool) : Option Val → Option Int
  | some v => if v.mant = 0 then none else if v.neg = sg then some (getBin L s v) else none
  | none => none

def bins (L : Int → Val → Int) (s : Int) (sg : Bool) (vs : List (Option Val)) : List Int := vs.filterMap (binOf L s sg)

private theorem bins_append (L : Int → Val → Int) (s : Int) (sg : Bool) (a b : List (Option Val)) :
    bins L s sg (a ++ b) = bins L s sg a ++ bins L s sg b := by simp [bins, List.filterMap_append]

private theorem bins_shift (L : Int → Val → Int) (hL : Coherent L) (s : Int) (δ : Nat) (sg : Bool) (vs : List (Option Val)) :
    bins L (s - (δ : Int)) sg vs = (bins L s sg vs).map (fun j : Int => j >>> δ) := by
  induction vs with
  | nil => rfl
  | cons o r ih =>
    simp only [bins, List.filterMap_cons] at ih ⊢
    cases o with
    | none => simpa [binOf] using ih
    | some v =>
      simp only [binOf]
      by_cases hz : v.mant = 0
      · simpa [hz] using ih
      · by_cases hs : v.neg = sg
        · simp only [hz, hs, if_false, if_true, List.map_cons, ih, hL s δ v]
        · simpa [hz, hs] using ih

/-- a value was left out by the scale-underflow return -/
def Dropped : Out → Prop
  | .val _ _ _ _ _ false => True
  | _ => False

/-- the run-level invariant: C07's placement invariant, and — as long as nothing was dropped — the log of final indexes is
the list of the measurements' indexes at the current scale -/
private def TInv (L : Int → Val → Int) (vs0 : List (Option Val)) (p : Expo) (outs : List Out) : Prop :=
  PInv p outs ∧ ((∀ o ∈ outs, ¬ Dropped o) → ∀ sg, outs.filterMap (finalIdx sg p.scale) = bins L p.scale sg vs0)

private theorem recordBin_scale (p : Expo) (v : Val) (b : Int) : (p.recordBin v b).scale = p.scale := by
  unfold Expo.recordBin Expo.countMinMaxSum; split <;> rfl

private theorem tinv_skip (L : Int → Val → Int) {vs0 : List (Option Val)} {p : Expo} {outs : List Out}
    (h : TInv L vs0 p outs) : TInv L (vs0 ++ [none]) p (outs ++ [Out.skipped]) := by
  refine ⟨h.1.skip, fun hnd sg => ?_⟩
  have e := h.2 (fun o ho => hnd o (List.mem_append_left _ ho)) sg
  rw [List.filterMap_append, bins_append, e]; rfl

private theorem tinv_step (L : Int → Val → Int) (hL : Coherent L) (ms : Nat) {vs0 : List (Option Val)} {p : Expo}
    {outs : List Out} (h : TInv L vs0 p outs) (v : Val) :
    TInv L (vs0 ++ [some v]) (record L ms p v).1 (outs ++ [(record L ms p v).2]) := by
  refine ⟨h.1.step L ms v, fun hnd sg => ?_⟩
  have e := h.2 (fun o ho => hnd o (List.mem_append_left _ ho)) sg
  have hlast : ¬ Dropped (record L ms p v).2 := hnd _ (List.mem_append_right _ (List.mem_singleton.2 rfl))
  by_cases hz : v.mant = 0
  · have hrec : record L ms p v = ({ p.countMinMaxSum v with zero := p.zero + 1 }, .zero) := by
      simp [record, hz]
    rw [hrec]
    simp only [List.filterMap_append, bins_append, List.filterMap_cons, List.filterMap_nil, finalIdx, List.append_nil]
    have hs : ({ p.countMinMaxSum v with zero := p.zero + 1 } : Expo).scale = p.scale := rfl
    rw [hs, e]
    simp [bins, binOf, hz]
  · by_cases hδ : scaleChange ms (getBin L p.scale v) (p.bucketOf v.neg).start (p.bucketOf v.neg).counts.length > 0
    · by_cases hu : p.scale - ((scaleChange ms (getBin L p.scale v) (p.bucketOf v.neg).start (p.bucketOf v.neg).counts.length : Nat) : Int) < expoMinScale
      · have hrec : (record L ms p v).2 = .val v.neg p.scale (getBin L p.scale v) p.scale (getBin L p.scale v) false := by
          simp [record, hz, hδ, hu]
        rw [hrec] at hlast
        exact absurd trivial hlast
      · generalize hd : scaleChange ms (getBin L p.scale v) (p.bucketOf v.neg).start (p.bucketOf v.neg).counts.length = δ at hδ hu
        have hrec : record L ms p v = ((p.rescale δ).recordBin v (getBin L (p.scale - (δ : Int)) v),
            .val v.neg p.scale (getBin L p.scale v) (p.scale - (δ : Int)) (getBin L (p.scale - (δ : Int)) v) true) := by
          simp [record, hz, hd, hδ, hu]
        rw [hrec]
        have hs : ((p.rescale δ).recordBin v (getBin L (p.scale - (δ : Int)) v)).scale = p.scale - (δ : Int) := by
          rw [recordBin_scale]; rfl
        simp only [hs, List.filterMap_append, bins_append, List.filterMap_cons, List.filterMap_nil]
        have hshift : outs.filterMap (finalIdx sg (p.scale - (δ : Int))) =
            (outs.filterMap (finalIdx sg p.scale)).map (fun j : Int => j >>> δ) := by
          rw [List.map_filterMap]
          apply filterMap_congr'
          intro o ho
          rw [finalIdx_shift sg p.scale δ o (fun n sb ib sa ia he => h.1.sa_ge n sb ib sa ia (he ▸ ho))]
        rw [hshift, e, ← bins_shift L hL]
        congr 1
        by_cases hsg : v.neg = sg
        · simp [finalIdx, bins, binOf, hz, hsg]
        · have : (v.neg == sg) = false := by simpa using hsg
          simp [finalIdx, bins, binOf, hz, hsg, this]
    · have hrec : record L ms p v = (p.recordBin v (getBin L p.scale v),
          .val v.neg p.scale (getBin L p.scale v) p.scale (getBin L p.scale v) true) := by
        simp [record, hz, hδ]
      rw [hrec]
      simp only [recordBin_scale, List.filterMap_append, bins_append, List.filterMap_cons, List.filterMap_nil, e]
      congr 1
      by_cases hsg : v.neg = sg
      · simp [finalIdx, bins, binOf, hz, hsg]
      · have : (v.neg == sg) = false := by simpa using hsg
        simp [finalIdx, bins, binOf, hz, hsg, this]

private theorem tinv_run (L : Int → Val → Int) (hL : Coherent L) (ms : Nat) (vs : List (Option Val)) :
    ∀ (vs0 : List (Option Val)) (p : Expo) (acc : List Out), TInv L vs0 p acc →
      TInv L (vs0 ++ vs) (vs.foldl (measure L ms) (p, acc)).1 (vs.foldl (measure L ms) (p, acc)).2 := by
  induction vs with
  | nil => intro vs0 p acc h; simpa using h
  | cons v r ih =>
    intro vs0 p acc h
    rw [List.foldl_cons]
    have e : vs0 ++ v :: r = (vs0 ++ [v]) ++ r := by simp
    rw [e]
    cases v with
    | none => exact ih _ p _ (tinv_skip L h)
    | some v => exact ih _ _ _ (tinv_step L hL ms h v)

/-- every bucket of a run that dropped nothing is the number of its measurements whose index AT THE FINAL SCALE is that
bucket (C07's `expo_placement_get` with the recorded indexes resolved through coherence) -/
theorem run_get_bins (L : Int → Val → Int) (hL : Coherent L) (ms : Nat) (maxScale : Int) (vs : List (Option Val))
    (hnd : ∀ o ∈ (run L ms maxScale vs).2, ¬ Dropped o) (sg : Bool) (i : Int) :
    Buckets.get ((run L ms maxScale vs).1.bucketOf sg) i = (bins L (run L ms maxScale vs).1.scale sg vs).count i := by
  have h := tinv_run L hL ms vs [] (Expo.init maxScale) [] ⟨PInv.init maxScale, fun _ sg => by simp [bins]⟩
  simp only [List.nil_append] at h
  have := h.1.place sg i
  rw [h.2 hnd sg] at this
  exact this

/-- … and rescaled to any coarser scale `s` it is the number of measurements whose index at `s` is that bucket -/
theorem run_downTo_bins (L : Int → Val → Int) (hL : Coherent L) (ms : Nat) (maxScale : Int) (vs : List (Option Val))
    (hnd : ∀ o ∈ (run L ms maxScale vs).2, ¬ Dropped o) (s : Int) (hs : s ≤ (run L ms maxScale vs).1.scale)
    (sg : Bool) (i : Int) :
    Buckets.get (((run L ms maxScale vs).1.bucketOf sg).downscale ((run L ms maxScale vs).1.scale - s).toNat) i =
      (bins L s sg vs).count i := by
  rw [downscale_tracks _ _ _ (run_get_bins L hL ms maxScale vs hnd sg)]
  rw [← bins_shift L hL]
  congr 2
  omega

private theorem commonScale_le (c : XPt) (ds : List XPt) :
    commonScale c ds ≤ c.scale ∧ ∀ d ∈ ds, commonScale c ds ≤ d.scale := by
  unfold commonScale
  have key : ∀ (ds : List XPt) (z : Int),
      ds.foldl (fun s d => min s d.scale) z ≤ z ∧ ∀ d ∈ ds, ds.foldl (fun s d => min s d.scale) z ≤ d.scale := by
    intro ds
    induction ds with
    | nil => intro z; exact ⟨Int.le_refl _, fun _ h => by simp at h⟩
    | cons d r ih =>
      intro z
      have := ih (min z d.scale)
      simp only [List.foldl_cons]
      refine ⟨by have := this.1; omega, fun d' hd' => ?_⟩
      rcases List.mem_cons.1 hd' with rfl | hr
      · have := this.1; omega
      · exact this.2 d' hr
  exact key ds c.scale

private theorem count_flatten_bins (L : Int → Val → Int) (s : Int) (sg : Bool) (cycles : List (List (Option Val))) (i : Int)
    (bs : List Buckets) (hlen : bs.length = cycles.length)
    (hb : ∀ k (hk : k < cycles.length), Buckets.get (bs[k]'(by omega)) i = (bins L s sg cycles[k]).count i) :
    (bins L s sg cycles.flatten).count i = sumGet bs i := by
  induction cycles generalizing bs with
  | nil => cases bs with
    | nil => simp [bins, sumGet]
    | cons b r => simp at hlen
  | cons vs rest ih =>
    cases bs with
    | nil => simp at hlen
    | cons b r =>
      simp only [List.flatten_cons, bins_append, List.count_append, sumGet]
      have h0 := hb 0 (by simp)
      simp only [List.getElem_cons_zero] at h0
      rw [h0, ih r (by simpa using hlen) (fun k hk => by
        have := hb (k + 1) (by simp; omega)
        simpa using this)]

/-- **Model-level twin equation at bucket level** (was `expo_twin_buckets_model_statement`).  For every index function
that is coherent across scales, every bucket limit and maximum scale, and every history of cycles none of whose runs
drops a value: the cumulative point over all cycles and the fresh delta points of the single cycles satisfy
`twinBucketsAt` — after rescaling to the common scale the cumulative buckets are the bucket-wise sum of the delta buckets,
for the positive and for the negative range. -/
theorem expo_twin_buckets_model (L : Int → Val → Int) (hL : Coherent L) (maxSize : Nat) (maxScale : Int)
    (cycles : List (List (Option Val)))
    (hc : ∀ o ∈ (run L maxSize maxScale cycles.flatten).2, ¬ Dropped o)
    (hd : ∀ vs ∈ cycles, ∀ o ∈ (run L maxSize maxScale vs).2, ¬ Dropped o) :
    twinBucketsAt (cycles.map fun vs => ofExpo (run L maxSize maxScale vs).1)
      (ofExpo (run L maxSize maxScale cycles.flatten).1) = true := by
  unfold twinBucketsAt
  generalize hs : commonScale (ofExpo (run L maxSize maxScale cycles.flatten).1)
    (cycles.map fun vs => ofExpo (run L maxSize maxScale vs).1) = s
  have hle := commonScale_le (ofExpo (run L maxSize maxScale cycles.flatten).1)
    (cycles.map fun vs => ofExpo (run L maxSize maxScale vs).1)
  rw [hs] at hle
  have side : ∀ sg : Bool, ∀ i,
      Buckets.get (((run L maxSize maxScale cycles.flatten).1.bucketOf sg).downscale
        ((run L maxSize maxScale cycles.flatten).1.scale - s).toNat) i =
      sumGet (cycles.map fun vs => ((run L maxSize maxScale vs).1.bucketOf sg).downscale
        ((run L maxSize maxScale vs).1.scale - s).toNat) i := by
    intro sg i
    rw [run_downTo_bins L hL maxSize maxScale _ hc s hle.1 sg i]
    apply count_flatten_bins L s sg cycles i _ (by simp)
    intro k hk
    simp only [List.getElem_map]
    exact run_downTo_bins L hL maxSize maxScale _ (hd _ (List.getElem_mem hk)) s
      (hle.2 _ (List.mem_map.2 ⟨cycles[k], List.getElem_mem hk, rfl⟩)) sg i
  simp only [Bool.and_eq_true, sameAt_iff, XPt.downTo, ofExpo, List.map_map, Function.comp_def]
  exact ⟨fun i => by simpa [Expo.bucketOf] using side false i, fun i => by simpa [Expo.bucketOf] using side true i⟩

/-- non-vacuity (the integer index computation of the non-positive scales, maximum scale 0, at most 4 buckets): two
cycles whose delta points end at scales 0 and -1 while the cumulative point ends at scale -2 -/
example :
    let L : Int → Val → Int := fun _ _ => 0
    let cycles : List (List (Option Val)) := [[some (ofInt 3), some (ofInt 5), some (ofInt (-9))], [some (ofInt 200), some (ofInt 3), none, some (ofInt 0)]]
    twinBucketsAt (cycles.map fun vs => ofExpo (run L 4 0 vs).1) (ofExpo (run L 4 0 cycles.flatten).1) = true ∧
    (cycles.map fun vs => (run L 4 0 vs).1.scale) = [0, -1] ∧ (run L 4 0 cycles.flatten).1.scale = -1 := by
  decide

end Otel.C08.XB
