/-
C08 — history-level lemmas: vectors and reports (Spec side), value maps, one instrument's history as a list of
cycles (`Agg.runCycles`), and the proofs that the Spec history predicates hold of the model's own reports.
-/
import Otel.C08.Oracle
import Otel.C08.Basics
namespace Otel.C08
open Otel.C02 Otel.C08.Spec

/-! ### vectors (Spec.Vec): component view -/

/-- `i`-th component, missing components are 0 -/
def vnth (v : Vec) (i : Nat) : Int := v[i]?.getD 0

@[simp] theorem vnth_nil (i : Nat) : vnth [] i = 0 := by simp [vnth]
@[simp] theorem vnth_cons_zero (x : Int) (xs : Vec) : vnth (x :: xs) 0 = x := by simp [vnth]
@[simp] theorem vnth_cons_succ (x : Int) (xs : Vec) (i : Nat) : vnth (x :: xs) (i + 1) = vnth xs i := by simp [vnth]

theorem all_zero_iff (l : Vec) : l.all (· == 0) = true ↔ ∀ i, vnth l i = 0 := by
  induction l with
  | nil => simp
  | cons x xs ih =>
    simp only [List.all_cons, Bool.and_eq_true, beq_iff_eq, ih]
    constructor
    · rintro ⟨h0, h⟩ i
      cases i with
      | zero => simpa using h0
      | succ i => simpa using h i
    · intro h
      exact ⟨by simpa using h 0, fun i => by simpa using h (i + 1)⟩

theorem veq_iff (x y : Vec) : veq x y = true ↔ ∀ i, vnth x i = vnth y i := by
  induction x generalizing y with
  | nil =>
    simp only [veq, all_zero_iff, vnth_nil]
    exact ⟨fun h i => (h i).symm, fun h i => (h i).symm⟩
  | cons a xs ih =>
    cases y with
    | nil => simp only [veq, all_zero_iff, vnth_nil]
    | cons b ys =>
      simp only [veq, Bool.and_eq_true, beq_iff_eq, ih]
      constructor
      · rintro ⟨h0, h⟩ i
        cases i with
        | zero => simpa using h0
        | succ i => simpa using h i
      · intro h
        exact ⟨by simpa using h 0, fun i => by simpa using h (i + 1)⟩

theorem vnth_vadd (x y : Vec) (i : Nat) : vnth (vadd x y) i = vnth x i + vnth y i := by
  induction x generalizing y i with
  | nil => simp [vadd]
  | cons a xs ih =>
    cases y with
    | nil => simp [vadd]
    | cons b ys =>
      cases i with
      | zero => simp [vadd]
      | succ i => simp [vadd, ih]

/-- Σ over the reports of the `i`-th component held for `a` -/
def sumAt (rs : List Report) (a : Nat) (i : Nat) : Int := rs.foldl (fun acc r => acc + vnth (get r a) i) 0

theorem foldl_add_init (rs : List Report) (a i : Nat) (z : Int) :
    rs.foldl (fun acc r => acc + vnth (get r a) i) z = z + sumAt rs a i := by
  induction rs generalizing z with
  | nil => simp [sumAt]
  | cons r rs ih => simp only [sumAt, List.foldl_cons]; rw [ih, ih (0 + _)]; omega

theorem sumAt_cons (r : Report) (rs : List Report) (a i : Nat) :
    sumAt (r :: rs) a i = vnth (get r a) i + sumAt rs a i := by
  simp only [sumAt, List.foldl_cons]; rw [foldl_add_init]; simp only [sumAt]; omega

theorem sumAt_snoc (rs : List Report) (r : Report) (a i : Nat) :
    sumAt (rs ++ [r]) a i = sumAt rs a i + vnth (get r a) i := by
  simp [sumAt, List.foldl_append]

theorem vnth_runningTotal_aux (rs : List Report) (a i : Nat) (z : Vec) :
    vnth (rs.foldl (fun acc r => vadd acc (get r a)) z) i = vnth z i + sumAt rs a i := by
  induction rs generalizing z with
  | nil => simp [sumAt]
  | cons r rs ih =>
    simp only [List.foldl_cons, ih, vnth_vadd, sumAt_cons]; omega

theorem vnth_runningTotal (rs : List Report) (a i : Nat) : vnth (runningTotal rs a) i = sumAt rs a i := by
  simp [runningTotal, vnth_runningTotal_aux]

theorem twinAgreeAt_of (ds : List Report) (c : Report)
    (h : ∀ a i, vnth (get c a) i = sumAt ds a i) : twinAgreeAt ds c = true := by
  simp only [twinAgreeAt, List.all_eq_true]
  intro a _
  rw [veq_iff]
  intro i
  rw [vnth_runningTotal]; exact h a i

theorem twinAgree_of (ds cs : List Report) (hl : ds.length = cs.length)
    (h : ∀ k c, cs[k]? = some c → ∀ a i, vnth (get c a) i = sumAt (ds.take (k + 1)) a i) :
    twinAgree ds cs = true := by
  simp only [twinAgree, Bool.and_eq_true, beq_iff_eq, List.all_eq_true, List.mem_range]
  refine ⟨hl, ?_⟩
  intro k hk
  have : cs[k]? = some cs[k] := List.getElem?_eq_getElem hk
  rw [this]
  exact twinAgreeAt_of _ _ (h k _ this)

/-! ### value maps -/

theorem keys_upd_nodup {V : Type} (m : AMap V) (a : Attr) (f : Option V → V) (h : m.keys.Nodup) :
    (m.upd a f).keys.Nodup := by
  induction m with
  | nil => simp [AMap.upd, AMap.keys]
  | cons p m ih =>
    obtain ⟨k, w⟩ := p
    simp only [AMap.keys, List.map_cons, List.nodup_cons] at h
    unfold AMap.upd
    by_cases hk : k = a
    · simp only [hk, if_true, AMap.keys, List.map_cons, List.nodup_cons]
      rw [← hk]; exact h
    · simp only [hk, if_false, AMap.keys, List.map_cons, List.nodup_cons]
      refine ⟨?_, ih h.2⟩
      intro hmem
      have := (mem_keys_upd m a k f).mp hmem
      rcases this with h1 | h1
      · exact hk h1
      · exact h.1 h1

theorem get?_some_mem {V : Type} (m : AMap V) (a : Attr) (v : V) (h : m.get? a = some v) : (a, v) ∈ m := by
  induction m with
  | nil => simp [AMap.get?] at h
  | cons p m ih =>
    obtain ⟨k, w⟩ := p
    by_cases hk : k = a
    · simp only [AMap.get?, hk, if_true, Option.some.injEq] at h
      subst hk; subst h; exact List.mem_cons_self ..
    · simp only [AMap.get?, hk, if_false] at h
      exact List.mem_cons_of_mem _ (ih h)

theorem get?_of_mem {V : Type} (m : AMap V) (a : Attr) (v : V) (hn : m.keys.Nodup) (h : (a, v) ∈ m) :
    m.get? a = some v := by
  induction m with
  | nil => cases h
  | cons p m ih =>
    obtain ⟨k, w⟩ := p
    simp only [AMap.keys, List.map_cons, List.nodup_cons] at hn
    rcases List.mem_cons.mp h with h | h
    · cases h; simp [AMap.get?]
    · have hne : k ≠ a := by
        intro hk; subst hk
        exact hn.1 (List.mem_map.mpr ⟨(k, v), h, rfl⟩)
      simp only [AMap.get?, hne, if_false]
      exact ih hn.2 h

theorem get?_isSome_iff {V : Type} (m : AMap V) (a : Attr) : (m.get? a).isSome = true ↔ a ∈ m.keys := by
  induction m with
  | nil => simp [AMap.get?, AMap.keys]
  | cons p m ih =>
    obtain ⟨k, w⟩ := p
    by_cases hk : k = a
    · simp [AMap.get?, AMap.keys, hk]
    · have hk' : ¬ a = k := fun h => hk h.symm
      simp only [AMap.get?, hk, if_false, ih, AMap.keys, List.map_cons, List.mem_cons, hk', false_or]

theorem get?_mapk {V W : Type} (m : AMap V) (F : Attr → V → W) (a : Attr) :
    AMap.get? (m.map fun kv => (kv.1, F kv.1 kv.2)) a = (m.get? a).map (F a) := by
  induction m with
  | nil => rfl
  | cons p m ih =>
    obtain ⟨k, w⟩ := p
    by_cases hk : k = a
    · subst hk; simp [AMap.get?]
    · simp [AMap.get?, hk, ih]

theorem keys_mapk {V W : Type} (m : AMap V) (F : Attr → V → W) :
    AMap.keys (m.map fun kv => (kv.1, F kv.1 kv.2)) = m.keys := by
  simp [AMap.keys, List.map_map, Function.comp_def]

/-! ### reports -/

theorem insertSorted_perm {V : Type} (p : Attr × V) (l : List (Attr × V)) : (insertSorted p l).Perm (p :: l) := by
  induction l with
  | nil => exact List.Perm.refl _
  | cons q l ih =>
    unfold insertSorted
    by_cases h : p.1 ≤ q.1
    · simp only [h, if_true]; exact List.Perm.refl _
    · simp only [h, if_false]
      exact ((List.Perm.cons q ih).trans (List.Perm.swap p q l))

theorem sortByAttr_perm {V : Type} (l : List (Attr × V)) : (sortByAttr l).Perm l := by
  induction l with
  | nil => exact List.Perm.refl _
  | cons p l ih =>
    simp only [sortByAttr, List.foldr_cons] at ih ⊢
    exact (insertSorted_perm p _).trans (List.Perm.cons p ih)

theorem sortPts_perm (pts : List (Pt PV)) : (sortPts pts).Perm pts := by
  have h := (sortByAttr_perm (pts.map fun p => (p.attr, p))).map (·.2)
  simpa [sortPts, List.map_map, Function.comp_def] using h

/-- (attribute, payload) pairs of a list of points -/
def pairsOf (pts : List (Pt PV)) : AMap PV := pts.map fun p => (p.attr, p.val)

def outPts : Option (DT × List (Pt PV)) → List (Pt PV)
  | none => []
  | some (_, pts) => pts

/-- what the oracle reads for one collected stream: points sorted by attribute, payloads as vectors -/
def repOf (out : Option (DT × List (Pt PV))) : Report := toReport (sortPts (outPts out))

theorem toReport_perm (pts : List (Pt PV)) :
    (toReport (sortPts pts)).Perm ((pairsOf pts).map fun kv => (kv.1, vecOf kv.2)) := by
  have h := (sortPts_perm pts).map fun q => (q.attr, vecOf q.val)
  simpa [toReport, pairsOf, List.map_map, Function.comp_def] using h

theorem get_of_mem (r : Report) (a : Nat) (v : Vec) (hn : (r.map (·.1)).Nodup) (h : (a, v) ∈ r) : get r a = v := by
  induction r with
  | nil => cases h
  | cons q r ih =>
    simp only [List.map_cons, List.nodup_cons] at hn
    rcases List.mem_cons.mp h with h | h
    · subst h; simp [Spec.get]
    · have hne : ¬ q.1 = a := by
        intro hk
        exact hn.1 (List.mem_map.mpr ⟨(a, v), h, hk.symm⟩)
      have := ih hn.2 h
      have hb : (q.1 == a) = false := by simpa using hne
      simp only [Spec.get, List.find?_cons, hb] at this ⊢
      exact this

theorem get_of_not_mem (r : Report) (a : Nat) (h : a ∉ r.map (·.1)) : get r a = [] := by
  have : r.find? (·.1 == a) = none := by
    rw [List.find?_eq_none]
    intro x hx hxa
    exact h (List.mem_map.mpr ⟨x, hx, by simpa using hxa⟩)
  simp [Spec.get, this]

theorem eraseDups_of_nodup (l : List Nat) (h : l.Nodup) : l.eraseDups = l := by
  induction l with
  | nil => simp
  | cons a l ih =>
    simp only [List.nodup_cons] at h
    rw [List.eraseDups_cons]
    have : l.filter (fun b => !b == a) = l := by
      rw [List.filter_eq_self]
      intro b hb
      have : b ≠ a := fun e => h.1 (e ▸ hb)
      simp [this]
    rw [this, ih h.2]

section report
variable (pts : List (Pt PV)) (m : AMap PV) (hp : pairsOf pts = m) (hn : m.keys.Nodup)
include hp

theorem report_mem (p : Nat × Vec) : p ∈ toReport (sortPts pts) ↔ ∃ v, (p.1, v) ∈ m ∧ p.2 = vecOf v := by
  rw [(toReport_perm pts).mem_iff, hp]
  simp only [List.mem_map]
  constructor
  · rintro ⟨kv, hkv, rfl⟩; exact ⟨kv.2, hkv, rfl⟩
  · rintro ⟨v, hv, h2⟩; exact ⟨(p.1, v), hv, by rw [← h2]⟩

theorem report_keys : ((toReport (sortPts pts)).map (·.1)).Perm m.keys := by
  have := (toReport_perm pts).map (·.1)
  rw [hp] at this
  simpa [AMap.keys, List.map_map, Function.comp_def] using this

include hn

theorem report_keys_nodup : ((toReport (sortPts pts)).map (·.1)).Nodup :=
  (report_keys pts m hp).nodup_iff.mpr hn

theorem report_get (a : Nat) : get (toReport (sortPts pts)) a = ((m.get? a).map vecOf).getD [] := by
  cases hg : m.get? a with
  | none =>
    apply get_of_not_mem
    intro hmem
    have : a ∈ m.keys := (report_keys pts m hp).mem_iff.mp hmem
    have := (get?_isSome_iff m a).mpr this
    simp [hg] at this
  | some v =>
    apply get_of_mem _ _ _ (report_keys_nodup pts m hp hn)
    exact (report_mem pts m hp (a, vecOf v)).mpr ⟨v, get?_some_mem m a v hg, rfl⟩

/-- a collection that holds exactly the sets observed in the cycle reports exactly them, once each -/
theorem cycleExact_of (obs : List (Nat × Int)) (hk : ∀ a, (m.get? a).isSome = obs.any (·.1 == a)) :
    cycleExact obs (toReport (sortPts pts)) = true := by
  simp only [cycleExact, Bool.and_eq_true, List.all_eq_true, beq_iff_eq]
  refine ⟨⟨?_, ?_⟩, ?_⟩
  · intro p hpm
    obtain ⟨v, hv, _⟩ := (report_mem pts m hp p).mp hpm
    rw [← hk, get?_of_mem m p.1 v hn hv]; rfl
  · intro o ho
    have h1 : obs.any (·.1 == o.1) = true := List.any_eq_true.mpr ⟨o, ho, by simp⟩
    rw [← hk] at h1
    obtain ⟨v, hv⟩ := Option.isSome_iff_exists.mp h1
    simp only [has, List.any_eq_true, beq_iff_eq]
    exact ⟨(o.1, vecOf v), (report_mem pts m hp _).mpr ⟨v, get?_some_mem m _ v hv, rfl⟩, rfl⟩
  · rw [eraseDups_of_nodup _ (report_keys_nodup pts m hp hn)]; simp

/-- every point of the report carries the vector of the cell held for its set -/
theorem report_point (p : Nat × Vec) (hpm : p ∈ toReport (sortPts pts)) : ∃ v, m.get? p.1 = some v ∧ p.2 = vecOf v := by
  obtain ⟨v, hv, h2⟩ := (report_mem pts m hp p).mp hpm
  exact ⟨v, get?_of_mem m p.1 v hn hv, h2⟩

end report

/-! ### one instrument, one reader: a history is a list of cycles -/

/-- one cycle of one instrument: the measurements that reach its aggregator during the cycle (synchronous records, or
the observations replayed by the callbacks of the collection), then the collection with clock reading `t` -/
abbrev Cycle := List (Attr × Int) × Nat

def Agg.feed (g : Agg) (ms : List (Attr × Int)) : Agg := ms.foldl (fun g m => g.measure m.1 m.2) g

def Agg.cycleStep (tp : Temporality) (acc : Agg × List (Option (DT × List (Pt PV)))) (c : Cycle) :
    Agg × List (Option (DT × List (Pt PV))) :=
  ((( acc.1.feed c.1).collect tp c.2).1, acc.2 ++ [((acc.1.feed c.1).collect tp c.2).2])

/-- run a history from aggregator `g`: final aggregator and what every collection returned, oldest first -/
def Agg.runCycles (tp : Temporality) (g : Agg) (hist : List Cycle) : Agg × List (Option (DT × List (Pt PV))) :=
  hist.foldl (Agg.cycleStep tp) (g, [])

theorem Agg.runCycles_snoc (tp : Temporality) (g : Agg) (hist : List Cycle) (c : Cycle) :
    g.runCycles tp (hist ++ [c]) = Agg.cycleStep tp (g.runCycles tp hist) c := by
  simp [Agg.runCycles, List.foldl_append]

theorem Agg.feed_cons (g : Agg) (m : Attr × Int) (ms : List (Attr × Int)) :
    g.feed (m :: ms) = (g.measure m.1 m.2).feed ms := rfl

theorem Agg.feed_append (g : Agg) (l₁ l₂ : List (Attr × Int)) : g.feed (l₁ ++ l₂) = (g.feed l₁).feed l₂ := by
  simp [Agg.feed, List.foldl_append]

theorem snoc_induction {α : Type} {P : List α → Prop} (hnil : P []) (hsnoc : ∀ l a, P l → P (l ++ [a])) :
    ∀ l, P l := by
  intro l
  have : ∀ r : List α, P r.reverse := by
    intro r
    induction r with
    | nil => exact hnil
    | cons a r ih => rw [List.reverse_cons]; exact hsnoc _ _ ih
  simpa using this l.reverse

theorem Agg.runCycles_length (tp : Temporality) (g : Agg) (hist : List Cycle) :
    (g.runCycles tp hist).2.length = hist.length := by
  induction hist using snoc_induction with
  | hnil => rfl
  | hsnoc l c ih => rw [Agg.runCycles_snoc]; simp [Agg.cycleStep, ih]

/-- the sets an aggregator holds -/
def Agg.keys : Agg → List Attr
  | .sum s => s.values.keys
  | .psum s => s.values.keys
  | .lv s => s.values.keys
  | .plv s => s.values.keys
  | .hist h => h.values.keys
  | .expo h => h.values.keys
  | .off => []

/-- the (attribute, payload) pairs a collection with temporality `tp` reports, in map order -/
def Agg.held (g : Agg) (tp : Temporality) : AMap PV :=
  match g with
  | .sum s => s.values.map fun kv => (kv.1, PV.num kv.2.n)
  | .psum s =>
    match tp with
    | .delta => s.values.map fun kv => (kv.1, PV.num (kv.2.n - (s.reported.get? kv.1).getD 0))
    | .cumulative => s.values.map fun kv => (kv.1, PV.num kv.2.n)
  | .lv s => s.values.map fun kv => (kv.1, PV.num kv.2)
  | .plv s => s.values.map fun kv => (kv.1, PV.num kv.2)
  | .hist h => h.values.map fun kv => (kv.1, histPV h.noSum kv.2)
  | .expo h => h.values.map fun kv => (kv.1, histPV h.noSum kv.2)
  | .off => []

theorem Agg.pairsOf_collect (g : Agg) (tp : Temporality) (t : Nat) :
    pairsOf (outPts (g.collect tp t).2) = g.held tp := by
  cases g <;> cases tp <;>
    simp [Agg.collect, Agg.held, pairsOf, outPts, Sum.collect, Sum.delta, Sum.cumulative, PSum.collect, PSum.delta,
      PSum.cumulative, LastValue.collect, LastValue.pcollect, LastValue.delta, LastValue.cumulative, LastValue.pdelta,
      LastValue.pcumulative, Hist.collect, Hist.delta, Hist.cumulative, mkPoints, List.map_map, Function.comp_def]

theorem Agg.held_keys (g : Agg) (tp : Temporality) : (g.held tp).keys = g.keys := by
  cases g <;> cases tp <;> simp [Agg.held, Agg.keys, AMap.keys, List.map_map, Function.comp_def]

theorem Agg.keys_measure (g : Agg) (a : Attr) (x : Int) (h : g.keys.Nodup) : (g.measure a x).keys.Nodup := by
  cases g <;> simp only [Agg.measure, Agg.keys, Sum.measure, PSum.measure, LastValue.measure, Hist.measure] at h ⊢ <;>
    first | exact keys_upd_nodup _ _ _ h | exact h

theorem Agg.keys_feed (g : Agg) (ms : List (Attr × Int)) (h : g.keys.Nodup) : (g.feed ms).keys.Nodup := by
  induction ms generalizing g with
  | nil => exact h
  | cons m ms ih => exact ih _ (Agg.keys_measure g m.1 m.2 h)

theorem Agg.keys_collect (g : Agg) (tp : Temporality) (t : Nat) (h : g.keys.Nodup) :
    (g.collect tp t).1.keys.Nodup := by
  cases g <;> cases tp <;>
    simp [Agg.collect, Agg.keys, Sum.collect, Sum.delta, Sum.cumulative, PSum.collect, PSum.delta,
      PSum.cumulative, LastValue.collect, LastValue.pcollect, LastValue.delta, LastValue.cumulative, LastValue.pdelta,
      LastValue.pcumulative, Hist.collect, Hist.delta, Hist.cumulative, AMap.keys] at h ⊢ <;> exact h

/-- the report of a collection, attribute by attribute (sets held at most once) -/
theorem Agg.repOf_get (g : Agg) (hn : g.keys.Nodup) (tp : Temporality) (t : Nat) (a : Nat) :
    get (repOf (g.collect tp t).2) a = (((g.held tp).get? a).map vecOf).getD [] :=
  report_get _ _ (Agg.pairsOf_collect g tp t) (by rw [Agg.held_keys]; exact hn) a

end Otel.C08
