/-
C08 — history-level twin agreement: `Spec.twinAgree` holds of the reports of a delta and a cumulative run of the
same aggregator (sum, explicit histogram, exponential histogram at count/sum/sign level) over the same history.
-/
import Otel.C08.History
namespace Otel.C08
open Otel.C02 Otel.C08.Spec

/-- the vector held for `a` (what a collection would report for it), `[]` if the set is not held -/
def Agg.hv (g : Agg) (a : Attr) : Vec := (((g.held .cumulative).get? a).map vecOf).getD []

/-- increment of component `i` of the held vector caused by measuring `x` -/
def Agg.inc (g : Agg) (x : Int) (i : Nat) : Int :=
  match g with
  | .sum _ => if i = 0 then x else 0
  | .hist h | .expo h =>
    match i with
    | 0 => 1
    | 1 => if h.noSum then 0 else x
    | i + 2 => if searchIdx h.bounds x = i then 1 else 0
  | _ => 0

/-- the aggregators the twin clause is about, without cardinality limit, histogram cells well-formed -/
def Agg.TwinOK (g : Agg) : Prop :=
  match g with
  | .sum s => s.limit = 0
  | .hist h | .expo h => h.limit = 0 ∧ HistWF h
  | _ => False

theorem Agg.twinOK_measure (g : Agg) (h : g.TwinOK) (a : Attr) (x : Int) : (g.measure a x).TwinOK := by
  cases g with
  | sum s => exact h
  | hist hh => exact ⟨h.1, Hist.wf_measure hh h.2 a x⟩
  | expo hh => exact ⟨h.1, Hist.wf_measure hh h.2 a x⟩
  | _ => exact h

theorem Agg.twinOK_collect (g : Agg) (h : g.TwinOK) (tp : Temporality) (t : Nat) : (g.collect tp t).1.TwinOK := by
  cases g with
  | sum s => cases tp <;> exact h
  | hist hh => exact ⟨by cases tp <;> exact h.1, Hist.wf_collect hh h.2 tp t⟩
  | expo hh => exact ⟨by cases tp <;> exact h.1, Hist.wf_collect hh h.2 tp t⟩
  | _ => exact h.elim

theorem Agg.inc_measure (g : Agg) (a : Attr) (x : Int) : (g.measure a x).inc = g.inc := by
  cases g <;> rfl

theorem Agg.inc_collect (g : Agg) (tp : Temporality) (t : Nat) : (g.collect tp t).1.inc = g.inc := by
  cases g <;> cases tp <;> rfl

theorem Agg.inc_feed (g : Agg) (ms : List (Attr × Int)) : (g.feed ms).inc = g.inc := by
  induction ms generalizing g with
  | nil => rfl
  | cons m ms ih => rw [Agg.feed_cons, ih, Agg.inc_measure]

theorem Agg.twinOK_feed (g : Agg) (h : g.TwinOK) (ms : List (Attr × Int)) : (g.feed ms).TwinOK := by
  induction ms generalizing g with
  | nil => exact h
  | cons m ms ih => exact ih _ (Agg.twinOK_measure g h m.1 m.2)

/-- a histogram cell update, component by component -/
theorem vnth_histCell (bounds : List Int) (noSum : Bool) (x : Int) (o : Option HistVal)
    (ho : ∀ w, o = some w → w.counts.length = bounds.length + 1) (i : Nat) :
    vnth (vecOf (histPV noSum (histCell (bounds.length + 1) noSum (searchIdx bounds x) x o))) i =
      vnth ((o.map fun v => vecOf (histPV noSum v)).getD []) i +
      (match i with
       | 0 => 1
       | 1 => if noSum then 0 else x
       | i + 2 => if searchIdx bounds x = i then 1 else 0) := by
  match i with
  | 0 => cases o <;> simp [histPV, vecOf, histCell] <;> omega
  | 1 => cases o <;> cases noSum <;> simp [histPV, vecOf, histCell]
  | i + 2 =>
    have hb := (histCell_bucket bounds noSum i x o ho).2
    have cast : ∀ cs : List Nat, vnth (cs.map Int.ofNat) i = ((cs[i]?.getD 0 : Nat) : Int) := by
      intro cs; simp only [vnth, List.getElem?_map]; cases cs[i]? <;> simp
    cases o with
    | none =>
      simp only [histPV, vecOf, vnth_cons_succ, cast, Option.map_none, Option.getD_none, vnth_nil] at hb ⊢
      exact hb
    | some w =>
      simp only [histPV, vecOf, vnth_cons_succ, cast, Option.map_some, Option.getD_some] at hb ⊢
      exact hb

theorem Agg.hv_measure (g : Agg) (h : g.TwinOK) (b : Attr) (x : Int) (a : Attr) (i : Nat) :
    vnth ((g.measure b x).hv a) i = vnth (g.hv a) i + (if b = a then g.inc x i else 0) := by
  cases g with
  | sum s =>
    have hl : s.limit = 0 := h
    simp only [Agg.hv, Agg.held, Agg.measure, Sum.measure, hl, limitAttr_nolimit, Agg.inc]
    rw [get?_map _ (fun v : SumVal => PV.num v.n), get?_map _ (fun v : SumVal => PV.num v.n), get?_upd]
    by_cases hb : b = a
    · subst hb
      simp only [if_true]
      cases s.values.get? b <;> cases i <;> simp [sumCell, vecOf]
    · simp [hb]
  | hist hh =>
    obtain ⟨hl, hw⟩ := h
    simp only [Agg.hv, Agg.held, Agg.measure, Hist.measure, hl, limitAttr_nolimit, Agg.inc]
    rw [get?_map, get?_map, get?_upd]
    by_cases hb : b = a
    · subst hb
      simp only [if_true, Option.map_some, Option.getD_some, Option.map_map]
      exact vnth_histCell hh.bounds hh.noSum x _ (fun w hw' => hw (b, w) (get?_some_mem _ _ _ hw')) i
    · simp [hb]
  | expo hh =>
    obtain ⟨hl, hw⟩ := h
    simp only [Agg.hv, Agg.held, Agg.measure, Hist.measure, hl, limitAttr_nolimit, Agg.inc]
    rw [get?_map, get?_map, get?_upd]
    by_cases hb : b = a
    · subst hb
      simp only [if_true, Option.map_some, Option.getD_some, Option.map_map]
      exact vnth_histCell hh.bounds hh.noSum x _ (fun w hw' => hw (b, w) (get?_some_mem _ _ _ hw')) i
    · simp [hb]
  | _ => exact h.elim

/-- Σ of the increments of component `i` over the measurements of one cycle that carry attribute `a` -/
def incSum (inc : Int → Nat → Int) (ms : List (Attr × Int)) (a : Attr) (i : Nat) : Int :=
  match ms with
  | [] => 0
  | m :: ms => (if m.1 = a then inc m.2 i else 0) + incSum inc ms a i

theorem Agg.hv_feed (g : Agg) (h : g.TwinOK) (ms : List (Attr × Int)) (a : Attr) (i : Nat) :
    vnth ((g.feed ms).hv a) i = vnth (g.hv a) i + incSum g.inc ms a i := by
  induction ms generalizing g with
  | nil => simp [Agg.feed, incSum]
  | cons m ms ih =>
    rw [Agg.feed_cons, ih _ (Agg.twinOK_measure g h m.1 m.2), Agg.hv_measure g h, Agg.inc_measure]
    simp only [incSum]; omega

theorem Agg.hv_collect_delta (g : Agg) (h : g.TwinOK) (t : Nat) (a : Attr) : ((g.collect .delta t).1).hv a = [] := by
  cases g with
  | sum s => simp [Agg.hv, Agg.held, Agg.collect, Sum.collect, Sum.delta, AMap.get?]
  | hist hh => simp [Agg.hv, Agg.held, Agg.collect, Hist.collect, Hist.delta, AMap.get?]
  | expo hh => simp [Agg.hv, Agg.held, Agg.collect, Hist.collect, Hist.delta, AMap.get?]
  | _ => exact h.elim

theorem Agg.hv_collect_cumulative (g : Agg) (h : g.TwinOK) (t : Nat) (a : Attr) :
    ((g.collect .cumulative t).1).hv a = g.hv a := by
  cases g with
  | sum s => rfl
  | hist hh => rfl
  | expo hh => rfl
  | _ => exact h.elim

theorem Agg.held_twin (g : Agg) (h : g.TwinOK) (tp : Temporality) : g.held tp = g.held .cumulative := by
  cases g with
  | psum s => exact h.elim
  | _ => rfl

/-- what a collection of a twin aggregator reports for `a` is the vector it holds for `a` -/
theorem Agg.repOf_hv (g : Agg) (h : g.TwinOK) (hn : g.keys.Nodup) (tp : Temporality) (t : Nat) (a : Attr) :
    get (repOf (g.collect tp t).2) a = g.hv a := by
  rw [Agg.repOf_get g hn, Agg.held_twin g h]; rfl

/-- invariant of a twin run (delta and cumulative instance of the same aggregator over the same history) -/
structure TwinInv (g : Agg) (D C : Agg × List (Option (DT × List (Pt PV)))) : Prop where
  dOK : D.1.TwinOK
  cOK : C.1.TwinOK
  dKeys : D.1.keys.Nodup
  cKeys : C.1.keys.Nodup
  dInc : D.1.inc = g.inc
  cInc : C.1.inc = g.inc
  dEmpty : ∀ a, D.1.hv a = []
  len : D.2.length = C.2.length
  cHeld : ∀ a i, vnth (C.1.hv a) i = sumAt (D.2.map repOf) a i
  agree : ∀ k c, (C.2.map repOf)[k]? = some c → ∀ a i, vnth (get c a) i = sumAt ((D.2.map repOf).take (k + 1)) a i

theorem twinInv_run (g : Agg) (h : g.TwinOK) (hn : g.keys.Nodup) (he : ∀ a, g.hv a = []) (hist : List Cycle) :
    TwinInv g (g.runCycles .delta hist) (g.runCycles .cumulative hist) := by
  induction hist using snoc_induction with
  | hnil =>
    exact { dOK := h, cOK := h, dKeys := hn, cKeys := hn, dInc := rfl, cInc := rfl, dEmpty := he, len := rfl,
            cHeld := by intro a i; simp [Agg.runCycles, he, sumAt],
            agree := by intro k c hk; simp [Agg.runCycles] at hk }
  | hsnoc l c ih =>
    rw [Agg.runCycles_snoc, Agg.runCycles_snoc]
    generalize g.runCycles .delta l = D at ih
    generalize g.runCycles .cumulative l = C at ih
    obtain ⟨ms, t⟩ := c
    have hdf := Agg.twinOK_feed D.1 ih.dOK ms
    have hcf := Agg.twinOK_feed C.1 ih.cOK ms
    have hdk := Agg.keys_feed D.1 ms ih.dKeys
    have hck := Agg.keys_feed C.1 ms ih.cKeys
    -- what the two new reports say
    have hd : ∀ a i, vnth (get (repOf ((D.1.feed ms).collect .delta t).2) a) i = incSum g.inc ms a i := by
      intro a i
      rw [Agg.repOf_hv _ hdf hdk, Agg.hv_feed _ ih.dOK, ih.dEmpty, ih.dInc]; simp
    have hc : ∀ a i, vnth (get (repOf ((C.1.feed ms).collect .cumulative t).2) a) i =
        sumAt (D.2.map repOf) a i + incSum g.inc ms a i := by
      intro a i
      rw [Agg.repOf_hv _ hcf hck, Agg.hv_feed _ ih.cOK, ih.cHeld, ih.cInc]
    refine { dOK := Agg.twinOK_collect _ hdf _ _, cOK := Agg.twinOK_collect _ hcf _ _,
             dKeys := Agg.keys_collect _ _ _ hdk, cKeys := Agg.keys_collect _ _ _ hck,
             dInc := by simp only [Agg.cycleStep]; rw [Agg.inc_collect, Agg.inc_feed, ih.dInc],
             cInc := by simp only [Agg.cycleStep]; rw [Agg.inc_collect, Agg.inc_feed, ih.cInc],
             dEmpty := fun a => Agg.hv_collect_delta _ hdf t a,
             len := by simp [Agg.cycleStep, ih.len],
             cHeld := ?_, agree := ?_ }
    · intro a i
      simp only [Agg.cycleStep, List.map_append, List.map_cons, List.map_nil, sumAt_snoc]
      rw [Agg.hv_collect_cumulative _ hcf, Agg.hv_feed _ ih.cOK, ih.cHeld, ih.cInc, hd]
    · intro k r hk a i
      simp only [Agg.cycleStep, List.map_append, List.map_cons, List.map_nil] at hk ⊢
      by_cases hlt : k < (C.2.map repOf).length
      · rw [List.getElem?_append_left hlt] at hk
        rw [List.take_append_of_le_length (by simp only [List.length_map] at hlt ⊢; rw [ih.len]; omega)]
        exact ih.agree k r hk a i
      · have hge : (C.2.map repOf).length ≤ k := Nat.le_of_not_lt hlt
        rw [List.getElem?_append_right hge] at hk
        have hk0 : k - (C.2.map repOf).length = 0 := by
          cases hkk : k - (C.2.map repOf).length with
          | zero => rfl
          | succ n => rw [hkk] at hk; simp at hk
        rw [hk0] at hk
        simp only [List.getElem?_cons_zero, Option.some.injEq] at hk
        subst hk
        have hkeq : k = C.2.length := by simp only [List.length_map] at hge hk0; omega
        rw [List.take_of_length_le (by simp [hkeq, ih.len])]
        rw [sumAt_snoc, hc, hd]

/-- HISTORY LEVEL: over every history, the cumulative run's report at every collection equals the running total of
the delta run's reports, as judged by the oracle predicate `Spec.twinAgree` itself -/
theorem twinAgree_runCycles (g : Agg) (h : g.TwinOK) (hn : g.keys.Nodup) (he : ∀ a, g.hv a = []) (hist : List Cycle) :
    twinAgree ((g.runCycles .delta hist).2.map repOf) ((g.runCycles .cumulative hist).2.map repOf) = true := by
  have inv := twinInv_run g h hn he hist
  exact twinAgree_of _ _ (by simp [inv.len]) inv.agree

end Otel.C08
