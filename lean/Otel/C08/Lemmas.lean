import Otel.C08.Basics
import Otel.C02.Lemmas
namespace Otel.C08
open Otel.C02 Otel.C02.Spec

/-! ### a generic value-map LTS (any cell type, any additive projection) -/

structure G (V : Type) where
  values : AMap V := []
  reports : List (AMap V) := []

def G.step {V : Type} (cellf : Int → Option V → V) (delta : Bool) (g : G V) : Step → G V
  | .measure a x _ => { g with values := g.values.upd a (cellf x) }
  | .collect _ =>
    if delta then { values := [], reports := g.reports ++ [g.values] }
    else { g with reports := g.reports ++ [g.values] }

def G.run {V : Type} (cellf : Int → Option V → V) (delta : Bool) (g : G V) (steps : List Step) : G V :=
  steps.foldl (G.step cellf delta) g

/-- Σ δ(x) over the measure steps for attribute `a` -/
def measSum (δ : Int → Int) : List Step → Attr → Int
  | [], _ => 0
  | .measure b x _ :: l, a => (if b = a then δ x else 0) + measSum δ l a
  | .collect _ :: l, a => measSum δ l a

def projTotal {V : Type} (π : V → Int) (m : AMap V) (a : Attr) : Int := total (m.map fun kv => (kv.1, π kv.2)) a

def repTotal {V : Type} (π : V → Int) : List (AMap V) → Attr → Int
  | [], _ => 0
  | r :: rs, a => projTotal π r a + repTotal π rs a

theorem repTotal_append {V : Type} (π : V → Int) (r₁ r₂ : List (AMap V)) (a : Attr) :
    repTotal π (r₁ ++ r₂) a = repTotal π r₁ a + repTotal π r₂ a := by
  induction r₁ with
  | nil => simp [repTotal]
  | cons p l ih => simp [repTotal, ih]; omega

/-- every cell of a value map satisfies `P` -/
def AllP {V : Type} (P : V → Prop) (m : AMap V) : Prop := ∀ kv ∈ m, P kv.2

/-- a projection `π` is additive for the cell update `cellf` with increment `δ` on cells satisfying the
well-formedness predicate `P`, which the cell update establishes and preserves -/
def AdditiveOn {V : Type} (P : V → Prop) (cellf : Int → Option V → V) (π : V → Int) (δ : Int → Int) : Prop :=
  ∀ x o, (∀ w, o = some w → P w) →
    P (cellf x o) ∧ π (cellf x o) = (match o with | some w => π w | none => 0) + δ x

/-- unconditional additivity -/
def Additive {V : Type} (cellf : Int → Option V → V) (π : V → Int) (δ : Int → Int) : Prop :=
  AdditiveOn (fun _ => True) cellf π δ

theorem allP_nil {V : Type} (P : V → Prop) : AllP P ([] : AMap V) := by intro kv h; cases h

theorem allP_upd {V : Type} (P : V → Prop) (cellf : Int → Option V → V) (π : V → Int) (δ : Int → Int)
    (h : AdditiveOn P cellf π δ) (m : AMap V) (hm : AllP P m) (a : Attr) (x : Int) :
    AllP P (m.upd a (cellf x)) := by
  induction m with
  | nil =>
    intro kv hkv
    simp only [AMap.upd, List.mem_singleton] at hkv
    subst hkv
    exact (h x none (by intro w hw; cases hw)).1
  | cons p m ih =>
    obtain ⟨k, w⟩ := p
    have hw : P w := hm (k, w) (List.mem_cons_self ..)
    have hm' : AllP P m := fun kv hkv => hm kv (List.mem_cons_of_mem _ hkv)
    unfold AMap.upd
    by_cases hk : k = a
    · simp only [hk, if_true]
      intro kv hkv
      rcases List.mem_cons.mp hkv with rfl | hkv
      · exact (h x (some w) (by intro w' hw'; cases hw'; exact hw)).1
      · exact hm' kv hkv
    · simp only [hk, if_false]
      intro kv hkv
      rcases List.mem_cons.mp hkv with rfl | hkv
      · exact hw
      · exact ih hm' kv hkv

theorem projTotal_upd {V : Type} (P : V → Prop) (cellf : Int → Option V → V) (π : V → Int) (δ : Int → Int)
    (h : AdditiveOn P cellf π δ) (m : AMap V) (hm : AllP P m) (a : Attr) (x : Int) (b : Attr) :
    projTotal π (m.upd a (cellf x)) b = projTotal π m b + (if a = b then δ x else 0) := by
  induction m with
  | nil =>
    have := (h x none (by intro w hw; cases hw)).2
    simp only [AMap.upd, projTotal, List.map, total] at this ⊢
    rw [this]; by_cases hb : a = b <;> simp [hb]
  | cons p m ih =>
    obtain ⟨k, w⟩ := p
    have hw : P w := hm (k, w) (List.mem_cons_self ..)
    have hm' : AllP P m := fun kv hkv => hm kv (List.mem_cons_of_mem _ hkv)
    unfold AMap.upd
    by_cases hk : k = a
    · subst hk
      have := (h x (some w) (by intro w' hw'; cases hw'; exact hw)).2
      simp only [if_true, projTotal, List.map, total] at this ⊢
      rw [this]
      by_cases hb : k = b <;> simp [hb] <;> omega
    · simp only [hk, if_false]
      have ih := ih hm'
      simp only [projTotal, List.map, total] at ih ⊢
      rw [ih]; omega

theorem G.run_cons {V : Type} (cellf : Int → Option V → V) (d : Bool) (g : G V) (x : Step) (l : List Step) :
    G.run cellf d g (x :: l) = G.run cellf d (G.step cellf d g x) l := rfl

theorem G.step_allP {V : Type} (P : V → Prop) (cellf : Int → Option V → V) (π : V → Int) (δ : Int → Int)
    (h : AdditiveOn P cellf π δ) (d : Bool) (g : G V) (hg : AllP P g.values) (x : Step) :
    AllP P (G.step cellf d g x).values := by
  cases x with
  | measure b v id => exact allP_upd P cellf π δ h g.values hg b v
  | collect t =>
    cases d
    · simpa [G.step] using hg
    · simpa [G.step] using allP_nil P

/-- delta flavour: reported + pending grows by exactly the measured increments -/
theorem G.delta_balance {V : Type} (P : V → Prop) (cellf : Int → Option V → V) (π : V → Int) (δ : Int → Int)
    (h : AdditiveOn P cellf π δ) (steps : List Step) (g : G V) (hg : AllP P g.values) (a : Attr) :
    repTotal π (G.run cellf true g steps).reports a + projTotal π (G.run cellf true g steps).values a =
      repTotal π g.reports a + projTotal π g.values a + measSum δ steps a := by
  induction steps generalizing g with
  | nil => simp [G.run, measSum]
  | cons x l ih =>
    rw [G.run_cons, ih _ (G.step_allP P cellf π δ h true g hg x)]
    cases x with
    | measure b v id =>
      simp only [G.step, measSum, projTotal_upd P cellf π δ h _ hg]; omega
    | collect t =>
      simp only [G.step, if_true, measSum, repTotal_append, repTotal, projTotal, List.map_nil, total]; omega

/-- cumulative flavour: the state grows by exactly the measured increments; collections do not touch it -/
theorem G.cum_state {V : Type} (P : V → Prop) (cellf : Int → Option V → V) (π : V → Int) (δ : Int → Int)
    (h : AdditiveOn P cellf π δ) (steps : List Step) (g : G V) (hg : AllP P g.values) (a : Attr) :
    projTotal π (G.run cellf false g steps).values a = projTotal π g.values a + measSum δ steps a := by
  induction steps generalizing g with
  | nil => simp [G.run, measSum]
  | cons x l ih =>
    rw [G.run_cons, ih _ (G.step_allP P cellf π δ h false g hg x)]
    cases x with
    | measure b v id => simp only [G.step, measSum, projTotal_upd P cellf π δ h _ hg]; omega
    | collect t => simp [G.step, measSum]

theorem G.run_append {V : Type} (cellf : Int → Option V → V) (d : Bool) (g : G V) (l₁ l₂ : List Step) :
    G.run cellf d g (l₁ ++ l₂) = G.run cellf d (G.run cellf d g l₁) l₂ := by
  simp [G.run, List.foldl_append]

theorem measSum_append_collect (δ : Int → Int) (steps : List Step) (t : Nat) (a : Attr) :
    measSum δ (steps ++ [.collect t]) a = measSum δ steps a := by
  induction steps with
  | nil => simp [measSum]
  | cons x l ih => cases x <;> simp [measSum, ih]

/-- the twin equation on the generic LTS: at every collection, for every attribute set and every projection that
is additive on well-formed cells, the cumulative report equals the running total of all delta reports -/
theorem G.twin {V : Type} (P : V → Prop) (cellf : Int → Option V → V) (π : V → Int) (δ : Int → Int)
    (h : AdditiveOn P cellf π δ) (steps : List Step) (t : Nat) (a : Attr) :
    ∃ r, (G.run cellf false {} (steps ++ [.collect t])).reports.getLast? = some r ∧
      projTotal π r a = repTotal π (G.run cellf true {} (steps ++ [.collect t])).reports a := by
  refine ⟨(G.run cellf false {} steps).values, ?_, ?_⟩
  · rw [G.run_append]; simp [G.run, G.step]
  · have hd := G.delta_balance P cellf π δ h (steps ++ [.collect t]) {} (allP_nil P) a
    have hc := G.cum_state P cellf π δ h steps {} (allP_nil P) a
    have hp : projTotal π (G.run cellf true {} (steps ++ [.collect t])).values a = 0 := by
      rw [G.run_append]; simp [G.run, G.step, projTotal, total]
    have hm := measSum_append_collect δ steps t a
    have h0 : projTotal π ([] : AMap V) a = 0 := by simp [projTotal, total]
    simp only [repTotal, h0] at hd hc
    rw [hp, hm] at hd
    omega

/-! ### the real aggregators are instances (no cardinality limit) -/

def histCellF (bounds : List Int) (noSum : Bool) (x : Int) : Option HistVal → HistVal :=
  histCell (bounds.length + 1) noSum (searchIdx bounds x) x

/-- one step of the real histogram functions; reports keep (attribute, cell) of every point -/
def Hist.stepG (tp : Temporality) (s : Hist × List (AMap HistVal)) : Step → Hist × List (AMap HistVal)
  | .measure a x _ => (s.1.measure a x, s.2)
  | .collect t => ((s.1.collect tp t).1, s.2 ++ [(s.1.collect tp t).2.map fun p => (p.attr, p.val)])

def Hist.runG (tp : Temporality) (s : Hist × List (AMap HistVal)) (steps : List Step) : Hist × List (AMap HistVal) :=
  steps.foldl (Hist.stepG tp) s

theorem mkPoints_cells {V : Type} (m : AMap V) (s t : Nat) :
    (mkPoints m s t fun _ v => v).map (fun p => (p.attr, p.val)) = m := by
  induction m with
  | nil => rfl
  | cons p m ih => simp only [mkPoints, List.map_cons, List.map_map] at ih ⊢; rw [ih]

/-- refinement: with limit 0 the real histogram run is the generic run on its value map -/
theorem hist_refines (tp : Temporality) (bounds : List Int) (noSum : Bool) (steps : List Step)
    (s : Hist × List (AMap HistVal)) (hl : s.1.limit = 0) (hb : s.1.bounds = bounds) (hn : s.1.noSum = noSum) :
    (Hist.runG tp s steps).1.values =
        (G.run (histCellF bounds noSum) (tp == .delta) { values := s.1.values, reports := s.2 } steps).values ∧
    (Hist.runG tp s steps).2 =
        (G.run (histCellF bounds noSum) (tp == .delta) { values := s.1.values, reports := s.2 } steps).reports := by
  induction steps generalizing s with
  | nil => simp [G.run, Hist.runG]
  | cons x l ih =>
    have hstep : (Hist.stepG tp s x).1.limit = 0 ∧ (Hist.stepG tp s x).1.bounds = bounds ∧
        (Hist.stepG tp s x).1.noSum = noSum ∧
        ({ values := (Hist.stepG tp s x).1.values, reports := (Hist.stepG tp s x).2 } : G HistVal) =
          G.step (histCellF bounds noSum) (tp == .delta) { values := s.1.values, reports := s.2 } x := by
      cases x with
      | measure a v id =>
        simp [Hist.stepG, Hist.measure, hl, hb, hn, limitAttr_zero, histCellF, G.step]
      | collect t =>
        have e1 : (Temporality.delta == Temporality.delta) = true := by decide
        have e2 : (Temporality.cumulative == Temporality.delta) = false := by decide
        cases tp <;> simp [Hist.stepG, Hist.collect, Hist.delta, Hist.cumulative, hl, hb, hn, mkPoints_cells, G.step, e1, e2]
    have := ih (Hist.stepG tp s x) hstep.1 hstep.2.1 hstep.2.2.1
    rw [hstep.2.2.2] at this
    exact this

/-- additive projections of a histogram cell -/
theorem hist_count_additive (bounds : List Int) (noSum : Bool) :
    Additive (histCellF bounds noSum) (fun v => (v.count : Int)) (fun _ => 1) := by
  intro x o _; cases o <;> simp [histCellF, histCell]

theorem hist_total_additive (bounds : List Int) (noSum : Bool) :
    Additive (histCellF bounds noSum) (fun v => v.total) (fun x => if noSum then 0 else x) := by
  intro x o _; cases o <;> simp [histCellF, histCell] <;> split <;> simp

/-- bucket `i` is an additive projection on well-formed cells: a measurement adds 1 to the bucket chosen by the
boundary search and 0 to every other bucket -/
theorem hist_bucket_additive (bounds : List Int) (noSum : Bool) (i : Nat) :
    AdditiveOn (fun v => v.counts.length = bounds.length + 1) (histCellF bounds noSum)
      (fun v => ((v.counts[i]?.getD 0 : Nat) : Int)) (fun x => if searchIdx bounds x = i then 1 else 0) := by
  intro x o ho
  have := histCell_bucket bounds noSum i x o ho
  cases o <;> exact this

end Otel.C08
