import Otel.C08.Model
import Otel.C02.Lemmas
namespace Otel.C08
open Otel.C02 Otel.C02.Spec

/-! ### a generic value-map LTS (any cell type, any additive projection) -/

structure G (V : Type) where
  values : AMap V := []
  reports : List (AMap V) := []

def G.step {V : Type} (cellf : Int → Option V → V) (delta : Bool) (g : G V) : Step → G V
  | .measure a x _ => { g with values := g.values.upd a (cellf x) }
  | .collect _ =>
    if delta then { values := [], reports := g.reports ++ [g.values] }
    else { g with reports := g.reports ++ [g.values] }

def G.run {V : Type} (cellf : Int → Option V → V) (delta : Bool) (g : G V) (steps : List Step) : G V :=
  steps.foldl (G.step cellf delta) g

/-- Σ δ(x) over the measure steps for attribute `a` -/
def measSum (δ : Int → Int) : List Step → Attr → Int
  | [], _ => 0
  | .measure b x _ :: l, a => (if b = a then δ x else 0) + measSum δ l a
  | .collect _ :: l, a => measSum δ l a

def projTotal {V : Type} (π : V → Int) (m : AMap V) (a : Attr) : Int := total (m.map fun kv => (kv.1, π kv.2)) a

def repTotal {V : Type} (π : V → Int) : List (AMap V) → Attr → Int
  | [], _ => 0
  | r :: rs, a => projTotal π r a + repTotal π rs a

theorem repTotal_append {V : Type} (π : V → Int) (r₁ r₂ : List (AMap V)) (a : Attr) :
    repTotal π (r₁ ++ r₂) a = repTotal π r₁ a + repTotal π r₂ a := by
  induction r₁ with
  | nil => simp [repTotal]
  | cons p l ih => simp [repTotal, ih]; omega

/-- a projection `π` is additive for the cell update `cellf` with increment `δ` -/
def Additive {V : Type} (cellf : Int → Option V → V) (π : V → Int) (δ : Int → Int) : Prop :=
  ∀ x o, π (cellf x o) = (match o with | some w => π w | none => 0) + δ x

theorem projTotal_upd {V : Type} (cellf : Int → Option V → V) (π : V → Int) (δ : Int → Int)
    (h : Additive cellf π δ) (m : AMap V) (a : Attr) (x : Int) (b : Attr) :
    projTotal π (m.upd a (cellf x)) b = projTotal π m b + (if a = b then δ x else 0) := by
  induction m with
  | nil =>
    have := h x none
    simp only [AMap.upd, projTotal, List.map, total] at this ⊢
    rw [this]; by_cases hb : a = b <;> simp [hb]
  | cons p m ih =>
    obtain ⟨k, w⟩ := p
    unfold AMap.upd
    by_cases hk : k = a
    · subst hk
      have := h x (some w)
      simp only [if_true, projTotal, List.map, total] at this ⊢
      rw [this]
      by_cases hb : k = b <;> simp [hb] <;> omega
    · simp only [hk, if_false]
      simp only [projTotal, List.map, total] at ih ⊢
      rw [ih]; omega

theorem G.run_cons {V : Type} (cellf : Int → Option V → V) (d : Bool) (g : G V) (x : Step) (l : List Step) :
    G.run cellf d g (x :: l) = G.run cellf d (G.step cellf d g x) l := rfl

/-- delta flavour: reported + pending grows by exactly the measured increments -/
theorem G.delta_balance {V : Type} (cellf : Int → Option V → V) (π : V → Int) (δ : Int → Int)
    (h : Additive cellf π δ) (steps : List Step) (g : G V) (a : Attr) :
    repTotal π (G.run cellf true g steps).reports a + projTotal π (G.run cellf true g steps).values a =
      repTotal π g.reports a + projTotal π g.values a + measSum δ steps a := by
  induction steps generalizing g with
  | nil => simp [G.run, measSum]
  | cons x l ih =>
    rw [G.run_cons, ih]
    cases x with
    | measure b v id =>
      simp only [G.step, measSum, projTotal_upd cellf π δ h]; omega
    | collect t =>
      simp only [G.step, if_true, measSum, repTotal_append, repTotal, projTotal, List.map_nil, total]; omega

/-- cumulative flavour: the state grows by exactly the measured increments; collections do not touch it -/
theorem G.cum_state {V : Type} (cellf : Int → Option V → V) (π : V → Int) (δ : Int → Int)
    (h : Additive cellf π δ) (steps : List Step) (g : G V) (a : Attr) :
    projTotal π (G.run cellf false g steps).values a = projTotal π g.values a + measSum δ steps a := by
  induction steps generalizing g with
  | nil => simp [G.run, measSum]
  | cons x l ih =>
    rw [G.run_cons, ih]
    cases x with
    | measure b v id => simp only [G.step, measSum, projTotal_upd cellf π δ h]; omega
    | collect t => simp [G.step, measSum]

theorem G.run_append {V : Type} (cellf : Int → Option V → V) (d : Bool) (g : G V) (l₁ l₂ : List Step) :
    G.run cellf d g (l₁ ++ l₂) = G.run cellf d (G.run cellf d g l₁) l₂ := by
  simp [G.run, List.foldl_append]

theorem measSum_append_collect (δ : Int → Int) (steps : List Step) (t : Nat) (a : Attr) :
    measSum δ (steps ++ [.collect t]) a = measSum δ steps a := by
  induction steps with
  | nil => simp [measSum]
  | cons x l ih => cases x <;> simp [measSum, ih]

/-- the twin equation on the generic LTS: at every collection, for every attribute set and every additive
projection, the cumulative report equals the running total of all delta reports -/
theorem G.twin {V : Type} (cellf : Int → Option V → V) (π : V → Int) (δ : Int → Int)
    (h : Additive cellf π δ) (steps : List Step) (t : Nat) (a : Attr) :
    ∃ r, (G.run cellf false {} (steps ++ [.collect t])).reports.getLast? = some r ∧
      projTotal π r a = repTotal π (G.run cellf true {} (steps ++ [.collect t])).reports a := by
  refine ⟨(G.run cellf false {} steps).values, ?_, ?_⟩
  · rw [G.run_append]; simp [G.run, G.step]
  · have hd := G.delta_balance cellf π δ h (steps ++ [.collect t]) {} a
    have hc := G.cum_state cellf π δ h steps {} a
    have hp : projTotal π (G.run cellf true {} (steps ++ [.collect t])).values a = 0 := by
      rw [G.run_append]; simp [G.run, G.step, projTotal, total]
    have hm := measSum_append_collect δ steps t a
    have h0 : projTotal π ([] : AMap V) a = 0 := by simp [projTotal, total]
    simp only [repTotal, h0] at hd hc
    rw [hp, hm] at hd
    omega

/-! ### the real aggregators are instances (no cardinality limit) -/

def histCellF (bounds : List Int) (noSum : Bool) (x : Int) : Option HistVal → HistVal :=
  histCell (bounds.length + 1) noSum (searchIdx bounds x) x

/-- one step of the real histogram functions; reports keep (attribute, cell) of every point -/
def Hist.stepG (tp : Temporality) (s : Hist × List (AMap HistVal)) : Step → Hist × List (AMap HistVal)
  | .measure a x _ => (s.1.measure a x, s.2)
  | .collect t => ((s.1.collect tp t).1, s.2 ++ [(s.1.collect tp t).2.map fun p => (p.attr, p.val)])

def Hist.runG (tp : Temporality) (s : Hist × List (AMap HistVal)) (steps : List Step) : Hist × List (AMap HistVal) :=
  steps.foldl (Hist.stepG tp) s

theorem mkPoints_cells {V : Type} (m : AMap V) (s t : Nat) :
    (mkPoints m s t fun _ v => v).map (fun p => (p.attr, p.val)) = m := by
  induction m with
  | nil => rfl
  | cons p m ih => simp only [mkPoints, List.map_cons, List.map_map] at ih ⊢; rw [ih]

/-- refinement: with limit 0 the real histogram run is the generic run on its value map -/
theorem hist_refines (tp : Temporality) (bounds : List Int) (noSum : Bool) (steps : List Step)
    (s : Hist × List (AMap HistVal)) (hl : s.1.limit = 0) (hb : s.1.bounds = bounds) (hn : s.1.noSum = noSum) :
    (Hist.runG tp s steps).1.values =
        (G.run (histCellF bounds noSum) (tp == .delta) { values := s.1.values, reports := s.2 } steps).values ∧
    (Hist.runG tp s steps).2 =
        (G.run (histCellF bounds noSum) (tp == .delta) { values := s.1.values, reports := s.2 } steps).reports := by
  induction steps generalizing s with
  | nil => simp [G.run, Hist.runG]
  | cons x l ih =>
    have hstep : (Hist.stepG tp s x).1.limit = 0 ∧ (Hist.stepG tp s x).1.bounds = bounds ∧
        (Hist.stepG tp s x).1.noSum = noSum ∧
        ({ values := (Hist.stepG tp s x).1.values, reports := (Hist.stepG tp s x).2 } : G HistVal) =
          G.step (histCellF bounds noSum) (tp == .delta) { values := s.1.values, reports := s.2 } x := by
      cases x with
      | measure a v id =>
        simp [Hist.stepG, Hist.measure, hl, hb, hn, limitAttr_zero, histCellF, G.step]
      | collect t =>
        have e1 : (Temporality.delta == Temporality.delta) = true := by decide
        have e2 : (Temporality.cumulative == Temporality.delta) = false := by decide
        cases tp <;> simp [Hist.stepG, Hist.collect, Hist.delta, Hist.cumulative, hl, hb, hn, mkPoints_cells, G.step, e1, e2]
    have := ih (Hist.stepG tp s x) hstep.1 hstep.2.1 hstep.2.2.1
    rw [hstep.2.2.2] at this
    exact this

/-- additive projections of a histogram cell -/
theorem hist_count_additive (bounds : List Int) (noSum : Bool) :
    Additive (histCellF bounds noSum) (fun v => (v.count : Int)) (fun _ => 1) := by
  intro x o; cases o <;> simp [histCellF, histCell]

theorem hist_total_additive (bounds : List Int) (noSum : Bool) :
    Additive (histCellF bounds noSum) (fun v => v.total) (fun x => if noSum then 0 else x) := by
  intro x o; cases o <;> simp [histCellF, histCell] <;> split <;> simp

end Otel.C08

namespace Otel.C08
open Otel.C02 Otel.C02.Spec

theorem get?_upd {V : Type} (m : AMap V) (a b : Attr) (f : Option V → V) :
    (m.upd a f).get? b = if a = b then some (f (m.get? a)) else m.get? b := by
  induction m with
  | nil => by_cases h : a = b <;> simp [AMap.upd, AMap.get?, h]
  | cons p m ih =>
    obtain ⟨k, w⟩ := p
    unfold AMap.upd
    by_cases hk : k = a
    · subst hk
      by_cases hb : k = b <;> simp [AMap.get?, hb]
    · simp only [hk, if_false, AMap.get?]
      by_cases hb : k = b
      · subst hb
        have : ¬ a = k := fun h => hk h.symm
        simp [this]
      · simp only [hb, if_false]; exact ih

theorem get?_map {V W : Type} (m : AMap V) (f : V → W) (a : Attr) :
    AMap.get? (m.map fun kv => (kv.1, f kv.2)) a = (m.get? a).map f := by
  induction m with
  | nil => rfl
  | cons p m ih =>
    obtain ⟨k, w⟩ := p
    by_cases hk : k = a <;> simp [AMap.get?, hk, ih]

theorem mem_keys_upd {V : Type} (m : AMap V) (a b : Attr) (f : Option V → V) :
    b ∈ (m.upd a f).keys ↔ b = a ∨ b ∈ m.keys := by
  induction m with
  | nil => simp [AMap.upd, AMap.keys]
  | cons p m ih =>
    obtain ⟨k, w⟩ := p
    unfold AMap.upd
    by_cases hk : k = a
    · subst hk; simp [AMap.keys]
    · simp only [hk, if_false]
      simp only [AMap.keys, List.map_cons, List.mem_cons] at ih ⊢
      rw [ih]
      constructor
      · rintro (h | h | h) <;> simp [h]
      · rintro (h | h | h) <;> simp [h]

/-- the observations of one cycle applied to a precomputed sum (no limit) -/
def observeAll (s : PSum) (obs : List (Attr × Int)) : PSum := obs.foldl (fun s o => s.measure o.1 o.2) s

theorem keys_observeAll (s : PSum) (hl : s.limit = 0) (obs : List (Attr × Int)) (a : Attr) :
    a ∈ (observeAll s obs).values.keys ↔ a ∈ s.values.keys ∨ a ∈ obs.map (·.1) := by
  induction obs generalizing s with
  | nil => simp [observeAll]
  | cons o l ih =>
    have := ih (s.measure o.1 o.2) (by simp [PSum.measure, hl])
    simp only [observeAll, List.foldl_cons] at this ⊢
    rw [this]
    simp only [PSum.measure, hl, limitAttr_zero, mem_keys_upd, List.map_cons, List.mem_cons]
    constructor
    · rintro ((h | h) | h) <;> simp [h]
    · rintro (h | h | h) <;> simp [h]

theorem replay_other (cb : List Nat) (cur : List (Nat × Attr × Int)) (aggs : List Agg) (j : Nat)
    (hj : cb.contains j = false) : (replay cb cur aggs)[j]? = aggs[j]? := by
  induction cur generalizing aggs with
  | nil => rfl
  | cons o l ih =>
    simp only [replay, List.foldl_cons] at ih ⊢
    by_cases ho : cb.contains o.1 = true
    · simp only [ho, if_true]
      rw [ih]
      have hne : o.1 ≠ j := by
        intro h; rw [h] at ho; rw [ho] at hj; cases hj
      rw [List.getElem?_modify]
      cases aggs[j]? <;> simp [hne]
    · simp only [ho]
      exact ih aggs

end Otel.C08
