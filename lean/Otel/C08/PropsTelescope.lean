/-
C08 — precomputed (observable) sums: the delta-of-cumulative conversion over attribute sets that disappear and reappear.

`Spec.asyncSumHistOK` (the oracle's clause for asynchronous sums, proved of the model for every history:
`async_delta_is_difference_history`, `twin_all_clauses`) is a per-cycle statement.  Its consequence over a whole PRESENCE
RUN of an attribute set is the relation between the two temporalities: from the cycle in which the set (re)appears, the
delta reader's values add up to the value the cumulative reader reports — the conversion restarts from zero after every
gap, however long the history and however often the set comes and goes.  The theorem is about ANY reports satisfying the
Spec predicate, so it holds of the model's reports and of every implementation run the oracle accepted.
-/
import Otel.C08.Props
namespace Otel.C08
open Otel.C08.Spec

/-- the value a report carries for attribute set `a` (0 when it has no point for it) -/
def valOf (r : Report) (a : Nat) : Int := vnth (get r a) 0

/-- Σ_{j = i}^{i + n} of the delta reader's values for `a` -/
def deltaRun (ds : List Report) (a i : Nat) : Nat → Int
  | 0 => valOf (ds.getD i []) a
  | n + 1 => deltaRun ds a i n + valOf (ds.getD (i + n + 1) []) a

def presentIn (obs : List (Nat × Int)) (a : Nat) : Bool := obs.any (·.1 == a)

private theorem point_of_all (r : Report) (a : Nat) (P : Nat × Vec → Bool) (hall : r.all P = true) (hh : has r a = true) :
    ∃ p, r.find? (·.1 == a) = some p ∧ p.1 = a ∧ P p = true := by
  have hs : (r.find? (·.1 == a)).isSome = true := by
    rw [List.find?_isSome]
    simpa [has, List.any_eq_true] using hh
  obtain ⟨p, hp⟩ := Option.isSome_iff_exists.1 hs
  have hm := List.mem_of_find?_eq_some hp
  have hk := List.find?_some hp
  exact ⟨p, hp, by simpa using hk, (List.all_eq_true.1 hall) p hm⟩

private theorem valOf_of_all (r : Report) (a : Nat) (x : Int) (hall : r.all (fun p => veq p.2 [x]) = true)
    (hh : has r a = true) : valOf r a = x := by
  obtain ⟨p, hp, _, hv⟩ := point_of_all r a _ hall hh
  simp only [valOf, Spec.get, hp]
  have := (veq_iff p.2 [x]).1 hv 0
  simpa using this

private theorem cyc_facts (eff : List (List (Nat × Int))) (ds cs : List Report) (h : asyncSumHistOK eff ds cs = true)
    (k : Nat) (hk : k < eff.length) :
    asyncCumOK (eff.getD k []) (cs.getD k []) = true ∧
    asyncDeltaOK (if k = 0 then [] else eff.getD (k - 1) []) (eff.getD k []) (ds.getD k []) = true := by
  have := (List.all_eq_true.1 h) k (List.mem_range.2 hk)
  simpa [Bool.and_eq_true] using this

private theorem cum_val (eff : List (List (Nat × Int))) (ds cs : List Report) (h : asyncSumHistOK eff ds cs = true)
    (a k : Nat) (hk : k < eff.length) (hp : presentIn (eff.getD k []) a = true) :
    valOf (cs.getD k []) a = observedSum (eff.getD k []) a := by
  have hc := (cyc_facts eff ds cs h k hk).1
  simp only [asyncCumOK, cycleExact, Bool.and_eq_true] at hc
  obtain ⟨⟨⟨_, hobs⟩, _⟩, hall⟩ := hc
  have hh : has (cs.getD k []) a = true := by
    simp only [presentIn, List.any_eq_true] at hp
    obtain ⟨o, ho, hoa⟩ := hp
    have := (List.all_eq_true.1 hobs) o ho
    have hoa' : o.1 = a := by simpa using hoa
    rwa [hoa'] at this
  obtain ⟨p, hpf, hpa, hv⟩ := point_of_all _ a _ hall hh
  simp only [valOf, Spec.get, hpf]
  have := (veq_iff p.2 [observedSum (eff.getD k []) p.1]).1 hv 0
  rw [hpa] at this
  simpa using this

private theorem delta_val (eff : List (List (Nat × Int))) (ds cs : List Report) (h : asyncSumHistOK eff ds cs = true)
    (a k : Nat) (hk : k < eff.length) (hp : presentIn (eff.getD k []) a = true) :
    valOf (ds.getD k []) a = observedSum (eff.getD k []) a -
      (if k ≠ 0 ∧ presentIn (eff.getD (k - 1) []) a = true then observedSum (eff.getD (k - 1) []) a else 0) := by
  have hd := (cyc_facts eff ds cs h k hk).2
  simp only [asyncDeltaOK, cycleExact, Bool.and_eq_true] at hd
  obtain ⟨⟨⟨_, hobs⟩, _⟩, hall⟩ := hd
  have hh : has (ds.getD k []) a = true := by
    simp only [presentIn, List.any_eq_true] at hp
    obtain ⟨o, ho, hoa⟩ := hp
    have := (List.all_eq_true.1 hobs) o ho
    have hoa' : o.1 = a := by simpa using hoa
    rwa [hoa'] at this
  obtain ⟨p, hpf, hpa, hv⟩ := point_of_all _ a _ hall hh
  simp only [valOf, Spec.get, hpf]
  have := (veq_iff p.2 _).1 hv 0
  rw [hpa] at this
  by_cases hk0 : k = 0
  · subst hk0; simpa [presentIn] using this
  · simp only [hk0, if_false] at this
    simp only [ne_eq, hk0, not_false_eq_true, true_and, presentIn]
    simpa using this

/-- **Delta values telescope to the cumulative value over a presence run.**  Let the reports of a delta and a cumulative
reader satisfy the oracle's clause for an asynchronous sum.  If attribute set `a` is observed in every cycle `i … i+n`
and was not observed in cycle `i − 1` (or `i = 0`), then the delta values of cycles `i … i+n` add up to the value the
cumulative reader reports in cycle `i+n` — the observed value itself.  (Disappearing sets are forgotten; a reappearing
set starts again from zero: its first delta is the whole observed value.) -/
theorem async_delta_telescopes (eff : List (List (Nat × Int))) (ds cs : List Report)
    (h : asyncSumHistOK eff ds cs = true) (a i n : Nat) (hk : i + n < eff.length)
    (hrun : ∀ j, i ≤ j → j ≤ i + n → presentIn (eff.getD j []) a = true)
    (hstart : i = 0 ∨ presentIn (eff.getD (i - 1) []) a = false) :
    deltaRun ds a i n = valOf (cs.getD (i + n) []) a ∧
    valOf (cs.getD (i + n) []) a = observedSum (eff.getD (i + n) []) a := by
  induction n with
  | zero =>
    have hp := hrun i (Nat.le_refl _) (Nat.le_refl _)
    have hc := cum_val eff ds cs h a i hk hp
    have hd := delta_val eff ds cs h a i hk hp
    refine ⟨?_, hc⟩
    simp only [deltaRun, Nat.add_zero, hc, hd]
    rcases hstart with h0 | hnp
    · simp only [h0, ne_eq, not_true_eq_false, false_and, if_false, Int.sub_zero]
    · simp only [hnp, Bool.false_eq_true, and_false, if_false, Int.sub_zero]
  | succ n ih =>
    have ih := ih (by omega) (fun j h1 h2 => hrun j h1 (by omega))
    have hp := hrun (i + (n + 1)) (by omega) (Nat.le_refl _)
    have hpp := hrun (i + n) (by omega) (by omega)
    have hc := cum_val eff ds cs h a (i + (n + 1)) hk hp
    have hd := delta_val eff ds cs h a (i + (n + 1)) hk hp
    refine ⟨?_, hc⟩
    have e1 : i + (n + 1) - 1 = i + n := by omega
    have e2 : i + n + 1 = i + (n + 1) := by omega
    simp only [deltaRun, e2, ih.1, ih.2, hc, hd, e1, hpp]
    have : i + (n + 1) ≠ 0 := by omega
    simp only [ne_eq, this, not_false_eq_true, true_and, if_true]
    omega

/-- non-vacuity: a set seen in cycles 0-1, gone in cycle 2, back in cycles 3-4 -/
example :
    let eff : List (List (Nat × Int)) := [[(7, 5)], [(7, 9)], [], [(7, 4)], [(7, 6)]]
    let ds : List Report := [[(7, [5])], [(7, [4])], [], [(7, [4])], [(7, [2])]]
    let cs : List Report := [[(7, [5])], [(7, [9])], [], [(7, [4])], [(7, [6])]]
    asyncSumHistOK eff ds cs = true ∧ deltaRun ds 7 0 1 = 9 ∧ deltaRun ds 7 3 1 = 6 ∧ valOf (cs.getD 4 []) 7 = 6 := by
  decide

end Otel.C08
