/-
C08 — exponential histograms at FULL bucket level (core Lean only; used by the driver and by PropsExpo.lean).

A delta reader starts every cycle with a fresh `expoHistogramDataPoint` at the maximum scale, the cumulative reader keeps
one point for ever: the two report the same measurements at DIFFERENT scales and with different bucket windows.  They are
compared after bringing every point to the COMMON (coarsest) scale with the repository's own re-scaling function
(`expoBuckets.downscale`, modelled by `Otel.C07.Buckets.downscale`): at every collection `k` and for every attribute set,
bucket `i` of the cumulative point must hold the sum of bucket `i` of the delta points reported so far.
-/
import Otel.C07.Model
import Otel.C07.Spec
namespace Otel.C08.XB
open Otel.C07 Otel.C07.Spec

/-- the bucket part of a reported exponential-histogram point -/
structure XPt where
  scale : Int
  neg : Buckets
  pos : Buckets
deriving Repr, DecidableEq

/-- bring a point to the coarser scale `s ≤ p.scale` (`p.scale -= δ; pos.downscale(δ); neg.downscale(δ)`) -/
def XPt.downTo (p : XPt) (s : Int) : XPt :=
  ⟨s, p.neg.downscale (p.scale - s).toNat, p.pos.downscale (p.scale - s).toNat⟩

/-- the absolute indexes of the bucket window -/
def window (b : Buckets) : List Int := (List.range b.counts.length).map fun (k : Nat) => b.start + (k : Int)

/-- Σ over several bucket arrays of the content of absolute bucket `i` -/
def sumGet : List Buckets → Int → Nat
  | [], _ => 0
  | b :: bs, i => Buckets.get b i + sumGet bs i

/-- bucket-wise `c = Σ ds`, checked on every index of every window (outside all windows both sides are 0) -/
def sameAt (c : Buckets) (ds : List Buckets) : Bool :=
  (window c ++ ds.flatMap window).all fun i => Buckets.get c i == sumGet ds i

def commonScale (c : XPt) (ds : List XPt) : Int := ds.foldl (fun s d => min s d.scale) c.scale

/-- the twin clause at bucket level for one attribute set at one collection: `ds` = the delta points reported so far,
`c` = the cumulative point -/
def twinBucketsAt (ds : List XPt) (c : XPt) : Bool :=
  let s := commonScale c ds
  sameAt (c.downTo s).pos (ds.map fun d => (d.downTo s).pos) &&
  sameAt (c.downTo s).neg (ds.map fun d => (d.downTo s).neg)

/-- one observed exponential-histogram point: where it was reported and what it carries -/
structure XObs where
  cycle : Nat
  delta : Bool
  inst : Nat
  attr : Nat
  pt : XPt
  /-- the negative / positive totals printed in the point's main field -/
  negTot : Nat
  posTot : Nat
deriving Repr

/-- the printed totals are the totals of the printed bucket vectors -/
def XObs.totalsOK (o : XObs) : Bool :=
  o.pt.neg.counts.sum == o.negTot && o.pt.pos.counts.sum == o.posTot

/-- the whole clause: every cumulative point agrees, after rescaling to the common scale, with the delta points of the
same instrument and attribute set reported at collections `≤` its own -/
def expoBucketsTwin (obs : List XObs) : Bool :=
  obs.all (·.totalsOK) &&
  obs.all fun c =>
    c.delta ||
    twinBucketsAt ((obs.filter fun d => d.delta && d.inst == c.inst && d.attr == c.attr && d.cycle ≤ c.cycle).map (·.pt)) c.pt

end Otel.C08.XB
