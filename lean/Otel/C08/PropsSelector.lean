/-
C08 — temporality selection per instrument kind (reader.go `TemporalitySelector`, pipeline.go:385-400
`i.pipeline.reader.temporality(kind)` when the aggregate function is built) and WHICH relation then holds between the
reports of two readers for one instrument; gauges across gaps.

A reader's selector maps the instrument KIND to a temporality, so with mixed selectors (e.g. the "delta preference":
delta for counters / histograms / observable counters, cumulative for the up-down kinds) two readers may read the same
instrument with the same or with different temporalities.  For every aggregation the SDK can build, every pair of selectors,
every kind and every history: same temporality ⇒ identical reports; delta vs. cumulative ⇒ the oracle's clause of that
aggregation (`instOK`: the twin equation for sums and histograms, the difference / cycle clauses for precomputed sums,
the last-value clauses for gauges), oriented from the delta reader to the cumulative one.
-/
import Otel.C08.Props
import Otel.C08.PropsTelescope
namespace Otel.C08
open Otel.C02 Otel.C08.Spec

/-- a reader's TemporalitySelector -/
abbrev TSel := Kind → Temporality

/-- `DefaultTemporalitySelector` (reader.go): cumulative for every kind -/
def cumulativeSel : TSel := fun _ => .cumulative
def deltaSel : TSel := fun _ => .delta
/-- the "delta preference" of the OTLP exporters: cumulative for the up-down kinds, delta otherwise -/
def deltaPreference : TSel
  | .updown | .obsUpdown => .cumulative
  | _ => .delta

inductive TwinRel where
  /-- both readers read the instrument with the same temporality -/
  | identical
  /-- the first reader is the delta one -/
  | firstDelta
  /-- the second reader is the delta one -/
  | secondDelta
deriving Repr, DecidableEq

def twinRel (s₁ s₂ : TSel) (k : Kind) : TwinRel :=
  match s₁ k, s₂ k with
  | .delta, .cumulative => .firstDelta
  | .cumulative, .delta => .secondDelta
  | _, _ => .identical

/-- a freshly built aggregate function without cardinality limit (what `mkAgg` returns) -/
def Fresh : Agg → Prop
  | .sum s => s.limit = 0 ∧ s.values = []
  | .psum s => s.limit = 0 ∧ s.values = [] ∧ s.reported = []
  | .lv s => s.limit = 0 ∧ s.values = []
  | .plv s => s.limit = 0 ∧ s.values = []
  | .hist h => h.limit = 0 ∧ h.values = []
  | .expo h => h.limit = 0 ∧ h.values = []
  | .off => False

/-- the reports of one reader for one instrument over a history of cycles, read with temporality `tp` -/
def reportsOf (g : Agg) (tp : Temporality) (hist : List Cycle) : List Report := (g.runCycles tp hist).2.map repOf

/-- the oracle's clause of an aggregation holds between a delta and a cumulative reading of every history -/
theorem twin_clause_of_fresh (g : Agg) (hf : Fresh g) (hist : List Cycle) :
    instOK g (hist.map (·.1)) (hist.map (·.1)) (reportsOf g .delta hist) (reportsOf g .cumulative hist) = true := by
  cases g with
  | sum s => exact twin_agree_history_sum s hf.1 hf.2 hist
  | psum s => exact async_delta_is_difference_history s hf.1 hf.2.1 hf.2.2 hist
  | lv s => exact (gauge_last_value_history s hf.1 hf.2 hist).2
  | plv s => exact (gauge_last_value_history s hf.1 hf.2 hist).1
  | hist h => exact (twin_agree_history_hist h hf.1 hf.2 hist).1
  | expo h => exact (twin_agree_history_hist h hf.1 hf.2 hist).2
  | off => exact absurd hf (by simp [Fresh])

/-- **Which equation applies.**  Two readers with arbitrary temporality selectors read an instrument of kind `k` whose
aggregate function is `g` (fresh): if the selectors agree on `k` the two readers report exactly the same; otherwise the
oracle's clause of `g` holds from the delta reader to the cumulative reader. -/
theorem mixed_selectors_which_equation (g : Agg) (hf : Fresh g) (s₁ s₂ : TSel) (k : Kind) (hist : List Cycle) :
    match twinRel s₁ s₂ k with
    | .identical => reportsOf g (s₁ k) hist = reportsOf g (s₂ k) hist
    | .firstDelta =>
      instOK g (hist.map (·.1)) (hist.map (·.1)) (reportsOf g (s₁ k) hist) (reportsOf g (s₂ k) hist) = true
    | .secondDelta =>
      instOK g (hist.map (·.1)) (hist.map (·.1)) (reportsOf g (s₂ k) hist) (reportsOf g (s₁ k) hist) = true := by
  unfold twinRel
  cases h1 : s₁ k <;> cases h2 : s₂ k <;> simp only
  · exact twin_clause_of_fresh g hf hist
  · exact twin_clause_of_fresh g hf hist

/-- every aggregate function `mkAgg` builds (unless the instrument is dropped / incompatible) is fresh -/
theorem mkAgg_is_fresh (i : InstCfg) (h : (match mkAgg i with | .off => false | _ => true) = true) : Fresh (mkAgg i) := by
  obtain ⟨fl, k, sel, cb⟩ := i
  cases k <;> cases sel <;> simp [mkAgg, effectiveSel, Fresh] at h ⊢

/-- the delta preference against the default selector: counters, histograms, observable counters and gauges are read
delta vs. cumulative (the twin clause applies), the up-down kinds identically -/
theorem deltaPreference_vs_default (k : Kind) :
    twinRel deltaPreference cumulativeSel k =
      (match k with | .updown | .obsUpdown => TwinRel.identical | _ => TwinRel.firstDelta) := by
  cases k <;> rfl

/-! ### gauges across gaps -/

/-- an asynchronous gauge has no memory: a set not observed in a cycle is reported by NEITHER reader in that cycle,
whatever was observed before (consequence of the oracle clause) -/
theorem async_gauge_forgets (eff : List (List (Nat × Int))) (ds cs : List Report)
    (h : asyncGaugeHistOK eff ds cs = true) (a k : Nat) (hk : k < eff.length)
    (habs : presentIn (eff.getD k []) a = false) :
    has (ds.getD k []) a = false ∧ has (cs.getD k []) a = false := by
  have hc := (List.all_eq_true.1 h) k (List.mem_range.2 hk)
  simp only [Bool.and_eq_true, gaugeCycleOK, cycleExact] at hc
  obtain ⟨⟨⟨⟨hc1, _⟩, _⟩, _⟩, ⟨⟨⟨hd1, _⟩, _⟩, _⟩⟩ := hc
  have key : ∀ r : Report, r.all (fun p => (eff.getD k []).any (·.1 == p.1)) = true → has r a = false := by
    intro r hr
    cases hh : has r a with
    | false => rfl
    | true =>
      simp only [has, List.any_eq_true] at hh
      obtain ⟨p, hp, hpa⟩ := hh
      have := (List.all_eq_true.1 hr) p hp
      have hpa' : p.1 = a := by simpa using hpa
      rw [hpa'] at this
      simp only [presentIn] at habs
      rw [habs] at this; cases this
  exact ⟨key _ hd1, key _ hc1⟩

private theorem lastOf_append_if (X Y : List (Nat × Int)) (a : Nat) :
    lastOf (X ++ Y) a = if presentIn Y a = true then lastOf Y a else lastOf X a := by
  unfold lastOf presentIn
  rw [List.filter_append, List.getLast?_append]
  by_cases h : Y.any (·.1 == a) = true
  · rw [if_pos h]
    obtain ⟨p, hp, hpa⟩ := List.any_eq_true.1 h
    have hne : Y.filter (·.1 == a) ≠ [] := List.ne_nil_of_mem (List.mem_filter.2 ⟨hp, hpa⟩)
    cases hl : (Y.filter (·.1 == a)).getLast? with
    | none => exact absurd (List.getLast?_eq_none_iff.1 hl) hne
    | some v => simp
  · rw [if_neg h]
    have : Y.filter (·.1 == a) = [] := by
      apply List.filter_eq_nil_iff.2
      intro p hp hpa
      exact h (List.any_eq_true.2 ⟨p, hp, hpa⟩)
    simp [this]

private theorem lastOf_take_gap (recd : List (List (Nat × Int))) (a j : Nat) (hj : j < recd.length)
    (hp : presentIn (recd.getD j []) a = true) :
    ∀ n, j + n < recd.length → (∀ m, j < m → m ≤ j + n → presentIn (recd.getD m []) a = false) →
      lastOf ((recd.take (j + n + 1)).flatten) a = lastOf (recd.getD j []) a := by
  intro n
  induction n with
  | zero =>
    intro _ _
    have ht : recd.take (j + 0 + 1) = recd.take j ++ [recd.getD j []] := by
      rw [Nat.add_zero, List.take_add_one, List.getD_eq_getElem?_getD, List.getElem?_eq_getElem hj]; rfl
    rw [ht, List.flatten_append, lastOf_append_if]
    simp only [List.flatten_cons, List.flatten_nil, List.append_nil, hp, if_true]
  | succ n ih =>
    intro hlt hgap
    have hlt' : j + n + 1 < recd.length := by omega
    have ht : recd.take (j + (n + 1) + 1) = recd.take (j + n + 1) ++ [recd.getD (j + n + 1) []] := by
      rw [show j + (n + 1) + 1 = (j + n + 1) + 1 by omega, List.take_add_one, List.getD_eq_getElem?_getD,
        List.getElem?_eq_getElem hlt']; rfl
    rw [ht, List.flatten_append, lastOf_append_if]
    have hab := hgap (j + n + 1) (by omega) (by omega)
    simp only [List.flatten_cons, List.flatten_nil, List.append_nil, hab, Bool.false_eq_true, if_false]
    exact ih (by omega) (fun m h1 h2 => hgap m h1 (by omega))

private theorem gauge_val (obs : List (Nat × Int)) (r : Report) (a : Nat) (h : gaugeCycleOK obs r = true)
    (hp : presentIn obs a = true) : (lastOf obs a).map (fun v => valOf r a = v) = (lastOf obs a).map (fun _ => True) ∧
    ∃ v, lastOf obs a = some v ∧ valOf r a = v := by
  simp only [gaugeCycleOK, cycleExact, Bool.and_eq_true] at h
  obtain ⟨⟨⟨_, hobs⟩, _⟩, hall⟩ := h
  have hh : has r a = true := by
    simp only [presentIn, List.any_eq_true] at hp
    obtain ⟨o, ho, hoa⟩ := hp
    have := (List.all_eq_true.1 hobs) o ho
    have hoa' : o.1 = a := by simpa using hoa
    rwa [hoa'] at this
  have hs : (r.find? (·.1 == a)).isSome = true := by
    rw [List.find?_isSome]; simpa [has, List.any_eq_true] using hh
  obtain ⟨p, hpf⟩ := Option.isSome_iff_exists.1 hs
  have hm := List.mem_of_find?_eq_some hpf
  have hk : p.1 = a := by simpa using List.find?_some hpf
  have hv := (List.all_eq_true.1 hall) p hm
  rw [hk] at hv
  cases hl : lastOf obs a with
  | none => rw [hl] at hv; simp at hv
  | some v =>
    rw [hl] at hv
    simp only [Option.any_some] at hv
    have := (veq_iff p.2 [v]).1 hv 0
    refine ⟨by simp [valOf, Spec.get, hpf]; simpa using this, v, rfl, ?_⟩
    simp only [valOf, Spec.get, hpf]; simpa using this

/-- **A synchronous gauge read cumulatively keeps the last value across gaps.**  If the reports satisfy the oracle's
clause for a synchronous gauge, a set recorded in cycle `j` and not recorded in the cycles `j+1 … j+n` is still reported
by the cumulative reader at collection `j+n`, with exactly the value the delta reader reported for it at collection `j`
(its last value of that cycle) — the delta reader itself reports it in none of the gap cycles (`cycleExact`). -/
theorem gauge_cumulative_is_latest_delta (recd : List (List (Nat × Int))) (ds cs : List Report)
    (h : syncGaugeHistOK recd ds cs = true) (a j n : Nat) (hlt : j + n < recd.length)
    (hp : presentIn (recd.getD j []) a = true)
    (hgap : ∀ m, j < m → m ≤ j + n → presentIn (recd.getD m []) a = false) :
    valOf (cs.getD (j + n) []) a = valOf (ds.getD j []) a := by
  have hj := (List.all_eq_true.1 h) j (List.mem_range.2 (by omega))
  have hk := (List.all_eq_true.1 h) (j + n) (List.mem_range.2 hlt)
  simp only [Bool.and_eq_true, gaugeCumOK] at hj hk
  obtain ⟨v, hv1, hv2⟩ := (gauge_val _ _ a hj.1 hp).2
  have hlast := lastOf_take_gap recd a j (by omega) hp n hlt hgap
  have hpk : presentIn ((recd.take (j + n + 1)).flatten) a = true := by
    have : lastOf ((recd.take (j + n + 1)).flatten) a = some v := by rw [hlast, hv1]
    simp only [lastOf] at this
    cases hf : ((recd.take (j + n + 1)).flatten).filter (·.1 == a) with
    | nil => rw [hf] at this; simp at this
    | cons p l =>
      have hm : p ∈ ((recd.take (j + n + 1)).flatten).filter (·.1 == a) := by rw [hf]; simp
      obtain ⟨hm1, hm2⟩ := List.mem_filter.1 hm
      exact List.any_eq_true.2 ⟨p, hm1, hm2⟩
  obtain ⟨w, hw1, hw2⟩ := (gauge_val _ _ a hk.2 hpk).2
  rw [hw2, hv2]
  rw [hlast, hv1] at hw1
  exact (Option.some.inj hw1).symm

/-- non-vacuity -/
example : twinRel deltaPreference cumulativeSel .counter = .firstDelta ∧
    twinRel deltaPreference cumulativeSel .obsUpdown = .identical ∧ twinRel cumulativeSel deltaSel .gauge = .secondDelta := by
  decide

example : Fresh (mkAgg ⟨false, .obsCounter, .dflt, true⟩) ∧ Fresh (mkAgg ⟨true, .histogram, .expo, false⟩) := by
  constructor <;> simp [mkAgg, effectiveSel, Fresh]

end Otel.C08
