/-
C08 — twin-reader model: one MeterProvider, a delta reader D and a cumulative reader C, all instrument kinds and
aggregations, callbacks replaying the observations of the current cycle.  Built on the aggregator library
Otel.C02.Model (sum, precomputedSum, lastValue, precomputedLastValue, explicit histogram).

Exponential histograms are modelled at the coarsest structural level only: count, sum and the split of the
bucket counts into negative / zero / positive (an explicit histogram with boundaries [-1, 0] over the
integer-scaled values has exactly these three buckets); bucket indexes and rescaling are C07's subject.
-/
import Otel.C02.Model
namespace Otel.C08
open Otel.C02

inductive Kind where
  | counter | updown | histogram | gauge | obsCounter | obsUpdown | obsGauge
deriving Repr, BEq, DecidableEq

def Kind.async : Kind → Bool
  | .obsCounter | .obsUpdown | .obsGauge => true
  | _ => false

/-- view-selected aggregation (`dflt` = no view) -/
inductive AggSel where
  | dflt | sum | last | explicit | expo | drop
deriving Repr, BEq, DecidableEq

structure InstCfg where
  float : Bool
  kind : Kind
  sel : AggSel
  /-- created with an instrument-level callback (WithInt64Callback / WithFloat64Callback) -/
  cb : Bool
deriving Repr

/-- one aggregate function instance (what `Builder.*` returned for this pipeline and instrument) -/
inductive Agg where
  | sum (s : Sum)
  | psum (s : PSum)
  | lv (s : LastValue)
  | plv (s : LastValue)
  | hist (h : Hist)
  | expo (h : Hist)
  /-- drop aggregation or incompatible aggregation: no aggregate function -/
  | off
deriving Repr

/-- reported payload of a point -/
inductive PV where
  | num (v : Int)
  | hist (count : Nat) (sum : Int) (counts : List Nat)
deriving Repr, BEq, DecidableEq

/-- data type tag of a metric: Sum (monotonic?) / Gauge / Histogram / ExponentialHistogram -/
inductive DT where
  | sum (mono : Bool) | gauge | hist | expo
deriving Repr, BEq, DecidableEq

def defaultBounds : List Int := [0, 5, 10, 25, 50, 75, 100, 250, 500, 750, 1000, 2500, 5000, 7500, 10000]
def viewBounds : List Int := [0, 10, 100]

/-- `DefaultAggregationSelector` (reader.go:147-165) resolved -/
def effectiveSel (k : Kind) : AggSel → AggSel
  | .dflt =>
    match k with
    | .counter | .updown | .obsCounter | .obsUpdown => .sum
    | .gauge | .obsGauge => .last
    | .histogram => .explicit
  | s => s

/-- `isAggregatorCompatible` + `aggregateFunc` (pipeline.go:478-588). `scale` = 256 for float64 instruments
(values travel as k = v·256), 1 for int64. -/
def mkAgg (i : InstCfg) : Agg :=
  let scale : Int := if i.float then 256 else 1
  let noSum := match i.kind with
    | .updown | .obsUpdown | .obsGauge | .gauge => true
    | _ => false
  match effectiveSel i.kind i.sel with
  | .sum =>
    match i.kind with
    | .obsCounter => .psum { monotonic := true }
    | .obsUpdown => .psum { monotonic := false }
    | .counter | .histogram => .sum { monotonic := true }
    | .updown => .sum { monotonic := false }
    | _ => .off                                   -- incompatible (gauges)
  | .last =>
    match i.kind with
    | .gauge => .lv {}
    | .obsGauge => .plv {}
    | _ => .off                                   -- incompatible
  | .explicit =>
    let b := if i.sel == .dflt then defaultBounds else viewBounds
    .hist { noSum := noSum, bounds := b.map (· * scale) }
  | .expo => .expo { noSum := noSum, bounds := [-1, 0] }
  | .drop => .off
  | .dflt => .off

def Agg.measure (g : Agg) (a : Attr) (x : Int) : Agg :=
  match g with
  | .sum s => .sum (s.measure a x)
  | .psum s => .psum (s.measure a x)
  | .lv s => .lv (s.measure a x)
  | .plv s => .plv (s.measure a x)
  | .hist h => .hist (h.measure a x)
  | .expo h => .expo (h.measure a x)
  | .off => .off

def histPV (noSum : Bool) (v : HistVal) : PV := .hist v.count (if noSum then 0 else v.total) v.counts

/-- run the compute function: new state, data type, points -/
def Agg.collect (g : Agg) (tp : Temporality) (t : Nat) : Agg × Option (DT × List (Pt PV)) :=
  let cv := fun (ps : List (Pt Int)) => ps.map fun p => ({ p with val := PV.num p.val } : Pt PV)
  match g with
  | .sum s =>
    let r := s.collect tp t
    (.sum r.1, some (.sum s.monotonic, r.2.map fun p => { p with val := PV.num p.val.n }))
  | .psum s => let r := s.collect tp t; (.psum r.1, some (.sum s.monotonic, cv r.2))
  | .lv s => let r := s.collect tp t; (.lv r.1, some (.gauge, cv r.2))
  | .plv s => let r := s.pcollect tp t; (.plv r.1, some (.gauge, cv r.2))
  | .hist h =>
    let r := h.collect tp t
    (.hist r.1, some (.hist, r.2.map fun p => { p with val := histPV h.noSum p.val }))
  | .expo h =>
    let r := h.collect tp t
    (.expo r.1, some (.expo, r.2.map fun p => { p with val := histPV h.noSum p.val }))
  | .off => (.off, none)

/-- one collected stream: instrument, data type, temporality shown, points sorted by attribute -/
structure Stream where
  inst : Nat
  dt : DT
  pts : List (Pt PV)
deriving Repr

structure Sys where
  insts : List InstCfg
  /-- instrument sets of the callback slots (RegisterCallback(f, insts…)) -/
  slots : List (List Nat)
  /-- aggregators of the delta reader / of the cumulative reader, one per instrument -/
  d : List Agg
  c : List Agg
  /-- registered slots in registration order (pipeline.multiCallbacks) -/
  regs : List Nat := []
  /-- observations the callbacks will replay in the next cycle: (instrument, attribute, value) -/
  cur : List (Nat × Attr × Int) := []
  cycle : Nat := 0
  /-- records: (cycle, reader is delta?, streams) -/
  recs : List (Nat × Bool × List Stream) := []
deriving Repr

inductive Op where
  | record (j : Nat) (a : Attr) (v : Int)
  | obs (j : Nat) (a : Attr) (v : Int)
  | reg (k : Nat)
  | unreg (k : Nat)
  | col
deriving Repr

def Sys.init (is : List InstCfg) (slots : List (List Nat)) : Sys :=
  { insts := is, slots := slots, d := is.map mkAgg, c := is.map mkAgg }

/-- remove the last occurrence -/
def eraseLast (l : List Nat) (k : Nat) : List Nat := (l.reverse.erase k).reverse

/-- the callbacks in execution order (pipeline.produce: instrument callbacks in creation order, then the
multi-instrument callbacks in registration order), each given as the set of instruments it can reach -/
def Sys.callbacks (s : Sys) : List (List Nat) :=
  ((List.range s.insts.length).filter fun j =>
      match s.insts[j]? with
      | some i => i.kind.async && i.cb
      | none => false).map (fun j => [j]) ++
  s.regs.map fun k => ((s.slots[k]?).getD []).filter fun j =>
      match s.insts[j]? with
      | some i => i.kind.async
      | none => false

/-- one callback replays the cycle's observations; only instruments it is registered for are recorded
(meter.go:567-626: `if _, registered := r.int64[oImpl.observableID]; !registered { … return }`) -/
def replay (cb : List Nat) (cur : List (Nat × Attr × Int)) (aggs : List Agg) : List Agg :=
  cur.foldl (fun aggs o => if cb.contains o.1 then aggs.modify o.1 fun g => g.measure o.2.1 o.2.2 else aggs) aggs

def collectAll (tp : Temporality) (t : Nat) : List Agg → Nat → List Agg × List Stream
  | [], _ => ([], [])
  | g :: gs, j =>
    let (g', out) := g.collect tp t
    let (gs', rest) := collectAll tp t gs (j + 1)
    (g' :: gs',
     match out with
     | some (dt, pts) => if pts.isEmpty then rest else { inst := j, dt := dt, pts := pts } :: rest
     | none => rest)

/-- Reader.Collect: callbacks, then every compute function; model time of cycle `k` is `k + 1` (creation = 0) -/
def Sys.collectReader (s : Sys) (delta : Bool) : Sys :=
  let aggs := if delta then s.d else s.c
  let aggs := s.callbacks.foldl (fun aggs cb => replay cb s.cur aggs) aggs
  let (aggs', streams) := collectAll (if delta then .delta else .cumulative) (s.cycle + 1) aggs 0
  let s := if delta then { s with d := aggs' } else { s with c := aggs' }
  { s with recs := s.recs ++ [(s.cycle, delta, streams)] }

def Sys.step (s : Sys) : Op → Sys
  | .record j a v =>
    match s.insts[j]? with
    | some i =>
      if i.kind.async then s
      else { s with d := s.d.modify j fun g => g.measure a v, c := s.c.modify j fun g => g.measure a v }
    | none => s
  | .obs j a v => { s with cur := s.cur ++ [(j, a, v)] }
  | .reg k => if k < s.slots.length then { s with regs := s.regs ++ [k] } else s
  | .unreg k => { s with regs := eraseLast s.regs k }
  | .col =>
    let s := (s.collectReader true).collectReader false
    { s with cur := [], cycle := s.cycle + 1 }

def Sys.run (is : List InstCfg) (slots : List (List Nat)) (ops : List Op) : Sys :=
  ops.foldl Sys.step (Sys.init is slots)

end Otel.C08
