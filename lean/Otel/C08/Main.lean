/-
C08 driver: replays a twin-reader history on the model and evaluates the Spec predicates on the observed records.
-/
import Otel.Base.Wire
import Otel.C08.Oracle
import Otel.C08.CbErr
import Otel.C08.ExpoBuckets
open Otel Otel.Wire Otel.C02 Otel.C08

namespace Otel.C08.Drv

def parseKind (c : Char) : Option Kind :=
  match c with
  | 'c' => some .counter | 'u' => some .updown | 'h' => some .histogram | 'g' => some .gauge
  | 'C' => some .obsCounter | 'U' => some .obsUpdown | 'G' => some .obsGauge
  | _ => none

def parseSel (c : Char) : Option AggSel :=
  match c with
  | '-' => some .dflt | 's' => some .sum | 'l' => some .last | 'e' => some .explicit | 'x' => some .expo | 'd' => some .drop
  | _ => none

/-- `<i|f><kind><agg><cb>[n]`; the optional 5th character `n` = the view's histogram aggregation has `NoMinMax` -/
def parseInstX (s : String) : Option (InstCfg × Bool) :=
  let mk := fun (n k a cb : Char) (nomm : Bool) => do
    if n != 'i' && n != 'f' then none
    pure (({ float := n == 'f', kind := ← parseKind k, sel := ← parseSel a, cb := cb == '1' } : InstCfg), nomm)
  -- optional suffixes `@m` (meter: the scopes differ only in version / schema URL / attributes) and `#k` (created with
  -- the NAME of instrument k, which lives in another meter): the model identifies instruments by their index, scopes and
  -- names only matter to the harness when it maps the reported (scope, name) back to an index
  let core := ((s.splitOn "#").headD "").splitOn "@" |>.headD ""
  match core.toList with
  | [n, k, a, cb] => mk n k a cb false
  | [n, k, a, cb, 'n'] => mk n k a cb true
  | _ => none

def parseSlots (s : String) : List (List Nat) :=
  if s == "-" then [] else (s.splitOn ",").map fun sl => sl.toList.filterMap fun c =>
    if '0' ≤ c ∧ c ≤ '9' then some (c.toNat - 48) else none

def parseOp : List String → Option Op
  | ["rec", j, a, v] => do pure (.record (← parseNat j) (← parseNat a) (← parseInt v))
  | ["obs", j, a, v] => do pure (.obs (← parseNat j) (← parseNat a) (← parseInt v))
  | ["reg", k] => do pure (.reg (← parseNat k))
  | ["unreg", k] => do pure (.unreg (← parseNat k))
  | ["col"] => some .col
  | _ => none

/-- `ovl`: for each reader, two collections that OVERLAP in time (the first parked in its first callback while the
second is started).  `pipeline.produce` holds the pipeline lock from before the callbacks until after the last compute
function, so collections of one reader are atomic and the second one runs after the first: the op is two consecutive
cycles, the second replaying the same observations (atomicity assumption, tied by the lock-scope listing of
pipeline.produce in checks/C08.json → extract). -/
def expandOvl (groups : List (List String)) : List (List String) :=
  (groups.foldl (fun (acc : List (List String) × List (List String)) g =>
    match g with
    | ["ovl"] => (acc.1 ++ [["col"]] ++ acc.2 ++ [["col"]], [])
    | ["col"] => (acc.1 ++ [g], [])
    | "obs" :: _ => (acc.1 ++ [g], acc.2 ++ [g])
    | _ => (acc.1 ++ [g], acc.2)) ([], [])).1

def parseXOp : List String → Option XOp
  | ["cberr"] => some .cberr
  | ["cancelat", j] => (parseNat j).map .cancelAt
  | toks => (parseOp toks).map .op

def splitBar (toks : List String) : List (List String) :=
  let (cur, acc) := toks.foldl (fun (p : List String × List (List String)) t =>
    if t == "|" then ([], if p.1.isEmpty then p.2 else p.1.reverse :: p.2) else (t :: p.1, p.2)) ([], [])
  (if cur.isEmpty then acc else cur.reverse :: acc).reverse

/-! ### rendering the model's records -/

def renderPV : PV → String
  | .num v => s!"{v}"
  | .hist c s cs => s!"{c}/{s}/" ++ ".".intercalate (cs.map toString)

def renderCls : Option (Option Nat) → String
  | some none => "c"
  | some (some k) => s!"w{k}"
  | none => "?"

def renderFlag : Option Bool → String
  | some true => "1"
  | some false => "0"
  | none => "-"

def renderMStream (delta : Bool) (st : MStream) : String :=
  let iv := st.iv
  let ps := ",".intercalate (st.pts.map fun q => s!"{q.attr}={renderPV q.val}")
  s!"{st.inst}:{renderDT st.dt delta}:{renderCls iv.startCycle}.{renderCls iv.timeCycle}.{renderFlag iv.p}.{renderFlag iv.f}.{if iv.le then "1" else "0"}.{if iv.uniform then "1" else "0"}:{ps}"

/-- prints exactly the flagged records of Oracle.lean (`flagRecs`), whose structured form is `modelORecs` -/
def renderRecs (recs : List (Nat × Bool × List Stream)) : List String :=
  (flagRecs [] recs).map fun rc =>
    ";".intercalate (s!"{rc.1}:{if rc.2.1 then "D" else "C"}" :: rc.2.2.map (renderMStream rc.2.1))

/-- the same with the error status of each collection in the header: `<cycle>:<D|C>[:e]` -/
def isHistDT : DT → Bool
  | .hist => true
  | .expo => true
  | _ => false

/-- the expected Min/Max field of a histogram stream: one `min~max` or `-` per point -/
def renderMM (insts : List InstCfg) (noMM : List Bool) (cyc : List CycleIn) (cycle : Nat) (delta : Bool) (st : MStream) : String :=
  ",".intercalate (st.pts.map fun q => renderExtrema (refExtrema insts noMM cyc st.inst cycle delta q.attr))

def renderRecsX (insts : List InstCfg) (noMM : List Bool) (cyc : List CycleIn)
    (recs : List (Nat × Bool × List Stream)) (errs : List (Nat × Bool × Bool)) : List String :=
  ((flagRecs [] recs).zip (errs.map (·.2.2) ++ List.replicate recs.length false)).map fun (rc, e) =>
    ";".intercalate (s!"{rc.1}:{if rc.2.1 then "D" else "C"}{if e then ":e" else ""}" ::
      rc.2.2.map fun st =>
        renderMStream rc.2.1 st ++ (if isHistDT st.dt then ":" ++ renderMM insts noMM cyc rc.1 rc.2.1 st else ""))

/-! ### parsing the observed records -/

def parseCls (s : String) : Option (Option Nat) :=
  if s == "c" then some none
  else match s.toList with
    | 'w' :: r => (parseNat (String.ofList r)).map some
    | _ => none

def parseFlag (s : String) : Option (Option Bool) :=
  if s == "1" then some (some true) else if s == "0" then some (some false) else if s == "-" then some none else none

def parseVec (s : String) : Option Spec.Vec :=
  match s.splitOn "/" with
  | [v] => do pure [← parseInt v]
  | [c, sm, cs] => do
    let counts ← if cs.isEmpty then some [] else (cs.splitOn ".").mapM parseInt
    pure ((← parseInt c) :: (← parseInt sm) :: counts)
  | _ => none

def parseOStream (s : String) : Option OStream :=
  -- an optional 5th field (Min/Max of histogram points) is judged separately (`extremaOK`)
  match (s.splitOn ":").take 4 with
  | [j, ty, ti, pts] =>
    match ti.splitOn "." with
    | [sc, tc, p, f, le, uni] => do
      let ps ← (pts.splitOn ",").mapM fun q =>
        match q.splitOn "=" with
        | [a, v] => do pure (← parseNat a, ← parseVec v)
        | _ => none
      pure { inst := ← parseNat j, ty := ty,
             iv := { startCycle := parseCls sc, timeCycle := parseCls tc, p := ← parseFlag p, f := ← parseFlag f,
                     le := le == "1", uniform := uni == "1" },
             pts := ps }
    | _ => none
  | _ => none

/-- a record and whether the collection returned an error (`<cycle>:<D|C>[:e];…`) -/
def parseORec (s : String) : Option (ORec × Bool) :=
  match s.splitOn ";" with
  | hd :: streams =>
    let mk := fun (c r : String) (e : Bool) => do
      if r != "D" && r != "C" then none
      pure (({ cycle := ← parseNat c, delta := r == "D", streams := ← streams.mapM parseOStream } : ORec), e)
    match hd.splitOn ":" with
    | [c, r] => mk c r false
    | [c, r, "e"] => mk c r true
    | _ => none
  | [] => none

/-- Min/Max clause on the OBSERVED line: every histogram / exponential-histogram stream carries, per point, exactly the
reference extrema (`refExtrema`: absent with NoMinMax) -/
def extremaOK (insts : List InstCfg) (noMM : List Bool) (cyc : List CycleIn) (obs : List String) : Bool :=
  obs.all fun rcs =>
    match rcs.splitOn ";" with
    | hd :: streams =>
      (match hd.splitOn ":" with
       | c :: r :: _ =>
         match parseNat c with
         | some k =>
           streams.all fun st =>
             match st.splitOn ":" with
             | [j, ty, _, pts, mm] =>
               (match parseNat j with
                | some j =>
                  (ty.startsWith "H" || ty.startsWith "X") &&
                  mm.splitOn "," == (pts.splitOn ",").map fun q =>
                    match parseNat ((q.splitOn "=").headD "") with
                    | some a => renderExtrema (refExtrema insts noMM cyc j k (r == "D") a)
                    | none => "?"
                | none => false)
             | [_, ty, _, _] => !(ty.startsWith "H" || ty.startsWith "X")
             | _ => false
         | none => false
       | _ => false)
    | [] => false

/-! ### full bucket vectors of exponential-histogram points (6th field of `X` streams) -/

def parseCounts (s : String) : Option (List Nat) :=
  if s.isEmpty then some [] else (s.splitOn ".").mapM parseNat

/-- `<scale>@<neg offset>@<neg counts>@<pos offset>@<pos counts>` -/
def parseXPt (s : String) : Option XB.XPt :=
  match s.splitOn "@" with
  | [sc, no, nc, po, pc] => do
    pure ⟨← parseInt sc, ⟨← parseInt no, ← parseCounts nc⟩, ⟨← parseInt po, ← parseCounts pc⟩⟩
  | _ => none

/-- the negative / positive totals of a point's main field `a=count/sum/neg.zero.pos` -/
def parseXMain (q : String) : Option (Nat × Nat × Nat) :=
  match q.splitOn "=" with
  | [a, v] =>
    match v.splitOn "/" with
    | [_, _, cs] =>
      match cs.splitOn "." with
      | [n, _, p] => do pure (← parseNat a, ← parseNat n, ← parseNat p)
      | _ => none
    | _ => none
  | _ => none

/-- the exponential-histogram points of one observed stream (`[]` for other streams); `none` = an `X` stream without a
well-formed 6th field -/
def parseXStream (k : Nat) (delta : Bool) (st : String) : Option (List XB.XObs) :=
  match st.splitOn ":" with
  | [j, ty, _, pts, _, xb] =>
    if ty.startsWith "X" then do
      let j ← parseNat j
      let ps ← (pts.splitOn ",").mapM parseXMain
      let xs ← (xb.splitOn ",").mapM parseXPt
      if ps.length != xs.length then none
      pure ((ps.zip xs).map fun (px : (Nat × Nat × Nat) × XB.XPt) =>
        ({ cycle := k, delta := delta, inst := j, attr := px.1.1, pt := px.2, negTot := px.1.2.1, posTot := px.1.2.2 } : XB.XObs))
    else none
  | _ :: ty :: _ => if ty.startsWith "X" then none else some []
  | _ => some []

def parseXRec (rcs : String) : Option (List XB.XObs) :=
  match rcs.splitOn ";" with
  | hd :: streams =>
    (match hd.splitOn ":" with
     | c :: r :: _ => do
       let k ← parseNat c
       let l ← streams.mapM (parseXStream k (r == "D"))
       pure l.flatten
     | _ => none)
  | [] => none

/-- every exponential-histogram point of the observed records with its bucket vectors -/
def parseXObs (obs : List String) : Option (List XB.XObs) := (obs.mapM parseXRec).map List.flatten

/-- the observed record without the 6th field of its `X` streams (what the model renders) -/
def stripXB (rcs : String) : String :=
  ";".intercalate ((rcs.splitOn ";").map fun st => ":".intercalate ((st.splitOn ":").take 5))

def tagIf (b : Bool) (t : String) : List String := if b then [t] else []

def stepLine (_ : Unit) (toks : List String) : Unit × Option Verdict :=
  let (inp, obsFull) := splitObs toks
  -- the bucket vectors of exponential-histogram points are judged by `XB.expoBucketsTwin` on the observed line only;
  -- the model predicts (and `agree` compares) count, sum and the negative / zero / positive totals
  let obs := obsFull.map stripXB
  match inp with
  | "twin" :: _ :: istr :: sstr :: rest =>
    let r : Option Verdict := do
      let isx ← (istr.splitOn ",").mapM parseInstX
      let is := isx.map (·.1)
      let noMM := isx.map (·.2)
      let slots := parseSlots sstr
      -- `by <pos> <kinds>`: the provider has a third reader whose AggregationSelector drops these instrument kinds; what a
      -- reader's selector drops concerns that reader only (`bystander_reader_has_no_effect`): erased from the history
      let groups0 := splitBar rest
      let groups := groups0.filter fun g => g.head? != some "by"
      let xops ← (expandOvl groups).mapM parseXOp
      -- a callback error does not affect the data: the oracle and the theorems speak about the history without the
      -- error script (`callback_error_does_not_affect_data`), the error status is compared separately
      let ops := eraseErr xops
      let xmodel := XSys.run is slots xops
      let model := xmodel.sys
      let cyc := cycleInputs is slots ops
      let mstr := renderRecsX is noMM cyc model.recs xmodel.errs
      match obs.mapM parseORec with
      | none => pure { agree := false, spec := "FAIL", nontrivial := false, branches := "unparsed-observation", model := " ".intercalate mstr }
      | some recsE =>
        let recs := recsE.map (·.1)
        let errsOk := recsE.map (·.2) == xmodel.errs.map (·.2.2)
        let xobs := parseXObs obsFull
        let spec := oracle is slots ops recs && pointsSelfConsistent recs && extremaOK is noMM cyc obs &&
          (match xobs with | some xs => XB.expoBucketsTwin xs | none => false)
        let aggs := is.map mkAgg
        let reported := fun (p : Agg → Bool) => (List.range is.length).any fun j =>
          (match aggs[j]? with | some g => p g | none => false) &&
          model.recs.any fun rc => rc.2.2.any fun st => st.inst == j
        let tags :=
          tagIf (reported fun g => match g with | .sum _ => true | _ => false) "sum" ++
          tagIf (reported fun g => match g with | .psum _ => true | _ => false) "precomputed-sum" ++
          tagIf (reported fun g => match g with | .lv _ => true | _ => false) "last-value" ++
          tagIf (reported fun g => match g with | .plv _ => true | _ => false) "precomputed-last-value" ++
          tagIf (reported fun g => match g with | .hist _ => true | _ => false) "histogram" ++
          tagIf (reported fun g => match g with | .expo _ => true | _ => false) "expo-histogram" ++
          tagIf (aggs.any fun g => match g with | .off => true | _ => false) "drop-or-incompatible" ++
          tagIf (ops.any fun o => match o with | .unreg _ => true | _ => false) "unregister" ++
          tagIf (model.cycle > 2) "multi-cycle" ++
          tagIf (xmodel.errs.any (·.2.2)) "callback-error" ++
          tagIf (groups.contains ["ovl"]) "same-reader-overlap" ++
          tagIf (groups0.any fun g => g.head? == some "by") "bystander-reader-drops-kinds" ++
          tagIf (groups0.any fun g => match g with | ["by", _, k] => k.startsWith "!" | _ => false) "bystander-reader-rejects-kinds" ++
          tagIf ((istr.splitOn ",").any fun tk => (tk.splitOn "@").length > 1) "several-meters" ++
          tagIf (xops.any fun o => match o with | .cancelAt j => j < is.length | _ => false) "cancel-during-aggregation" ++
          tagIf ((List.range is.length).any fun j => noSumInst is j && model.recs.any fun rc => rc.2.2.any fun st => st.inst == j) "nosum-histogram" ++
          tagIf ((List.range is.length).any fun j => noMM.getD j false && model.recs.any fun rc => rc.2.2.any fun st => st.inst == j && isHistDT st.dt) "nominmax-histogram" ++
          tagIf ((xobs.getD []).any fun c => !c.delta && (xobs.getD []).any fun d =>
            d.delta && d.inst == c.inst && d.attr == c.attr && d.cycle ≤ c.cycle && d.pt.scale != c.pt.scale) "expo-buckets-rescaled" ++
          tagIf (model.recs.any fun rc => rc.2.2.any fun st => st.dt == .expo && st.pts.any fun p =>
            match p.val with | .hist _ _ [n, _, ps] => n == 0 || ps == 0 | _ => false) "expo-one-sided"
        -- `agree` also ties the printed form to the structured form the theorems are about: when the implementation's
        -- line equals the model's, what was parsed from it must be `modelORecs` of the model's records
        pure { agree := mstr == obs && errsOk && recs == modelORecs model.recs, spec := if spec then "ok" else "FAIL",
               nontrivial := model.recs.any (fun rc => !rc.2.2.isEmpty) && model.cycle > 1,
               branches := if tags.isEmpty then "-" else ",".intercalate tags,
               model := " ".intercalate mstr }
    ((), r)
  | _ => ((), none)

end Otel.C08.Drv

def main : IO Unit := Wire.run () Otel.C08.Drv.stepLine
