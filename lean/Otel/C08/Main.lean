/-
C08 driver: replays a twin-reader history on the model and evaluates the Spec predicates on the observed records.
-/
import Otel.Base.Wire
import Otel.C08.Model
import Otel.C08.Spec
open Otel Otel.Wire Otel.C02 Otel.C08

namespace Otel.C08.Drv

def parseKind (c : Char) : Option Kind :=
  match c with
  | 'c' => some .counter | 'u' => some .updown | 'h' => some .histogram | 'g' => some .gauge
  | 'C' => some .obsCounter | 'U' => some .obsUpdown | 'G' => some .obsGauge
  | _ => none

def parseSel (c : Char) : Option AggSel :=
  match c with
  | '-' => some .dflt | 's' => some .sum | 'l' => some .last | 'e' => some .explicit | 'x' => some .expo | 'd' => some .drop
  | _ => none

def parseInst (s : String) : Option InstCfg :=
  match s.toList with
  | [n, k, a, cb] => do
    if n != 'i' && n != 'f' then none
    pure { float := n == 'f', kind := ← parseKind k, sel := ← parseSel a, cb := cb == '1' }
  | _ => none

def parseSlots (s : String) : List (List Nat) :=
  if s == "-" then [] else (s.splitOn ",").map fun sl => sl.toList.filterMap fun c =>
    if '0' ≤ c ∧ c ≤ '9' then some (c.toNat - 48) else none

def parseOp : List String → Option Op
  | ["rec", j, a, v] => do pure (.record (← parseNat j) (← parseNat a) (← parseInt v))
  | ["obs", j, a, v] => do pure (.obs (← parseNat j) (← parseNat a) (← parseInt v))
  | ["reg", k] => do pure (.reg (← parseNat k))
  | ["unreg", k] => do pure (.unreg (← parseNat k))
  | ["col"] => some .col
  | _ => none

def splitBar (toks : List String) : List (List String) :=
  let (cur, acc) := toks.foldl (fun (p : List String × List (List String)) t =>
    if t == "|" then ([], if p.1.isEmpty then p.2 else p.1.reverse :: p.2) else (t :: p.1, p.2)) ([], [])
  (if cur.isEmpty then acc else cur.reverse :: acc).reverse

/-! ### rendering the model's records -/

def renderPV : PV → String
  | .num v => s!"{v}"
  | .hist c s cs => s!"{c}/{s}/" ++ ".".intercalate (cs.map toString)

def renderDT (dt : DT) (delta : Bool) : String :=
  let t := if delta then "d" else "c"
  match dt with
  | .sum m => s!"S{t}{if m then "m" else "n"}"
  | .gauge => "G"
  | .hist => s!"H{t}"
  | .expo => s!"X{t}"

def cls (t : Nat) : String := if t == 0 then "c" else s!"w{t - 1}"

def sortPts (pts : List (Pt PV)) : List (Pt PV) :=
  (sortByAttr (pts.map fun p => (p.attr, p))).map (·.2)

/-- (reader is delta, instrument) ↦ (cycle, start, time) of the most recent report -/
abbrev PrevMap := List ((Bool × Nat) × (Nat × Nat × Nat))

def renderRecs (recs : List (Nat × Bool × List Stream)) : List String :=
  (recs.foldl (fun (acc : PrevMap × List String) rc =>
    let (cycle, delta, streams) := rc
    let (prev, strs) := streams.foldl (fun (a : PrevMap × List String) st =>
      let pts := sortPts st.pts
      match pts.head? with
      | none => a
      | some p0 =>
        let pv := a.1.lookup (delta, st.inst)
        let f := match pv with | some (_, s, _) => if s == p0.start then "1" else "0" | none => "-"
        let p := match pv with
          | some (c, _, t) => if c + 1 == cycle then (if t == p0.start then "1" else "0") else "-"
          | none => "-"
        let le := if p0.start ≤ p0.time then "1" else "0"
        let uni := if pts.all (fun q => q.start == p0.start && q.time == p0.time) then "1" else "0"
        let ps := ",".intercalate (pts.map fun q => s!"{q.attr}={renderPV q.val}")
        let s := s!"{st.inst}:{renderDT st.dt delta}:{cls p0.start}.{cls p0.time}.{p}.{f}.{le}.{uni}:{ps}"
        (((delta, st.inst), (cycle, p0.start, p0.time)) :: a.1, a.2 ++ [s])) (acc.1, [])
    (prev, acc.2 ++ [";".intercalate (s!"{cycle}:{if delta then "D" else "C"}" :: strs)])) ([], [])).2

/-! ### parsing the observed records -/

structure OStream where
  inst : Nat
  ty : String
  iv : Spec.Interval
  pts : Spec.Report
deriving Repr

structure ORec where
  cycle : Nat
  delta : Bool
  streams : List OStream
deriving Repr

def parseCls (s : String) : Option (Option Nat) :=
  if s == "c" then some none
  else match s.toList with
    | 'w' :: r => (parseNat (String.ofList r)).map some
    | _ => none

def parseFlag (s : String) : Option (Option Bool) :=
  if s == "1" then some (some true) else if s == "0" then some (some false) else if s == "-" then some none else none

def parseVec (s : String) : Option Spec.Vec :=
  match s.splitOn "/" with
  | [v] => do pure [← parseInt v]
  | [c, sm, cs] => do
    let counts ← if cs.isEmpty then some [] else (cs.splitOn ".").mapM parseInt
    pure ((← parseInt c) :: (← parseInt sm) :: counts)
  | _ => none

def parseOStream (s : String) : Option OStream :=
  match s.splitOn ":" with
  | [j, ty, ti, pts] =>
    match ti.splitOn "." with
    | [sc, tc, p, f, le, uni] => do
      let ps ← (pts.splitOn ",").mapM fun q =>
        match q.splitOn "=" with
        | [a, v] => do pure (← parseNat a, ← parseVec v)
        | _ => none
      pure { inst := ← parseNat j, ty := ty,
             iv := { startCycle := parseCls sc, timeCycle := parseCls tc, p := ← parseFlag p, f := ← parseFlag f,
                     le := le == "1", uniform := uni == "1" },
             pts := ps }
    | _ => none
  | _ => none

def parseORec (s : String) : Option ORec :=
  match s.splitOn ";" with
  | hd :: streams =>
    match hd.splitOn ":" with
    | [c, r] => do
      if r != "D" && r != "C" then none
      pure { cycle := ← parseNat c, delta := r == "D", streams := ← streams.mapM parseOStream }
    | _ => none
  | [] => none

/-! ### the oracle -/

/-- per cycle: the callbacks in execution order and the observations they replay, and the synchronous
measurements made since the previous cycle -/
structure CycleIn where
  callbacks : List (List Nat)
  cur : List (Nat × Attr × Int)
  recorded : List (Nat × Attr × Int)

def cycleInputs (is : List InstCfg) (slots : List (List Nat)) (ops : List Op) : List CycleIn :=
  (ops.foldl (fun (acc : Sys × List (Nat × Attr × Int) × List CycleIn) op =>
    let (s, recd, out) := acc
    match op with
    | .col => (s.step op, [], out ++ [{ callbacks := s.callbacks, cur := s.cur, recorded := recd }])
    | .record j a v => (s.step op, recd ++ [(j, a, v)], out)
    | _ => (s.step op, recd, out)) (Sys.init is slots, [], [])).2.2

/-- observations that reach instrument `j` in a cycle: for each callback that may observe `j`, the cycle's
observations of `j`, in order -/
def effObs (c : CycleIn) (j : Nat) : List (Nat × Int) :=
  c.callbacks.flatMap fun cb =>
    if cb.contains j then (c.cur.filter (·.1 == j)).map (·.2) else []

def reportOf (recs : List ORec) (k : Nat) (delta : Bool) (j : Nat) : Spec.Report :=
  match recs.find? (fun r => r.cycle == k && r.delta == delta) with
  | some r => match r.streams.find? (·.inst == j) with
    | some s => s.pts
    | none => []
  | none => []

def oracle (is : List InstCfg) (slots : List (List Nat)) (ops : List Op) (recs : List ORec) : Bool :=
  let cyc := cycleInputs is slots ops
  let n := cyc.length
  -- intervals
  (recs.all fun r => r.streams.all fun s =>
    if r.delta then Spec.deltaIntervalOK r.cycle s.iv else Spec.cumulativeIntervalOK r.cycle s.iv) &&
  recs.length == 2 * n &&
  (List.range is.length).all fun j =>
    match is[j]? with
    | none => false
    | some ic =>
      let ds := (List.range n).map fun k => reportOf recs k true j
      let cs := (List.range n).map fun k => reportOf recs k false j
      let eff := cyc.map fun c => effObs c j
      let recd := cyc.map fun c => (c.recorded.filter (·.1 == j)).map (·.2)
      match mkAgg ic with
      | .sum _ => Spec.twinAgree ds cs
      | .hist _ => Spec.twinAgree ds cs
      | .expo _ => Spec.twinAgree ds cs
      | .psum _ =>
        (List.range n).all fun k =>
          Spec.asyncCumOK (eff.getD k []) (cs.getD k []) &&
          Spec.asyncDeltaOK (if k = 0 then [] else eff.getD (k - 1) []) (eff.getD k []) (ds.getD k [])
      | .plv _ =>
        (List.range n).all fun k =>
          Spec.gaugeCycleOK (eff.getD k []) (cs.getD k []) && Spec.gaugeCycleOK (eff.getD k []) (ds.getD k [])
      | .lv _ =>
        (List.range n).all fun k =>
          Spec.gaugeCycleOK (recd.getD k []) (ds.getD k []) &&
          Spec.gaugeCumOK ((recd.take (k + 1)).flatten) (cs.getD k [])
      | .off => ds.all (·.isEmpty) && cs.all (·.isEmpty)

def tagIf (b : Bool) (t : String) : List String := if b then [t] else []

def stepLine (_ : Unit) (toks : List String) : Unit × Option Verdict :=
  let (inp, obs) := splitObs toks
  match inp with
  | "twin" :: _ :: istr :: sstr :: rest =>
    let r : Option Verdict := do
      let is ← (istr.splitOn ",").mapM parseInst
      let slots := parseSlots sstr
      let ops ← (splitBar rest).mapM parseOp
      let model := Sys.run is slots ops
      let mstr := renderRecs model.recs
      match obs.mapM parseORec with
      | none => pure { agree := false, spec := "FAIL", nontrivial := false, branches := "unparsed-observation", model := " ".intercalate mstr }
      | some recs =>
        let spec := oracle is slots ops recs
        let aggs := is.map mkAgg
        let reported := fun (p : Agg → Bool) => (List.range is.length).any fun j =>
          (match aggs[j]? with | some g => p g | none => false) &&
          model.recs.any fun rc => rc.2.2.any fun st => st.inst == j
        let tags :=
          tagIf (reported fun g => match g with | .sum _ => true | _ => false) "sum" ++
          tagIf (reported fun g => match g with | .psum _ => true | _ => false) "precomputed-sum" ++
          tagIf (reported fun g => match g with | .lv _ => true | _ => false) "last-value" ++
          tagIf (reported fun g => match g with | .plv _ => true | _ => false) "precomputed-last-value" ++
          tagIf (reported fun g => match g with | .hist _ => true | _ => false) "histogram" ++
          tagIf (reported fun g => match g with | .expo _ => true | _ => false) "expo-histogram" ++
          tagIf (aggs.any fun g => match g with | .off => true | _ => false) "drop-or-incompatible" ++
          tagIf (ops.any fun o => match o with | .unreg _ => true | _ => false) "unregister" ++
          tagIf (model.cycle > 2) "multi-cycle"
        pure { agree := mstr == obs, spec := if spec then "ok" else "FAIL",
               nontrivial := model.recs.any (fun rc => !rc.2.2.isEmpty) && model.cycle > 1,
               branches := if tags.isEmpty then "-" else ",".intercalate tags,
               model := " ".intercalate mstr }
    ((), r)
  | _ => ((), none)

end Otel.C08.Drv

def main : IO Unit := Wire.run () Otel.C08.Drv.stepLine
