/-
C08 — generated tie.  `Otel.Gen.C08` is regenerated from /repo's current source by tools/go2lean on every run of
bin/check (checks/gentie.json); the theorems below are re-checked against the regenerated text.
Sites (sdk/metric/reader.go, instrument.go): `DefaultAggregationSelector` as a skeleton over the instrument kind,
its default bucket boundaries, the values of the `InstrumentKind` constants, and `DefaultTemporalitySelector`.
Tied to the C08 model's `effectiveSel … .dflt` and `defaultBounds` (the aggregation a stream gets without a view).
-/
import Otel.Gen.C08
import Otel.C08.Model

namespace Otel.C08.GenTie
open Otel.C08

def kindCode : Kind → Int
  | .counter => Otel.Gen.C08.InstrumentKindCounter
  | .updown => Otel.Gen.C08.InstrumentKindUpDownCounter
  | .histogram => Otel.Gen.C08.InstrumentKindHistogram
  | .gauge => Otel.Gen.C08.InstrumentKindGauge
  | .obsCounter => Otel.Gen.C08.InstrumentKindObservableCounter
  | .obsUpdown => Otel.Gen.C08.InstrumentKindObservableUpDownCounter
  | .obsGauge => Otel.Gen.C08.InstrumentKindObservableGauge

def selTag : AggSel → String
  | .sum => "Sum"
  | .last => "LastValue"
  | .explicit => "ExplicitBucketHistogram{Boundaries,NoMinMax:false}"
  | .dflt => "Default"
  | .drop => "Drop"
  | .expo => "Base2ExponentialHistogram"

/-- `DefaultAggregationSelector` as written today is what the model resolves `AggregationDefault` to -/
theorem gen_default_selector_eq_model (k : Kind) :
    Otel.Gen.C08.defaultAggregationSelector (kindCode k) = selTag (effectiveSel k .dflt) := by
  cases k <;> decide

theorem gen_kind_codes_injective (a b : Kind) (h : kindCode a = kindCode b) : a = b := by
  cases a <;> cases b <;> first | rfl | (exact absurd h (by decide))

/-- the default explicit bucket boundaries are the model's `defaultBounds` -/
theorem gen_default_boundaries_eq_model : Otel.Gen.C08.defaultBoundaries = defaultBounds := by decide

/-- without a temporality selector every instrument kind is collected cumulatively -/
theorem gen_default_temporality_cumulative : Otel.Gen.C08.defaultTemporalitySelector = "Cumulative" := by decide

end Otel.C08.GenTie
