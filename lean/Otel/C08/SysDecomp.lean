/-
C08 — decomposition of the twin-reader system: for every history of operations, instrument `j`'s aggregator in the
delta (cumulative) reader is the delta (cumulative) run of `mkAgg` over the instrument's LOCAL history — per cycle the
synchronous records made since the previous collection followed by the observations the callbacks replay — and the
model's records hold, per cycle and reader, exactly what those local runs returned.
-/
import Otel.C08.SysInterval
namespace Otel.C08
open Otel.C02 Otel.C08.Spec

/-! ### local histories -/

/-- synchronous measurements of instrument `j` among `recd` (asynchronous instruments ignore `record`) -/
def pendOf (ic : InstCfg) (j : Nat) (recd : List (Nat × Attr × Int)) : List (Attr × Int) :=
  if ic.kind.async then [] else (recd.filter (·.1 == j)).map (·.2)

/-- what reaches instrument `j`'s aggregators in one cycle -/
def batchOf (ic : InstCfg) (j : Nat) (c : CycleIn) : List (Attr × Int) := pendOf ic j c.recorded ++ effObs c j

/-- the local history of instrument `j`: cycle `k` is collected at model time `k + 1` -/
def localHist (ic : InstCfg) (j : Nat) : List CycleIn → Nat → List Cycle
  | [], _ => []
  | c :: cs, k => (batchOf ic j c, k + 1) :: localHist ic j cs (k + 1)

theorem localHist_snoc (ic : InstCfg) (j : Nat) (cs : List CycleIn) (c : CycleIn) (k : Nat) :
    localHist ic j (cs ++ [c]) k = localHist ic j cs k ++ [(batchOf ic j c, k + cs.length + 1)] := by
  induction cs generalizing k with
  | nil => simp [localHist]
  | cons x xs ih =>
    simp only [List.cons_append, localHist, ih, List.length_cons]
    rw [show k + 1 + xs.length + 1 = k + (xs.length + 1) + 1 by omega]

theorem localHist_map_fst (ic : InstCfg) (j : Nat) (cs : List CycleIn) (k : Nat) :
    (localHist ic j cs k).map (·.1) = cs.map (batchOf ic j) := by
  induction cs generalizing k with
  | nil => rfl
  | cons x xs ih => simp [localHist, ih]

theorem localHist_length (ic : InstCfg) (j : Nat) (cs : List CycleIn) (k : Nat) :
    (localHist ic j cs k).length = cs.length := by
  induction cs generalizing k with
  | nil => rfl
  | cons x xs ih => simp [localHist, ih]

/-! ### callbacks, instrument by instrument -/

theorem feed_nil (g : Agg) : g.feed [] = g := rfl

theorem replay_get (cb : List Nat) (cur : List (Nat × Attr × Int)) (aggs : List Agg) (j : Nat) :
    (replay cb cur aggs)[j]? =
      (aggs[j]?).map fun g => g.feed (if cb.contains j then (cur.filter (·.1 == j)).map (·.2) else []) := by
  induction cur generalizing aggs with
  | nil => simp [replay, feed_nil]
  | cons o l ih =>
    have hstep : replay cb (o :: l) aggs =
        replay cb l (if cb.contains o.1 then aggs.modify o.1 fun g => g.measure o.2.1 o.2.2 else aggs) := rfl
    rw [hstep, ih]
    by_cases hoj : o.1 = j
    · have hb : (o.1 == j) = true := by simpa using hoj
      by_cases hc : cb.contains o.1 = true
      · have hcj : cb.contains j = true := by rw [← hoj]; exact hc
        rw [if_pos hc, if_pos hcj, if_pos hcj, List.getElem?_modify, List.filter_cons, if_pos hb, List.map_cons]
        cases aggs[j]? with
        | none => rfl
        | some g => simp [hoj, Agg.feed_cons]
      · have hcj : ¬ cb.contains j = true := by rw [← hoj]; exact hc
        rw [if_neg hc, if_neg hcj, if_neg hcj]
    · have hb : ¬ (o.1 == j) = true := by simpa using hoj
      rw [List.filter_cons, if_neg hb]
      by_cases hc : cb.contains o.1 = true
      · rw [if_pos hc, List.getElem?_modify]
        cases aggs[j]? with
        | none => rfl
        | some g => simp [hoj]
      · rw [if_neg hc]

theorem callbacks_get (cbs : List (List Nat)) (cur : List (Nat × Attr × Int)) (aggs : List Agg) (j : Nat) :
    (cbs.foldl (fun aggs cb => replay cb cur aggs) aggs)[j]? =
      (aggs[j]?).map fun g => g.feed
        (cbs.flatMap fun cb => if cb.contains j then (cur.filter (·.1 == j)).map (·.2) else []) := by
  induction cbs generalizing aggs with
  | nil => simp [feed_nil]
  | cons cb cbs ih =>
    rw [List.foldl_cons, ih, replay_get, List.flatMap_cons]
    cases aggs[j]? with
    | none => rfl
    | some g => simp only [Option.map_some, Agg.feed_append]

/-! ### collectAll, instrument by instrument -/

/-- the points reported for instrument `j` among the streams of one record (none = no points) -/
def ptsOfStreams (streams : List Stream) (j : Nat) : List (Pt PV) :=
  match streams.find? (·.inst == j) with
  | some s => s.pts
  | none => []

theorem collectAll_ge (tp : Temporality) (t : Nat) (aggs : List Agg) (j0 : Nat) :
    ∀ st ∈ (collectAll tp t aggs j0).2, j0 ≤ st.inst := by
  induction aggs generalizing j0 with
  | nil => intro st h; cases h
  | cons g gs ih =>
    intro st hst
    have ih' : ∀ st ∈ (collectAll tp t gs (j0 + 1)).2, j0 ≤ st.inst := fun st h => Nat.le_of_succ_le (ih (j0 + 1) st h)
    simp only [collectAll] at hst
    cases hout : (g.collect tp t).2 with
    | none => rw [hout] at hst; exact ih' st hst
    | some v =>
      obtain ⟨dt, pts⟩ := v
      rw [hout] at hst
      by_cases he : pts.isEmpty = true
      · simp only [he, if_true] at hst; exact ih' st hst
      · simp only [he] at hst
        rcases List.mem_cons.mp hst with rfl | hst
        · exact Nat.le_refl _
        · exact ih' st hst

theorem ptsOfStreams_none (streams : List Stream) (j : Nat) (h : ∀ st ∈ streams, st.inst ≠ j) :
    ptsOfStreams streams j = [] := by
  have : streams.find? (·.inst == j) = none := by
    rw [List.find?_eq_none]; intro st hst; simpa using h st hst
  simp [ptsOfStreams, this]

theorem collectAll_pts (tp : Temporality) (t : Nat) (aggs : List Agg) (j0 j : Nat) (hj : j0 ≤ j) :
    ptsOfStreams (collectAll tp t aggs j0).2 j =
      match aggs[j - j0]? with
      | some g => outPts (g.collect tp t).2
      | none => [] := by
  induction aggs generalizing j0 with
  | nil => simp [collectAll, ptsOfStreams]
  | cons g gs ih =>
    by_cases hjj : j = j0
    · subst hjj
      have hrest : ptsOfStreams (collectAll tp t gs (j + 1)).2 j = [] :=
        ptsOfStreams_none _ _ (fun st hst => by have := collectAll_ge tp t gs (j + 1) st hst; omega)
      simp only [Nat.sub_self, List.getElem?_cons_zero, collectAll]
      cases hout : (g.collect tp t).2 with
      | none => simp only [outPts]; exact hrest
      | some v =>
        obtain ⟨dt, pts⟩ := v
        by_cases he : pts.isEmpty = true
        · simp only [he, if_true, outPts]; rw [hrest]; exact (List.isEmpty_iff.mp he).symm
        · simp [he, ptsOfStreams, outPts]
    · have hlt : j0 + 1 ≤ j := by omega
      have hidx : j - j0 = (j - (j0 + 1)) + 1 := by omega
      rw [hidx, List.getElem?_cons_succ, ← ih (j0 + 1) hlt]
      simp only [collectAll]
      cases hout : (g.collect tp t).2 with
      | none => rfl
      | some v =>
        obtain ⟨dt, pts⟩ := v
        by_cases he : pts.isEmpty = true
        · simp only [he, if_true]
        · have hne : (j0 == j) = false := by simpa using (fun h : j0 = j => hjj h.symm)
          simp [he, ptsOfStreams, hne]

/-! ### the invariant -/

abbrev Acc := Sys × List (Nat × Attr × Int) × List CycleIn

def tpOf (delta : Bool) : Temporality := if delta then .delta else .cumulative

/-- the aggregators of one reader -/
def Sys.aggsOf (s : Sys) (delta : Bool) : List Agg := if delta then s.d else s.c

/-- state of the fold `cycleStep` (system, records since the last collection, cycle inputs so far) after a history -/
structure SysInv (is : List InstCfg) (acc : Acc) : Prop where
  insts : acc.1.insts = is
  cycle : acc.1.cycle = acc.2.2.length
  aggs : ∀ j ic, is[j]? = some ic → ∀ delta : Bool,
      (acc.1.aggsOf delta)[j]? =
        some (((mkAgg ic).runCycles (tpOf delta) (localHist ic j acc.2.2 0)).1.feed (pendOf ic j acc.2.1))
  recLt : ∀ r ∈ acc.1.recs, r.1 < acc.2.2.length
  recLen : acc.1.recs.length = 2 * acc.2.2.length
  recs : ∀ k, k < acc.2.2.length → ∀ delta : Bool,
      ∃ r, acc.1.recs.find? (fun r => r.1 == k && r.2.1 == delta) = some r ∧
        ∀ j ic, is[j]? = some ic →
          ∃ out, ((mkAgg ic).runCycles (tpOf delta) (localHist ic j acc.2.2 0)).2[k]? = some out ∧
            ptsOfStreams r.2.2 j = outPts out
  cbs : ∀ cin ∈ acc.2.2, ∀ cb ∈ cin.callbacks, ∀ j ∈ cb, ∃ ic, is[j]? = some ic ∧ ic.kind.async = true

theorem sysInv_init (is : List InstCfg) (slots : List (List Nat)) : SysInv is (Sys.init is slots, [], []) where
  insts := rfl
  cycle := rfl
  aggs := by
    intro j ic hj delta
    have : (Sys.init is slots).aggsOf delta = is.map mkAgg := by cases delta <;> rfl
    rw [this, List.getElem?_map, hj]
    have hp : pendOf ic j [] = [] := by unfold pendOf; split <;> rfl
    simp [localHist, Agg.runCycles, hp, feed_nil]
  recLt := by intro r hr; cases hr
  recLen := rfl
  recs := by intro k hk; cases hk
  cbs := by intro cin h; cases h

theorem pendOf_snoc_same (ic : InstCfg) (j : Nat) (recd : List (Nat × Attr × Int)) (a : Attr) (v : Int)
    (hs : ic.kind.async = false) : pendOf ic j (recd ++ [(j, a, v)]) = pendOf ic j recd ++ [(a, v)] := by
  simp [pendOf, hs, List.filter_append]

theorem pendOf_snoc_other (ic : InstCfg) (j j' : Nat) (recd : List (Nat × Attr × Int)) (a : Attr) (v : Int)
    (hne : j' ≠ j) : pendOf ic j (recd ++ [(j', a, v)]) = pendOf ic j recd := by
  have hb : (j' == j) = false := by simpa using hne
  unfold pendOf
  split
  · rfl
  · simp [List.filter_append, hb]

theorem pendOf_async (ic : InstCfg) (j : Nat) (recd : List (Nat × Attr × Int)) (ha : ic.kind.async = true) :
    pendOf ic j recd = [] := by simp [pendOf, ha]

theorem sysInv_record (is : List InstCfg) (acc : Acc) (h : SysInv is acc) (j' : Nat) (a : Attr) (v : Int) :
    SysInv is (cycleStep acc (.record j' a v)) := by
  obtain ⟨s, recd, cyc⟩ := acc
  have hinsts : s.insts = is := h.insts
  -- the fields `record` does not touch
  have hrest : (s.step (.record j' a v)).insts = s.insts ∧ (s.step (.record j' a v)).cycle = s.cycle ∧
      (s.step (.record j' a v)).recs = s.recs := by
    simp only [Sys.step]
    cases s.insts[j']? with
    | none => exact ⟨rfl, rfl, rfl⟩
    | some i => by_cases ha : i.kind.async = true <;> simp [ha]
  have haggs : ∀ delta, (s.step (.record j' a v)).aggsOf delta =
      match s.insts[j']? with
      | some i => if i.kind.async then s.aggsOf delta else (s.aggsOf delta).modify j' fun g => g.measure a v
      | none => s.aggsOf delta := by
    intro delta
    simp only [Sys.step]
    cases s.insts[j']? with
    | none => rfl
    | some i => by_cases ha : i.kind.async = true <;> cases delta <;> simp [ha, Sys.aggsOf]
  refine { insts := hrest.1.trans hinsts, cycle := hrest.2.1.trans h.cycle, aggs := ?_,
           recLt := by show ∀ r ∈ (s.step (.record j' a v)).recs, _; rw [hrest.2.2]; exact h.recLt,
           recLen := by show (s.step (.record j' a v)).recs.length = _; rw [hrest.2.2]; exact h.recLen,
           recs := by
             show ∀ k, k < cyc.length → ∀ delta : Bool, ∃ r, (s.step (.record j' a v)).recs.find? _ = some r ∧ _
             rw [hrest.2.2]; exact h.recs,
           cbs := h.cbs }
  intro j ic hj delta
  have old := h.aggs j ic hj delta
  show ((s.step (.record j' a v)).aggsOf delta)[j]? =
    some (((mkAgg ic).runCycles (tpOf delta) (localHist ic j cyc 0)).1.feed (pendOf ic j (recd ++ [(j', a, v)])))
  rw [haggs delta, hinsts]
  by_cases hjj : j' = j
  · subst hjj
    rw [hj]
    by_cases ha : ic.kind.async = true
    · simp only [ha, if_true]; rw [old, pendOf_async ic j' _ ha, pendOf_async ic j' _ ha]
    · have ha' : ic.kind.async = false := by simpa using ha
      simp only [ha', Bool.false_eq_true, if_false]
      rw [List.getElem?_modify, old, pendOf_snoc_same ic j' recd a v ha', Agg.feed_append]
      simp [Agg.feed]
  · rw [pendOf_snoc_other ic j j' recd a v hjj]
    cases is[j']? with
    | none => exact old
    | some i =>
      by_cases ha : i.kind.async = true
      · simp only [ha, if_true]; exact old
      · have ha' : i.kind.async = false := by simpa using ha
        simp only [ha', Bool.false_eq_true, if_false]
        rw [List.getElem?_modify, old]; simp [hjj]

/-- operations that touch neither aggregators nor records -/
theorem sysInv_inert (is : List InstCfg) (acc : Acc) (h : SysInv is acc) (s' : Sys)
    (hi : s'.insts = acc.1.insts) (hc : s'.cycle = acc.1.cycle) (hd : s'.d = acc.1.d) (hcc : s'.c = acc.1.c)
    (hr : s'.recs = acc.1.recs) : SysInv is (s', acc.2.1, acc.2.2) where
  insts := hi.trans h.insts
  cycle := hc.trans h.cycle
  aggs := by
    intro j ic hj delta
    have : s'.aggsOf delta = acc.1.aggsOf delta := by cases delta <;> simp [Sys.aggsOf, hd, hcc]
    rw [this]; exact h.aggs j ic hj delta
  recLt := by show ∀ r ∈ s'.recs, _; rw [hr]; exact h.recLt
  recLen := by show s'.recs.length = _; rw [hr]; exact h.recLen
  recs := by
    show ∀ k, k < acc.2.2.length → ∀ delta : Bool, ∃ r, s'.recs.find? _ = some r ∧ _
    rw [hr]; exact h.recs
  cbs := h.cbs

/-! ### a collection -/

theorem callbacks_async (s : Sys) :
    ∀ cb ∈ s.callbacks, ∀ j ∈ cb, ∃ ic, s.insts[j]? = some ic ∧ ic.kind.async = true := by
  intro cb hcb j hj
  simp only [Sys.callbacks, List.mem_append, List.mem_map, List.mem_filter] at hcb
  rcases hcb with ⟨j0, ⟨_, hp⟩, rfl⟩ | ⟨k, _, rfl⟩
  · have : j = j0 := by simpa using hj
    subst this
    cases hi : s.insts[j]? with
    | none => rw [hi] at hp; cases hp
    | some i =>
      rw [hi] at hp
      simp only [Bool.and_eq_true] at hp
      exact ⟨i, rfl, hp.1⟩
  · simp only [List.mem_filter] at hj
    cases hi : s.insts[j]? with
    | none => rw [hi] at hj; cases hj.2
    | some i => rw [hi] at hj; exact ⟨i, rfl, hj.2⟩

theorem step_col_aggs (s : Sys) (delta : Bool) :
    (s.step .col).aggsOf delta = (collectAll (tpOf delta) (s.cycle + 1) (s.fedAggs delta) 0).1 := by
  cases delta <;> rfl

theorem step_col_recs (s : Sys) :
    (s.step .col).recs = s.recs ++
      [(s.cycle, true, (collectAll (tpOf true) (s.cycle + 1) (s.fedAggs true) 0).2),
       (s.cycle, false, (collectAll (tpOf false) (s.cycle + 1) (s.fedAggs false) 0).2)] := by
  show (s.recs ++ [_]) ++ [_] = _
  rw [List.append_assoc]; rfl

theorem fedAggs_get (s : Sys) (delta : Bool) (recd : List (Nat × Attr × Int)) (j : Nat) :
    (s.fedAggs delta)[j]? = ((s.aggsOf delta)[j]?).map fun g =>
      g.feed (effObs { callbacks := s.callbacks, cur := s.cur, recorded := recd } j) := by
  unfold Sys.fedAggs Sys.aggsOf effObs
  exact callbacks_get _ _ _ _

theorem runCycles_localHist_snoc (ic : InstCfg) (j : Nat) (cyc : List CycleIn) (cin : CycleIn) (tp : Temporality) :
    (mkAgg ic).runCycles tp (localHist ic j (cyc ++ [cin]) 0) =
      (((((mkAgg ic).runCycles tp (localHist ic j cyc 0)).1.feed (batchOf ic j cin)).collect tp (cyc.length + 1)).1,
       ((mkAgg ic).runCycles tp (localHist ic j cyc 0)).2 ++
        [((((mkAgg ic).runCycles tp (localHist ic j cyc 0)).1.feed (batchOf ic j cin)).collect tp (cyc.length + 1)).2]) := by
  rw [localHist_snoc, Agg.runCycles_snoc]
  simp [Agg.cycleStep]

theorem sysInv_col (is : List InstCfg) (acc : Acc) (h : SysInv is acc) : SysInv is (cycleStep acc .col) := by
  obtain ⟨s, recd, cyc⟩ := acc
  have hinsts : s.insts = is := h.insts
  have hcycle : s.cycle = cyc.length := h.cycle
  let cin : CycleIn := { callbacks := s.callbacks, cur := s.cur, recorded := recd }
  show SysInv is (s.step .col, [], cyc ++ [cin])
  -- instrument `j` of reader `delta` after the callbacks
  have hfed : ∀ j ic, is[j]? = some ic → ∀ delta : Bool, (s.fedAggs delta)[j]? =
      some (((mkAgg ic).runCycles (tpOf delta) (localHist ic j cyc 0)).1.feed (batchOf ic j cin)) := by
    intro j ic hj delta
    rw [fedAggs_get s delta recd j, h.aggs j ic hj delta]
    simp only [Option.map_some, batchOf, Agg.feed_append]; rfl
  have hlen : ∀ j ic tp, ((mkAgg ic).runCycles tp (localHist ic j cyc 0)).2.length = cyc.length := by
    intro j ic tp; rw [Agg.runCycles_length, localHist_length]
  -- the stream of instrument `j` in the new record of reader `delta`
  have hnew : ∀ (delta : Bool) j ic, is[j]? = some ic →
      ∃ out, ((mkAgg ic).runCycles (tpOf delta) (localHist ic j (cyc ++ [cin]) 0)).2[cyc.length]? = some out ∧
        ptsOfStreams (collectAll (tpOf delta) (s.cycle + 1) (s.fedAggs delta) 0).2 j = outPts out := by
    intro delta j ic hj
    refine ⟨((((mkAgg ic).runCycles (tpOf delta) (localHist ic j cyc 0)).1.feed (batchOf ic j cin)).collect (tpOf delta)
      (cyc.length + 1)).2, ?_, ?_⟩
    · rw [runCycles_localHist_snoc]
      simp only []
      rw [List.getElem?_append_right (by rw [hlen]; exact Nat.le_refl _), hlen, Nat.sub_self]
      rfl
    · rw [collectAll_pts _ _ _ 0 j (Nat.zero_le _), Nat.sub_zero, hfed j ic hj delta, hcycle]
  refine { insts := hinsts, cycle := by show s.cycle + 1 = (cyc ++ [cin]).length; simp [hcycle],
           aggs := ?_, recLt := ?_, recLen := ?_, recs := ?_, cbs := ?_ }
  · intro j ic hj delta
    show ((s.step .col).aggsOf delta)[j]? = _
    rw [step_col_aggs, collectAll_aggs, List.getElem?_map, hfed j ic hj delta, runCycles_localHist_snoc]
    have hp : pendOf ic j [] = [] := by unfold pendOf; split <;> rfl
    simp only [Option.map_some, hp, feed_nil, hcycle]
  · intro r hr
    have hr' : r ∈ (s.step .col).recs := hr
    rw [step_col_recs] at hr'
    simp only [List.mem_append, List.mem_cons, List.not_mem_nil, or_false] at hr'
    simp only [List.length_append, List.length_cons, List.length_nil]
    rcases hr' with hr' | rfl | rfl
    · have := h.recLt r hr'; simp only [] at this; omega
    · simp only []; omega
    · simp only []; omega
  · show (s.step .col).recs.length = 2 * (cyc ++ [cin]).length
    rw [step_col_recs]
    have := h.recLen
    simp only [] at this
    simp only [List.length_append, List.length_cons, List.length_nil, this]; omega
  · intro k hk delta
    show ∃ r, (s.step .col).recs.find? _ = some r ∧ _
    rw [step_col_recs, List.find?_append]
    simp only [List.length_append, List.length_cons, List.length_nil] at hk
    by_cases hlt : k < cyc.length
    · obtain ⟨r, hr1, hr2⟩ := h.recs k hlt delta
      refine ⟨r, by simp only [] at hr1; rw [hr1]; rfl, ?_⟩
      intro j ic hj
      obtain ⟨out, ho1, ho2⟩ := hr2 j ic hj
      refine ⟨out, ?_, ho2⟩
      rw [runCycles_localHist_snoc]
      simp only []
      rw [List.getElem?_append_left (by rw [hlen]; exact hlt)]
      exact ho1
    · have hk' : k = cyc.length := by omega
      subst hk'
      have hnone : s.recs.find? (fun r => r.1 == cyc.length && r.2.1 == delta) = none := by
        rw [List.find?_eq_none]
        intro r hr
        have := h.recLt r hr
        simp only [] at this
        have hne : (r.1 == cyc.length) = false := by simpa using (by omega : r.1 ≠ cyc.length)
        simp [hne]
      rw [hnone, Option.none_or]
      cases delta with
      | true =>
        refine ⟨(s.cycle, true, (collectAll (tpOf true) (s.cycle + 1) (s.fedAggs true) 0).2), by simp [hcycle], ?_⟩
        exact hnew true
      | false =>
        refine ⟨(s.cycle, false, (collectAll (tpOf false) (s.cycle + 1) (s.fedAggs false) 0).2), by simp [hcycle], ?_⟩
        exact hnew false
  · intro c hc
    simp only [List.mem_append, List.mem_singleton] at hc
    rcases hc with hc | rfl
    · exact h.cbs c hc
    · intro cb hcb j hj
      have := callbacks_async s cb hcb j hj
      rw [hinsts] at this
      exact this

/-! ### every history -/

theorem sysInv_step (is : List InstCfg) (acc : Acc) (h : SysInv is acc) (op : Op) : SysInv is (cycleStep acc op) := by
  cases op with
  | record j a v => exact sysInv_record is acc h j a v
  | col => exact sysInv_col is acc h
  | obs j a v => exact sysInv_inert is acc h (acc.1.step (.obs j a v)) rfl rfl rfl rfl rfl
  | unreg k => exact sysInv_inert is acc h (acc.1.step (.unreg k)) rfl rfl rfl rfl rfl
  | reg k =>
    have : ∀ s : Sys, (s.step (.reg k)).insts = s.insts ∧ (s.step (.reg k)).cycle = s.cycle ∧
        (s.step (.reg k)).d = s.d ∧ (s.step (.reg k)).c = s.c ∧ (s.step (.reg k)).recs = s.recs := by
      intro s
      simp only [Sys.step]
      by_cases hk : k < s.slots.length <;> simp [hk]
    obtain ⟨h1, h2, h3, h4, h5⟩ := this acc.1
    exact sysInv_inert is acc h (acc.1.step (.reg k)) h1 h2 h3 h4 h5

theorem cycleStep_sys (acc : Acc) (op : Op) : (cycleStep acc op).1 = acc.1.step op := by
  obtain ⟨s, recd, cyc⟩ := acc
  cases op <;> rfl

theorem cycleFold_sys (ops : List Op) (acc : Acc) : (ops.foldl cycleStep acc).1 = ops.foldl Sys.step acc.1 := by
  induction ops generalizing acc with
  | nil => rfl
  | cons op ops ih => simp only [List.foldl_cons, ih, cycleStep_sys]

theorem sysInv_run (is : List InstCfg) (slots : List (List Nat)) (ops : List Op) :
    SysInv is (ops.foldl cycleStep (Sys.init is slots, [], [])) := by
  induction ops using snoc_induction with
  | hnil => exact sysInv_init is slots
  | hsnoc l op ih => rw [List.foldl_append]; exact sysInv_step is _ ih op

end Otel.C08
