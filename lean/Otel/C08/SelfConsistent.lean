/-
C08 — a histogram cell's bucket counts add up to its count (helper lemmas for Props.hist_points_self_consistent).
-/
import Otel.C08.Basics
namespace Otel.C08
open Otel.C02

theorem sum_modify_succ (l : List Nat) (i : Nat) (h : i < l.length) : (l.modify i (· + 1)).sum = l.sum + 1 := by
  induction l generalizing i with
  | nil => simp at h
  | cons x l ih =>
    cases i with
    | zero => rw [List.modify_zero_cons]; simp; omega
    | succ i =>
      have := ih i (by simpa using h)
      rw [List.modify_succ_cons]; simp [this]; omega

theorem sum_replicate_zero (n : Nat) : (List.replicate n 0).sum = 0 := by
  induction n with
  | zero => rfl
  | succ n ih => simp [List.replicate_succ, ih]

/-- complete bucket vector whose entries add up to the count -/
def CellSC (nb : Nat) (v : HistVal) : Prop := v.counts.length = nb ∧ v.count = v.counts.sum

theorem histCell_sc (nb : Nat) (noSum : Bool) (idx : Nat) (x : Int) (o : Option HistVal) (hidx : idx < nb)
    (ho : ∀ w, o = some w → CellSC nb w) : CellSC nb (histCell nb noSum idx x o) := by
  cases o with
  | none =>
    refine ⟨by simp [histCell], ?_⟩
    simp only [histCell, Option.getD]
    rw [sum_modify_succ _ _ (by simpa using hidx), sum_replicate_zero]
  | some w =>
    obtain ⟨h1, h2⟩ := ho w rfl
    refine ⟨by simp [histCell, h1], ?_⟩
    simp only [histCell, Option.getD]
    rw [sum_modify_succ _ _ (by omega), h2]

/-- invariant: every cell held is self-consistent -/
def HistSC (h : Hist) : Prop := ∀ kv ∈ h.values, CellSC (h.bounds.length + 1) kv.2

theorem Hist.sc_measure (h : Hist) (hs : HistSC h) (a : Attr) (x : Int) : HistSC (h.measure a x) := by
  unfold HistSC Hist.measure
  exact upd_all (CellSC (h.bounds.length + 1)) h.values _ _ hs
    (fun o ho => histCell_sc _ _ _ _ o (Nat.lt_succ_of_le (searchIdx_le _ _)) ho)

theorem Hist.sc_collect (h : Hist) (hs : HistSC h) (tp : Temporality) (t : Nat) :
    HistSC (h.collect tp t).1 ∧ (h.collect tp t).1.bounds = h.bounds ∧
    ∀ p ∈ (h.collect tp t).2, CellSC (h.bounds.length + 1) p.val := by
  refine ⟨?_, by cases tp <;> rfl, ?_⟩
  · cases tp
    · intro kv hkv; cases hkv
    · exact hs
  · intro p hp
    have : p ∈ mkPoints h.values h.start t fun _ v => v := by cases tp <;> exact hp
    simp only [mkPoints, List.mem_map] at this
    obtain ⟨kv, hkv, rfl⟩ := this
    exact hs kv hkv

end Otel.C08
