/-
C08 — basic lemmas about the aggregator library that depend on Otel.C02.Model ONLY (value maps, histogram cell
well-formedness, one cell update bucket by bucket, a cycle's observations, unregistered callbacks).
-/
import Otel.C08.Model
namespace Otel.C08
open Otel.C02

/-- no cardinality limit: the limiter returns the attribute set unchanged -/
theorem limitAttr_nolimit {V : Type} (m : AMap V) (a : Attr) : limitAttr 0 m a = a := by
  simp [limitAttr]

/-! ### well-formedness of histogram cells: every `counts` list has `bounds.length + 1` entries -/

/-- invariant of the real histogram functions: every cell's bucket vector has one entry per bucket -/
def HistWF (h : Hist) : Prop := ∀ kv ∈ h.values, kv.2.counts.length = h.bounds.length + 1

theorem searchIdx_le (bounds : List Int) (x : Int) : searchIdx bounds x ≤ bounds.length :=
  (List.takeWhile_sublist _).length_le

theorem histCell_counts_length (nb : Nat) (noSum : Bool) (idx : Nat) (x : Int) (o : Option HistVal)
    (ho : ∀ w, o = some w → w.counts.length = nb) : (histCell nb noSum idx x o).counts.length = nb := by
  cases o with
  | none => simp [histCell]
  | some w => simp [histCell, ho w rfl]

theorem upd_all {V : Type} (P : V → Prop) (m : AMap V) (a : Attr) (f : Option V → V)
    (hm : ∀ kv ∈ m, P kv.2) (hf : ∀ o, (∀ w, o = some w → P w) → P (f o)) :
    ∀ kv ∈ m.upd a f, P kv.2 := by
  induction m with
  | nil =>
    intro kv hkv
    simp only [AMap.upd, List.mem_singleton] at hkv
    subst hkv
    exact hf none (by intro w hw; cases hw)
  | cons p m ih =>
    obtain ⟨k, w⟩ := p
    have hw : P w := hm (k, w) (List.mem_cons_self ..)
    have hm' : ∀ kv ∈ m, P kv.2 := fun kv hkv => hm kv (List.mem_cons_of_mem _ hkv)
    unfold AMap.upd
    by_cases hk : k = a
    · simp only [hk, if_true]
      intro kv hkv
      rcases List.mem_cons.mp hkv with rfl | hkv
      · exact hf (some w) (by intro w' hw'; cases hw'; exact hw)
      · exact hm' kv hkv
    · simp only [hk, if_false]
      intro kv hkv
      rcases List.mem_cons.mp hkv with rfl | hkv
      · exact hw
      · exact ih hm' kv hkv

/-- `Hist.measure` (any cardinality limit) preserves well-formedness and leaves the configuration alone -/
theorem Hist.wf_measure (h : Hist) (hw : HistWF h) (a : Attr) (x : Int) : HistWF (h.measure a x) := by
  unfold HistWF Hist.measure
  exact upd_all (fun (v : HistVal) => v.counts.length = h.bounds.length + 1) h.values _ _ hw
    (fun o ho => histCell_counts_length _ _ _ _ o ho)

theorem Hist.wf_delta (h : Hist) (t : Nat) : HistWF (h.delta t).1 := by
  intro kv hkv; cases hkv

theorem Hist.wf_cumulative (h : Hist) (hw : HistWF h) (t : Nat) : HistWF (h.cumulative t).1 := hw

theorem Hist.wf_collect (h : Hist) (hw : HistWF h) (tp : Temporality) (t : Nat) : HistWF (h.collect tp t).1 := by
  cases tp
  · exact Hist.wf_delta h t
  · exact hw

/-- every point of a collection of a well-formed histogram carries a full bucket vector -/
theorem Hist.wf_points (h : Hist) (hw : HistWF h) (tp : Temporality) (t : Nat) :
    ∀ p ∈ (h.collect tp t).2, p.val.counts.length = h.bounds.length + 1 := by
  intro p hp
  have : p ∈ mkPoints h.values h.start t fun _ v => v := by cases tp <;> exact hp
  simp only [mkPoints, List.mem_map] at this
  obtain ⟨kv, hkv, rfl⟩ := this
  exact hw kv hkv

/-- one cell update, bucket `i`: a measurement adds 1 to the bucket chosen by the boundary search and 0 to every other
bucket — on cells whose bucket vector is complete (and the result is complete again) -/
theorem histCell_bucket (bounds : List Int) (noSum : Bool) (i : Nat) (x : Int) (o : Option HistVal)
    (ho : ∀ w, o = some w → w.counts.length = bounds.length + 1) :
    (histCell (bounds.length + 1) noSum (searchIdx bounds x) x o).counts.length = bounds.length + 1 ∧
    (((histCell (bounds.length + 1) noSum (searchIdx bounds x) x o).counts[i]?.getD 0 : Nat) : Int) =
      (o.map fun w => ((w.counts[i]?.getD 0 : Nat) : Int)).getD 0 + (if searchIdx bounds x = i then 1 else 0) := by
  refine ⟨histCell_counts_length _ _ _ _ o ho, ?_⟩
  have hs := searchIdx_le bounds x
  cases o with
  | none =>
    simp only [histCell, Option.getD_none, List.getElem?_modify, List.getElem?_replicate, Option.map_none]
    by_cases hi : searchIdx bounds x = i
    · have : i < bounds.length + 1 := by omega
      simp [hi, this]
    · by_cases hlt : i < bounds.length + 1 <;> simp [hi, hlt]
  | some w =>
    have hw := ho w rfl
    simp only [histCell, Option.getD_some, List.getElem?_modify, Option.map_some]
    by_cases hi : searchIdx bounds x = i
    · have : i < w.counts.length := by omega
      simp [hi, List.getElem?_eq_getElem this]
    · simp only [hi, if_false]
      cases w.counts[i]? <;> simp

theorem get?_upd {V : Type} (m : AMap V) (a b : Attr) (f : Option V → V) :
    (m.upd a f).get? b = if a = b then some (f (m.get? a)) else m.get? b := by
  induction m with
  | nil => by_cases h : a = b <;> simp [AMap.upd, AMap.get?, h]
  | cons p m ih =>
    obtain ⟨k, w⟩ := p
    unfold AMap.upd
    by_cases hk : k = a
    · subst hk
      by_cases hb : k = b <;> simp [AMap.get?, hb]
    · simp only [hk, if_false, AMap.get?]
      by_cases hb : k = b
      · subst hb
        have : ¬ a = k := fun h => hk h.symm
        simp [this]
      · simp only [hb, if_false]; exact ih

theorem get?_map {V W : Type} (m : AMap V) (f : V → W) (a : Attr) :
    AMap.get? (m.map fun kv => (kv.1, f kv.2)) a = (m.get? a).map f := by
  induction m with
  | nil => rfl
  | cons p m ih =>
    obtain ⟨k, w⟩ := p
    by_cases hk : k = a <;> simp [AMap.get?, hk, ih]

theorem mem_keys_upd {V : Type} (m : AMap V) (a b : Attr) (f : Option V → V) :
    b ∈ (m.upd a f).keys ↔ b = a ∨ b ∈ m.keys := by
  induction m with
  | nil => simp [AMap.upd, AMap.keys]
  | cons p m ih =>
    obtain ⟨k, w⟩ := p
    unfold AMap.upd
    by_cases hk : k = a
    · subst hk; simp [AMap.keys]
    · simp only [hk, if_false]
      simp only [AMap.keys, List.map_cons, List.mem_cons] at ih ⊢
      rw [ih]
      constructor
      · rintro (h | h | h) <;> simp [h]
      · rintro (h | h | h) <;> simp [h]

/-- the observations of one cycle applied to a precomputed sum (no limit) -/
def observeAll (s : PSum) (obs : List (Attr × Int)) : PSum := obs.foldl (fun s o => s.measure o.1 o.2) s

theorem keys_observeAll (s : PSum) (hl : s.limit = 0) (obs : List (Attr × Int)) (a : Attr) :
    a ∈ (observeAll s obs).values.keys ↔ a ∈ s.values.keys ∨ a ∈ obs.map (·.1) := by
  induction obs generalizing s with
  | nil => simp [observeAll]
  | cons o l ih =>
    have := ih (s.measure o.1 o.2) (by simp [PSum.measure, hl])
    simp only [observeAll, List.foldl_cons] at this ⊢
    rw [this]
    simp only [PSum.measure, hl, limitAttr_nolimit, mem_keys_upd, List.map_cons, List.mem_cons]
    constructor
    · rintro ((h | h) | h) <;> simp [h]
    · rintro (h | h | h) <;> simp [h]

theorem replay_other (cb : List Nat) (cur : List (Nat × Attr × Int)) (aggs : List Agg) (j : Nat)
    (hj : cb.contains j = false) : (replay cb cur aggs)[j]? = aggs[j]? := by
  induction cur generalizing aggs with
  | nil => rfl
  | cons o l ih =>
    simp only [replay, List.foldl_cons] at ih ⊢
    by_cases ho : cb.contains o.1 = true
    · simp only [ho, if_true]
      rw [ih]
      have hne : o.1 ≠ j := by
        intro h; rw [h] at ho; rw [ho] at hj; cases hj
      rw [List.getElem?_modify]
      cases aggs[j]? <;> simp [hne]
    · simp only [ho]
      exact ih aggs

end Otel.C08
