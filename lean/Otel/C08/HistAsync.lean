/-
C08 — history-level theorems for asynchronous sums (precomputedSum) and gauges (lastValue / precomputedLastValue):
the Spec history predicates hold of the model's own reports over every history.
-/
import Otel.C08.History
namespace Otel.C08
open Otel.C02 Otel.C08.Spec

/-! ### Spec side: observedSum / lastOf, element by element -/

theorem foldl_obs_init (l : List (Nat × Int)) (z : Int) :
    l.foldl (fun acc o => acc + o.2) z = z + l.foldl (fun acc o => acc + o.2) 0 := by
  induction l generalizing z with
  | nil => simp
  | cons o l ih => simp only [List.foldl_cons]; rw [ih, ih (0 + _)]; omega

theorem observedSum_cons (o : Nat × Int) (l : List (Nat × Int)) (a : Nat) :
    observedSum (o :: l) a = (if o.1 = a then o.2 else 0) + observedSum l a := by
  by_cases h : o.1 = a
  · simp only [observedSum, List.filter_cons, h, beq_self_eq_true, if_true, List.foldl_cons]
    rw [foldl_obs_init]; omega
  · have hb : (o.1 == a) = false := by simpa using h
    simp [observedSum, hb, h]

theorem observedSum_nil (a : Nat) : observedSum [] a = 0 := rfl

theorem lastOf_nil (a : Nat) : lastOf [] a = none := rfl

theorem lastOf_cons (o : Nat × Int) (l : List (Nat × Int)) (a : Nat) :
    lastOf (o :: l) a = if o.1 = a then some ((lastOf l a).getD o.2) else lastOf l a := by
  by_cases h : o.1 = a
  · simp only [lastOf, List.filter_cons, h, beq_self_eq_true, if_true, List.getLast?_cons, Option.map_some]
    cases (List.filter (fun x => x.1 == a) l).getLast? <;> simp
  · have hb : (o.1 == a) = false := by simpa using h
    simp [lastOf, hb, h]

theorem lastOf_append (l₁ l₂ : List (Nat × Int)) (a : Nat) :
    lastOf (l₁ ++ l₂) a = (lastOf l₂ a).or (lastOf l₁ a) := by
  simp only [lastOf, List.filter_append, List.getLast?_append]
  cases (List.filter (fun x => x.1 == a) l₂).getLast? <;> simp

theorem lastOf_isSome (l : List (Nat × Int)) (a : Nat) : (lastOf l a).isSome = l.any (·.1 == a) := by
  induction l with
  | nil => rfl
  | cons o l ih =>
    rw [lastOf_cons]
    by_cases h : o.1 = a
    · simp [h]
    · have hb : (o.1 == a) = false := by simpa using h
      simp [h, hb, ih]

theorem veq_single (x y : Int) : veq [x] [y] = true ↔ x = y := by simp [veq]

/-! ### precomputed sum -/

def nOf (o : Option SumVal) : Int := (o.map (·.n)).getD 0

theorem feed_psum (s : PSum) (ms : List (Attr × Int)) : (Agg.psum s).feed ms = .psum (observeAll s ms) := by
  induction ms generalizing s with
  | nil => rfl
  | cons m ms ih => rw [Agg.feed_cons]; simp only [Agg.measure]; rw [ih]; rfl

theorem observeAll_cons (s : PSum) (m : Attr × Int) (ms : List (Attr × Int)) :
    observeAll s (m :: ms) = observeAll (s.measure m.1 m.2) ms := rfl

theorem observeAll_limit (s : PSum) (ms : List (Attr × Int)) : (observeAll s ms).limit = s.limit := by
  induction ms generalizing s with
  | nil => rfl
  | cons m ms ih => rw [observeAll_cons, ih]; rfl

theorem observeAll_reported (s : PSum) (ms : List (Attr × Int)) : (observeAll s ms).reported = s.reported := by
  induction ms generalizing s with
  | nil => rfl
  | cons m ms ih => rw [observeAll_cons, ih]; rfl

theorem observeAll_start (s : PSum) (ms : List (Attr × Int)) : (observeAll s ms).start = s.start := by
  induction ms generalizing s with
  | nil => rfl
  | cons m ms ih => rw [observeAll_cons, ih]; rfl

/-- which sets are held after a cycle's observations -/
theorem observeAll_isSome (s : PSum) (hl : s.limit = 0) (ms : List (Attr × Int)) (a : Attr) :
    ((observeAll s ms).values.get? a).isSome = (ms.any (·.1 == a) || (s.values.get? a).isSome) := by
  induction ms generalizing s with
  | nil => simp [observeAll]
  | cons m ms ih =>
    rw [observeAll_cons, ih _ (by simp [PSum.measure, hl])]
    simp only [PSum.measure, hl, limitAttr_nolimit, get?_upd, List.any_cons]
    by_cases h : m.1 = a
    · simp [h]
    · have hb : (m.1 == a) = false := by simpa using h
      simp [h, hb]

/-- observations of one set ADD within a cycle -/
theorem observeAll_n (s : PSum) (hl : s.limit = 0) (ms : List (Attr × Int)) (a : Attr) :
    nOf ((observeAll s ms).values.get? a) = nOf (s.values.get? a) + observedSum ms a := by
  induction ms generalizing s with
  | nil => simp [observeAll, observedSum_nil]
  | cons m ms ih =>
    rw [observeAll_cons, ih _ (by simp [PSum.measure, hl]), observedSum_cons]
    simp only [PSum.measure, hl, limitAttr_nolimit, get?_upd]
    by_cases h : m.1 = a
    · subst h
      simp only [if_true]
      cases s.values.get? m.1 <;> simp [nOf, sumCell] <;> omega
    · simp [h]

theorem psum_keys_observeAll (s : PSum) (ms : List (Attr × Int)) (h : s.values.keys.Nodup) :
    (observeAll s ms).values.keys.Nodup := by
  have := Agg.keys_feed (.psum s) ms h
  rw [feed_psum] at this
  exact this

/-- one cycle, cumulative reader: exactly the observed sets, each with the value observed; everything forgotten -/
theorem psum_cycle_cumulative (s : PSum) (hl : s.limit = 0) (hv : s.values = []) (ms : List (Attr × Int)) (t : Nat) :
    asyncCumOK ms (repOf (((Agg.psum s).feed ms).collect .cumulative t).2) = true := by
  rw [feed_psum]
  have hkeys : (observeAll s ms).values.keys.Nodup := psum_keys_observeAll s ms (by simp [hv, AMap.keys])
  have hp := Agg.pairsOf_collect (.psum (observeAll s ms)) .cumulative t
  have hn : ((Agg.psum (observeAll s ms)).held .cumulative).keys.Nodup := by rw [Agg.held_keys]; exact hkeys
  have hget : ∀ a, ((Agg.psum (observeAll s ms)).held .cumulative).get? a =
      ((observeAll s ms).values.get? a).map fun v => PV.num v.n := by
    intro a; simp only [Agg.held]; exact get?_map _ (fun v : SumVal => PV.num v.n) a
  simp only [asyncCumOK, Bool.and_eq_true, List.all_eq_true]
  refine ⟨cycleExact_of _ _ hp hn ms ?_, ?_⟩
  · intro a
    rw [hget, Option.isSome_map, observeAll_isSome s hl, hv]; simp [AMap.get?]
  · intro p hpm
    obtain ⟨pv, h1, h2⟩ := report_point _ _ hp hn p hpm
    rw [hget] at h1
    have hN := observeAll_n s hl ms p.1
    rw [hv] at hN
    cases hg : (observeAll s ms).values.get? p.1 with
    | none => rw [hg] at h1; simp at h1
    | some v =>
      rw [hg] at h1 hN
      simp only [Option.map_some, Option.some.injEq] at h1
      subst h1
      rw [h2]
      simp only [vecOf, veq_single]
      simpa [nOf, AMap.get?] using hN

/-- one cycle, delta reader: exactly the observed sets, each with the value observed minus what `reported` holds -/
theorem psum_cycle_delta (s : PSum) (hl : s.limit = 0) (hv : s.values = []) (prev : List (Nat × Int))
    (hr : ∀ a, (s.reported.get? a).getD 0 = if prev.any (·.1 == a) then observedSum prev a else 0)
    (ms : List (Attr × Int)) (t : Nat) :
    asyncDeltaOK prev ms (repOf (((Agg.psum s).feed ms).collect .delta t).2) = true := by
  rw [feed_psum]
  have hkeys : (observeAll s ms).values.keys.Nodup := psum_keys_observeAll s ms (by simp [hv, AMap.keys])
  have hp := Agg.pairsOf_collect (.psum (observeAll s ms)) .delta t
  have hn : ((Agg.psum (observeAll s ms)).held .delta).keys.Nodup := by rw [Agg.held_keys]; exact hkeys
  have hget : ∀ a, ((Agg.psum (observeAll s ms)).held .delta).get? a =
      ((observeAll s ms).values.get? a).map fun v => PV.num (v.n - (s.reported.get? a).getD 0) := by
    intro a; simp only [Agg.held, observeAll_reported]
    exact get?_mapk _ (fun k (v : SumVal) => PV.num (v.n - (s.reported.get? k).getD 0)) a
  simp only [asyncDeltaOK, Bool.and_eq_true, List.all_eq_true]
  refine ⟨cycleExact_of _ _ hp hn ms ?_, ?_⟩
  · intro a
    rw [hget, Option.isSome_map, observeAll_isSome s hl, hv]; simp [AMap.get?]
  · intro p hpm
    obtain ⟨pv, h1, h2⟩ := report_point _ _ hp hn p hpm
    rw [hget] at h1
    have hN := observeAll_n s hl ms p.1
    rw [hv] at hN
    cases hg : (observeAll s ms).values.get? p.1 with
    | none => rw [hg] at h1; simp at h1
    | some v =>
      rw [hg] at h1 hN
      simp only [Option.map_some, Option.some.injEq] at h1
      subst h1
      rw [h2]
      simp only [vecOf, veq_single, hr]
      have : v.n = observedSum ms p.1 := by simpa [nOf, AMap.get?] using hN
      rw [this]

/-- after a delta collection `reported` holds exactly the sets of that cycle, with the values observed in it -/
theorem psum_reported_after_delta (s : PSum) (hl : s.limit = 0) (hv : s.values = []) (ms : List (Attr × Int)) (t : Nat)
    (a : Attr) :
    (((observeAll s ms).delta t).1.reported.get? a).getD 0 = if ms.any (·.1 == a) then observedSum ms a else 0 := by
  simp only [PSum.delta]
  rw [get?_map _ (fun v : SumVal => v.n)]
  have hS := observeAll_isSome s hl ms a
  have hN := observeAll_n s hl ms a
  rw [hv] at hS hN
  cases hg : (observeAll s ms).values.get? a with
  | none =>
    rw [hg] at hS
    have : ms.any (·.1 == a) = false := by simpa [AMap.get?] using hS.symm
    simp [this]
  | some v =>
    rw [hg] at hS hN
    have : ms.any (·.1 == a) = true := by simpa [AMap.get?] using hS.symm
    simp only [this, if_true, Option.map_some, Option.getD_some]
    simpa [nOf, AMap.get?] using hN

/-! ### whole histories -/

theorem getD_append_left {α : Type} (l₁ l₂ : List α) (k : Nat) (d : α) (h : k < l₁.length) :
    (l₁ ++ l₂).getD k d = l₁.getD k d := by
  simp [List.getD_eq_getElem?_getD, List.getElem?_append_left h]

theorem getD_snoc_length {α : Type} (l : List α) (x d : α) : (l ++ [x]).getD l.length d = x := by
  simp [List.getD_eq_getElem?_getD]

/-- the observations of the cycle preceding cycle `k` (none before the first) -/
def prevOf (eff : List (List (Nat × Int))) (k : Nat) : List (Nat × Int) := if k = 0 then [] else eff.getD (k - 1) []

theorem prevOf_snoc (eff : List (List (Nat × Int))) (x : List (Nat × Int)) (k : Nat) (h : k ≤ eff.length) :
    prevOf (eff ++ [x]) k = prevOf eff k := by
  unfold prevOf
  by_cases hk : k = 0
  · simp [hk]
  · simp only [hk, if_false]; exact getD_append_left _ _ _ _ (by omega)

theorem prevOf_snoc_succ (eff : List (List (Nat × Int))) (x : List (Nat × Int)) :
    prevOf (eff ++ [x]) (eff.length + 1) = x := by
  simp [prevOf]

abbrev Run := Agg × List (Option (DT × List (Pt PV)))

structure PSumInv (hist : List Cycle) (D C : Run) : Prop where
  d : ∃ sd, D.1 = .psum sd ∧ sd.limit = 0 ∧ sd.values = [] ∧
        ∀ a, (sd.reported.get? a).getD 0 =
          if (prevOf (hist.map (·.1)) hist.length).any (·.1 == a) then observedSum (prevOf (hist.map (·.1)) hist.length) a
          else 0
  c : ∃ sc, C.1 = .psum sc ∧ sc.limit = 0 ∧ sc.values = []
  dlen : D.2.length = hist.length
  clen : C.2.length = hist.length
  ok : ∀ k, k < hist.length →
        asyncCumOK ((hist.map (·.1)).getD k []) ((C.2.map repOf).getD k []) = true ∧
        asyncDeltaOK (prevOf (hist.map (·.1)) k) ((hist.map (·.1)).getD k []) ((D.2.map repOf).getD k []) = true

theorem psumInv_run (s : PSum) (hl : s.limit = 0) (hv : s.values = []) (hr : s.reported = []) (hist : List Cycle) :
    PSumInv hist ((Agg.psum s).runCycles .delta hist) ((Agg.psum s).runCycles .cumulative hist) := by
  induction hist using snoc_induction with
  | hnil =>
    exact { d := ⟨s, rfl, hl, hv, by intro a; simp [hr, prevOf, AMap.get?]⟩, c := ⟨s, rfl, hl, hv⟩, dlen := rfl, clen := rfl,
            ok := by intro k hk; simp at hk }
  | hsnoc l c ih =>
    rw [Agg.runCycles_snoc, Agg.runCycles_snoc]
    generalize (Agg.psum s).runCycles .delta l = D at ih
    generalize (Agg.psum s).runCycles .cumulative l = C at ih
    obtain ⟨ms, t⟩ := c
    obtain ⟨sd, hD, hdl, hdv, hdr⟩ := ih.d
    obtain ⟨sc, hC, hcl, hcv⟩ := ih.c
    have hlenE : (l.map (·.1)).length = l.length := by simp
    have hcum := psum_cycle_cumulative sc hcl hcv ms t
    have hdel := psum_cycle_delta sd hdl hdv _ hdr ms t
    refine { d := ?_, c := ?_, dlen := by simp [Agg.cycleStep, ih.dlen], clen := by simp [Agg.cycleStep, ih.clen], ok := ?_ }
    · refine ⟨((observeAll sd ms).delta t).1, ?_, ?_, rfl, ?_⟩
      · simp only [Agg.cycleStep, hD, feed_psum]; rfl
      · simp only [PSum.delta]; rw [observeAll_limit]; exact hdl
      · intro a
        have := psum_reported_after_delta sd hdl hdv ms t a
        simp only [List.map_append, List.map_cons, List.map_nil, List.length_append, List.length_cons, List.length_nil]
        have hp : prevOf (l.map (·.1) ++ [ms]) (l.length + 0 + 1) = ms := by
          have := prevOf_snoc_succ (l.map (·.1)) ms
          rw [hlenE] at this; exact this
        rw [hp]; exact this
    · refine ⟨((observeAll sc ms).cumulative t).1, ?_, ?_, rfl⟩
      · simp only [Agg.cycleStep, hC, feed_psum]; rfl
      · simp only [PSum.cumulative]; rw [observeAll_limit]; exact hcl
    · intro k hk
      simp only [List.length_append, List.length_cons, List.length_nil] at hk
      simp only [Agg.cycleStep, List.map_append, List.map_cons, List.map_nil]
      by_cases hlt : k < l.length
      · have := ih.ok k hlt
        rw [getD_append_left _ _ _ _ (by simp [hlt]), getD_append_left _ _ _ _ (by simp [ih.clen, hlt]),
          getD_append_left _ _ _ _ (by simp [ih.dlen, hlt]), prevOf_snoc _ _ _ (by simp; omega)]
        exact this
      · have hk' : k = l.length := by omega
        subst hk'
        have e1 : (l.map (·.1) ++ [ms]).getD l.length [] = ms := by
          have := getD_snoc_length (l.map (·.1)) ms []; rw [hlenE] at this; exact this
        have e2 : (C.2.map repOf ++ [repOf ((C.1.feed ms).collect .cumulative t).2]).getD l.length [] =
            repOf ((C.1.feed ms).collect .cumulative t).2 := by
          have := getD_snoc_length (C.2.map repOf) (repOf ((C.1.feed ms).collect .cumulative t).2) []
          rw [List.length_map, ih.clen] at this; exact this
        have e3 : (D.2.map repOf ++ [repOf ((D.1.feed ms).collect .delta t).2]).getD l.length [] =
            repOf ((D.1.feed ms).collect .delta t).2 := by
          have := getD_snoc_length (D.2.map repOf) (repOf ((D.1.feed ms).collect .delta t).2) []
          rw [List.length_map, ih.dlen] at this; exact this
        rw [e1, e2, e3, prevOf_snoc _ _ _ (by simp), hC, hD]
        exact ⟨hcum, hdel⟩

/-- HISTORY LEVEL, asynchronous sums: over every history of cycles, at every cycle both readers report exactly the
sets observed in that cycle; the cumulative reader the observed value, the delta reader the observed value minus the
value observed in the immediately preceding cycle (0 if the set was absent then, even if it was seen two cycles ago)
— as judged by the oracle predicate `Spec.asyncSumHistOK` itself -/
theorem asyncSumHistOK_runCycles (s : PSum) (hl : s.limit = 0) (hv : s.values = []) (hr : s.reported = [])
    (hist : List Cycle) :
    asyncSumHistOK (hist.map (·.1)) (((Agg.psum s).runCycles .delta hist).2.map repOf)
      (((Agg.psum s).runCycles .cumulative hist).2.map repOf) = true := by
  have inv := psumInv_run s hl hv hr hist
  simp only [asyncSumHistOK, List.all_eq_true, List.mem_range, List.length_map, Bool.and_eq_true]
  intro k hk
  have := inv.ok k hk
  simp only [prevOf] at this
  exact this

/-! ### gauges -/

/-- the measurements of one cycle applied to a last-value aggregator -/
def recordAll (s : LastValue) (ms : List (Attr × Int)) : LastValue := ms.foldl (fun s m => s.measure m.1 m.2) s

theorem recordAll_cons (s : LastValue) (m : Attr × Int) (ms : List (Attr × Int)) :
    recordAll s (m :: ms) = recordAll (s.measure m.1 m.2) ms := rfl

theorem feed_lv (s : LastValue) (ms : List (Attr × Int)) : (Agg.lv s).feed ms = .lv (recordAll s ms) := by
  induction ms generalizing s with
  | nil => rfl
  | cons m ms ih => rw [Agg.feed_cons]; simp only [Agg.measure]; rw [ih]; rfl

theorem feed_plv (s : LastValue) (ms : List (Attr × Int)) : (Agg.plv s).feed ms = .plv (recordAll s ms) := by
  induction ms generalizing s with
  | nil => rfl
  | cons m ms ih => rw [Agg.feed_cons]; simp only [Agg.measure]; rw [ih]; rfl

theorem recordAll_limit (s : LastValue) (ms : List (Attr × Int)) : (recordAll s ms).limit = s.limit := by
  induction ms generalizing s with
  | nil => rfl
  | cons m ms ih => rw [recordAll_cons, ih]; rfl

theorem recordAll_start (s : LastValue) (ms : List (Attr × Int)) : (recordAll s ms).start = s.start := by
  induction ms generalizing s with
  | nil => rfl
  | cons m ms ih => rw [recordAll_cons, ih]; rfl

/-- a measurement overwrites: after a cycle's measurements a set holds the LAST value recorded for it in the cycle,
or what it held before if the cycle did not mention it -/
theorem recordAll_get? (s : LastValue) (hl : s.limit = 0) (ms : List (Attr × Int)) (a : Attr) :
    (recordAll s ms).values.get? a = (lastOf ms a).or (s.values.get? a) := by
  induction ms generalizing s with
  | nil => simp [recordAll, lastOf_nil]
  | cons m ms ih =>
    rw [recordAll_cons, ih _ (by simp [LastValue.measure, hl]), lastOf_cons]
    simp only [LastValue.measure, hl, limitAttr_nolimit, get?_upd]
    by_cases h : m.1 = a
    · simp only [h, if_true]; cases lastOf ms a <;> simp
    · simp [h]

theorem lv_keys_recordAll (s : LastValue) (ms : List (Attr × Int)) (h : s.values.keys.Nodup) :
    (recordAll s ms).values.keys.Nodup := by
  have := Agg.keys_feed (.lv s) ms h
  rw [feed_lv] at this
  exact this

/-- a collection of a gauge whose cells hold, for every set, the last value of `obs` reports exactly that -/
theorem gauge_collect_ok (g : Agg) (s : LastValue) (hg : g = .lv s ∨ g = .plv s) (hn : s.values.keys.Nodup)
    (obs : List (Nat × Int)) (h : ∀ a, s.values.get? a = lastOf obs a) (tp : Temporality) (t : Nat) :
    gaugeCycleOK obs (repOf (g.collect tp t).2) = true := by
  have hp := Agg.pairsOf_collect g tp t
  have hheld : g.held tp = s.values.map fun kv => (kv.1, PV.num kv.2) := by
    rcases hg with rfl | rfl <;> rfl
  have hkeys : (g.held tp).keys.Nodup := by
    rw [Agg.held_keys]; rcases hg with rfl | rfl <;> exact hn
  have hget : ∀ a, (g.held tp).get? a = (s.values.get? a).map PV.num := by
    intro a; rw [hheld]; exact get?_map _ PV.num a
  simp only [gaugeCycleOK, Bool.and_eq_true, List.all_eq_true]
  refine ⟨cycleExact_of _ _ hp hkeys obs ?_, ?_⟩
  · intro a; rw [hget, Option.isSome_map, h, lastOf_isSome]
  · intro p hpm
    obtain ⟨pv, h1, h2⟩ := report_point _ _ hp hkeys p hpm
    rw [hget, h] at h1
    cases hg' : lastOf obs p.1 with
    | none => rw [hg'] at h1; simp at h1
    | some v =>
      rw [hg'] at h1
      simp only [Option.map_some, Option.some.injEq] at h1
      subst h1
      simp [h2, vecOf, veq_single]

structure PlvInv (hist : List Cycle) (D C : Run) : Prop where
  d : ∃ sd, D.1 = .plv sd ∧ sd.limit = 0 ∧ sd.values = []
  c : ∃ sc, C.1 = .plv sc ∧ sc.limit = 0 ∧ sc.values = []
  dlen : D.2.length = hist.length
  clen : C.2.length = hist.length
  ok : ∀ k, k < hist.length →
        gaugeCycleOK ((hist.map (·.1)).getD k []) ((C.2.map repOf).getD k []) = true ∧
        gaugeCycleOK ((hist.map (·.1)).getD k []) ((D.2.map repOf).getD k []) = true

theorem plv_cycle (s : LastValue) (hl : s.limit = 0) (hv : s.values = []) (ms : List (Attr × Int)) (tp : Temporality)
    (t : Nat) : gaugeCycleOK ms (repOf (((Agg.plv s).feed ms).collect tp t).2) = true := by
  rw [feed_plv]
  refine gauge_collect_ok _ (recordAll s ms) (Or.inr rfl) (lv_keys_recordAll s ms (by simp [hv, AMap.keys])) ms ?_ tp t
  intro a; rw [recordAll_get? s hl, hv]; simp [AMap.get?]

theorem plvInv_run (s : LastValue) (hl : s.limit = 0) (hv : s.values = []) (hist : List Cycle) :
    PlvInv hist ((Agg.plv s).runCycles .delta hist) ((Agg.plv s).runCycles .cumulative hist) := by
  induction hist using snoc_induction with
  | hnil =>
    exact { d := ⟨s, rfl, hl, hv⟩, c := ⟨s, rfl, hl, hv⟩, dlen := rfl, clen := rfl, ok := by intro k hk; simp at hk }
  | hsnoc l c ih =>
    rw [Agg.runCycles_snoc, Agg.runCycles_snoc]
    generalize (Agg.plv s).runCycles .delta l = D at ih
    generalize (Agg.plv s).runCycles .cumulative l = C at ih
    obtain ⟨ms, t⟩ := c
    obtain ⟨sd, hD, hdl, hdv⟩ := ih.d
    obtain ⟨sc, hC, hcl, hcv⟩ := ih.c
    have hlenE : (l.map (·.1)).length = l.length := by simp
    refine { d := ?_, c := ?_, dlen := by simp [Agg.cycleStep, ih.dlen], clen := by simp [Agg.cycleStep, ih.clen], ok := ?_ }
    · refine ⟨((recordAll sd ms).pdelta t).1, ?_, ?_, rfl⟩
      · simp only [Agg.cycleStep, hD, feed_plv]; rfl
      · simp only [LastValue.pdelta, LastValue.delta]; rw [recordAll_limit]; exact hdl
    · refine ⟨((recordAll sc ms).pcumulative t).1, ?_, ?_, rfl⟩
      · simp only [Agg.cycleStep, hC, feed_plv]; rfl
      · simp only [LastValue.pcumulative]; rw [recordAll_limit]; exact hcl
    · intro k hk
      simp only [List.length_append, List.length_cons, List.length_nil] at hk
      simp only [Agg.cycleStep, List.map_append, List.map_cons, List.map_nil]
      by_cases hlt : k < l.length
      · have := ih.ok k hlt
        rw [getD_append_left _ _ _ _ (by simp [hlt]), getD_append_left _ _ _ _ (by simp [ih.clen, hlt]),
          getD_append_left _ _ _ _ (by simp [ih.dlen, hlt])]
        exact this
      · have hk' : k = l.length := by omega
        subst hk'
        have e1 : (l.map (·.1) ++ [ms]).getD l.length [] = ms := by
          have := getD_snoc_length (l.map (·.1)) ms []; rw [hlenE] at this; exact this
        have e2 : (C.2.map repOf ++ [repOf ((C.1.feed ms).collect .cumulative t).2]).getD l.length [] =
            repOf ((C.1.feed ms).collect .cumulative t).2 := by
          have := getD_snoc_length (C.2.map repOf) (repOf ((C.1.feed ms).collect .cumulative t).2) []
          rw [List.length_map, ih.clen] at this; exact this
        have e3 : (D.2.map repOf ++ [repOf ((D.1.feed ms).collect .delta t).2]).getD l.length [] =
            repOf ((D.1.feed ms).collect .delta t).2 := by
          have := getD_snoc_length (D.2.map repOf) (repOf ((D.1.feed ms).collect .delta t).2) []
          rw [List.length_map, ih.dlen] at this; exact this
        rw [e1, e2, e3, hC, hD]
        exact ⟨plv_cycle sc hcl hcv ms _ t, plv_cycle sd hdl hdv ms _ t⟩

/-- HISTORY LEVEL, asynchronous gauges: at every cycle of every history both readers report, for exactly the sets
observed in the cycle, the last value observed in it — as judged by `Spec.asyncGaugeHistOK` -/
theorem asyncGaugeHistOK_runCycles (s : LastValue) (hl : s.limit = 0) (hv : s.values = []) (hist : List Cycle) :
    asyncGaugeHistOK (hist.map (·.1)) (((Agg.plv s).runCycles .delta hist).2.map repOf)
      (((Agg.plv s).runCycles .cumulative hist).2.map repOf) = true := by
  have inv := plvInv_run s hl hv hist
  simp only [asyncGaugeHistOK, List.all_eq_true, List.mem_range, List.length_map, Bool.and_eq_true]
  intro k hk
  exact inv.ok k hk

structure LvInv (hist : List Cycle) (D C : Run) : Prop where
  d : ∃ sd, D.1 = .lv sd ∧ sd.limit = 0 ∧ sd.values = []
  c : ∃ sc, C.1 = .lv sc ∧ sc.limit = 0 ∧ sc.values.keys.Nodup ∧
        ∀ a, sc.values.get? a = lastOf (hist.map (·.1)).flatten a
  dlen : D.2.length = hist.length
  clen : C.2.length = hist.length
  ok : ∀ k, k < hist.length →
        gaugeCycleOK ((hist.map (·.1)).getD k []) ((D.2.map repOf).getD k []) = true ∧
        gaugeCumOK (((hist.map (·.1)).take (k + 1)).flatten) ((C.2.map repOf).getD k []) = true

theorem lv_cycle_delta (s : LastValue) (hl : s.limit = 0) (hv : s.values = []) (ms : List (Attr × Int)) (t : Nat) :
    gaugeCycleOK ms (repOf (((Agg.lv s).feed ms).collect .delta t).2) = true := by
  rw [feed_lv]
  refine gauge_collect_ok _ (recordAll s ms) (Or.inl rfl) (lv_keys_recordAll s ms (by simp [hv, AMap.keys])) ms ?_ _ t
  intro a; rw [recordAll_get? s hl, hv]; simp [AMap.get?]

theorem lvInv_run (s : LastValue) (hl : s.limit = 0) (hv : s.values = []) (hist : List Cycle) :
    LvInv hist ((Agg.lv s).runCycles .delta hist) ((Agg.lv s).runCycles .cumulative hist) := by
  induction hist using snoc_induction with
  | hnil =>
    exact { d := ⟨s, rfl, hl, hv⟩, c := ⟨s, rfl, hl, by simp [hv, AMap.keys], by intro a; simp [hv, AMap.get?, lastOf_nil]⟩,
            dlen := rfl, clen := rfl, ok := by intro k hk; simp at hk }
  | hsnoc l c ih =>
    rw [Agg.runCycles_snoc, Agg.runCycles_snoc]
    generalize (Agg.lv s).runCycles .delta l = D at ih
    generalize (Agg.lv s).runCycles .cumulative l = C at ih
    obtain ⟨ms, t⟩ := c
    obtain ⟨sd, hD, hdl, hdv⟩ := ih.d
    obtain ⟨sc, hC, hcl, hck, hcg⟩ := ih.c
    have hlenE : (l.map (·.1)).length = l.length := by simp
    have hall : ∀ a, (recordAll sc ms).values.get? a = lastOf ((l.map (·.1)).flatten ++ ms) a := by
      intro a; rw [recordAll_get? sc hcl, hcg, lastOf_append]
    refine { d := ?_, c := ?_, dlen := by simp [Agg.cycleStep, ih.dlen], clen := by simp [Agg.cycleStep, ih.clen], ok := ?_ }
    · refine ⟨((recordAll sd ms).delta t).1, ?_, ?_, rfl⟩
      · simp only [Agg.cycleStep, hD, feed_lv]; rfl
      · simp only [LastValue.delta]; rw [recordAll_limit]; exact hdl
    · refine ⟨recordAll sc ms, ?_, ?_, lv_keys_recordAll sc ms hck, ?_⟩
      · simp only [Agg.cycleStep, hC, feed_lv]; rfl
      · rw [recordAll_limit]; exact hcl
      · intro a; rw [hall]; simp
    · intro k hk
      simp only [List.length_append, List.length_cons, List.length_nil] at hk
      simp only [Agg.cycleStep, List.map_append, List.map_cons, List.map_nil]
      by_cases hlt : k < l.length
      · have := ih.ok k hlt
        have hd' := ih.dlen
        have hc' := ih.clen
        rw [getD_append_left _ _ _ _ (by simp [hlt]), getD_append_left _ _ _ _ (by simp only [List.length_map]; omega),
          getD_append_left _ _ _ _ (by simp only [List.length_map]; omega),
          List.take_append_of_le_length (by simp; omega)]
        exact this
      · have hk' : k = l.length := by omega
        subst hk'
        have e1 : (l.map (·.1) ++ [ms]).getD l.length [] = ms := by
          have := getD_snoc_length (l.map (·.1)) ms []; rw [hlenE] at this; exact this
        have e2 : (C.2.map repOf ++ [repOf ((C.1.feed ms).collect .cumulative t).2]).getD l.length [] =
            repOf ((C.1.feed ms).collect .cumulative t).2 := by
          have := getD_snoc_length (C.2.map repOf) (repOf ((C.1.feed ms).collect .cumulative t).2) []
          rw [List.length_map, ih.clen] at this; exact this
        have e3 : (D.2.map repOf ++ [repOf ((D.1.feed ms).collect .delta t).2]).getD l.length [] =
            repOf ((D.1.feed ms).collect .delta t).2 := by
          have := getD_snoc_length (D.2.map repOf) (repOf ((D.1.feed ms).collect .delta t).2) []
          rw [List.length_map, ih.dlen] at this; exact this
        have e4 : ((l.map (·.1) ++ [ms]).take (l.length + 1)).flatten = (l.map (·.1)).flatten ++ ms := by
          rw [List.take_of_length_le (by simp)]; simp
        rw [e1, e2, e3, e4, hC, hD]
        refine ⟨lv_cycle_delta sd hdl hdv ms t, ?_⟩
        rw [feed_lv]
        exact gauge_collect_ok _ (recordAll sc ms) (Or.inl rfl) (lv_keys_recordAll sc ms hck) _ hall _ t

/-- HISTORY LEVEL, synchronous gauges: at every cycle of every history the delta reader reports the last value recorded
in the cycle for exactly the sets recorded in it, the cumulative reader the last value ever recorded for every set
ever recorded — as judged by `Spec.syncGaugeHistOK` -/
theorem syncGaugeHistOK_runCycles (s : LastValue) (hl : s.limit = 0) (hv : s.values = []) (hist : List Cycle) :
    syncGaugeHistOK (hist.map (·.1)) (((Agg.lv s).runCycles .delta hist).2.map repOf)
      (((Agg.lv s).runCycles .cumulative hist).2.map repOf) = true := by
  have inv := lvInv_run s hl hv hist
  simp only [syncGaugeHistOK, List.all_eq_true, List.mem_range, List.length_map, Bool.and_eq_true]
  intro k hk
  exact inv.ok k hk

end Otel.C08
