/-
C08 — Min / Max of histogram points across the two temporalities.

The oracle judges the Min/Max of every histogram and exponential-histogram point against `refExtrema` (CbErr.lean): a delta
point carries the extrema of its cycle, a cumulative point those of all cycles so far.  The theorem below is the twin
relation between the two: the cumulative extrema at collection `k` are the fold (`mergeExt`: smaller Min, larger Max,
absent = neutral) of the delta extrema of the collections `0 … k` — for every configuration, history and attribute set.
-/
import Otel.C08.CbErr
namespace Otel.C08
open Otel.C02

/-- combine the extrema of two intervals; `none` (no measurement / NoMinMax) is neutral -/
def mergeExt : Option (Int × Int) → Option (Int × Int) → Option (Int × Int)
  | none, y => y
  | x, none => x
  | some (a, b), some (c, d) => some (min a c, max b d)

private def ext : List Int → Option (Int × Int)
  | [] => none
  | v :: vs => some (vs.foldl min v, vs.foldl max v)

private theorem foldl_min_init (l : List Int) (a b : Int) : l.foldl min (min a b) = min a (l.foldl min b) := by
  induction l generalizing b with
  | nil => rfl
  | cons x l ih => simp only [List.foldl_cons]; rw [Int.min_assoc, ih]

private theorem foldl_max_init (l : List Int) (a b : Int) : l.foldl max (max a b) = max a (l.foldl max b) := by
  induction l generalizing b with
  | nil => rfl
  | cons x l ih => simp only [List.foldl_cons]; rw [Int.max_assoc, ih]

private theorem ext_append (xs ys : List Int) : ext (xs ++ ys) = mergeExt (ext xs) (ext ys) := by
  cases xs with
  | nil => cases ys <;> rfl
  | cons v vs =>
    cases ys with
    | nil => simp [ext, mergeExt]
    | cons w ws =>
      simp only [List.cons_append, ext, mergeExt, List.foldl_append, List.foldl_cons, Option.some.injEq, Prod.mk.injEq]
      exact ⟨foldl_min_init ws _ w, foldl_max_init ws _ w⟩

private theorem extremaOf_eq (vals : List (Nat × Int)) (a : Nat) :
    extremaOf vals a = ext ((vals.filter (·.1 == a)).map (·.2)) := by
  unfold extremaOf ext
  split <;> rename_i h <;> rw [h]

theorem extremaOf_append (l₁ l₂ : List (Nat × Int)) (a : Nat) :
    extremaOf (l₁ ++ l₂) a = mergeExt (extremaOf l₁ a) (extremaOf l₂ a) := by
  simp only [extremaOf_eq, List.filter_append, List.map_append, ext_append]

/-- fold of the delta extrema of the collections `0 … n-1` -/
def deltaExtremaUpTo (insts : List InstCfg) (noMM : List Bool) (cyc : List CycleIn) (j : Nat) (a : Nat) : Nat → Option (Int × Int)
  | 0 => none
  | n + 1 => mergeExt (deltaExtremaUpTo insts noMM cyc j a n) (refExtrema insts noMM cyc j n true a)

/-- **Min/Max twin relation.**  For every instrument configuration, history, instrument `j`, attribute set `a` and
collection `k` of the history: the reference Min/Max of the cumulative point at `k` is the fold of the reference Min/Max
of the delta points of the collections `0 … k` (absent everywhere with NoMinMax). -/
theorem extrema_cumulative_is_fold_of_deltas (insts : List InstCfg) (noMM : List Bool) (cyc : List CycleIn) (j a k : Nat)
    (hk : k < cyc.length) :
    refExtrema insts noMM cyc j k false a = deltaExtremaUpTo insts noMM cyc j a (k + 1) := by
  by_cases hn : noMM.getD j false = true
  · have : ∀ n, deltaExtremaUpTo insts noMM cyc j a n = none := by
      intro n; induction n with
      | zero => rfl
      | succ n ih => simp only [deltaExtremaUpTo, ih, refExtrema, hn, if_true, mergeExt]
    simp only [refExtrema, hn, if_true, this]
  · have key : ∀ n, n ≤ cyc.length →
        extremaOf ((cyc.take n).flatMap fun c => cycleValues insts c j) a = deltaExtremaUpTo insts noMM cyc j a n := by
      intro n
      induction n with
      | zero => intro _; simp [deltaExtremaUpTo, extremaOf]
      | succ n ih =>
        intro hle
        have hlt : n < cyc.length := by omega
        have ht : cyc.take (n + 1) = cyc.take n ++ [cyc[n]] := by
          rw [List.take_add_one, List.getElem?_eq_getElem hlt]; rfl
        have hd : (cyc.drop n).take 1 = [cyc[n]] := by
          rw [List.drop_eq_getElem_cons hlt]; rfl
        simp only [deltaExtremaUpTo, refExtrema, hn, Bool.false_eq_true, if_false, if_true, hd, ht, List.flatMap_append,
          extremaOf_append, ih (by omega)]
    simp only [refExtrema, hn, Bool.false_eq_true, if_false]
    exact key (k + 1) (by omega)

example : mergeExt (some (3, 9)) (some (-2, 4)) = some (-2, 9) ∧ mergeExt none (some (1, 1)) = some (1, 1) := by decide

end Otel.C08
