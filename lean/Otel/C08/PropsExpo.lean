/-
C08 — theorems about the bucket-level twin clause of exponential histograms (Otel/C08/ExpoBuckets.lean).

`Otel.C07.Buckets.downscale` is the model of `expoBuckets.downscale` (exponential_histogram.go) whose per-bucket
characterisation `Otel.C07.downscale_get` is C07's theorem; here it is turned into the form the twin comparison needs:
re-scaling is a BLOCK SUM (`downscale_block`), hence additive over any family of bucket arrays (`downscale_additive`),
hence the bucket-wise twin equation, once true at some scale, stays true at every coarser scale
(`twin_buckets_stable_under_downscale`); and the executable check `sameAt` decides the equation for ALL indexes
(`sameAt_iff`).
-/
import Otel.C08.ExpoBuckets
import Otel.C07.Lemmas
namespace Otel.C08.XB
open Otel.C07 Otel.C07.Spec

/-- bucket content as a sum over the positions of the array -/
private theorem get_as_sumTo (b : Buckets) (j : Int) :
    Buckets.get b j = sumTo b.counts.length (fun p => if b.start + (p : Int) = j then b.counts[p]?.getD 0 else 0) := by
  unfold Buckets.get
  by_cases hj : j < b.start
  · simp only [hj, if_true]
    rw [sumTo_congr _ _ (fun _ => 0) (fun p _ => by rw [if_neg]; omega), sumTo_zero]
  · simp only [hj, if_false]
    rw [sumTo_congr _ _ (fun p => if p = (j - b.start).toNat then b.counts[p]?.getD 0 else 0)
      (fun p _ => by
        by_cases hq : b.start + (p : Int) = j
        · rw [if_pos hq, if_pos (by omega)]
        · rw [if_neg hq, if_neg (by omega)])]
    rw [sumTo_single, List.getD_eq_getElem?_getD]
    split
    · rfl
    · rw [List.getElem?_eq_none (by omega)]; rfl

private theorem shr_eq_iff (x i : Int) (δ : Nat) :
    x >>> δ = i ↔ (i * ((2 ^ δ : Nat) : Int) ≤ x ∧ x < i * ((2 ^ δ : Nat) : Int) + ((2 ^ δ : Nat) : Int)) := by
  rw [Int.shiftRight_eq_div_pow]
  have hpos : (0 : Int) < ((2 ^ δ : Nat) : Int) := by exact_mod_cast Nat.two_pow_pos δ
  generalize ((2 ^ δ : Nat) : Int) = M at hpos
  constructor
  · intro h
    subst h
    have h1 := Int.emod_nonneg x (Int.ne_of_gt hpos)
    have h2 := Int.emod_lt_of_pos x hpos
    have h3 := Int.mul_ediv_add_emod x M
    rw [Int.mul_comm] at h3
    constructor <;> omega
  · intro ⟨h1, h2⟩
    have a1 : i ≤ x / M := (Int.le_ediv_iff_mul_le hpos).2 h1
    have a2 : x / M < i + 1 := (Int.ediv_lt_iff_lt_mul hpos).2 (by rw [Int.add_mul]; omega)
    omega

/-- **re-scaling is a block sum**: bucket `i` after `downscale δ` holds exactly the contents of the `2^δ` buckets
`i·2^δ … i·2^δ + 2^δ − 1` before (for every bucket array, every `δ` and every absolute index `i`) -/
theorem downscale_block (b : Buckets) (δ : Nat) (i : Int) :
    Buckets.get (b.downscale δ) i = sumTo (2 ^ δ) (fun k => Buckets.get b (i * ((2 ^ δ : Nat) : Int) + (k : Int))) := by
  rw [downscale_get]
  rw [sumTo_congr (2 ^ δ) _ _ (fun k _ => get_as_sumTo b _)]
  rw [sumTo_comm]
  apply sumTo_congr
  intro p _
  by_cases hq : (b.start + (p : Int)) >>> δ = i
  · rw [if_pos hq]
    have hb := (shr_eq_iff _ _ _).1 hq
    rw [sumTo_congr _ _ (fun k => if (b.start + (p : Int) - i * ((2 ^ δ : Nat) : Int)).toNat = k then b.counts[p]?.getD 0 else 0)
      (fun k _ => by
        by_cases hk : b.start + (p : Int) = i * ((2 ^ δ : Nat) : Int) + (k : Int)
        · rw [if_pos hk, if_pos (by omega)]
        · rw [if_neg hk, if_neg (by omega)])]
    rw [sumTo_indicator]
    have : ((2 ^ δ : Nat) : Int) = (2 ^ δ : Nat) := rfl
    omega
  · rw [if_neg hq]
    rw [sumTo_congr _ _ (fun _ => 0) (fun k hk => by
      rw [if_neg]
      intro hk'
      apply hq
      rw [shr_eq_iff]
      omega), sumTo_zero]

private theorem sumGet_map_downscale (ds : List Buckets) (δ : Nat) (i : Int) :
    sumGet (ds.map (·.downscale δ)) i = sumTo (2 ^ δ) (fun k => sumGet ds (i * ((2 ^ δ : Nat) : Int) + (k : Int))) := by
  induction ds with
  | nil => simp [sumGet, sumTo_zero]
  | cons d ds ih =>
    simp only [List.map_cons, sumGet, ih, downscale_block]
    rw [← sumTo_add]

/-- **`downscale` is additive**: if a bucket array holds, bucket by bucket, the sum of a family of bucket arrays
(whatever their windows), then so it does after all of them were re-scaled by the same `δ` -/
theorem downscale_additive (c : Buckets) (ds : List Buckets) (δ : Nat)
    (h : ∀ j, Buckets.get c j = sumGet ds j) (i : Int) :
    Buckets.get (c.downscale δ) i = sumGet (ds.map (·.downscale δ)) i := by
  rw [downscale_block, sumGet_map_downscale]
  exact sumTo_congr _ _ _ (fun k _ => h _)

/-- the two-array form: `downscale (b₁ + b₂) = downscale b₁ + downscale b₂`, bucket by bucket -/
theorem downscale_additive_two (b b₁ b₂ : Buckets) (δ : Nat)
    (h : ∀ j, Buckets.get b j = Buckets.get b₁ j + Buckets.get b₂ j) (i : Int) :
    Buckets.get (b.downscale δ) i = Buckets.get (b₁.downscale δ) i + Buckets.get (b₂.downscale δ) i := by
  have := downscale_additive b [b₁, b₂] δ (fun j => by simp [sumGet, h j]) i
  simpa [sumGet] using this

private theorem get_zero_outside (b : Buckets) (i : Int) (h : i ∉ window b) : Buckets.get b i = 0 := by
  unfold Buckets.get
  split
  · rfl
  · rename_i hlt
    rw [List.getD_eq_getElem?_getD, List.getElem?_eq_none, Option.getD_none]
    refine Nat.le_of_not_lt fun hk => h ?_
    simp only [window, List.mem_map, List.mem_range]
    exact ⟨(i - b.start).toNat, hk, by omega⟩

private theorem sumGet_zero_outside (ds : List Buckets) (i : Int) (h : i ∉ ds.flatMap window) : sumGet ds i = 0 := by
  induction ds with
  | nil => rfl
  | cons d ds ih =>
    simp only [List.flatMap_cons, List.mem_append, not_or] at h
    simp [sumGet, get_zero_outside d i h.1, ih h.2]

/-- the executable check decides the bucket-wise equation for ALL absolute indexes -/
theorem sameAt_iff (c : Buckets) (ds : List Buckets) :
    sameAt c ds = true ↔ ∀ i, Buckets.get c i = sumGet ds i := by
  unfold sameAt
  rw [List.all_eq_true]
  constructor
  · intro h i
    by_cases hi : i ∈ window c ++ ds.flatMap window
    · simpa using h i hi
    · simp only [List.mem_append, not_or] at hi
      rw [get_zero_outside c i hi.1, sumGet_zero_outside ds i hi.2]
  · intro h i _
    simp [h i]

/-- **the twin equation survives further re-scaling**: if the cumulative buckets are the bucket-wise sum of the delta
buckets at some scale, they still are after everything is brought to any coarser scale — the choice of the common scale
in `twinBucketsAt` is immaterial as long as it is coarse enough -/
theorem twin_buckets_stable_under_downscale (c : Buckets) (ds : List Buckets) (δ : Nat)
    (h : sameAt c ds = true) : sameAt (c.downscale δ) (ds.map (·.downscale δ)) = true :=
  (sameAt_iff _ _).2 (downscale_additive c ds δ ((sameAt_iff c ds).1 h))

/-- re-scaling loses nothing: the total of the bucket-wise sum is preserved (C07's `downscale_sum`, lifted to families) -/
theorem downscale_family_total (ds : List Buckets) (δ : Nat) :
    ((ds.map (·.downscale δ)).map (·.counts.sum)).sum = (ds.map (·.counts.sum)).sum := by
  induction ds with
  | nil => rfl
  | cons d ds ih =>
    simp only [List.map_cons, List.sum_cons, downscale_sum]
    rw [ih]

/-- the bucket part of a model data point (`Otel.C07.Expo`, the model of `expoHistogramDataPoint`) -/
def ofExpo (p : Expo) : XPt := ⟨p.scale, p.neg, p.pos⟩

/-! non-vacuity: a cumulative point at scale 0 and two delta points at scales 2 and 1 -/
example :
    twinBucketsAt
      [⟨2, ⟨0, []⟩, ⟨4, [1, 0, 2]⟩⟩, ⟨1, ⟨-3, [1]⟩, ⟨2, [1, 1, 0, 0, 5]⟩⟩]
      ⟨0, ⟨-2, [1]⟩, ⟨1, [5, 0, 5]⟩⟩ = true := by decide

example :
    twinBucketsAt
      [⟨2, ⟨0, []⟩, ⟨4, [1, 0, 2]⟩⟩, ⟨1, ⟨-3, [1]⟩, ⟨2, [1, 1, 0, 0, 5]⟩⟩]
      ⟨0, ⟨-2, [1]⟩, ⟨1, [5, 1, 4]⟩⟩ = false := by decide

example : sameAt ⟨-2, [4, 14, 30, 10]⟩ [(⟨-6, [3, 1, 2, 3, 4, 5]⟩ : Buckets).downscale 2, (⟨0, [6, 7, 8, 9, 10]⟩ : Buckets).downscale 2] = true := by
  decide

end Otel.C08.XB
