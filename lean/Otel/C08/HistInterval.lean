/-
C08 — history-level interval theorems: (1) one aggregator over a history with arbitrary strictly increasing clock
readings; (2) the flags of the model's records (`flagRecs`, model time) satisfy the oracle's interval predicates.
-/
import Otel.C08.History
namespace Otel.C08
open Otel.C02 Otel.C08.Spec

/-! ### one aggregator, arbitrary increasing clock readings -/

/-- the interval start an aggregator keeps (`none` for a dropped stream) -/
def Agg.start : Agg → Option Nat
  | .sum s => some s.start
  | .psum s => some s.start
  | .lv s => some s.start
  | .plv s => some s.start
  | .hist h => some h.start
  | .expo h => some h.start
  | .off => none

theorem Agg.start_measure (g : Agg) (a : Attr) (x : Int) : (g.measure a x).start = g.start := by
  cases g <;> rfl

theorem Agg.start_feed (g : Agg) (ms : List (Attr × Int)) : (g.feed ms).start = g.start := by
  induction ms generalizing g with
  | nil => rfl
  | cons m ms ih => rw [Agg.feed_cons, ih, Agg.start_measure]

/-- a delta collection moves the start to its clock reading -/
theorem Agg.start_collect_delta (g : Agg) (t : Nat) : (g.collect .delta t).1.start = g.start.map fun _ => t := by
  cases g <;> rfl

/-- no cumulative collection moves the start -/
theorem Agg.start_collect_cumulative (g : Agg) (t : Nat) : (g.collect .cumulative t).1.start = g.start := by
  cases g <;> rfl

/-- every point of a collection carries [the aggregator's start, the clock reading] -/
theorem Agg.points_collect (g : Agg) (tp : Temporality) (t : Nat) :
    ∀ p ∈ outPts (g.collect tp t).2, some p.start = g.start ∧ p.time = t := by
  intro p hp
  cases g <;> cases tp <;>
    simp only [Agg.collect, outPts, Sum.collect, Sum.delta, Sum.cumulative, PSum.collect, PSum.delta,
      PSum.cumulative, LastValue.collect, LastValue.pcollect, LastValue.delta, LastValue.cumulative, LastValue.pdelta,
      LastValue.pcumulative, Hist.collect, Hist.delta, Hist.cumulative, mkPoints, List.map_map, List.mem_map,
      Function.comp_def, List.not_mem_nil] at hp <;>
    first
    | (obtain ⟨kv, _, rfl⟩ := hp; exact ⟨rfl, rfl⟩)
    | exact hp.elim

/-- clock readings strictly increase along the history, the first being after `start` -/
def increasing (start : Nat) : List Nat → Bool
  | [] => true
  | t :: ts => decide (start < t) && increasing t ts

theorem increasing_snoc (start : Nat) (ts : List Nat) (t : Nat) :
    increasing start (ts ++ [t]) = (increasing start ts && decide ((ts.getLast?).getD start < t)) := by
  induction ts generalizing start with
  | nil =>
    simp only [increasing, List.nil_append, List.getLast?_nil, Option.getD_none, Bool.true_and, Bool.and_true]
    congr
  | cons x xs ih =>
    simp only [List.cons_append, increasing, ih, List.getLast?_cons, Option.getD_some, Bool.and_assoc]

/-- the start in force at collection `k`: creation time for the first, else the previous collection's reading -/
def startAt (start : Nat) (times : List Nat) (k : Nat) : Nat := if k = 0 then start else times.getD (k - 1) 0

structure IvInv (start : Nat) (hist : List Cycle) (D C : Agg × List (Option (DT × List (Pt PV)))) : Prop where
  dStart : D.1.start = none ∨ D.1.start = some (startAt start (hist.map (·.2)) hist.length)
  cStart : C.1.start = none ∨ C.1.start = some start
  dlen : D.2.length = hist.length
  clen : C.2.length = hist.length
  lastLe : startAt start (hist.map (·.2)) hist.length ≥ start
  d : ∀ k out, D.2[k]? = some out → ∀ p ∈ outPts out,
        p.start = startAt start (hist.map (·.2)) k ∧ p.time = (hist.map (·.2)).getD k 0 ∧ p.start < p.time
  c : ∀ k out, C.2[k]? = some out → ∀ p ∈ outPts out,
        p.start = start ∧ p.time = (hist.map (·.2)).getD k 0 ∧ p.start < p.time

theorem startAt_snoc (start : Nat) (ts : List Nat) (t : Nat) (k : Nat) (hk : k ≤ ts.length) :
    startAt start (ts ++ [t]) k = startAt start ts k := by
  unfold startAt
  by_cases h0 : k = 0
  · simp [h0]
  · simp only [h0, if_false, List.getD_eq_getElem?_getD]
    rw [List.getElem?_append_left (by omega)]

theorem startAt_last (start : Nat) (ts : List Nat) : startAt start ts ts.length = (ts.getLast?).getD start := by
  unfold startAt
  cases ts using snoc_induction with
  | hnil => rfl
  | hsnoc l a _ => simp [List.getD_eq_getElem?_getD]

theorem ivInv_run (g : Agg) (start : Nat) (hs : g.start = none ∨ g.start = some start) (hist : List Cycle)
    (hinc : increasing start (hist.map (·.2)) = true) :
    IvInv start hist (g.runCycles .delta hist) (g.runCycles .cumulative hist) := by
  induction hist using snoc_induction with
  | hnil =>
    exact { dStart := hs, cStart := hs, dlen := rfl, clen := rfl, lastLe := by simp [startAt],
            d := by intro k out hk; simp [Agg.runCycles] at hk,
            c := by intro k out hk; simp [Agg.runCycles] at hk }
  | hsnoc l c ih =>
    obtain ⟨ms, t⟩ := c
    simp only [List.map_append, List.map_cons, List.map_nil, increasing_snoc, Bool.and_eq_true, decide_eq_true_eq] at hinc
    have ih := ih hinc.1
    have hlt := hinc.2
    rw [← startAt_last] at hlt
    rw [Agg.runCycles_snoc, Agg.runCycles_snoc]
    generalize g.runCycles .delta l = D at ih
    generalize g.runCycles .cumulative l = C at ih
    have hlen : (l.map (·.2)).length = l.length := by simp
    rw [hlen] at hlt
    have hle := ih.lastLe
    have hgetT : (l.map (·.2) ++ [t]).getD l.length 0 = t := by
      simp [List.getD_eq_getElem?_getD]
    refine { dStart := ?_, cStart := ?_, dlen := by simp [Agg.cycleStep, ih.dlen], clen := by simp [Agg.cycleStep, ih.clen],
             lastLe := ?_, d := ?_, c := ?_ }
    · simp only [Agg.cycleStep, Agg.start_collect_delta, Agg.start_feed]
      rcases ih.dStart with h | h
      · left; simp [h]
      · right
        simp only [h, Option.map_some, List.map_append, List.map_cons, List.map_nil, List.length_append,
          List.length_cons, List.length_nil]
        simp [startAt, List.getD_eq_getElem?_getD]
    · simp only [Agg.cycleStep, Agg.start_collect_cumulative, Agg.start_feed]; exact ih.cStart
    · simp only [List.map_append, List.map_cons, List.map_nil, List.length_append, List.length_cons, List.length_nil]
      simp only [startAt, List.getD_eq_getElem?_getD]
      simp; omega
    · intro k out hk p hp
      simp only [Agg.cycleStep, List.map_append, List.map_cons, List.map_nil] at hk ⊢
      by_cases hklt : k < D.2.length
      · rw [List.getElem?_append_left hklt] at hk
        have := ih.d k out hk p hp
        rw [startAt_snoc _ _ _ _ (by rw [hlen, ← ih.dlen]; omega), List.getD_eq_getElem?_getD,
          List.getElem?_append_left (by rw [hlen, ← ih.dlen]; exact hklt), ← List.getD_eq_getElem?_getD]
        exact this
      · rw [List.getElem?_append_right (Nat.le_of_not_lt hklt)] at hk
        have hk0 : k = D.2.length := by
          cases hkk : k - D.2.length with
          | zero => omega
          | succ n => rw [hkk] at hk; simp at hk
        subst hk0
        simp only [Nat.sub_self, List.getElem?_cons_zero, Option.some.injEq] at hk
        subst hk
        have hpt := Agg.points_collect (D.1.feed ms) .delta t p hp
        rw [Agg.start_feed] at hpt
        rcases ih.dStart with h | h
        · rw [h] at hpt; simp at hpt
        · rw [h] at hpt
          have h1 : p.start = startAt start (l.map (·.2)) l.length := by simpa using hpt.1
          rw [ih.dlen, startAt_snoc _ _ _ _ (by rw [hlen]; exact Nat.le_refl _), hgetT]
          exact ⟨h1, hpt.2, by rw [h1, hpt.2]; exact hlt⟩
    · intro k out hk p hp
      simp only [Agg.cycleStep, List.map_append, List.map_cons, List.map_nil] at hk ⊢
      by_cases hklt : k < C.2.length
      · rw [List.getElem?_append_left hklt] at hk
        have := ih.c k out hk p hp
        rw [List.getD_eq_getElem?_getD,
          List.getElem?_append_left (by rw [hlen, ← ih.clen]; exact hklt), ← List.getD_eq_getElem?_getD]
        exact this
      · rw [List.getElem?_append_right (Nat.le_of_not_lt hklt)] at hk
        have hk0 : k = C.2.length := by
          cases hkk : k - C.2.length with
          | zero => omega
          | succ n => rw [hkk] at hk; simp at hk
        subst hk0
        simp only [Nat.sub_self, List.getElem?_cons_zero, Option.some.injEq] at hk
        subst hk
        have hpt := Agg.points_collect (C.1.feed ms) .cumulative t p hp
        rw [Agg.start_feed] at hpt
        rcases ih.cStart with h | h
        · rw [h] at hpt; simp at hpt
        · rw [h] at hpt
          have h1 : p.start = start := by simpa using hpt.1
          rw [ih.clen, hgetT]
          exact ⟨h1, hpt.2, by rw [h1, hpt.2]; omega⟩

end Otel.C08
