/-
C08 — specification predicates over what a delta reader and a cumulative reader reported for ONE stream at
the same collection points.  A report is a list of (attribute id, vector) points; a vector is `[value]` for
sums and gauges and `count :: sum :: bucket counts` for histograms.  Missing points count as 0.
-/
namespace Otel.C08.Spec

abbrev Vec := List Int
abbrev Report := List (Nat × Vec)

def vadd : Vec → Vec → Vec
  | [], ys => ys
  | xs, [] => xs
  | x :: xs, y :: ys => (x + y) :: vadd xs ys

/-- equality up to trailing/missing zeros -/
def veq : Vec → Vec → Bool
  | [], ys => ys.all (· == 0)
  | xs, [] => xs.all (· == 0)
  | x :: xs, y :: ys => x == y && veq xs ys

def get (r : Report) (a : Nat) : Vec :=
  match r.find? (·.1 == a) with
  | some p => p.2
  | none => []

def has (r : Report) (a : Nat) : Bool := r.any (·.1 == a)

def attrs (rs : List Report) : List Nat := (rs.flatMap fun r => r.map (·.1)).eraseDups

/-- running total of the delta reports for attribute `a` -/
def runningTotal (deltas : List Report) (a : Nat) : Vec := deltas.foldl (fun acc r => vadd acc (get r a)) []

/-- `cum_k(a) = Σ_{j ≤ k} delta_j(a)` for every attribute set, at collection `k` (deltas = delta reports 0..k) -/
def twinAgreeAt (deltas : List Report) (cum : Report) : Bool :=
  (attrs (cum :: deltas)).all fun a => veq (get cum a) (runningTotal deltas a)

/-- … at every collection -/
def twinAgree (deltas cums : List Report) : Bool :=
  deltas.length == cums.length &&
  (List.range cums.length).all fun k =>
    match cums[k]? with
    | some c => twinAgreeAt (deltas.take (k + 1)) c
    | none => false

/-- a cycle reports exactly the attribute sets observed in it -/
def cycleExact (observed : List (Nat × Int)) (r : Report) : Bool :=
  r.all (fun p => observed.any (·.1 == p.1)) && observed.all (fun o => has r o.1) &&
  (r.map (·.1)).eraseDups.length == r.length

/-- value observed for `a` in a cycle: observations of one set ADD within a cycle -/
def observedSum (observed : List (Nat × Int)) (a : Nat) : Int :=
  (observed.filter (·.1 == a)).foldl (fun acc o => acc + o.2) 0

/-- last value observed / recorded for `a` -/
def lastOf (observed : List (Nat × Int)) (a : Nat) : Option Int :=
  ((observed.filter (·.1 == a)).getLast?).map (·.2)

/-- asynchronous sum, cumulative reader: exactly the observed sets with the observed value -/
def asyncCumOK (observed : List (Nat × Int)) (r : Report) : Bool :=
  cycleExact observed r && r.all fun p => veq p.2 [observedSum observed p.1]

/-- asynchronous sum, delta reader: observed value minus the value observed in the PRECEDING cycle
(0 if the set was not observed then) -/
def asyncDeltaOK (prevObserved observed : List (Nat × Int)) (r : Report) : Bool :=
  cycleExact observed r && r.all fun p =>
    veq p.2 [observedSum observed p.1 - (if prevObserved.any (·.1 == p.1) then observedSum prevObserved p.1 else 0)]

/-- a gauge reports, for exactly the sets seen in the cycle, the last value -/
def gaugeCycleOK (observed : List (Nat × Int)) (r : Report) : Bool :=
  cycleExact observed r && r.all fun p => (lastOf observed p.1).any fun v => veq p.2 [v]

/-- synchronous gauge read cumulatively: every set ever recorded, with the last value recorded -/
def gaugeCumOK (allRecorded : List (Nat × Int)) (r : Report) : Bool := gaugeCycleOK allRecorded r

/-! ### whole-history forms (one instrument, `n` collection cycles; `eff[k]` / `recd[k]` = what reached the
instrument in cycle `k`, `ds[k]` / `cs[k]` = what the delta / cumulative reader reported at collection `k`) -/

/-- asynchronous sum: every cycle reports exactly the observed sets; the cumulative reader the observed value, the
delta reader the observed value minus the value observed in the immediately preceding cycle -/
def asyncSumHistOK (eff : List (List (Nat × Int))) (ds cs : List Report) : Bool :=
  (List.range eff.length).all fun k =>
    asyncCumOK (eff.getD k []) (cs.getD k []) &&
    asyncDeltaOK (if k = 0 then [] else eff.getD (k - 1) []) (eff.getD k []) (ds.getD k [])

/-- asynchronous gauge: both readers report the last value observed in the cycle for exactly the observed sets -/
def asyncGaugeHistOK (eff : List (List (Nat × Int))) (ds cs : List Report) : Bool :=
  (List.range eff.length).all fun k =>
    gaugeCycleOK (eff.getD k []) (cs.getD k []) && gaugeCycleOK (eff.getD k []) (ds.getD k [])

/-- synchronous gauge: the delta reader reports the last value recorded in the cycle, the cumulative reader the
last value ever recorded for every set ever recorded -/
def syncGaugeHistOK (recd : List (List (Nat × Int))) (ds cs : List Report) : Bool :=
  (List.range recd.length).all fun k =>
    gaugeCycleOK (recd.getD k []) (ds.getD k []) && gaugeCumOK ((recd.take (k + 1)).flatten) (cs.getD k [])

/-- interval flags of one reported stream: `startCycle` = none for the creation window, some k' for the window of
collection k'; `timeCycle` likewise; `p`/`f` = some b when the comparison was possible -/
structure Interval where
  startCycle : Option (Option Nat)   -- none = outside every window
  timeCycle : Option (Option Nat)
  p : Option Bool
  f : Option Bool
  le : Bool
  uniform : Bool
deriving Repr, BEq

/-- delta: each interval starts where the previous collection ended (the first at creation), ends in this collection -/
def deltaIntervalOK (k : Nat) (i : Interval) : Bool :=
  i.le && i.uniform && i.timeCycle == some (some k) && i.p != some false &&
  i.startCycle == some (if k = 0 then none else some (k - 1))

/-- cumulative: one fixed start (creation), never after the point's time -/
def cumulativeIntervalOK (k : Nat) (i : Interval) : Bool :=
  i.le && i.uniform && i.timeCycle == some (some k) && i.f != some false && i.startCycle == some none

end Otel.C08.Spec
