/-
C08 — the whole oracle holds of the model's own records, for every history of operations.
-/
import Otel.C08.SysDecomp
import Otel.C08.HistTwin
import Otel.C08.HistAsync
namespace Otel.C08
open Otel.C02 Otel.C08.Spec

/-! ### from the model's records to what the oracle reads -/

def toOStream (delta : Bool) (s : MStream) : OStream :=
  { inst := s.inst, ty := renderDT s.dt delta, iv := s.iv, pts := toReport s.pts }

theorem modelORecs_eq (recs : List (Nat × Bool × List Stream)) :
    modelORecs recs = (flagRecs [] recs).map fun rc =>
      { cycle := rc.1, delta := rc.2.1, streams := rc.2.2.map (toOStream rc.2.1) } := rfl

theorem sortPts_ne_nil (pts : List (Pt PV)) (h : pts ≠ []) : sortPts pts ≠ [] := by
  intro he
  have := (sortPts_perm pts).length_eq
  rw [he] at this
  exact h (List.length_eq_zero_iff.mp this.symm)

theorem flagStreams_find (cycle : Nat) (delta : Bool) (prev : PrevMap) (streams : List Stream) (j : Nat)
    (hne : ∀ st ∈ streams, st.pts ≠ []) :
    (match ((flagStreams cycle delta prev streams).2.map (toOStream delta)).find? (·.inst == j) with
      | some s => s.pts
      | none => []) = toReport (sortPts (ptsOfStreams streams j)) := by
  induction streams generalizing prev with
  | nil => simp [flagStreams, ptsOfStreams, sortPts, sortByAttr, toReport]
  | cons st rest ih =>
    have hst := sortPts_ne_nil st.pts (hne st (List.mem_cons_self ..))
    have hrest : ∀ s ∈ rest, s.pts ≠ [] := fun s hs => hne s (List.mem_cons_of_mem _ hs)
    cases hh : (sortPts st.pts).head? with
    | none => exact (hst (List.head?_eq_none_iff.mp hh)).elim
    | some p0 =>
      simp only [flagStreams, hh, List.map_cons, List.find?_cons, toOStream, ptsOfStreams]
      by_cases hj : st.inst = j
      · simp [hj]
      · have hb : (st.inst == j) = false := by simpa using hj
        simp only [hb]
        exact ih _ hrest

theorem reportOf_flagRecs (prev : PrevMap) (recs : List (Nat × Bool × List Stream))
    (hne : ∀ r ∈ recs, ∀ st ∈ r.2.2, st.pts ≠ []) (k : Nat) (delta : Bool) (j : Nat) :
    reportOf ((flagRecs prev recs).map fun rc =>
        { cycle := rc.1, delta := rc.2.1, streams := rc.2.2.map (toOStream rc.2.1) }) k delta j =
      match recs.find? (fun r => r.1 == k && r.2.1 == delta) with
      | some r => toReport (sortPts (ptsOfStreams r.2.2 j))
      | none => [] := by
  induction recs generalizing prev with
  | nil => rfl
  | cons r rest ih =>
    obtain ⟨cycle, dl, streams⟩ := r
    have hrest : ∀ r ∈ rest, ∀ st ∈ r.2.2, st.pts ≠ [] := fun r hr => hne r (List.mem_cons_of_mem _ hr)
    simp only [flagRecs, List.map_cons, reportOf, List.find?_cons]
    by_cases hm : (cycle == k && dl == delta) = true
    · simp only [hm]
      exact flagStreams_find cycle dl prev streams j (hne _ (List.mem_cons_self ..))
    · have hm' : (cycle == k && dl == delta) = false := by simpa using hm
      simp only [hm']
      exact ih _ hrest

theorem flagRecs_length (prev : PrevMap) (recs : List (Nat × Bool × List Stream)) :
    (flagRecs prev recs).length = recs.length := by
  induction recs generalizing prev with
  | nil => rfl
  | cons r rest ih => obtain ⟨c, d, s⟩ := r; simp [flagRecs, ih]

/-! ### fresh aggregators -/

theorem mkAgg_fresh (ic : InstCfg) :
    match mkAgg ic with
    | .sum s => s.limit = 0 ∧ s.values = []
    | .psum s => s.limit = 0 ∧ s.values = [] ∧ s.reported = [] ∧ ic.kind.async = true
    | .lv s => s.limit = 0 ∧ s.values = [] ∧ ic.kind.async = false
    | .plv s => s.limit = 0 ∧ s.values = [] ∧ ic.kind.async = true
    | .hist h => h.limit = 0 ∧ h.values = []
    | .expo h => h.limit = 0 ∧ h.values = []
    | .off => True := by
  obtain ⟨f, k, sel, cb⟩ := ic
  cases k <;> cases sel <;> simp [mkAgg, effectiveSel, Kind.async]

theorem off_run (tp : Temporality) (hist : List Cycle) :
    (Agg.off.runCycles tp hist).1 = .off ∧ ∀ out ∈ (Agg.off.runCycles tp hist).2, out = none := by
  induction hist using snoc_induction with
  | hnil => exact ⟨rfl, by intro o h; cases h⟩
  | hsnoc l c ih =>
    rw [Agg.runCycles_snoc]
    have hf : ∀ ms : List (Attr × Int), Agg.off.feed ms = .off := by
      intro ms; induction ms with
      | nil => rfl
      | cons m ms ihm => rw [Agg.feed_cons]; exact ihm
    simp only [Agg.cycleStep, ih.1, hf]
    refine ⟨rfl, ?_⟩
    intro out ho
    rcases List.mem_append.mp ho with ho | ho
    · exact ih.2 out ho
    · simp only [List.mem_singleton] at ho; rw [ho]; rfl

theorem effObs_sync (is : List InstCfg) (c : CycleIn)
    (hc : ∀ cb ∈ c.callbacks, ∀ j ∈ cb, ∃ ic, is[j]? = some ic ∧ ic.kind.async = true)
    (j : Nat) (ic : InstCfg) (hj : is[j]? = some ic) (hs : ic.kind.async = false) : effObs c j = [] := by
  unfold effObs
  rw [List.flatMap_eq_nil_iff]
  intro cb hcb
  have : ¬ (cb.contains j = true) := by
    intro hcj
    obtain ⟨ic', h1, h2⟩ := hc cb hcb j (by simpa using hcj)
    rw [hj] at h1; cases h1; rw [hs] at h2; cases h2
  rw [if_neg this]

/-! ### the theorem -/

theorem oracle_model (is : List InstCfg) (slots : List (List Nat)) (ops : List Op) :
    oracle is slots ops (modelORecs (Sys.run is slots ops).recs) = true := by
  have inv := sysInv_run is slots ops
  have tinv := timeInv_run is slots ops
  have hsys : (ops.foldl cycleStep (Sys.init is slots, [], [])).1 = Sys.run is slots ops := cycleFold_sys ops _
  generalize hacc : ops.foldl cycleStep (Sys.init is slots, [], []) = acc at inv hsys
  have hcyc : cycleInputs is slots ops = acc.2.2 := by unfold cycleInputs; rw [hacc]
  generalize hS : Sys.run is slots ops = S at tinv hsys
  have hne : ∀ r ∈ S.recs, ∀ st ∈ r.2.2, st.pts ≠ [] := fun r hr st hst => (tinv.recs r hr st hst).1
  -- what the oracle reads for instrument `j` at cycle `k` is what the local run returned
  have hrep : ∀ j ic, is[j]? = some ic → ∀ delta : Bool,
      ((List.range acc.2.2.length).map fun k => reportOf (modelORecs S.recs) k delta j) =
        ((mkAgg ic).runCycles (tpOf delta) (localHist ic j acc.2.2 0)).2.map repOf := by
    intro j ic hj delta
    apply List.ext_getElem?
    intro k
    by_cases hk : k < acc.2.2.length
    · obtain ⟨r, hr1, hr2⟩ := inv.recs k hk delta
      obtain ⟨out, ho1, ho2⟩ := hr2 j ic hj
      rw [hsys] at hr1
      rw [List.getElem?_map, List.getElem?_range hk, List.getElem?_map, ho1, modelORecs_eq]
      simp only [Option.map_some]
      rw [reportOf_flagRecs [] S.recs hne k delta j, hr1]
      simp only [ho2]; rfl
    · have hk' : acc.2.2.length ≤ k := Nat.le_of_not_lt hk
      rw [List.getElem?_eq_none (by simp [hk']),
        List.getElem?_eq_none (by rw [List.length_map, Agg.runCycles_length, localHist_length]; exact hk')]
  unfold oracle
  simp only [hcyc, Bool.and_eq_true, beq_iff_eq, List.all_eq_true, List.mem_range]
  refine ⟨⟨intervalsOK_of_stamps S.recs tinv.recs, ?_⟩, ?_⟩
  · rw [modelORecs_eq, List.length_map, flagRecs_length, ← hsys]; exact inv.recLen
  · intro j hj
    have hic : is[j]? = some is[j] := List.getElem?_eq_getElem hj
    generalize is[j] = ic at hic
    simp only [hic]
    rw [hrep j ic hic true, hrep j ic hic false]
    have hbatch := localHist_map_fst ic j acc.2.2 0
    have hfresh := mkAgg_fresh ic
    simp only [tpOf, if_true, Bool.false_eq_true, if_false]
    generalize hlh : localHist ic j acc.2.2 0 = lh at hbatch
    cases hg : mkAgg ic with
    | sum s =>
      rw [hg] at hfresh
      simp only [instOK]
      exact twinAgree_runCycles (.sum s) hfresh.1 (by simp [Agg.keys, hfresh.2, AMap.keys])
        (by intro a; simp [Agg.hv, Agg.held, hfresh.2, AMap.get?]) lh
    | hist h =>
      rw [hg] at hfresh
      simp only [instOK]
      have hw : HistWF h := by intro kv hkv; rw [hfresh.2] at hkv; cases hkv
      exact twinAgree_runCycles (.hist h) ⟨hfresh.1, hw⟩ (by simp [Agg.keys, hfresh.2, AMap.keys])
        (by intro a; simp [Agg.hv, Agg.held, hfresh.2, AMap.get?]) lh
    | expo h =>
      rw [hg] at hfresh
      simp only [instOK]
      have hw : HistWF h := by intro kv hkv; rw [hfresh.2] at hkv; cases hkv
      exact twinAgree_runCycles (.expo h) ⟨hfresh.1, hw⟩ (by simp [Agg.keys, hfresh.2, AMap.keys])
        (by intro a; simp [Agg.hv, Agg.held, hfresh.2, AMap.get?]) lh
    | psum s =>
      rw [hg] at hfresh
      obtain ⟨h1, h2, h3, h4⟩ := hfresh
      simp only [instOK]
      have heff : (acc.2.2.map fun c => effObs c j) = lh.map (·.1) := by
        rw [hbatch]; apply List.map_congr_left; intro c _
        simp [batchOf, pendOf_async ic j _ h4]
      rw [heff]
      exact asyncSumHistOK_runCycles s h1 h2 h3 lh
    | plv s =>
      rw [hg] at hfresh
      obtain ⟨h1, h2, h4⟩ := hfresh
      simp only [instOK]
      have heff : (acc.2.2.map fun c => effObs c j) = lh.map (·.1) := by
        rw [hbatch]; apply List.map_congr_left; intro c _
        simp [batchOf, pendOf_async ic j _ h4]
      rw [heff]
      exact asyncGaugeHistOK_runCycles s h1 h2 lh
    | lv s =>
      rw [hg] at hfresh
      obtain ⟨h1, h2, h4⟩ := hfresh
      simp only [instOK]
      have hrecd : (acc.2.2.map fun c => (c.recorded.filter (·.1 == j)).map (·.2)) = lh.map (·.1) := by
        rw [hbatch]; apply List.map_congr_left; intro c hc
        simp [batchOf, pendOf, h4, effObs_sync is c (inv.cbs c hc) j ic hic h4]
      rw [hrecd]
      exact syncGaugeHistOK_runCycles s h1 h2 lh
    | off =>
      simp only [instOK, Bool.and_eq_true, List.all_eq_true, List.mem_map]
      constructor
      · rintro r ⟨out, ho, rfl⟩
        rw [(off_run .delta lh).2 out ho]; rfl
      · rintro r ⟨out, ho, rfl⟩
        rw [(off_run .cumulative lh).2 out ho]; rfl

end Otel.C08
