/-
C08 — a third ("bystander") reader with its OWN aggregation selector (core Lean only).

`meter.int64ObservableInstrument` / `float64ObservableInstrument` (meter.go:129-168) and `resolver.Aggregators`
(pipeline.go:637-649) walk the pipelines of ALL readers of the provider: for each reader the instrument gets the aggregate
function that reader's `AggregationSelector` (or a view) chooses — none when the reader selects `AggregationDrop`
(`len(in) == 0`: `continue`).  `observer.ObserveInt64/Float64` (meter.go:567-626) records into the measures of the
observer's OWN pipeline, for every instrument the callback was registered with; `RegisterCallback` (meter.go:480-545)
accepts an instrument as soon as ANY pipeline has an aggregate function for it.  So what one reader's selector drops
concerns that reader only.

The twin model `Sys` has the delta and the cumulative reader (both with the default selector).  `BSys` adds a third reader
whose selector drops — or, after the F48 fix of /repo (9bc3ba8: the observable-instrument constructors join a pipeline's error
and go on, as `resolver.Aggregators` does), REJECTS with an incompatible aggregation — the instrument kinds in `drop` (either
way that pipeline gets no aggregate function; a view-selected aggregation overrides the reader's choice,
`cachedAggregator`, pipeline.go:350-365) and which is collected in every cycle; its reports are discarded.
-/
import Otel.C08.Model
namespace Otel.C08
open Otel.C02

/-- the aggregate function the bystander reader gets for an instrument -/
def mkAggB (drop : List Kind) (i : InstCfg) : Agg :=
  if i.sel == .dflt && drop.contains i.kind then .off else mkAgg i

structure BSys where
  sys : Sys
  /-- aggregate functions of the bystander reader's pipeline, one per instrument -/
  b : List Agg
deriving Repr

def BSys.init (is : List InstCfg) (slots : List (List Nat)) (drop : List Kind) : BSys :=
  { sys := Sys.init is slots, b := is.map (mkAggB drop) }

/-- is instrument `j` accepted by `RegisterCallback`?  `registerable`: some pipeline has an aggregate function -/
def BSys.registerable (x : BSys) (j : Nat) : Bool :=
  let live := fun (aggs : List Agg) => match aggs[j]? with | some .off => false | some _ => true | none => false
  live x.sys.d || live x.sys.c || live x.b

def BSys.step (x : BSys) : Op → BSys
  | .record j a v =>
    match x.sys.insts[j]? with
    | some i =>
      if i.kind.async then { x with sys := x.sys.step (.record j a v) }
      else { sys := x.sys.step (.record j a v), b := x.b.modify j fun g => g.measure a v }
    | none => { x with sys := x.sys.step (.record j a v) }
  | .col =>
    -- the bystander's own collection: its callbacks replay the cycle's observations into ITS aggregate functions,
    -- then its compute functions run; the report goes nowhere
    let b := x.sys.callbacks.foldl (fun aggs cb => replay cb x.sys.cur aggs) x.b
    { sys := x.sys.step .col, b := (collectAll .cumulative (x.sys.cycle + 1) b 0).1 }
  | op => { x with sys := x.sys.step op }

def BSys.run (is : List InstCfg) (slots : List (List Nat)) (drop : List Kind) (ops : List Op) : BSys :=
  ops.foldl BSys.step (BSys.init is slots drop)

end Otel.C08
