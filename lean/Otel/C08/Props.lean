/-
C08 — property theorems. A *twin run* feeds the same step sequence to a delta and to a cumulative instance of the
same aggregator (no cardinality limit: with a limit the two instances may redirect different sets to the
overflow set, because only the delta instance forgets its sets at every collection).
-/
import Otel.C08.Lemmas
import Otel.C02.Props
namespace Otel.C08
open Otel.C02 Otel.C02.Spec

/-- Clause "every cumulative value (sum …) equals the running total of the delta values reported so far for that
attribute set": at every collection point of every step sequence, for every attribute set
`cum_k(a) = Σ_{j ≤ k} delta_j(a)` (absent points count as 0). -/
theorem twin_sum (mono : Bool) (start : Nat) (steps : List Step) (t : Nat) (a : Attr) :
    let d := (St.fresh .delta 0 mono start).run (steps ++ [.collect t])
    let c := (St.fresh .cumulative 0 mono start).run (steps ++ [.collect t])
    ∃ r, c.reportsPairs.getLast? = some r ∧ total r a = totalAll d.reportsPairs a := by
  intro d c
  have hd := sum_delta_conservation_at_collect 0 mono start steps t a
  have hc := sum_cumulative_total 0 mono start steps t a
  have hmd : d.measured = measureLog steps := by
    have := sum_log_faithful .delta mono start (steps ++ [.collect t])
    simpa [d, measureLog, List.filterMap_append] using this
  have hmc := sum_log_faithful .cumulative mono start steps
  refine ⟨cells ((St.fresh .cumulative 0 mono start).run steps).agg.values, ?_, ?_⟩
  · show ((St.fresh .cumulative 0 mono start).run (steps ++ [.collect t])).reportsPairs.getLast? = _
    rw [C02.run_append]; exact hc.1
  · have h1 := hc.2.1
    simp only [cumulativeTotal, beq_iff_eq, St.measuredPairs, hmc] at h1
    simp only [deltaBalance, beq_iff_eq, St.measuredPairs] at hd
    have h2 : totalAll d.reportsPairs a + 0 = total (d.measured.map fun m => (m.1, m.2.1)) a := hd
    rw [hmd] at h2
    omega

/-- Clause "… (histogram count, sum …)": the same equation for the explicit-bucket histogram's count and sum (the
sum is 0 on both sides for instruments that do not collect it), for the real `Hist.measure/delta/cumulative`. -/
theorem twin_hist_count_sum (h : Hist) (hl : h.limit = 0) (hv : h.values = []) (steps : List Step) (t : Nat) (a : Attr) :
    let d := Hist.runG .delta (h, []) (steps ++ [.collect t])
    let c := Hist.runG .cumulative (h, []) (steps ++ [.collect t])
    ∃ r, c.2.getLast? = some r ∧
      projTotal (fun v => (v.count : Int)) r a = repTotal (fun v => (v.count : Int)) d.2 a ∧
      projTotal (fun v => v.total) r a = repTotal (fun v => v.total) d.2 a := by
  intro d c
  have e1 : (Temporality.delta == Temporality.delta) = true := by decide
  have e2 : (Temporality.cumulative == Temporality.delta) = false := by decide
  have hd := (hist_refines .delta h.bounds h.noSum (steps ++ [.collect t]) (h, []) hl rfl rfl).2
  have hc := (hist_refines .cumulative h.bounds h.noSum (steps ++ [.collect t]) (h, []) hl rfl rfl).2
  simp only [hv, e1, e2] at hd hc
  obtain ⟨r, hr, hcount⟩ := G.twin (fun _ => True) (histCellF h.bounds h.noSum) (fun v => (v.count : Int)) (fun _ => 1)
    (hist_count_additive h.bounds h.noSum) steps t a
  obtain ⟨r', hr', htotal⟩ := G.twin (fun _ => True) (histCellF h.bounds h.noSum) (fun v => v.total) (fun x => if h.noSum then 0 else x)
    (hist_total_additive h.bounds h.noSum) steps t a
  have : r' = r := by rw [hr] at hr'; exact (Option.some.inj hr').symm
  subst this
  refine ⟨r', ?_, ?_, ?_⟩
  · show (Hist.runG .cumulative (h, []) (steps ++ [.collect t])).2.getLast? = _
    rw [hc]; exact hr
  · show _ = repTotal _ (Hist.runG .delta (h, []) (steps ++ [.collect t])).2 a
    rw [hd]; exact hcount
  · show _ = repTotal _ (Hist.runG .delta (h, []) (steps ++ [.collect t])).2 a
    rw [hd]; exact htotal

/-- Well-formedness invariant of the real histogram functions `Hist.measure/delta/cumulative` (any cardinality
limit, either temporality): along every step sequence every cell held, and every cell ever reported, has a bucket
vector with exactly `bounds.length + 1` entries. -/
theorem hist_cells_wellformed (tp : Temporality) (steps : List Step) (s : Hist × List (AMap HistVal))
    (hw : HistWF s.1) (hr : ∀ r ∈ s.2, ∀ kv ∈ r, kv.2.counts.length = s.1.bounds.length + 1) :
    let s' := Hist.runG tp s steps
    s'.1.bounds = s.1.bounds ∧ HistWF s'.1 ∧ ∀ r ∈ s'.2, ∀ kv ∈ r, kv.2.counts.length = s.1.bounds.length + 1 := by
  induction steps generalizing s with
  | nil => exact ⟨rfl, hw, hr⟩
  | cons x l ih =>
    have hb : (Hist.stepG tp s x).1.bounds = s.1.bounds := by
      cases x with
      | measure a v id => rfl
      | collect t => cases tp <;> rfl
    have hw' : HistWF (Hist.stepG tp s x).1 := by
      cases x with
      | measure a v id => exact Hist.wf_measure s.1 hw a v
      | collect t => exact Hist.wf_collect s.1 hw tp t
    have hr' : ∀ r ∈ (Hist.stepG tp s x).2, ∀ kv ∈ r, kv.2.counts.length = (Hist.stepG tp s x).1.bounds.length + 1 := by
      rw [hb]
      cases x with
      | measure a v id => exact hr
      | collect t =>
        intro r hr1 kv hkv
        simp only [Hist.stepG, List.mem_append, List.mem_singleton] at hr1
        rcases hr1 with hr1 | rfl
        · exact hr r hr1 kv hkv
        · simp only [List.mem_map] at hkv
          obtain ⟨p, hp, rfl⟩ := hkv
          exact Hist.wf_points s.1 hw tp t p hp
    have := ih (Hist.stepG tp s x) hw' hr'
    simp only [hb] at this
    exact this

/-- Clause "… (histogram … per-bucket counts)": at every collection point the cumulative histogram's count of
every bucket `i` equals the running total of the delta reader's counts of that bucket, for every attribute set — for
the real `Hist.measure/delta/cumulative`.  Rests on `hist_cells_wellformed` (bucket `i` is additive only on cells
whose bucket vector is complete). -/
theorem twin_hist_buckets (h : Hist) (hl : h.limit = 0) (hv : h.values = []) (steps : List Step) (t : Nat) (a : Attr)
    (i : Nat) :
    ∃ r, (Hist.runG .cumulative (h, []) (steps ++ [.collect t])).2.getLast? = some r ∧
      projTotal (fun v => ((v.counts[i]?.getD 0 : Nat) : Int)) r a =
        repTotal (fun v => ((v.counts[i]?.getD 0 : Nat) : Int)) (Hist.runG .delta (h, []) (steps ++ [.collect t])).2 a := by
  have e1 : (Temporality.delta == Temporality.delta) = true := by decide
  have e2 : (Temporality.cumulative == Temporality.delta) = false := by decide
  have hd := (hist_refines .delta h.bounds h.noSum (steps ++ [.collect t]) (h, []) hl rfl rfl).2
  have hc := (hist_refines .cumulative h.bounds h.noSum (steps ++ [.collect t]) (h, []) hl rfl rfl).2
  simp only [hv, e1, e2] at hd hc
  obtain ⟨r, hr, hb⟩ := G.twin _ (histCellF h.bounds h.noSum) _ _ (hist_bucket_additive h.bounds h.noSum i) steps t a
  exact ⟨r, by rw [hc]; exact hr, by rw [hd]; exact hb⟩

/-- Clause "delta points cover adjacent non-overlapping intervals (each starts where the previous collection
ended)": for every aggregator, a delta collection at `t` stamps all its points with [previous start, t] and moves
the start to `t` — so the next interval starts exactly where this one ended (the first starts at creation). -/
theorem delta_intervals_adjacent (t : Nat) :
    (∀ s : Sum, (s.delta t).1.start = t ∧ ∀ p ∈ (s.delta t).2, p.start = s.start ∧ p.time = t) ∧
    (∀ s : PSum, (s.delta t).1.start = t ∧ ∀ p ∈ (s.delta t).2, p.start = s.start ∧ p.time = t) ∧
    (∀ s : LastValue, (s.delta t).1.start = t ∧ ∀ p ∈ (s.delta t).2, p.start = s.start ∧ p.time = t) ∧
    (∀ s : LastValue, (s.pdelta t).1.start = t ∧ ∀ p ∈ (s.pdelta t).2, p.start = s.start ∧ p.time = t) ∧
    (∀ s : Hist, (s.delta t).1.start = t ∧ ∀ p ∈ (s.delta t).2, p.start = s.start ∧ p.time = t) := by
  refine ⟨?_, ?_, ?_, ?_, ?_⟩ <;> intro s <;> refine ⟨rfl, ?_⟩ <;> intro p hp <;>
    simp only [Sum.delta, PSum.delta, LastValue.delta, LastValue.pdelta, Hist.delta, mkPoints, List.mem_map] at hp <;>
    obtain ⟨kv, _, rfl⟩ := hp <;> exact ⟨rfl, rfl⟩

/-- Clause "cumulative points keep one fixed start": no cumulative collection of any aggregator moves the start,
and all its points carry it. -/
theorem cumulative_start_fixed (t : Nat) :
    (∀ s : Sum, (s.cumulative t).1.start = s.start ∧ ∀ p ∈ (s.cumulative t).2, p.start = s.start ∧ p.time = t) ∧
    (∀ s : PSum, (s.cumulative t).1.start = s.start ∧ ∀ p ∈ (s.cumulative t).2, p.start = s.start ∧ p.time = t) ∧
    (∀ s : LastValue, (s.cumulative t).1.start = s.start ∧ ∀ p ∈ (s.cumulative t).2, p.start = s.start ∧ p.time = t) ∧
    (∀ s : LastValue, (s.pcumulative t).1.start = s.start ∧ ∀ p ∈ (s.pcumulative t).2, p.start = s.start ∧ p.time = t) ∧
    (∀ s : Hist, (s.cumulative t).1.start = s.start ∧ ∀ p ∈ (s.cumulative t).2, p.start = s.start ∧ p.time = t) := by
  refine ⟨?_, ?_, ?_, ?_, ?_⟩ <;> intro s <;> refine ⟨rfl, ?_⟩ <;> intro p hp <;>
    simp only [Sum.cumulative, PSum.cumulative, LastValue.cumulative, LastValue.pcumulative, Hist.cumulative, mkPoints,
      List.mem_map] at hp <;>
    obtain ⟨kv, _, rfl⟩ := hp <;> exact ⟨rfl, rfl⟩

/-- Clause "start never exceeds the point's time", as an inductive invariant: if the clock reading `t` of a collection
is not before the aggregator's current start, then every point reported has start ≤ time and the start kept for the
next collection is again ≤ `t` (hence ≤ every later reading of a clock that does not run backwards) — for every
aggregator and both temporalities. -/
theorem start_le_time (t : Nat) :
    (∀ s : Sum, s.start ≤ t → (∀ p ∈ (s.delta t).2 ++ (s.cumulative t).2, p.start ≤ p.time) ∧
      (s.delta t).1.start ≤ t ∧ (s.cumulative t).1.start ≤ t) ∧
    (∀ s : PSum, s.start ≤ t → (∀ p ∈ (s.delta t).2 ++ (s.cumulative t).2, p.start ≤ p.time) ∧
      (s.delta t).1.start ≤ t ∧ (s.cumulative t).1.start ≤ t) ∧
    (∀ s : LastValue, s.start ≤ t →
      (∀ p ∈ (s.delta t).2 ++ (s.cumulative t).2 ++ (s.pdelta t).2 ++ (s.pcumulative t).2, p.start ≤ p.time) ∧
      (s.delta t).1.start ≤ t ∧ (s.cumulative t).1.start ≤ t ∧ (s.pdelta t).1.start ≤ t ∧ (s.pcumulative t).1.start ≤ t) ∧
    (∀ s : Hist, s.start ≤ t → (∀ p ∈ (s.delta t).2 ++ (s.cumulative t).2, p.start ≤ p.time) ∧
      (s.delta t).1.start ≤ t ∧ (s.cumulative t).1.start ≤ t) := by
  obtain ⟨d1, d2, d3, d4, d5⟩ := delta_intervals_adjacent t
  obtain ⟨c1, c2, c3, c4, c5⟩ := cumulative_start_fixed t
  refine ⟨?_, ?_, ?_, ?_⟩
  · intro s h
    refine ⟨?_, by rw [(d1 s).1]; exact Nat.le_refl _, by rw [(c1 s).1]; exact h⟩
    intro p hp
    rcases List.mem_append.mp hp with hp | hp
    · have := (d1 s).2 p hp; omega
    · have := (c1 s).2 p hp; omega
  · intro s h
    refine ⟨?_, by rw [(d2 s).1]; exact Nat.le_refl _, by rw [(c2 s).1]; exact h⟩
    intro p hp
    rcases List.mem_append.mp hp with hp | hp
    · have := (d2 s).2 p hp; omega
    · have := (c2 s).2 p hp; omega
  · intro s h
    refine ⟨?_, by rw [(d3 s).1]; exact Nat.le_refl _, by rw [(c3 s).1]; exact h,
      by rw [(d4 s).1]; exact Nat.le_refl _, by rw [(c4 s).1]; exact h⟩
    intro p hp
    simp only [List.mem_append] at hp
    rcases hp with ((hp | hp) | hp) | hp
    · have := (d3 s).2 p hp; omega
    · have := (c3 s).2 p hp; omega
    · have := (d4 s).2 p hp; omega
    · have := (c4 s).2 p hp; omega
  · intro s h
    refine ⟨?_, by rw [(d5 s).1]; exact Nat.le_refl _, by rw [(c5 s).1]; exact h⟩
    intro p hp
    rcases List.mem_append.mp hp with hp | hp
    · have := (d5 s).2 p hp; omega
    · have := (c5 s).2 p hp; omega

/-- Clause "for asynchronous instruments each cycle reports exactly the attribute sets observed by that cycle's
callbacks": both collections of a precomputed sum report one point per set held and forget everything; and the sets
held after a cycle's observations (starting from the forgotten state) are exactly the observed ones. -/
theorem async_cycle_exact (s : PSum) (hl : s.limit = 0) (hv : s.values = []) (obs : List (Attr × Int)) (t : Nat) (a : Attr) :
    let s' := observeAll s obs
    ((s'.delta t).2.map (·.attr) = s'.values.keys ∧ (s'.delta t).1.values = []) ∧
    ((s'.cumulative t).2.map (·.attr) = s'.values.keys ∧ (s'.cumulative t).1.values = []) ∧
    (a ∈ s'.values.keys ↔ a ∈ obs.map (·.1)) := by
  intro s'
  refine ⟨⟨by simp [PSum.delta, mkPoints, AMap.keys], rfl⟩, ⟨by simp [PSum.cumulative, mkPoints, AMap.keys], rfl⟩, ?_⟩
  have := keys_observeAll s hl obs a
  simpa [hv, AMap.keys] using this

/-- Clause "the delta being the observed value minus the value observed in the preceding cycle (zero if it was not
observed then)": a delta point is `value − reported[set]`, and after a delta collection `reported` holds exactly the
sets of THAT cycle with their values — a set absent from the preceding cycle is looked up as 0, even if it had been
reported two cycles ago. -/
theorem async_delta_is_difference (s : PSum) (t : Nat) :
    (∀ p ∈ (s.delta t).2, ∃ v, (p.attr, v) ∈ s.values ∧ p.val = v.n - (s.reported.get? p.attr).getD 0) ∧
    (∀ a, (s.delta t).1.reported.get? a = (s.values.get? a).map (·.n)) ∧
    (∀ t', (s.cumulative t').1.reported = s.reported) := by
  refine ⟨?_, ?_, ?_⟩
  · intro p hp
    simp only [PSum.delta, mkPoints, List.mem_map] at hp
    obtain ⟨kv, hkv, rfl⟩ := hp
    exact ⟨kv.2, hkv, rfl⟩
  · intro a
    simp only [PSum.delta]
    exact get?_map s.values (·.n) a
  · intros; rfl

/-- Clause "a gauge reports the last value recorded in the cycle": a measurement overwrites the cell of its set and
no other; delta collections (and both collections of the asynchronous gauge) report the cells and forget them, the
synchronous cumulative collection reports and keeps them. -/
theorem gauge_last_value (s : LastValue) (hl : s.limit = 0) (a b : Attr) (x : Int) (t : Nat) :
    (s.measure a x).values.get? b = (if a = b then some x else s.values.get? b) ∧
    ((s.delta t).2.map (fun p => (p.attr, p.val)) = s.values ∧ (s.delta t).1.values = []) ∧
    ((s.pdelta t).2.map (fun p => (p.attr, p.val)) = s.values ∧ (s.pdelta t).1.values = []) ∧
    ((s.pcumulative t).2.map (fun p => (p.attr, p.val)) = s.values ∧ (s.pcumulative t).1.values = []) ∧
    ((s.cumulative t).2.map (fun p => (p.attr, p.val)) = s.values ∧ (s.cumulative t).1.values = s.values) := by
  refine ⟨?_, ⟨?_, rfl⟩, ⟨?_, rfl⟩, ⟨?_, rfl⟩, ⟨?_, rfl⟩⟩
  · simp only [LastValue.measure, hl, limitAttr_zero]
    rw [get?_upd]
  all_goals simp only [LastValue.delta, LastValue.pdelta, LastValue.pcumulative, LastValue.cumulative]; exact mkPoints_cells _ _ _

/-- Clause "callbacks … observer routes to registered instruments only": a callback that is not registered for
instrument `j` leaves `j`'s aggregator untouched whatever it tries to observe. -/
theorem unregistered_not_observed (cb : List Nat) (cur : List (Nat × Attr × Int)) (aggs : List Agg) (j : Nat)
    (hj : cb.contains j = false) : (replay cb cur aggs)[j]? = aggs[j]? :=
  replay_other cb cur aggs j hj

/-- non-vacuity: sets appearing and disappearing across three asynchronous cycles (the "seen two cycles ago" case:
set 1 is observed in cycles 1 and 3 only — its third-cycle delta is the full value 9, not 9 − 5) -/
example :
    let c1 := (observeAll {} [(1, 5), (2, 7), (1, 0)]).delta 1
    let c2 := (observeAll c1.1 [(2, 10)]).delta 2
    let c3 := (observeAll c2.1 [(1, 9), (2, 10)]).delta 3
    c1.2.map (fun p => (p.attr, p.val, p.start, p.time)) = [(1, 5, 0, 1), (2, 7, 0, 1)] ∧
    c2.2.map (fun p => (p.attr, p.val, p.start, p.time)) = [(2, 3, 1, 2)] ∧
    c3.2.map (fun p => (p.attr, p.val, p.start, p.time)) = [(1, 9, 2, 3), (2, 0, 2, 3)] := by
  decide

/-- non-vacuity of the twin theorems: a histogram twin over two cycles -/
example :
    let steps := [Step.measure 1 5 0, .measure 1 50 1, .collect 1, .measure 1 (-3) 2, .measure 2 7 3]
    let d := Hist.runG .delta (({ bounds := [0, 10] } : Hist), []) (steps ++ [.collect 2])
    let c := Hist.runG .cumulative (({ bounds := [0, 10] } : Hist), []) (steps ++ [.collect 2])
    (d.2.map fun r => r.map fun kv => (kv.1, kv.2.counts)) = [[(1, [0, 1, 1])], [(1, [1, 0, 0]), (2, [0, 1, 0])]] ∧
    repTotal (fun v => v.total) d.2 1 = 52 ∧
    (c.2.getLast?.map fun r => r.map fun kv => (kv.1, kv.2.counts)) = some [(1, [1, 1, 1]), (2, [0, 1, 0])] := by
  decide

end Otel.C08
