/-
C08 — property theorems.

Three layers, all about the SAME executable functions the driver replays (Otel.C02.Model aggregators, Otel.C08.Model
twin-reader system, Otel.C08.Oracle oracle):

1. step-sequence theorems about one aggregator (`twin_sum`, `twin_hist_count_sum`, `twin_hist_buckets`,
   `hist_cells_wellformed`) and ONE-STEP characterisations of every collection function (`delta_intervals_adjacent`,
   `cumulative_start_fixed`, `start_le_time`, `async_cycle_exact`, `async_delta_is_difference`, `gauge_last_value`,
   `unregistered_not_observed`);
2. HISTORY-LEVEL theorems about one instrument (`*_history`): for every history (list of cycles, each with the
   measurements that reach the aggregator and a clock reading) the Spec predicate the oracle uses is true of the model's
   own reports;
3. HISTORY-LEVEL theorems about the whole system (`intervals_history`, `twin_all_clauses`): for every history of
   operations, the oracle — the very `Bool` function the driver evaluates on the implementation's records — is true of
   the model's own records.

A *twin run* feeds the same measurements to a delta and to a cumulative instance of the same aggregator (no
cardinality limit: with a limit the two instances may redirect different sets to the overflow set, because only the
delta instance forgets its sets at every collection; `mkAgg` never sets one).
-/
import Otel.C08.Lemmas
import Otel.C08.HistTwin
import Otel.C08.HistAsync
import Otel.C08.HistInterval
import Otel.C08.SysOracle
import Otel.C08.CbErr
import Otel.C08.SelfConsistent
import Otel.C02.Props
namespace Otel.C08
open Otel.C02 Otel.C02.Spec

/-- Clause "every cumulative value (sum …) equals the running total of the delta values reported so far for that
attribute set": at every collection point of every step sequence, for every attribute set
`cum_k(a) = Σ_{j ≤ k} delta_j(a)` (absent points count as 0). -/
theorem twin_sum (mono : Bool) (start : Nat) (steps : List Step) (t : Nat) (a : Attr) :
    let d := (St.fresh .delta 0 mono start).run (steps ++ [.collect t])
    let c := (St.fresh .cumulative 0 mono start).run (steps ++ [.collect t])
    ∃ r, c.reportsPairs.getLast? = some r ∧ total r a = totalAll d.reportsPairs a := by
  intro d c
  have hd := sum_delta_conservation_at_collect 0 mono start steps t a
  have hc := sum_cumulative_total 0 mono start steps t a
  have hmd : d.measured = measureLog steps := by
    have := sum_log_faithful .delta mono start (steps ++ [.collect t])
    simpa [d, measureLog, List.filterMap_append] using this
  have hmc := sum_log_faithful .cumulative mono start steps
  refine ⟨cells ((St.fresh .cumulative 0 mono start).run steps).agg.values, ?_, ?_⟩
  · show ((St.fresh .cumulative 0 mono start).run (steps ++ [.collect t])).reportsPairs.getLast? = _
    rw [C02.run_append]; exact hc.1
  · have h1 := hc.2.1
    simp only [cumulativeTotal, beq_iff_eq, St.measuredPairs, hmc] at h1
    simp only [deltaBalance, beq_iff_eq, St.measuredPairs] at hd
    have h2 : totalAll d.reportsPairs a + 0 = total (d.measured.map fun m => (m.1, m.2.1)) a := hd
    rw [hmd] at h2
    omega

/-- Clause "… (histogram count, sum …)": the same equation for the explicit-bucket histogram's count and sum (the
sum is 0 on both sides for instruments that do not collect it), for the real `Hist.measure/delta/cumulative`. -/
theorem twin_hist_count_sum (h : Hist) (hl : h.limit = 0) (hv : h.values = []) (steps : List Step) (t : Nat) (a : Attr) :
    let d := Hist.runG .delta (h, []) (steps ++ [.collect t])
    let c := Hist.runG .cumulative (h, []) (steps ++ [.collect t])
    ∃ r, c.2.getLast? = some r ∧
      projTotal (fun v => (v.count : Int)) r a = repTotal (fun v => (v.count : Int)) d.2 a ∧
      projTotal (fun v => v.total) r a = repTotal (fun v => v.total) d.2 a := by
  intro d c
  have e1 : (Temporality.delta == Temporality.delta) = true := by decide
  have e2 : (Temporality.cumulative == Temporality.delta) = false := by decide
  have hd := (hist_refines .delta h.bounds h.noSum (steps ++ [.collect t]) (h, []) hl rfl rfl).2
  have hc := (hist_refines .cumulative h.bounds h.noSum (steps ++ [.collect t]) (h, []) hl rfl rfl).2
  simp only [hv, e1, e2] at hd hc
  obtain ⟨r, hr, hcount⟩ := G.twin (fun _ => True) (histCellF h.bounds h.noSum) (fun v => (v.count : Int)) (fun _ => 1)
    (hist_count_additive h.bounds h.noSum) steps t a
  obtain ⟨r', hr', htotal⟩ := G.twin (fun _ => True) (histCellF h.bounds h.noSum) (fun v => v.total) (fun x => if h.noSum then 0 else x)
    (hist_total_additive h.bounds h.noSum) steps t a
  have : r' = r := by rw [hr] at hr'; exact (Option.some.inj hr').symm
  subst this
  refine ⟨r', ?_, ?_, ?_⟩
  · show (Hist.runG .cumulative (h, []) (steps ++ [.collect t])).2.getLast? = _
    rw [hc]; exact hr
  · show _ = repTotal _ (Hist.runG .delta (h, []) (steps ++ [.collect t])).2 a
    rw [hd]; exact hcount
  · show _ = repTotal _ (Hist.runG .delta (h, []) (steps ++ [.collect t])).2 a
    rw [hd]; exact htotal

/-- Well-formedness invariant of the real histogram functions `Hist.measure/delta/cumulative` (any cardinality
limit, either temporality): along every step sequence every cell held, and every cell ever reported, has a bucket
vector with exactly `bounds.length + 1` entries. -/
theorem hist_cells_wellformed (tp : Temporality) (steps : List Step) (s : Hist × List (AMap HistVal))
    (hw : HistWF s.1) (hr : ∀ r ∈ s.2, ∀ kv ∈ r, kv.2.counts.length = s.1.bounds.length + 1) :
    let s' := Hist.runG tp s steps
    s'.1.bounds = s.1.bounds ∧ HistWF s'.1 ∧ ∀ r ∈ s'.2, ∀ kv ∈ r, kv.2.counts.length = s.1.bounds.length + 1 := by
  induction steps generalizing s with
  | nil => exact ⟨rfl, hw, hr⟩
  | cons x l ih =>
    have hb : (Hist.stepG tp s x).1.bounds = s.1.bounds := by
      cases x with
      | measure a v id => rfl
      | collect t => cases tp <;> rfl
    have hw' : HistWF (Hist.stepG tp s x).1 := by
      cases x with
      | measure a v id => exact Hist.wf_measure s.1 hw a v
      | collect t => exact Hist.wf_collect s.1 hw tp t
    have hr' : ∀ r ∈ (Hist.stepG tp s x).2, ∀ kv ∈ r, kv.2.counts.length = (Hist.stepG tp s x).1.bounds.length + 1 := by
      rw [hb]
      cases x with
      | measure a v id => exact hr
      | collect t =>
        intro r hr1 kv hkv
        simp only [Hist.stepG, List.mem_append, List.mem_singleton] at hr1
        rcases hr1 with hr1 | rfl
        · exact hr r hr1 kv hkv
        · simp only [List.mem_map] at hkv
          obtain ⟨p, hp, rfl⟩ := hkv
          exact Hist.wf_points s.1 hw tp t p hp
    have := ih (Hist.stepG tp s x) hw' hr'
    simp only [hb] at this
    exact this

/-- Clause "… (histogram … per-bucket counts)": at every collection point the cumulative histogram's count of
every bucket `i` equals the running total of the delta reader's counts of that bucket, for every attribute set — for
the real `Hist.measure/delta/cumulative`.  Rests on `hist_cells_wellformed` (bucket `i` is additive only on cells
whose bucket vector is complete). -/
theorem twin_hist_buckets (h : Hist) (hl : h.limit = 0) (hv : h.values = []) (steps : List Step) (t : Nat) (a : Attr)
    (i : Nat) :
    ∃ r, (Hist.runG .cumulative (h, []) (steps ++ [.collect t])).2.getLast? = some r ∧
      projTotal (fun v => ((v.counts[i]?.getD 0 : Nat) : Int)) r a =
        repTotal (fun v => ((v.counts[i]?.getD 0 : Nat) : Int)) (Hist.runG .delta (h, []) (steps ++ [.collect t])).2 a := by
  have e1 : (Temporality.delta == Temporality.delta) = true := by decide
  have e2 : (Temporality.cumulative == Temporality.delta) = false := by decide
  have hd := (hist_refines .delta h.bounds h.noSum (steps ++ [.collect t]) (h, []) hl rfl rfl).2
  have hc := (hist_refines .cumulative h.bounds h.noSum (steps ++ [.collect t]) (h, []) hl rfl rfl).2
  simp only [hv, e1, e2] at hd hc
  obtain ⟨r, hr, hb⟩ := G.twin _ (histCellF h.bounds h.noSum) _ _ (hist_bucket_additive h.bounds h.noSum i) steps t a
  exact ⟨r, by rw [hc]; exact hr, by rw [hd]; exact hb⟩

/-- Clause "delta points cover adjacent non-overlapping intervals (each starts where the previous collection
ended)": for every aggregator, a delta collection at `t` stamps all its points with [previous start, t] and moves
the start to `t` — so the next interval starts exactly where this one ended (the first starts at creation). -/
theorem delta_intervals_adjacent (t : Nat) :
    (∀ s : Sum, (s.delta t).1.start = t ∧ ∀ p ∈ (s.delta t).2, p.start = s.start ∧ p.time = t) ∧
    (∀ s : PSum, (s.delta t).1.start = t ∧ ∀ p ∈ (s.delta t).2, p.start = s.start ∧ p.time = t) ∧
    (∀ s : LastValue, (s.delta t).1.start = t ∧ ∀ p ∈ (s.delta t).2, p.start = s.start ∧ p.time = t) ∧
    (∀ s : LastValue, (s.pdelta t).1.start = t ∧ ∀ p ∈ (s.pdelta t).2, p.start = s.start ∧ p.time = t) ∧
    (∀ s : Hist, (s.delta t).1.start = t ∧ ∀ p ∈ (s.delta t).2, p.start = s.start ∧ p.time = t) := by
  refine ⟨?_, ?_, ?_, ?_, ?_⟩ <;> intro s <;> refine ⟨rfl, ?_⟩ <;> intro p hp <;>
    simp only [Sum.delta, PSum.delta, LastValue.delta, LastValue.pdelta, Hist.delta, mkPoints, List.mem_map] at hp <;>
    obtain ⟨kv, _, rfl⟩ := hp <;> exact ⟨rfl, rfl⟩

/-- Clause "cumulative points keep one fixed start": no cumulative collection of any aggregator moves the start,
and all its points carry it. -/
theorem cumulative_start_fixed (t : Nat) :
    (∀ s : Sum, (s.cumulative t).1.start = s.start ∧ ∀ p ∈ (s.cumulative t).2, p.start = s.start ∧ p.time = t) ∧
    (∀ s : PSum, (s.cumulative t).1.start = s.start ∧ ∀ p ∈ (s.cumulative t).2, p.start = s.start ∧ p.time = t) ∧
    (∀ s : LastValue, (s.cumulative t).1.start = s.start ∧ ∀ p ∈ (s.cumulative t).2, p.start = s.start ∧ p.time = t) ∧
    (∀ s : LastValue, (s.pcumulative t).1.start = s.start ∧ ∀ p ∈ (s.pcumulative t).2, p.start = s.start ∧ p.time = t) ∧
    (∀ s : Hist, (s.cumulative t).1.start = s.start ∧ ∀ p ∈ (s.cumulative t).2, p.start = s.start ∧ p.time = t) := by
  refine ⟨?_, ?_, ?_, ?_, ?_⟩ <;> intro s <;> refine ⟨rfl, ?_⟩ <;> intro p hp <;>
    simp only [Sum.cumulative, PSum.cumulative, LastValue.cumulative, LastValue.pcumulative, Hist.cumulative, mkPoints,
      List.mem_map] at hp <;>
    obtain ⟨kv, _, rfl⟩ := hp <;> exact ⟨rfl, rfl⟩

/-- Clause "start never exceeds the point's time", as an inductive invariant: if the clock reading `t` of a collection
is not before the aggregator's current start, then every point reported has start ≤ time and the start kept for the
next collection is again ≤ `t` (hence ≤ every later reading of a clock that does not run backwards) — for every
aggregator and both temporalities. -/
theorem start_le_time (t : Nat) :
    (∀ s : Sum, s.start ≤ t → (∀ p ∈ (s.delta t).2 ++ (s.cumulative t).2, p.start ≤ p.time) ∧
      (s.delta t).1.start ≤ t ∧ (s.cumulative t).1.start ≤ t) ∧
    (∀ s : PSum, s.start ≤ t → (∀ p ∈ (s.delta t).2 ++ (s.cumulative t).2, p.start ≤ p.time) ∧
      (s.delta t).1.start ≤ t ∧ (s.cumulative t).1.start ≤ t) ∧
    (∀ s : LastValue, s.start ≤ t →
      (∀ p ∈ (s.delta t).2 ++ (s.cumulative t).2 ++ (s.pdelta t).2 ++ (s.pcumulative t).2, p.start ≤ p.time) ∧
      (s.delta t).1.start ≤ t ∧ (s.cumulative t).1.start ≤ t ∧ (s.pdelta t).1.start ≤ t ∧ (s.pcumulative t).1.start ≤ t) ∧
    (∀ s : Hist, s.start ≤ t → (∀ p ∈ (s.delta t).2 ++ (s.cumulative t).2, p.start ≤ p.time) ∧
      (s.delta t).1.start ≤ t ∧ (s.cumulative t).1.start ≤ t) := by
  obtain ⟨d1, d2, d3, d4, d5⟩ := delta_intervals_adjacent t
  obtain ⟨c1, c2, c3, c4, c5⟩ := cumulative_start_fixed t
  refine ⟨?_, ?_, ?_, ?_⟩
  · intro s h
    refine ⟨?_, by rw [(d1 s).1]; exact Nat.le_refl _, by rw [(c1 s).1]; exact h⟩
    intro p hp
    rcases List.mem_append.mp hp with hp | hp
    · have := (d1 s).2 p hp; omega
    · have := (c1 s).2 p hp; omega
  · intro s h
    refine ⟨?_, by rw [(d2 s).1]; exact Nat.le_refl _, by rw [(c2 s).1]; exact h⟩
    intro p hp
    rcases List.mem_append.mp hp with hp | hp
    · have := (d2 s).2 p hp; omega
    · have := (c2 s).2 p hp; omega
  · intro s h
    refine ⟨?_, by rw [(d3 s).1]; exact Nat.le_refl _, by rw [(c3 s).1]; exact h,
      by rw [(d4 s).1]; exact Nat.le_refl _, by rw [(c4 s).1]; exact h⟩
    intro p hp
    simp only [List.mem_append] at hp
    rcases hp with ((hp | hp) | hp) | hp
    · have := (d3 s).2 p hp; omega
    · have := (c3 s).2 p hp; omega
    · have := (d4 s).2 p hp; omega
    · have := (c4 s).2 p hp; omega
  · intro s h
    refine ⟨?_, by rw [(d5 s).1]; exact Nat.le_refl _, by rw [(c5 s).1]; exact h⟩
    intro p hp
    rcases List.mem_append.mp hp with hp | hp
    · have := (d5 s).2 p hp; omega
    · have := (c5 s).2 p hp; omega

/-- Clause "for asynchronous instruments each cycle reports exactly the attribute sets observed by that cycle's
callbacks": both collections of a precomputed sum report one point per set held and forget everything; and the sets
held after a cycle's observations (starting from the forgotten state) are exactly the observed ones. -/
theorem async_cycle_exact (s : PSum) (hl : s.limit = 0) (hv : s.values = []) (obs : List (Attr × Int)) (t : Nat) (a : Attr) :
    let s' := observeAll s obs
    ((s'.delta t).2.map (·.attr) = s'.values.keys ∧ (s'.delta t).1.values = []) ∧
    ((s'.cumulative t).2.map (·.attr) = s'.values.keys ∧ (s'.cumulative t).1.values = []) ∧
    (a ∈ s'.values.keys ↔ a ∈ obs.map (·.1)) := by
  intro s'
  refine ⟨⟨by simp [PSum.delta, mkPoints, AMap.keys], rfl⟩, ⟨by simp [PSum.cumulative, mkPoints, AMap.keys], rfl⟩, ?_⟩
  have := keys_observeAll s hl obs a
  simpa [hv, AMap.keys] using this

/-- Clause "the delta being the observed value minus the value observed in the preceding cycle (zero if it was not
observed then)": a delta point is `value − reported[set]`, and after a delta collection `reported` holds exactly the
sets of THAT cycle with their values — a set absent from the preceding cycle is looked up as 0, even if it had been
reported two cycles ago. -/
theorem async_delta_is_difference (s : PSum) (t : Nat) :
    (∀ p ∈ (s.delta t).2, ∃ v, (p.attr, v) ∈ s.values ∧ p.val = v.n - (s.reported.get? p.attr).getD 0) ∧
    (∀ a, (s.delta t).1.reported.get? a = (s.values.get? a).map (·.n)) ∧
    (∀ t', (s.cumulative t').1.reported = s.reported) := by
  refine ⟨?_, ?_, ?_⟩
  · intro p hp
    simp only [PSum.delta, mkPoints, List.mem_map] at hp
    obtain ⟨kv, hkv, rfl⟩ := hp
    exact ⟨kv.2, hkv, rfl⟩
  · intro a
    simp only [PSum.delta]
    exact get?_map s.values (·.n) a
  · intros; rfl

/-- Clause "a gauge reports the last value recorded in the cycle": a measurement overwrites the cell of its set and
no other; delta collections (and both collections of the asynchronous gauge) report the cells and forget them, the
synchronous cumulative collection reports and keeps them. -/
theorem gauge_last_value (s : LastValue) (hl : s.limit = 0) (a b : Attr) (x : Int) (t : Nat) :
    (s.measure a x).values.get? b = (if a = b then some x else s.values.get? b) ∧
    ((s.delta t).2.map (fun p => (p.attr, p.val)) = s.values ∧ (s.delta t).1.values = []) ∧
    ((s.pdelta t).2.map (fun p => (p.attr, p.val)) = s.values ∧ (s.pdelta t).1.values = []) ∧
    ((s.pcumulative t).2.map (fun p => (p.attr, p.val)) = s.values ∧ (s.pcumulative t).1.values = []) ∧
    ((s.cumulative t).2.map (fun p => (p.attr, p.val)) = s.values ∧ (s.cumulative t).1.values = s.values) := by
  refine ⟨?_, ⟨?_, rfl⟩, ⟨?_, rfl⟩, ⟨?_, rfl⟩, ⟨?_, rfl⟩⟩
  · simp only [LastValue.measure, hl, limitAttr_zero]
    rw [get?_upd]
  all_goals simp only [LastValue.delta, LastValue.pdelta, LastValue.pcumulative, LastValue.cumulative]; exact mkPoints_cells _ _ _

/-! ## History-level theorems (one instrument)

A *history* of one instrument is a list of cycles `(ms, t)`: the measurements `ms` that reach its aggregator during
the cycle (synchronous records, or the observations replayed by the callbacks of that collection), followed by the
collection with clock reading `t` (`Agg.runCycles`, History.lean).  The delta and the cumulative reader own one
aggregator instance each, created by the same `mkAgg` and fed the same measurements.  `repOf` turns what a collection
returned into the `Spec.Report` the oracle reads (points sorted by attribute, payloads as vectors).  Each theorem
below says: the oracle predicate of Spec.lean, evaluated on the model's own reports, is true — for EVERY history. -/

/-- HISTORY LEVEL of the twin clause (sum): over every history the oracle predicate `Spec.twinAgree` holds of the
reports of the delta and the cumulative instance — at every collection, for every attribute set, the cumulative
value is the running total of the delta values (absent points count as 0). -/
theorem twin_agree_history_sum (s : Sum) (hl : s.limit = 0) (hv : s.values = []) (hist : List Cycle) :
    Spec.twinAgree (((Agg.sum s).runCycles .delta hist).2.map repOf)
      (((Agg.sum s).runCycles .cumulative hist).2.map repOf) = true :=
  twinAgree_runCycles (.sum s) hl (by simp [Agg.keys, hv, AMap.keys])
    (by intro a; simp [Agg.hv, Agg.held, hv, AMap.get?]) hist

/-- HISTORY LEVEL of the twin clause (explicit histogram, and the exponential histogram at count / sum / sign-split
level): `Spec.twinAgree` compares the whole vectors `count :: sum :: bucket counts`, so this is count, sum and EVERY
bucket, at every collection of every history, for every attribute set. -/
theorem twin_agree_history_hist (h : Hist) (hl : h.limit = 0) (hv : h.values = []) (hist : List Cycle) :
    Spec.twinAgree (((Agg.hist h).runCycles .delta hist).2.map repOf)
      (((Agg.hist h).runCycles .cumulative hist).2.map repOf) = true ∧
    Spec.twinAgree (((Agg.expo h).runCycles .delta hist).2.map repOf)
      (((Agg.expo h).runCycles .cumulative hist).2.map repOf) = true := by
  have hw : HistWF h := by intro kv hkv; rw [hv] at hkv; cases hkv
  exact ⟨twinAgree_runCycles (.hist h) ⟨hl, hw⟩ (by simp [Agg.keys, hv, AMap.keys])
      (by intro a; simp [Agg.hv, Agg.held, hv, AMap.get?]) hist,
    twinAgree_runCycles (.expo h) ⟨hl, hw⟩ (by simp [Agg.keys, hv, AMap.keys])
      (by intro a; simp [Agg.hv, Agg.held, hv, AMap.get?]) hist⟩

/-- HISTORY LEVEL of `delta_intervals_adjacent`: for EVERY aggregator kind (`g` arbitrary, created at `start`) and every
history whose clock readings strictly increase from the creation time, every point of the delta reader's `k`-th
report covers exactly [reading of collection `k-1`, reading of collection `k`] — the first one starts at creation
(`startAt`).  Adjacent, non-overlapping. -/
theorem delta_intervals_adjacent_history (g : Agg) (start : Nat) (hs : g.start = none ∨ g.start = some start)
    (hist : List Cycle) (hinc : increasing start (hist.map (·.2)) = true) (k : Nat) (out : Option (DT × List (Pt PV)))
    (hk : (g.runCycles .delta hist).2[k]? = some out) :
    ∀ p ∈ outPts out, p.start = startAt start (hist.map (·.2)) k ∧ p.time = (hist.map (·.2)).getD k 0 :=
  fun p hp => ⟨((ivInv_run g start hs hist hinc).d k out hk p hp).1, ((ivInv_run g start hs hist hinc).d k out hk p hp).2.1⟩

/-- HISTORY LEVEL of `cumulative_start_fixed`: every point of every report of the cumulative reader starts at the
creation time and ends at the reading of its collection, over every history. -/
theorem cumulative_start_fixed_history (g : Agg) (start : Nat) (hs : g.start = none ∨ g.start = some start)
    (hist : List Cycle) (hinc : increasing start (hist.map (·.2)) = true) (k : Nat) (out : Option (DT × List (Pt PV)))
    (hk : (g.runCycles .cumulative hist).2[k]? = some out) :
    ∀ p ∈ outPts out, p.start = start ∧ p.time = (hist.map (·.2)).getD k 0 :=
  fun p hp => ⟨((ivInv_run g start hs hist hinc).c k out hk p hp).1, ((ivInv_run g start hs hist hinc).c k out hk p hp).2.1⟩

/-- HISTORY LEVEL of `start_le_time`: with strictly increasing clock readings, every point either reader ever reports
has start < time (in particular start ≤ time). -/
theorem start_le_time_history (g : Agg) (start : Nat) (hs : g.start = none ∨ g.start = some start)
    (hist : List Cycle) (hinc : increasing start (hist.map (·.2)) = true) (tp : Temporality) (k : Nat)
    (out : Option (DT × List (Pt PV))) (hk : (g.runCycles tp hist).2[k]? = some out) :
    ∀ p ∈ outPts out, p.start < p.time := by
  intro p hp
  cases tp
  · exact ((ivInv_run g start hs hist hinc).d k out hk p hp).2.2
  · exact ((ivInv_run g start hs hist hinc).c k out hk p hp).2.2

/-- the hypothesis of the three interval theorems is satisfiable -/
example : increasing 0 [1, 2, 5] = true ∧ increasing 3 [4, 4] = false := by decide

/-- HISTORY LEVEL of `async_cycle_exact` + `async_delta_is_difference`: over every history of an asynchronous sum the
oracle predicate `Spec.asyncSumHistOK` holds of the model's reports: every cycle both readers report exactly the sets
observed in that cycle (once each); the cumulative value is the value observed, the delta value is the value observed
minus the value observed in the IMMEDIATELY preceding cycle — 0 if the set was absent then, even if it had been seen
two cycles ago. -/
theorem async_delta_is_difference_history (s : PSum) (hl : s.limit = 0) (hv : s.values = []) (hr : s.reported = [])
    (hist : List Cycle) :
    Spec.asyncSumHistOK (hist.map (·.1)) (((Agg.psum s).runCycles .delta hist).2.map repOf)
      (((Agg.psum s).runCycles .cumulative hist).2.map repOf) = true :=
  asyncSumHistOK_runCycles s hl hv hr hist

/-- HISTORY LEVEL of `gauge_last_value`: over every history, (asynchronous gauge) both readers report at every cycle
the last value observed in that cycle for exactly the sets observed in it (`Spec.asyncGaugeHistOK`); (synchronous
gauge) the delta reader reports the last value recorded in the cycle for exactly the sets recorded in it and the
cumulative reader the last value ever recorded for every set ever recorded (`Spec.syncGaugeHistOK`). -/
theorem gauge_last_value_history (s : LastValue) (hl : s.limit = 0) (hv : s.values = []) (hist : List Cycle) :
    Spec.asyncGaugeHistOK (hist.map (·.1)) (((Agg.plv s).runCycles .delta hist).2.map repOf)
      (((Agg.plv s).runCycles .cumulative hist).2.map repOf) = true ∧
    Spec.syncGaugeHistOK (hist.map (·.1)) (((Agg.lv s).runCycles .delta hist).2.map repOf)
      (((Agg.lv s).runCycles .cumulative hist).2.map repOf) = true :=
  ⟨asyncGaugeHistOK_runCycles s hl hv hist, syncGaugeHistOK_runCycles s hl hv hist⟩

/-- the hypotheses of the one-instrument history theorems (no limit, fresh aggregator) hold of what `mkAgg` creates and
of the aggregators used in the examples below -/
example :
    ({} : PSum).limit = 0 ∧ ({} : PSum).values = [] ∧ ({} : PSum).reported = [] ∧
    ({} : LastValue).limit = 0 ∧ ({} : LastValue).values = [] ∧
    ({ bounds := [0, 10] } : Hist).limit = 0 ∧ ({ bounds := [0, 10] } : Hist).values = [] ∧
    (Agg.hist { bounds := [0, 10] }).start = some 0 := by
  decide

/-- non-vacuity of the history-level async theorem: the model's reports over three cycles in which set 1 is observed
in cycles 1 and 3 only (its third delta is the full 9), the oracle accepts them and rejects the `9 − 5` variant -/
example :
    let hist : List Cycle := [([(1, 5), (2, 7), (1, 0)], 1), ([(2, 10)], 2), ([(1, 9), (2, 10)], 3)]
    ((Agg.psum {}).runCycles .delta hist).2.map repOf = [[(1, [5]), (2, [7])], [(2, [3])], [(1, [9]), (2, [0])]] ∧
    ((Agg.psum {}).runCycles .cumulative hist).2.map repOf = [[(1, [5]), (2, [7])], [(2, [10])], [(1, [9]), (2, [10])]] ∧
    Spec.asyncSumHistOK (hist.map (·.1)) [[(1, [5]), (2, [7])], [(2, [3])], [(1, [9]), (2, [0])]]
       [[(1, [5]), (2, [7])], [(2, [10])], [(1, [9]), (2, [10])]] = true ∧
    Spec.asyncSumHistOK (hist.map (·.1)) [[(1, [5]), (2, [7])], [(2, [3])], [(1, [4]), (2, [0])]]
       [[(1, [5]), (2, [7])], [(2, [10])], [(1, [9]), (2, [10])]] = false := by
  decide

/-- non-vacuity of the history-level twin theorem: a histogram twin over two cycles (vectors are
`count :: sum :: buckets`); the oracle rejects a cumulative report with one bucket off by one -/
example :
    let hist : List Cycle := [([(2, 5), (1, 50)], 1), ([(1, -3), (1, 7)], 4)]
    let h : Hist := { bounds := [0, 10] }
    ((Agg.hist h).runCycles .delta hist).2.map repOf = [[(1, [1, 50, 0, 0, 1]), (2, [1, 5, 0, 1, 0])], [(1, [2, 4, 1, 1, 0])]] ∧
    ((Agg.hist h).runCycles .cumulative hist).2.map repOf =
      [[(1, [1, 50, 0, 0, 1]), (2, [1, 5, 0, 1, 0])], [(1, [3, 54, 1, 1, 1]), (2, [1, 5, 0, 1, 0])]] ∧
    Spec.twinAgree [[(1, [1, 50, 0, 0, 1]), (2, [1, 5, 0, 1, 0])], [(1, [2, 4, 1, 1, 0])]]
      [[(1, [1, 50, 0, 0, 1]), (2, [1, 5, 0, 1, 0])], [(1, [3, 54, 1, 1, 2]), (2, [1, 5, 0, 1, 0])]] = false := by
  decide

/-- non-vacuity of the history-level gauge theorem: a synchronous gauge over two cycles — the delta reader forgets
set 1 after the first cycle, the cumulative reader keeps its last value -/
example :
    let hist : List Cycle := [([(1, 5), (1, 6)], 1), ([(2, 1)], 2)]
    ((Agg.lv {}).runCycles .delta hist).2.map repOf = [[(1, [6])], [(2, [1])]] ∧
    ((Agg.lv {}).runCycles .cumulative hist).2.map repOf = [[(1, [6])], [(1, [6]), (2, [1])]] ∧
    Spec.syncGaugeHistOK (hist.map (·.1)) [[(1, [6])], [(2, [1])]] [[(1, [5])], [(1, [6]), (2, [1])]] = false := by
  decide

/-! ## History-level theorems (the whole twin-reader system)

A history is any `List Op` (record / observe / register / unregister / collect) over any instrument configuration
`is` and callback slots `slots`; `Sys.run` is the model the driver replays; `modelORecs` is the structured form of
the line the driver prints for the model (`renderRecs` prints exactly `flagRecs`; the driver checks on every line on
which implementation and model agree that parsing the line gives `modelORecs` back).  `oracle` (Oracle.lean) is THE
predicate the driver evaluates on the implementation's records — one definition, two uses. -/

/-- HISTORY LEVEL of the three interval clauses, as the oracle judges them: for every history of operations, every
stream of every record of the model passes `Spec.deltaIntervalOK` (delta reader: start window = previous collection,
creation for the first; adjacent to the previous report of the stream when that was the preceding cycle) resp.
`Spec.cumulativeIntervalOK` (cumulative reader: start window = creation, same start as the stream's previous report),
both including start ≤ time, time in the window of its own collection, all points of a stream stamped alike.  Model
times are strictly increasing by construction (creation 0, collection `k` at `k + 1`); for arbitrary strictly
increasing clock readings see `delta_intervals_adjacent_history` etc. above. -/
theorem intervals_history (is : List InstCfg) (slots : List (List Nat)) (ops : List Op) :
    intervalsOK (modelORecs (Sys.run is slots ops).recs) = true :=
  intervalsOK_of_stamps _ (timeInv_run is slots ops).recs

/-- ALL CLAUSES: for every instrument configuration (all 7 kinds × all aggregation selections, int64/float64, with or
without instrument callbacks), all callback slots and EVERY history of operations, the whole conjunction the driver
evaluates on the implementation — interval clause, two records per cycle, and per instrument by its aggregation:
`Spec.twinAgree` (sum, explicit histogram, exponential histogram), `Spec.asyncSumHistOK` (precomputed sum),
`Spec.asyncGaugeHistOK` (asynchronous gauge), `Spec.syncGaugeHistOK` (synchronous gauge), nothing reported (drop /
incompatible) — holds of the model's own records.  Proof: per-instrument decomposition of `Sys.run` into local cycle
histories (SysDecomp.lean: callbacks reach exactly the registered asynchronous instruments, `record` exactly the
synchronous one, both readers see the same measurements) + the one-instrument history theorems above. -/
theorem twin_all_clauses (is : List InstCfg) (slots : List (List Nat)) (ops : List Op) :
    oracle is slots ops (modelORecs (Sys.run is slots ops).recs) = true :=
  oracle_model is slots ops

/-- The decomposition behind `twin_all_clauses`, for every history of operations: instrument `j`'s aggregator in the
delta (cumulative) reader IS the delta (cumulative) run of `mkAgg` over the instrument's local history
(`localHist`: per cycle the synchronous records since the previous collection, then the observations replayed by the
callbacks registered for it, collected at model time `k + 1`), followed by the records still pending.  Both readers
are fed the same measurements. -/
theorem instrument_decomposition (is : List InstCfg) (slots : List (List Nat)) (ops : List Op) (j : Nat) (ic : InstCfg)
    (hj : is[j]? = some ic) :
    ∃ pend,
      (Sys.run is slots ops).d[j]? =
        some (((mkAgg ic).runCycles .delta (localHist ic j (cycleInputs is slots ops) 0)).1.feed pend) ∧
      (Sys.run is slots ops).c[j]? =
        some (((mkAgg ic).runCycles .cumulative (localHist ic j (cycleInputs is slots ops) 0)).1.feed pend) := by
  have inv := sysInv_run is slots ops
  have hsys := cycleFold_sys ops (Sys.init is slots, [], [])
  refine ⟨pendOf ic j (ops.foldl cycleStep (Sys.init is slots, [], [])).2.1, ?_, ?_⟩
  · have := inv.aggs j ic hj true
    rw [hsys] at this; exact this
  · have := inv.aggs j ic hj false
    rw [hsys] at this; exact this

/-- example configuration: an asynchronous counter, a synchronous gauge, a histogram with the view boundaries -/
def exInsts : List InstCfg :=
  [⟨false, .obsCounter, .dflt, false⟩, ⟨false, .gauge, .dflt, false⟩, ⟨false, .histogram, .explicit, false⟩]

/-- example history: three cycles; set 1 of the counter is observed in cycles 1 and 3 only; `v` = its third value -/
def exOps (v : Int) : List Op :=
  [.reg 0, .obs 0 1 5, .obs 0 2 7, .record 1 1 4, .record 2 1 50, .col, .obs 0 2 10, .record 1 1 6, .col,
   .obs 0 1 v, .record 2 1 5, .col]

/-- non-vacuity of `twin_all_clauses`: the oracle accepts the model's records of the example history and REJECTS the
records of a history that differs in one observed value -/
example :
    (((modelORecs (Sys.run exInsts [[0]] (exOps 9)).recs).map fun r =>
        (r.cycle, r.delta, r.streams.map fun s => (s.inst, s.pts))) ==
      [(0, true, [(0, [(1, [5]), (2, [7])]), (1, [(1, [4])]), (2, [(1, [1, 50, 0, 0, 1, 0])])]),
       (0, false, [(0, [(1, [5]), (2, [7])]), (1, [(1, [4])]), (2, [(1, [1, 50, 0, 0, 1, 0])])]),
       (1, true, [(0, [(2, [3])]), (1, [(1, [6])])]),
       (1, false, [(0, [(2, [10])]), (1, [(1, [6])]), (2, [(1, [1, 50, 0, 0, 1, 0])])]),
       (2, true, [(0, [(1, [9])]), (2, [(1, [1, 5, 0, 1, 0, 0])])]),
       (2, false, [(0, [(1, [9])]), (1, [(1, [6])]), (2, [(1, [2, 55, 0, 1, 1, 0])])])]) = true ∧
    oracle exInsts [[0]] (exOps 9) (modelORecs (Sys.run exInsts [[0]] (exOps 9)).recs) = true ∧
    oracle exInsts [[0]] (exOps 9) (modelORecs (Sys.run exInsts [[0]] (exOps 8)).recs) = false := by
  decide

/-- Clause "callbacks … observer routes to registered instruments only": a callback that is not registered for
instrument `j` leaves `j`'s aggregator untouched whatever it tries to observe. -/
theorem unregistered_not_observed (cb : List Nat) (cur : List (Nat × Attr × Int)) (aggs : List Agg) (j : Nat)
    (hj : cb.contains j = false) : (replay cb cur aggs)[j]? = aggs[j]? :=
  replay_other cb cur aggs j hj

/-- non-vacuity: sets appearing and disappearing across three asynchronous cycles (the "seen two cycles ago" case:
set 1 is observed in cycles 1 and 3 only — its third-cycle delta is the full value 9, not 9 − 5) -/
example :
    let c1 := (observeAll {} [(1, 5), (2, 7), (1, 0)]).delta 1
    let c2 := (observeAll c1.1 [(2, 10)]).delta 2
    let c3 := (observeAll c2.1 [(1, 9), (2, 10)]).delta 3
    c1.2.map (fun p => (p.attr, p.val, p.start, p.time)) = [(1, 5, 0, 1), (2, 7, 0, 1)] ∧
    c2.2.map (fun p => (p.attr, p.val, p.start, p.time)) = [(2, 3, 1, 2)] ∧
    c3.2.map (fun p => (p.attr, p.val, p.start, p.time)) = [(1, 9, 2, 3), (2, 0, 2, 3)] := by
  decide

/-- non-vacuity of the twin theorems: a histogram twin over two cycles -/
example :
    let steps := [Step.measure 1 5 0, .measure 1 50 1, .collect 1, .measure 1 (-3) 2, .measure 2 7 3]
    let d := Hist.runG .delta (({ bounds := [0, 10] } : Hist), []) (steps ++ [.collect 2])
    let c := Hist.runG .cumulative (({ bounds := [0, 10] } : Hist), []) (steps ++ [.collect 2])
    (d.2.map fun r => r.map fun kv => (kv.1, kv.2.counts)) = [[(1, [0, 1, 1])], [(1, [1, 0, 0]), (2, [0, 1, 0])]] ∧
    repTotal (fun v => v.total) d.2 1 = 52 ∧
    (c.2.getLast?.map fun r => r.map fun kv => (kv.1, kv.2.counts)) = some [(1, [1, 1, 1]), (2, [0, 1, 0])] := by
  decide

/-- Callback errors (follow-up, seeded C08-4).  `pipeline.produce` joins the errors of the observable callbacks and
carries on, returning the joined error TOGETHER with the collected data: in the wrapped model a failing callback
script changes the error status of the collections and nothing else — the twin system after any history with
`cberr` steps IS the twin system after the same history without them. -/
theorem callback_error_does_not_affect_data (is : List InstCfg) (slots : List (List Nat)) (xs : List XOp) :
    (XSys.run is slots xs).sys = Sys.run is slots (eraseErr xs) := by
  have key : ∀ (xs : List XOp) (x : XSys), (xs.foldl XSys.step x).sys = (eraseErr xs).foldl Sys.step x.sys := by
    intro xs
    induction xs with
    | nil => intro x; rfl
    | cons o l ih =>
      intro x
      cases o with
      | cberr => simpa [eraseErr, XSys.step] using ih { x with failNext := true }
      | cancelAt j => simpa [eraseErr, XSys.step] using ih x
      | op o =>
        have h : (x.step (.op o)).sys = x.sys.step o := by cases o <;> rfl
        simp only [List.foldl_cons, eraseErr, List.filterMap_cons]
        rw [ih, h]
        rfl
  exact key xs _

/-- Cancellation during aggregation (follow-up, seeded C08-8 / C02-1).  The current `pipeline.produce` never consults
the context once the callbacks have run, so cancelling a collection's context while instrument `j` is being aggregated
is not even a transition of the wrapped model: the state — data, error status, pending failure script — is unchanged,
and therefore (`callback_error_does_not_affect_data`, whose erasure also drops `cancelAt`) every clause of the oracle
holds of such histories exactly as without the cancellations. -/
theorem cancel_during_aggregation_has_no_effect (x : XSys) (j : Nat) : x.step (.cancelAt j) = x := rfl

/-- … hence every clause of the oracle holds of the data reported through failing callbacks exactly as without
them (`twin_all_clauses` transported along `callback_error_does_not_affect_data`); and every collection has an error
status (two per cycle, in record order). -/
theorem twin_all_clauses_with_callback_errors (is : List InstCfg) (slots : List (List Nat)) (xs : List XOp) :
    oracle is slots (eraseErr xs) (modelORecs (XSys.run is slots xs).sys.recs) = true := by
  rw [callback_error_does_not_affect_data]
  exact twin_all_clauses is slots (eraseErr xs)

/-- Point self-consistency (follow-up, seeded C08-3): along every step sequence of the real histogram functions
(either temporality, any cardinality limit) every cell ever reported has a complete bucket vector whose entries add
up to its count — the form `pointsSelfConsistent` checks on every observed histogram and exponential-histogram point
(for the latter: zero + positive + negative = Count). -/
theorem hist_points_self_consistent (tp : Temporality) (steps : List Step) (s : Hist × List (AMap HistVal))
    (hs : HistSC s.1) (hr : ∀ r ∈ s.2, ∀ kv ∈ r, CellSC (s.1.bounds.length + 1) kv.2) :
    let s' := Hist.runG tp s steps
    ∀ r ∈ s'.2, ∀ kv ∈ r, kv.2.count = kv.2.counts.sum := by
  have key : ∀ (steps : List Step) (s : Hist × List (AMap HistVal)), HistSC s.1 →
      (∀ r ∈ s.2, ∀ kv ∈ r, CellSC (s.1.bounds.length + 1) kv.2) →
      ∀ r ∈ (Hist.runG tp s steps).2, ∀ kv ∈ r, CellSC (s.1.bounds.length + 1) kv.2 := by
    intro steps
    induction steps with
    | nil => intro s _ hr; exact hr
    | cons x l ih =>
      intro s hs hr
      cases x with
      | measure a v id =>
        exact ih (s.1.measure a v, s.2) (Hist.sc_measure s.1 hs a v) hr
      | collect t =>
        obtain ⟨h1, h2, h3⟩ := Hist.sc_collect s.1 hs tp t
        have := ih ((s.1.collect tp t).1, s.2 ++ [(s.1.collect tp t).2.map fun p => (p.attr, p.val)]) h1 (by
          simp only [h2]
          intro r hr1 kv hkv
          rcases List.mem_append.mp hr1 with hr1 | hr1
          · exact hr r hr1 kv hkv
          · simp only [List.mem_singleton] at hr1
            subst hr1
            simp only [List.mem_map] at hkv
            obtain ⟨p, hp, rfl⟩ := hkv
            exact h3 p hp)
        simp only [h2] at this
        exact this
  intro s' r hr1 kv hkv
  exact (key steps s hs hr r hr1 kv hkv).2

/-- Sum of instruments that do not collect one (follow-up, F40).  The model's output is a function of the aggregator
state only — there is no destination memory in it — so a point of a `noSum` histogram or exponential histogram carries
Sum = 0 whatever the history and whatever was collected before, by construction (`histPV`).  That the implementation's
recycled destination points agree with this (F40, repaired by resetting the field) is NOT a consequence of any theorem:
it is an observation-only clause, tied on every run by the reused-ResourceMetrics harness (the reported Sum and the
Min/Max field are compared with the model / the reference extrema; mutants revert-F40-*). -/
theorem nosum_points_report_zero_sum (h : Hist) (hn : h.noSum = true) (tp : Temporality) (t : Nat) :
    (∀ dt pts, ((Agg.hist h).collect tp t).2 = some (dt, pts) → ∀ p ∈ pts, ∃ c cs, p.val = PV.hist c 0 cs) ∧
    (∀ dt pts, ((Agg.expo h).collect tp t).2 = some (dt, pts) → ∀ p ∈ pts, ∃ c cs, p.val = PV.hist c 0 cs) := by
  constructor <;>
  · intro dt pts hc p hp
    simp only [Agg.collect, Option.some.injEq, Prod.mk.injEq] at hc
    obtain ⟨_, rfl⟩ := hc
    simp only [List.mem_map] at hp
    obtain ⟨q, _, rfl⟩ := hp
    exact ⟨q.val.count, q.val.counts, by simp [histPV, hn]⟩

/-- non-vacuity: a failing callback script between two cycles; the data are those of the history without it -/
example :
    let is : List InstCfg := [⟨false, .obsCounter, .dflt, true⟩, ⟨false, .histogram, .expo, false⟩]
    let xs : List XOp := [.op (.obs 0 1 5), .op (.record 1 1 (-3)), .cberr, .op .col, .op (.record 1 1 7), .op .col]
    (XSys.run is [] xs).errs = [(0, true, true), (0, false, true), (1, true, false), (1, false, false)] ∧
    (XSys.run is [] xs).sys.recs.length = 4 := by
  decide

end Otel.C08
