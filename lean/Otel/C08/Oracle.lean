/-
C08 — the oracle (core Lean only).  ONE definition, two uses:
* the driver (Main.lean) evaluates `oracle` on the records parsed from what the implementation reported;
* Props.lean proves that `oracle` holds of the records of the model itself (`modelORecs`) for every history.

`flagRecs` computes, from the model's exact time stamps, the same interval flags the Go harness derives from its
wall-clock windows; `renderRecs` (Main.lean) prints exactly these flagged records, `modelORecs` is their structured
form (what `parseORec` reads back from the printed line).
-/
import Otel.C08.Model
import Otel.C08.Spec
namespace Otel.C08
open Otel.C02

/-! ### the model's records, flagged -/

def sortPts (pts : List (Pt PV)) : List (Pt PV) :=
  (sortByAttr (pts.map fun p => (p.attr, p))).map (·.2)

/-- (reader is delta, instrument) ↦ (cycle, start, time) of the most recent report -/
abbrev PrevMap := List ((Bool × Nat) × (Nat × Nat × Nat))

/-- window of a model time stamp: model time of creation is 0, of collection `k` is `k + 1` (Sys.collectReader) -/
def clsT (t : Nat) : Option (Option Nat) := if t == 0 then some none else some (some (t - 1))

/-- the interval flags of a stream reported at `cycle` whose (sorted) points are `p0 :: _ = pts`, given the stream's
most recent earlier report `pv` -/
def mkInterval (pv : Option (Nat × Nat × Nat)) (cycle : Nat) (p0 : Pt PV) (pts : List (Pt PV)) : Spec.Interval :=
  { startCycle := clsT p0.start
    timeCycle := clsT p0.time
    p := match pv with
      | some (c, _, t) => if c + 1 == cycle then some (t == p0.start) else none
      | none => none
    f := match pv with
      | some (_, s, _) => some (s == p0.start)
      | none => none
    le := p0.start ≤ p0.time
    uniform := pts.all fun q => q.start == p0.start && q.time == p0.time }

/-- a stream of the model with its points sorted by attribute and its interval flags -/
structure MStream where
  inst : Nat
  dt : DT
  iv : Spec.Interval
  pts : List (Pt PV)
deriving Repr

def flagStreams (cycle : Nat) (delta : Bool) : PrevMap → List Stream → PrevMap × List MStream
  | prev, [] => (prev, [])
  | prev, st :: rest =>
    let pts := sortPts st.pts
    match pts.head? with
    | none => flagStreams cycle delta prev rest
    | some p0 =>
      let iv := mkInterval (prev.lookup (delta, st.inst)) cycle p0 pts
      let r := flagStreams cycle delta (((delta, st.inst), (cycle, p0.start, p0.time)) :: prev) rest
      (r.1, { inst := st.inst, dt := st.dt, iv := iv, pts := pts } :: r.2)

def flagRecs : PrevMap → List (Nat × Bool × List Stream) → List (Nat × Bool × List MStream)
  | _, [] => []
  | prev, (cycle, delta, streams) :: rest =>
    let r := flagStreams cycle delta prev streams
    (cycle, delta, r.2) :: flagRecs r.1 rest

/-! ### observed records -/

structure OStream where
  inst : Nat
  ty : String
  iv : Spec.Interval
  pts : Spec.Report
deriving Repr, BEq

structure ORec where
  cycle : Nat
  delta : Bool
  streams : List OStream
deriving Repr, BEq

def renderDT (dt : DT) (delta : Bool) : String :=
  let t := if delta then "d" else "c"
  match dt with
  | .sum m => s!"S{t}{if m then "m" else "n"}"
  | .gauge => "G"
  | .hist => s!"H{t}"
  | .expo => s!"X{t}"

/-- the vector the harness prints for a payload: `[value]`, or `count :: sum :: bucket counts` -/
def vecOf : PV → Spec.Vec
  | .num v => [v]
  | .hist c s cs => Int.ofNat c :: s :: cs.map Int.ofNat

def toReport (pts : List (Pt PV)) : Spec.Report := pts.map fun q => (q.attr, vecOf q.val)

/-- the model's own records in the form the oracle reads -/
def modelORecs (recs : List (Nat × Bool × List Stream)) : List ORec :=
  (flagRecs [] recs).map fun rc =>
    { cycle := rc.1, delta := rc.2.1,
      streams := rc.2.2.map fun s => { inst := s.inst, ty := renderDT s.dt rc.2.1, iv := s.iv, pts := toReport s.pts } }

/-! ### the oracle -/

/-- per cycle: the callbacks in execution order and the observations they replay, and the synchronous
measurements made since the previous cycle -/
structure CycleIn where
  callbacks : List (List Nat)
  cur : List (Nat × Attr × Int)
  recorded : List (Nat × Attr × Int)

def cycleStep (acc : Sys × List (Nat × Attr × Int) × List CycleIn) (op : Op) :
    Sys × List (Nat × Attr × Int) × List CycleIn :=
  let (s, recd, out) := acc
  match op with
  | .col => (s.step op, [], out ++ [{ callbacks := s.callbacks, cur := s.cur, recorded := recd }])
  | .record j a v => (s.step op, recd ++ [(j, a, v)], out)
  | _ => (s.step op, recd, out)

def cycleInputs (is : List InstCfg) (slots : List (List Nat)) (ops : List Op) : List CycleIn :=
  (ops.foldl cycleStep (Sys.init is slots, [], [])).2.2

/-- observations that reach instrument `j` in a cycle: for each callback that may observe `j`, the cycle's
observations of `j`, in order -/
def effObs (c : CycleIn) (j : Nat) : List (Nat × Int) :=
  c.callbacks.flatMap fun cb =>
    if cb.contains j then (c.cur.filter (·.1 == j)).map (·.2) else []

def reportOf (recs : List ORec) (k : Nat) (delta : Bool) (j : Nat) : Spec.Report :=
  match recs.find? (fun r => r.cycle == k && r.delta == delta) with
  | some r => match r.streams.find? (·.inst == j) with
    | some s => s.pts
    | none => []
  | none => []

/-- the interval clause: every reported stream of every record -/
def intervalsOK (recs : List ORec) : Bool :=
  recs.all fun r => r.streams.all fun s =>
    if r.delta then Spec.deltaIntervalOK r.cycle s.iv else Spec.cumulativeIntervalOK r.cycle s.iv

/-- the clause of one instrument, by the aggregation it got: `eff` / `recd` = per cycle what reached it through
callbacks / synchronous records, `ds` / `cs` = per cycle what the delta / cumulative reader reported for it -/
def instOK (g : Agg) (eff recd : List (List (Nat × Int))) (ds cs : List Spec.Report) : Bool :=
  match g with
  | .sum _ => Spec.twinAgree ds cs
  | .hist _ => Spec.twinAgree ds cs
  | .expo _ => Spec.twinAgree ds cs
  | .psum _ => Spec.asyncSumHistOK eff ds cs
  | .plv _ => Spec.asyncGaugeHistOK eff ds cs
  | .lv _ => Spec.syncGaugeHistOK recd ds cs
  | .off => ds.all (·.isEmpty) && cs.all (·.isEmpty)

def oracle (is : List InstCfg) (slots : List (List Nat)) (ops : List Op) (recs : List ORec) : Bool :=
  let cyc := cycleInputs is slots ops
  let n := cyc.length
  intervalsOK recs &&
  recs.length == 2 * n &&
  (List.range is.length).all fun j =>
    match is[j]? with
    | none => false
    | some ic =>
      let ds := (List.range n).map fun k => reportOf recs k true j
      let cs := (List.range n).map fun k => reportOf recs k false j
      let eff := cyc.map fun c => effObs c j
      let recd := cyc.map fun c => (c.recorded.filter (·.1 == j)).map (·.2)
      instOK (mkAgg ic) eff recd ds cs

end Otel.C08
