/-
C13 — generated tie.  `Otel.Gen.C13` is regenerated from /repo's current source by tools/go2lean on every run of
bin/check (checks/gentie.json); the theorems below are re-checked against the regenerated text.
Sites: the enum mappings of the OTLP transforms — `spanKind` and `status` (tracetransform/span.go; the status code
is carried by the local `c`, tracked through the switch) and `Temporality` (both copies of transform/metricdata.go).
Each leaf is the *evaluated* protobuf enum value.  Tied to `Otel.C13.spanKind`, `statusCode`, `temporality`.
Also `toZipkinKind` (exporters/zipkin/model.go), leaves = the evaluated `zkmodel.Kind` strings, tied to `zipkinKind`;
the map literal `remoteEndpointKeyRank` (keys = evaluated semconv constants) tied to `rankOf`; and the semconv keys of
the tags `toZipkinTags` adds, tied to `kStatusCode`, `kScopeName`, `kScopeVersion` (ZipkinModel.lean).
-/
import Otel.Gen.C13
import Otel.C13.Model
import Otel.C13.ZipkinModel

namespace Otel.C13.GenTie
open Otel.C13

/-- decimal rendering of the protobuf enum values that occur (0..5) -/
def enumTag (n : Int) : String :=
  if n = 0 then "0" else if n = 1 then "1" else if n = 2 then "2" else if n = 3 then "3"
  else if n = 4 then "4" else if n = 5 then "5" else "?"

/-- Internal(1)→INTERNAL(1), Server(2)→SERVER(2), Client(3)→CLIENT(3), Producer(4)→PRODUCER(4),
Consumer(5)→CONSUMER(5), anything else → UNSPECIFIED(0) -/
theorem gen_span_kind_table (k : Int) :
    Otel.Gen.C13.spanKind k = (if 1 ≤ k ∧ k ≤ 5 then enumTag k else "0") := by
  unfold Otel.Gen.C13.spanKind enumTag
  (repeat' split) <;> (try simp_all) <;> omega

private theorem model_span_kind_table (k : Int) :
    Otel.C13.spanKind k = (if 1 ≤ k ∧ k ≤ 5 then k else 0) := by
  unfold Otel.C13.spanKind
  (repeat' split) <;> omega

/-- `spanKind` as written today maps every `trace.SpanKind` value (known or not) to the protobuf value the model's
`spanKind` gives -/
theorem gen_span_kind_eq_model (k : Int) :
    Otel.Gen.C13.spanKind k = enumTag (Otel.C13.spanKind k) := by
  rw [gen_span_kind_table, model_span_kind_table]
  split
  · rfl
  · rfl

/-- `status`: codes.Ok(2)→STATUS_CODE_OK(1), codes.Error(1)→STATUS_CODE_ERROR(2), otherwise UNSET(0) — the model's
`statusCode` -/
theorem gen_status_code_eq_model (c : Nat) :
    Otel.Gen.C13.statusCode (c : Int) = enumTag (Otel.C13.statusCode c) := by
  unfold Otel.Gen.C13.statusCode Otel.C13.statusCode enumTag
  (repeat' split) <;> (try simp_all) <;> omega

/-- what a tag of the generated `Temporality` stands for in the model (`none` = error, the metric is dropped) -/
def temporalityOfTag (tag : String) : Option Int :=
  if tag = "1" then some 1 else if tag = "2" then some 2 else if tag = "0" then some 0 else none

/-- `Temporality` (otlpmetrichttp copy): Delta(2)→DELTA(1), Cumulative(1)→CUMULATIVE(2), else an error — the model's
`temporality` -/
theorem gen_temporality_http_eq_model (t : Nat) :
    temporalityOfTag (Otel.Gen.C13.metrichttpTemporality (t : Int)) = temporality t := by
  unfold Otel.Gen.C13.metrichttpTemporality temporality temporalityOfTag
  (repeat' split) <;> (try simp_all) <;> omega

/-- … and the otlpmetricgrpc copy -/
theorem gen_temporality_grpc_eq_model (t : Nat) :
    temporalityOfTag (Otel.Gen.C13.metricgrpcTemporality (t : Int)) = temporality t := by
  unfold Otel.Gen.C13.metricgrpcTemporality temporality temporalityOfTag
  (repeat' split) <;> (try simp_all) <;> omega

/-- the two vendored copies of `Temporality` are the same function -/
theorem gen_temporality_copies_agree (t : Int) :
    Otel.Gen.C13.metrichttpTemporality t = Otel.Gen.C13.metricgrpcTemporality t := by
  unfold Otel.Gen.C13.metrichttpTemporality Otel.Gen.C13.metricgrpcTemporality
  (repeat' split) <;> (try simp_all) <;> omega

/-! ### Zipkin -/

def strBytes (s : String) : Otel.Bytes := s.toList.map (fun c => UInt8.ofNat c.toNat)

private theorem gen_zipkin_kind_table (k : Int) :
    Otel.Gen.C13.toZipkinKind k =
      (if k = 2 then "SERVER" else if k = 3 then "CLIENT" else if k = 4 then "PRODUCER" else if k = 5 then "CONSUMER" else "") := by
  unfold Otel.Gen.C13.toZipkinKind
  (repeat' split) <;> (try simp_all) <;> omega

/-- `toZipkinKind` as written today yields the kind string of the model's `zipkinKind`: Server/Client/Producer/
Consumer by name; unspecified, internal and every unknown value → undetermined (the empty kind) -/
theorem gen_zipkin_kind_eq_model (k : Int) :
    strBytes (Otel.Gen.C13.toZipkinKind k) = zipkinKind k := by
  rw [gen_zipkin_kind_table]
  unfold zipkinKind
  (repeat' split) <;> first | rfl | omega

/-- every entry of the map literal `remoteEndpointKeyRank` is the rank the model's `rankOf` gives that key -/
theorem gen_rank_entries_eq_model :
    ∀ e ∈ Otel.Gen.C13.remoteEndpointKeyRank, rankOf (strBytes e.1) = some e.2.toNat := by decide

/-- the map has exactly eleven entries and every key the model ranks occurs in it (with the previous theorem: the
literal and `rankOf` are the same finite map; `rankOf` is `none` exactly outside the literal) -/
theorem gen_rank_map_complete :
    Otel.Gen.C13.remoteEndpointKeyRank.length = 11 ∧
    ∀ k ∈ [kPeerService, kServerAddress, kNetPeerName, kNetworkPeerAddress, kServerSocketDomain, kServerSocketAddress,
           kNetSockPeerName, kNetSockPeerAddr, kPeerHostname, kPeerAddress, kDBName],
      (Otel.Gen.C13.remoteEndpointKeyRank.map (fun e => strBytes e.1)).contains k = true := by decide

/-- the semconv keys of the tags added by `toZipkinTags` are the model's -/
theorem gen_zipkin_tag_keys_eq_model :
    strBytes Otel.Gen.C13.semconv_OTelStatusCodeKey = kStatusCode ∧
    strBytes Otel.Gen.C13.semconv_OTelScopeNameKey = kScopeName ∧
    strBytes Otel.Gen.C13.semconv_OTelScopeVersionKey = kScopeVersion ∧
    strBytes Otel.Gen.C13.keyPeerHostname = kPeerHostname ∧ strBytes Otel.Gen.C13.keyPeerAddress = kPeerAddress := by decide

end Otel.C13.GenTie
