/-
C13 — property theorems. `decode*` are the reference decoders of Spec.lean (written from the OTLP proto
definitions), `encode*` the model of the Go transforms (Model.lean), `norm*` the explicitly stated lossy points.
-/
import Otel.C13.Lemmas
import Otel.C13.LemmasF64
namespace Otel.C13

/-! ## typed attribute values (clause "typed attribute values … all attribute value types and nesting") -/

/-- The eight attribute value types survive `Value`/`AttrValue`: decoding the AnyValue gives the value back,
up to the two stated lossy points of `normVal` (INVALID type → the string "INVALID"; an empty slice loses its
element type because OTLP arrays are untyped). -/
theorem value_roundtrip (v : Val) : decodeVal (encodeVal v) = some (normVal v) := decodeVal_encodeVal v

/-- `normVal` is the identity on every value that is not of the INVALID type and not an empty slice. -/
theorem value_roundtrip_exact (v : Val) (h : v.plain = true) : decodeVal (encodeVal v) = some v := by
  rw [decodeVal_encodeVal, normVal_of_plain v h]

/-- attribute lists: order, keys and values preserved -/
theorem attrs_roundtrip (kvs : List KV) : decodeKVs (encodeKVs kvs) = some (normKVs kvs) := decodeKVs_encodeKVs kvs

/-- Nested `log.Value`s (bool, int64, float64, string, bytes, slices and maps to any depth) survive
`LogAttrValue`, up to the stated lossy point of `normLVal` (the empty value is sent as the string "INVALID"). -/
theorem log_value_roundtrip (v : LVal) : decodeLVal (encodeLVal v) = some (normLVal v) := decodeLVal_encodeLVal v

/-- `normLVal` is the identity on values without an empty value inside. -/
theorem log_value_roundtrip_exact (v : LVal) (h : v.plain = true) : decodeLVal (encodeLVal v) = some v := by
  rw [decodeLVal_encodeLVal, normLVal_of_plain v h]

example : decodeVal (encodeVal (.intSlice [1, -2])) = some (.intSlice [1, -2]) := by decide
example : decodeLVal (encodeLVal (.map [([107], .slice [.int 1, .map [([], .bytes [0])]])])) =
    some (.map [([107], .slice [.int 1, .map [([], .bytes [0])]])]) := by
  simp [encodeLVal, encodeLVals, encodeLKVs, decodeLVal, decodeLVals, decodeLKVs]

/-! ## traces -/

/-- A single span under its resource and scope: every field the statement names (ids, parent span id and
remote bit, name, kind, timestamps, attributes, events, links incl. their trace state, status, dropped counts) is
recovered, up to `normSpan`. No exclusion (F16 is repaired). -/
theorem span_decode_encode (s : Span) :
    decodeSpan (normRes s.resource) (normScope s.scope) (encodeSpan s) = some (normSpan s) :=
  decodeSpan_encodeSpan s

/-- **spans_decode_encode — full, no exclusion** (F16 and F32 are repaired in the tree this models).
For every batch (nil entries, any number of resources and scopes, shared or not, resources that differ only in
their schema URL, nil and empty resources): decoding the payload of `Spans` yields exactly the normalised input
spans in grouped order, each carrying the resource (attributes + schema URL) and scope of the group it was found
in = its own. With `spans_encode_multiset`: every span is recovered exactly once under its own resource and scope
with all listed fields. (`normRes`: a nil `*Resource` and `resource.Empty()` are the same resource — no attributes,
no schema URL — which is also all a wire round trip can say.) -/
theorem spans_decode_encode (sdl : List (Option Span)) :
    decodeSpans (encodeSpans sdl) = some ((groupedSpans sdl).map normSpan) := by
  unfold decodeSpans encodeSpans
  have : mapOpt decodeResourceSpans
      ((groupBy (fun s => resGroupKey s.resource) (·.resource) (sdl.filterMap id)).map encodeResourceSpans) =
      some ((groupBy (fun s => resGroupKey s.resource) (·.resource) (sdl.filterMap id)).map
        fun g => (scopeGrouped g.2.2).map normSpan) := by
    apply mapOpt_map
    intro g hg
    apply decodeResourceSpans_encodeResourceSpans
    intro s hs
    have hok := groupBy_ok (fun s : Span => resGroupKey s.resource) (·.resource) _ g hg
    obtain ⟨w, hw, hp⟩ := hok.2
    have hk : resGroupKey s.resource = resGroupKey w.resource := (hok.1 s hs).trans (hok.1 w hw).symm
    rw [hp]
    simp only [resGroupKey, Prod.mk.injEq] at hk
    simp only [normRes, hk.1, hk.2]
  rw [this]
  simp only [Option.map_some, groupedSpans, List.flatMap_def]
  rw [← flatten_map_map, List.map_map]
  rfl

/-- **encode_multiset (traces).** The spans found in the payload are the non-nil input spans, each exactly
once (a permutation: grouping only reorders). -/
theorem spans_encode_multiset (sdl : List (Option Span)) : (groupedSpans sdl).Perm (sdl.filterMap id) :=
  groupedSpans_perm sdl

/-- **encode_grouping (traces).** No two ResourceSpans have the same resource key (attributes + schema URL),
every span of a group has the group's key, and the group's resource is the resource of one of its spans; inside a
ResourceSpans no two ScopeSpans have the same scope and every span sits under its own scope. -/
theorem spans_encode_grouping (sdl : List (Option Span)) :
    let gs := groupBy (fun s : Span => resGroupKey s.resource) (·.resource) (sdl.filterMap id)
    (gs.map (·.1)).Nodup ∧
    (∀ g ∈ gs, (∀ s ∈ g.2.2, resGroupKey s.resource = g.1) ∧ (∃ s ∈ g.2.2, g.2.1 = s.resource) ∧
      ((groupBy (·.scope) (fun _ => ()) g.2.2).map (·.1)).Nodup ∧
      ∀ sg ∈ groupBy (·.scope) (fun _ => ()) g.2.2, ∀ s ∈ sg.2.2, s.scope = sg.1) := by
  intro gs
  refine ⟨groupBy_nodup _ _ _, ?_⟩
  intro g hg
  have hok := groupBy_ok (fun s : Span => resGroupKey s.resource) (·.resource) _ g hg
  refine ⟨hok.1, hok.2, groupBy_nodup _ _ _, ?_⟩
  intro sg hsg s hs
  exact (groupBy_ok (fun s : Span => s.scope) (fun _ => ()) _ sg hsg).1 s hs

/-- **spans: the payload determines every named field.** Two batches that are encoded to the same payload have
the same normalised spans — group by group in the same order, hence the same multiset of normalised input spans:
no field kept by `normSpan` (ids, parent span id and remote bit, name, kind, timestamps, attributes, events, links,
status, dropped counts, resource, scope) can change without the payload changing. Corollary of
`spans_decode_encode`. -/
theorem spans_encode_injective (a b : List (Option Span)) (h : encodeSpans a = encodeSpans b) :
    (groupedSpans a).map normSpan = (groupedSpans b).map normSpan ∧
    ((a.filterMap id).map normSpan).Perm ((b.filterMap id).map normSpan) := by
  have h1 := spans_decode_encode a
  rw [h, spans_decode_encode b] at h1
  have heq := (Option.some.inj h1).symm
  refine ⟨heq, ?_⟩
  exact (((groupedSpans_perm a).map normSpan).symm.trans (heq ▸ List.Perm.refl _)).trans
    ((groupedSpans_perm b).map normSpan)

/-! ## logs -/

/-- **logs, normalised form (no exclusion).** What the payload of `ResourceLogs` decodes to for *any* values:
the input records in grouped order, each under its own resource (attributes + schema URL, F32 repaired) and scope,
with empty values rewritten to the string "INVALID" (`normLog`/`normLVal` — this rewriting is F33, not a tolerated
lossy point). `r.flags < 256`: trace flags are one byte. -/
theorem logs_decode_encode_normalised (rs : List LogRecord) (hf : ∀ r ∈ rs, r.flags < 256) :
    decodeLogs (encodeLogs rs) = some ((groupedLogs rs).map normLog) := by
  unfold decodeLogs encodeLogs
  have : mapOpt decodeResourceLogs ((groupBy (·.resource) (·.resource) rs).map encodeResourceLogs) =
      some ((groupBy (·.resource) (·.resource) rs).map fun g => (scopeGroupedLogs g.2.2).map normLog) := by
    apply mapOpt_map
    intro g hg
    apply decodeResourceLogs_encodeResourceLogs
    intro r hr
    have hmem := groupBy_mem _ _ _ g hg r hr
    have hok := groupBy_ok (fun r : LogRecord => r.resource) (·.resource) _ g hg
    obtain ⟨w, hw, hp⟩ := hok.2
    refine ⟨?_, hf r hmem⟩
    rw [hp]
    exact (hok.1 r hr).trans (hok.1 w hw).symm
  rw [this]
  simp only [Option.map_some, groupedLogs, List.flatMap_def]
  rw [← flatten_map_map, List.map_map]
  rfl

/-- **logs_decode_encode (partial: F33 is the ONLY exclusion).** For every batch of records without an empty value
(body, attributes, nested ones included): decoding the payload yields exactly the input records in grouped order,
each under its own resource and scope, with body and (nested) attribute values **unchanged** and severity, ids,
flags, timestamps, event name and dropped count (the F18 repair) up to the stated range points of `normLogS`. -/
theorem logs_decode_encode_partial (rs : List LogRecord) (hE : F33_applies rs = false)
    (hf : ∀ r ∈ rs, r.flags < 256) :
    decodeLogs (encodeLogs rs) = some ((groupedLogs rs).map normLogS) := by
  rw [logs_decode_encode_normalised rs hf]
  congr 1
  apply List.map_congr_left
  intro r hr
  have hmem : r ∈ rs := (groupedLogs_perm rs).subset hr
  simp only [F33_applies, List.any_eq_false] at hE
  have := hE r hmem
  simp only [Bool.or_eq_true, Bool.not_eq_true', not_or, Bool.not_eq_false] at this
  exact normLog_eq_normLogS r this.1 this.2

/-- **logs: the payload determines every named field (partial: F33 excluded).** Two batches of records
without empty values that are encoded to the same payload have the same records up to `normLogS` (body and
nested attribute values unchanged) — group by group, hence as multisets. Corollary of
`logs_decode_encode_partial`. -/
theorem logs_encode_injective_partial (a b : List LogRecord)
    (ha : F33_applies a = false ∧ ∀ r ∈ a, r.flags < 256)
    (hb : F33_applies b = false ∧ ∀ r ∈ b, r.flags < 256)
    (h : encodeLogs a = encodeLogs b) :
    (groupedLogs a).map normLogS = (groupedLogs b).map normLogS ∧ (a.map normLogS).Perm (b.map normLogS) := by
  have h1 := logs_decode_encode_partial a ha.1 ha.2
  rw [h, logs_decode_encode_partial b hb.1 hb.2] at h1
  have heq := (Option.some.inj h1).symm
  refine ⟨heq, ?_⟩
  exact (((groupedLogs_perm a).map normLogS).symm.trans (heq ▸ List.Perm.refl _)).trans
    ((groupedLogs_perm b).map normLogS)

/-- the full statement (false on the current code: F33 only) -/
def logs_decode_encode_full_statement : Prop :=
  ∀ rs : List LogRecord, (∀ r ∈ rs, r.flags < 256) →
    decodeLogs (encodeLogs rs) = some ((groupedLogs rs).map normLogS)

/-- **encode_multiset (logs).** -/
theorem logs_encode_multiset (rs : List LogRecord) : (groupedLogs rs).Perm rs := groupedLogs_perm rs

/-- **encode_grouping (logs).** Resources are keyed by attributes and schema URL. -/
theorem logs_encode_grouping (rs : List LogRecord) :
    let gs := groupBy (fun r : LogRecord => r.resource) (·.resource) rs
    (gs.map (·.1)).Nodup ∧
    (∀ g ∈ gs, (∀ r ∈ g.2.2, r.resource = g.1) ∧ (∃ r ∈ g.2.2, g.2.1 = r.resource) ∧
      ((groupBy (·.scope) (fun _ => ()) g.2.2).map (·.1)).Nodup ∧
      ∀ sg ∈ groupBy (·.scope) (fun _ => ()) g.2.2, ∀ r ∈ sg.2.2, r.scope = sg.1) := by
  intro gs
  refine ⟨groupBy_nodup _ _ _, ?_⟩
  intro g hg
  have hok := groupBy_ok (fun r : LogRecord => r.resource) (·.resource) _ g hg
  refine ⟨hok.1, hok.2, groupBy_nodup _ _ _, ?_⟩
  intro sg hsg r hr
  exact (groupBy_ok (fun r : LogRecord => r.scope) (fun _ => ()) _ sg hsg).1 r hr

/-! ## metrics -/

/-- **metrics_decode_encode (partial: F17 excluded).** For every `ResourceMetrics` (any number of scopes,
repeated or empty scopes, the nine aggregation types, both number types, exemplars, absent min/max): decoding the
payload gives the input back — resource, every scope in place, every *valid* metric and every data point once and
in order, with temporality, monotonicity, bucket layouts (bounds, counts, scale, offsets, zero count), quantiles
and values — up to `normResourceMetrics`: metrics without a known aggregation/temporality are dropped (and
reported, `metrics_error_iff`), negative times → 0, and int64 histogram sum/min/max travel as doubles. -/
theorem metrics_decode_encode_partial (rm : ResourceMetrics) (h : F17_applies rm = false) :
    decodeResourceMetrics (encodeResourceMetrics rm) = some (normResourceMetrics rm) := by
  have hz : ∀ sm ∈ rm.scopeMetrics, ∀ m ∈ sm.metrics, m.valid = true → aggZT0 m.data := by
    intro sm hsm m hm hv p hp
    unfold F17_applies at h
    have h1 := (List.any_eq_false.mp h) sm hsm
    rw [Bool.not_eq_true] at h1
    have h2 := (List.any_eq_false.mp h1) m (List.mem_filter.mpr ⟨hm, hv⟩)
    rw [Bool.not_eq_true] at h2
    have h3 := (List.any_eq_false.mp h2) p hp
    simpa using h3
  have hs : mapOpt decodeScopeMetrics (rm.scopeMetrics.map encodeScopeMetrics) =
      some (rm.scopeMetrics.map normScopeMetrics) :=
    mapOpt_map _ _ _ _ (fun sm hsm => decodeScopeMetrics_encodeScopeMetrics sm (hz sm hsm))
  cases rm with
  | mk res sms =>
    simp only at hs
    simp [decodeResourceMetrics, encodeResourceMetrics, decodeLogResource, decodeResource, decodeKVs_encodeKVs, hs,
      normResourceMetrics, normResource]

/-- an error is returned exactly when some metric is not valid (= is dropped) -/
theorem metrics_error_iff (rm : ResourceMetrics) :
    encodeMetricsErr rm = rm.scopeMetrics.any fun sm => sm.metrics.any fun m => !m.valid := by
  simp [encodeMetricsErr, Metric.valid, encodeMetric]

/-- nothing is lost when every metric is valid -/
theorem metrics_all_kept (sm : ScopeMetrics) (h : ∀ m ∈ sm.metrics, m.valid = true) :
    (normScopeMetrics sm).metrics = sm.metrics.map normMetric := by
  simp only [normScopeMetrics]
  rw [List.filter_eq_self.mpr h]

/-- **metrics: the payload determines every named field (partial: F17 excluded).** Two `ResourceMetrics` that
are encoded to the same payload are equal up to `normResourceMetrics`: same resource, scopes, valid metrics, data
points, temporality, monotonicity, bucket layouts, quantiles, exemplars and values. Corollary of
`metrics_decode_encode_partial`. -/
theorem metrics_encode_injective_partial (a b : ResourceMetrics)
    (ha : F17_applies a = false) (hb : F17_applies b = false)
    (h : encodeResourceMetrics a = encodeResourceMetrics b) :
    normResourceMetrics a = normResourceMetrics b := by
  have h1 := metrics_decode_encode_partial a ha
  rw [h, metrics_decode_encode_partial b hb] at h1
  exact (Option.some.inj h1).symm

/-- the full statement (false on the current code: F17) -/
def metrics_decode_encode_full_statement : Prop :=
  ∀ rm : ResourceMetrics, decodeResourceMetrics (encodeResourceMetrics rm) = some (normResourceMetrics rm)

/-! ## the known findings (F17, F33) with witnesses; the repaired ones (F16, F32) as regression examples -/

def f16Witness : List (Option Span) :=
  [some { name := [115], sc := ⟨[1, 0, 0, 0, 0, 0, 0, 0, 0, 0, 0, 0, 0, 0, 0, 0], [3, 0, 0, 0, 0, 0, 0, 0], 0, [], false⟩,
          parent := ⟨[], zeroSpanId, 0, [], false⟩, kind := 0, start := 0, stop := 0, attrs := [], events := [],
          links := [⟨⟨[1, 0, 0, 0, 0, 0, 0, 0, 0, 0, 0, 0, 0, 0, 0, 0], [2, 0, 0, 0, 0, 0, 0, 0], 0, [97, 61, 49], false⟩, [], 0⟩],
          statusCode := 0, statusDesc := [], droppedAttrs := 0, droppedEvents := 0, droppedLinks := 0, childCount := 0,
          resource := none, scope := ⟨[], [], [], []⟩ }]

/-- the former F16 witness (a link with trace state `a=1`) now round-trips with its trace state -/
example : (decodeSpans (encodeSpans f16Witness)).map (·.map (·.links.map (·.sc.traceState))) = some [[[97, 61, 49]]] := by
  decide

def f17Witness : ResourceMetrics :=
  ⟨⟨[], []⟩, [⟨⟨[], [], [], []⟩, [⟨[109], [], [], .expo [
    { attrs := [], start := 0, time := 0, count := 1, min := none, max := none, sum := .float 0x3ff0000000000000,
      scale := 0, zeroCount := 0, positive := ⟨0, []⟩, negative := ⟨0, []⟩, zeroThreshold := 0x3fd0000000000000,
      exemplars := [] }] 2⟩]⟩]⟩

/-- **F17 witness**: an exponential histogram point with ZeroThreshold 0.25 comes back with 0. -/
theorem metrics_decode_encode_witness :
    F17_applies f17Witness = true ∧
    decodeResourceMetrics (encodeResourceMetrics f17Witness) ≠ some (normResourceMetrics f17Witness) := by
  decide

def witSpan (r : Option Resource) : Span :=
  { name := [115], sc := ⟨[1, 0, 0, 0, 0, 0, 0, 0, 0, 0, 0, 0, 0, 0, 0, 0], [3, 0, 0, 0, 0, 0, 0, 0], 0, [], false⟩,
    parent := ⟨[], zeroSpanId, 0, [], false⟩, kind := 0, start := 0, stop := 0, attrs := [], events := [], links := [],
    statusCode := 0, statusDesc := [], droppedAttrs := 0, droppedEvents := 0, droppedLinks := 0, childCount := 0,
    resource := r, scope := ⟨[], [], [], []⟩ }

def f32Witness : List (Option Span) :=
  [some (witSpan (some ⟨[⟨[114], .str [49]⟩], [97]⟩)), some (witSpan (some ⟨[⟨[114], .str [49]⟩], [98]⟩))]

/-- the former F32 witness (same attributes, schema URLs `a` and `b`) now yields two ResourceSpans and each span
comes back under its own schema URL; a nil and an empty resource share one group -/
example : (encodeSpans f32Witness).length = 2 ∧
    (decodeSpans (encodeSpans f32Witness)).map (·.map (·.resource.map (·.schemaUrl))) = some [some [97], some [98]] ∧
    (encodeSpans [some (witSpan none), some (witSpan (some ⟨[], []⟩))]).length = 1 := by
  decide

def witLog (schema : Bytes) (body : LVal) : LogRecord :=
  { eventName := [], time := 0, observed := 0, severity := 0, severityText := [], body := body, attrs := [],
    traceId := zeroTraceId, spanId := zeroSpanId, flags := 0, dropped := 0,
    resource := ⟨[⟨[114], .str [49]⟩], schema⟩, scope := ⟨[], [], [], []⟩ }

def f32LogWitness : List LogRecord := [witLog [97] (.str [98]), witLog [98] (.str [98])]
def f33LogWitness : List LogRecord := [witLog [] .empty]

example : (encodeLogs f32LogWitness).length = 2 ∧
    (decodeLogs (encodeLogs f32LogWitness)).map (·.map (·.resource.schemaUrl)) = some [[97], [98]] := by
  decide

/-- **F33 witness**: a record without a body comes back with the string body "INVALID". -/
theorem logs_F33_witness :
    F33_applies f33LogWitness = true ∧
    decodeLogs (encodeLogs f33LogWitness) ≠ some ((groupedLogs f33LogWitness).map normLogS) := by
  refine ⟨by decide, ?_⟩
  intro h
  have := congrArg (fun o : Option (List LogRecord) =>
    o.map (·.map fun r => match r.body with | .str s => some s | _ => none)) h
  revert this
  decide

/-! ## the stated lossy points are the identity in range -/

/-- counts 0 … 2³²−1 are carried exactly -/
theorem clampUint32_exact (v : Int) (h : 0 ≤ v ∧ v ≤ 4294967295) : Int.ofNat (clampUint32 v) = v := by
  unfold clampUint32
  split
  · omega
  · split
    · omega
    · simp; omega

/-- times at or after the Unix epoch are carried exactly -/
theorem timeNano_exact (t : Int) (h : 0 ≤ t) : Int.ofNat (timeNano t) = t := by
  unfold timeNano
  split
  · omega
  · simp; omega

/-- the six span kinds are carried exactly -/
theorem spanKind_exact (k : Int) (h : 0 ≤ k ∧ k ≤ 5) : spanKind k = k := by
  unfold spanKind
  repeat' split
  all_goals omega

/-- the three status codes are carried exactly -/
theorem statusCode_exact (c : Nat) (h : c ≤ 2) : normStatusCode c = c := by
  unfold normStatusCode
  repeat' split
  all_goals omega

/-- severities 0 … 24 are carried exactly -/
theorem severityNumber_exact (s : Int) (h : 0 ≤ s ∧ s ≤ 24) : severityNumber s = s := by
  unfold severityNumber
  split <;> omega

/-- dropped-attribute counts 0 … 2³²−1 of a log record are carried exactly (F18 repaired) -/
theorem logDropped_exact (v : Int) (h : 0 ≤ v ∧ v ≤ 4294967295) : Int.ofNat (logDropped v) = v := by
  unfold logDropped
  split
  · simp
    omega
  · simp
    omega

/-- float64 measurements are carried bit for bit -/
theorem numToF64_float (f : F64) : normNumF (.float f) = .float f := rfl

/-- **int64 → float64 is exact up to 2⁵³.** For every `v` with |v| ≤ 2⁵³ the bit pattern produced by the
conversion model `intToF64` (Go's `float64(v)`: round to nearest even), read back by the IEEE-754 reference
reader `f64ToInt` of Spec.lean (sign, biased exponent, fraction with hidden bit → exact dyadic value), is `v`
itself: int64 histogram sum/min/max in that range lose nothing by travelling as doubles. -/
theorem intToF64_exact_in_range (v : Int) (h1 : -9007199254740992 ≤ v) (h2 : v ≤ 9007199254740992) :
    f64ToInt (intToF64 v) = some v := intToF64_exact v h1 h2

/-- **int64 → float64 is injective up to 2⁵³** (corollary of exactness) -/
theorem intToF64_injective_in_range :
    ∀ v w : Int, -9007199254740992 ≤ v → v ≤ 9007199254740992 → -9007199254740992 ≤ w → w ≤ 9007199254740992 →
      intToF64 v = intToF64 w → v = w := by
  intro v w hv1 hv2 hw1 hw2 h
  have := intToF64_exact v hv1 hv2
  rw [h, intToF64_exact w hw1 hw2] at this
  exact (Option.some.inj this).symm

/-- the same for the stated lossy point `normNumF` of histogram sum/min/max: two int64 values in range that
arrive as the same double are equal -/
theorem normNumF_int_injective_in_range (v w : Int)
    (hv : -9007199254740992 ≤ v ∧ v ≤ 9007199254740992) (hw : -9007199254740992 ≤ w ∧ w ≤ 9007199254740992)
    (h : normNumF (.int v) = normNumF (.int w)) : v = w := by
  simp only [normNumF, numToF64, Num.float.injEq] at h
  exact intToF64_injective_in_range v w hv.1 hv.2 hw.1 hw.2 h

/-- the bound 2⁵³ is tight: 2⁵³+1 is rounded (to even) onto 2⁵³ -/
theorem intToF64_not_injective_beyond_witness :
    intToF64 9007199254740993 = intToF64 9007199254740992 ∧ f64ToInt (intToF64 9007199254740993) = some 9007199254740992 := by
  decide

example : intToF64 (-9007199254740992) = 0xc340000000000000 ∧ intToF64 3 = 0x4008000000000000 ∧
    f64ToInt (intToF64 (-9007199254740991)) = some (-9007199254740991) := by decide

/-! ## Zipkin ids -/

/-- **zipkin_ids (big-endian, lossless).** Rendering the Zipkin number back to bytes gives the SDK id:
`toZipkinID`/`toZipkinTraceID` read the id big-endian and lose nothing. -/
theorem zipkin_beNat_roundtrip (b : Bytes) : toBE b.length (beNat b) = b ∧ beNat b < 256 ^ b.length := by
  induction b with
  | nil => simp [toBE, beNat]
  | cons x rest ih =>
    have hx : x.toNat < 256 := UInt8.toNat_lt x
    have hpos : 0 < 256 ^ rest.length := Nat.pow_pos (by decide)
    refine ⟨?_, ?_⟩
    · simp only [List.length_cons, toBE, beNat]
      have h1 : (x.toNat * 256 ^ rest.length + beNat rest) / 256 ^ rest.length = x.toNat := by
        rw [Nat.add_comm, Nat.add_mul_div_right _ _ hpos, Nat.div_eq_of_lt ih.2]; simp
      have h2 : (x.toNat * 256 ^ rest.length + beNat rest) % 256 ^ rest.length = beNat rest := by
        rw [Nat.add_comm, Nat.add_mul_mod_self_right, Nat.mod_eq_of_lt ih.2]
      rw [h1, h2, ih.1, Nat.mod_eq_of_lt hx]
      simp
    · simp only [List.length_cons, beNat, Nat.pow_succ]
      calc x.toNat * 256 ^ rest.length + beNat rest
          < x.toNat * 256 ^ rest.length + 256 ^ rest.length := by omega
        _ = (x.toNat + 1) * 256 ^ rest.length := by rw [Nat.add_mul]; simp
        _ ≤ 256 * 256 ^ rest.length := Nat.mul_le_mul_right _ (by omega)
        _ = 256 ^ rest.length * 256 := Nat.mul_comm _ _

/-- **zipkin_ids (injective).** Two ids of the same length with the same Zipkin number are equal. -/
theorem zipkin_id_injective (a b : Bytes) (hl : a.length = b.length) (h : beNat a = beNat b) : a = b := by
  rw [← (zipkin_beNat_roundtrip a).1, ← (zipkin_beNat_roundtrip b).1, hl, h]

/-- **zipkin_ids (trace id halves).** High is the first 8 bytes, Low the last 8, both below 2⁶⁴, and together
they give the 16-byte trace id back. -/
theorem zipkin_trace_id (tid : Bytes) (h : tid.length = 16) :
    toBE 8 (zipkinTraceId tid).1 ++ toBE 8 (zipkinTraceId tid).2 = tid ∧
    (zipkinTraceId tid).1 < 2 ^ 64 ∧ (zipkinTraceId tid).2 < 2 ^ 64 := by
  have h1 := zipkin_beNat_roundtrip (tid.take 8)
  have h2 := zipkin_beNat_roundtrip (tid.drop 8)
  have l1 : (tid.take 8).length = 8 := by simp [h]
  have l2 : (tid.drop 8).length = 8 := by simp [h]
  rw [l1] at h1
  rw [l2] at h2
  refine ⟨?_, ?_, ?_⟩
  · simp only [zipkinTraceId]
    rw [h1.1, h2.1, List.take_append_drop]
  · exact h1.2
  · exact h2.2

/-- **zipkin_ids (parent).** The parent id is absent exactly for the all-zero (invalid) parent span id and is
otherwise its big-endian reading. -/
theorem zipkin_parent_id (pid : Bytes) :
    (zipkinParentId pid = none ↔ idValid pid = false) ∧
    ∀ p, zipkinParentId pid = some p → toBE pid.length p = pid := by
  unfold zipkinParentId
  by_cases h : idValid pid = true
  · simp [h]; exact (zipkin_beNat_roundtrip pid).1
  · simp [h]

/-- **zipkin duration** = end − start whenever that fits `time.Duration` (int64 nanoseconds) -/
theorem zipkin_duration_exact (start stop : Int)
    (h : -9223372036854775808 ≤ stop - start ∧ stop - start ≤ 9223372036854775807) :
    zipkinDuration start stop = stop - start := by
  unfold zipkinDuration
  simp only
  split
  · omega
  · split <;> omega

example : zipkinTraceId [0, 0, 0, 0, 0, 0, 1, 2, 0, 0, 0, 0, 0, 0, 0, 3] = (258, 3) := by decide

/-! ## non-vacuity: the hypotheses of the theorems above are satisfiable by non-trivial concrete cases -/


def exRes1 : Resource := ⟨[⟨[114], .str [49]⟩], [117]⟩
def exRes2 : Resource := ⟨[⟨[114], .intSlice [1, 2]⟩], []⟩
def exScope : Scope := ⟨[108, 105, 98], [118, 49], [], [⟨[107], .bool true⟩]⟩
def exSpan (r : Option Resource) (sc : Scope) (n : UInt8) : Span :=
  { name := [n], sc := ⟨[1, 0, 0, 0, 0, 0, 0, 0, 0, 0, 0, 0, 0, 0, 0, n], [n, 0, 0, 0, 0, 0, 0, 0], 1, [97, 61, 49], false⟩,
    parent := ⟨[], [9, 0, 0, 0, 0, 0, 0, 0], 0, [], true⟩, kind := 3, start := 5, stop := 9,
    attrs := [⟨[97], .float 0x3ff0000000000000⟩], events := [⟨[101], 6, [⟨[120], .int (-1)⟩], 2⟩],
    links := [⟨⟨[2, 0, 0, 0, 0, 0, 0, 0, 0, 0, 0, 0, 0, 0, 0, 0], [7, 0, 0, 0, 0, 0, 0, 0], 0, [], true⟩, [], 1⟩],
    statusCode := 1, statusDesc := [100], droppedAttrs := 3, droppedEvents := 4294967296, droppedLinks := -1,
    childCount := 0, resource := r, scope := sc }
/-- three resources/scopes mixed, one nil entry -/
def exBatch : List (Option Span) :=
  [some (exSpan (some exRes1) exScope 1), none, some (exSpan (some exRes2) ⟨[], [], [], []⟩ 2),
   some (exSpan (some exRes1) ⟨[], [], [], []⟩ 3), some (exSpan none exScope 4), some (exSpan (some exRes1) exScope 5)]

example : (encodeSpans exBatch).length = 3 ∧ (groupedSpans exBatch).map (·.name) = [[1], [5], [3], [2], [4]] ∧
    decodeSpans (encodeSpans exBatch) = some ((groupedSpans exBatch).map normSpan) := by decide

/-- the hypothesis of `spans_encode_injective` is met by two different batches with the same payload
(nil entries are skipped), and a batch that differs in one named field has another payload -/
example : exBatch.length ≠ (exBatch.filter Option.isSome).length ∧
    (encodeSpans exBatch == encodeSpans (exBatch.filter Option.isSome)) = true ∧
    (encodeSpans [some (exSpan none exScope 1)] == encodeSpans [some { exSpan none exScope 1 with kind := 2 }]) = false := by
  decide

def exLog (r : Resource) (sc : Scope) (n : UInt8) : LogRecord :=
  { eventName := [n], time := 5, observed := -1, severity := 9, severityText := [73],
    body := .map [([107], .slice [.int 1, .empty, .map [([], .bytes [0])]])], attrs := [([97], .str [n])],
    traceId := [1, 0, 0, 0, 0, 0, 0, 0, 0, 0, 0, 0, 0, 0, 0, n], spanId := [0, 0, 0, 0, 0, 0, 0, 0], flags := 1,
    dropped := 7, resource := r, scope := sc }
def exLogs : List LogRecord := [exLog exRes1 exScope 1, exLog ⟨[], []⟩ exScope 2, exLog exRes1 ⟨[], [], [], []⟩ 3, exLog exRes1 exScope 4]

example : (∀ r ∈ exLogs, r.flags < 256) ∧ (encodeLogs exLogs).length = 2 ∧
    (groupedLogs exLogs).map (·.eventName) = [[1], [4], [3], [2]] := by decide

def exLogsPlain : List LogRecord :=
  [witLog [97] (.map [([107], .slice [.int 1, .map [([], .bytes [0])]])]), witLog [97] (.str [98]),
   { witLog [97] (.bool true) with scope := exScope, attrs := [([97], .slice [])] }]

example : F33_applies exLogsPlain = false ∧
    (∀ r ∈ exLogsPlain, r.flags < 256) ∧ (encodeLogs exLogsPlain).length = 1 := by decide

def exMetrics : ResourceMetrics :=
  ⟨exRes1, [⟨exScope, [
    ⟨[103], [], [], .gauge [⟨[], 1, 2, .int (-5), [⟨[], 3, .int 7, [1], [2]⟩]⟩]⟩,
    ⟨[115], [], [], .sum [⟨[], 1, 2, .float 0x3ff0000000000000, []⟩] 1 true⟩,
    ⟨[104], [], [], .hist [⟨[], 1, 2, 3, [0x3ff0000000000000], [1, 2], some (.int 1), none, .int 6, []⟩] 2⟩,
    ⟨[120], [], [], .expo [⟨[], 1, 2, 3, none, none, .float 0, 2, 1, ⟨-1, [1, 2]⟩, ⟨0, []⟩, 0, []⟩] 2⟩,
    ⟨[121], [], [], .summary [⟨[], 1, 2, 3, 0, [⟨0, 0⟩]⟩]⟩,
    ⟨[98], [], [], .sum [] 0 false⟩, ⟨[117], [], [], .unknown⟩]⟩, ⟨exScope, []⟩]⟩

example : F17_applies exMetrics = false ∧ encodeMetricsErr exMetrics = true ∧
    ((encodeResourceMetrics exMetrics).scopeMetrics.map (·.metrics.length)) = [5, 0] := by decide

end Otel.C13
