/-
C13 — model of the OTLP transforms (core Lean only).

Two families of types:
* `SDK` side: what the SDK hands to an exporter (`Span`, `LogRecord`, `Metrics`, …). Go strings are `Bytes`,
  `time.Time` is its `UnixNano()` (an `Int`), `float64` is its IEEE bit pattern (`F64 = UInt64`), an
  `attribute.Set`/`Resource` is its attribute list in the Set's canonical order (canonicalisation is C05's
  subject), a `trace.TraceState` is its `String()` form (C03's subject).
* `PB` side (`P…` structures): decoded protobuf messages, one structure per OTLP message with **every** field of
  the `.proto` (field-number order), so that a field the code does not set is visibly default.  The protobuf
  wire format itself is not modelled: the harness passes every message through `proto.Marshal`/`Unmarshal`.

`encode*` mirror the Go transforms field by field (exporters/otlp/otlptrace/internal/tracetransform,
otlpmetric*/internal/transform, otlplog*/internal/transform), including the quirks:
grouping by resource *attribute set* (schema URL and nil-ness of the first-seen resource win), nil scope only in
the trace/log copies, `"INVALID"` default, clamp/max-0, the enum tables, dropped metrics on unknown temporality,
and only the fields the code sets (F17: ZeroThreshold). Models the tree after the F16 repair (fe0bf20: link trace
state set) and the F32 repair (089ce94: resources keyed by attributes AND schema URL).
-/
import Otel.Base.Wire
namespace Otel.C13

abbrev F64 := UInt64

/-- `attribute.Value` -/
inductive Val where
  | invalid
  | bool (b : Bool)
  | int (i : Int)
  | float (f : F64)
  | str (s : Bytes)
  | boolSlice (l : List Bool)
  | intSlice (l : List Int)
  | floatSlice (l : List F64)
  | strSlice (l : List Bytes)
  /-- only produced by the reference decoder: an empty array (OTLP arrays are untyped, so the element type of
  an empty slice cannot be recovered) -/
  | emptySlice
  deriving DecidableEq, Repr, Inhabited

structure KV where
  key : Bytes
  val : Val
  deriving DecidableEq, Repr

/-- `log.Value` (nested) -/
inductive LVal where
  | empty
  | bool (b : Bool)
  | int (i : Int)
  | float (f : F64)
  | str (s : Bytes)
  | bytes (s : Bytes)
  | slice (l : List LVal)
  | map (l : List (Bytes × LVal))
  deriving Repr, Inhabited

/-- `opentelemetry.proto.common.v1.AnyValue` (oneof; `unset` = no member set) -/
inductive AnyValue where
  | unset
  | str (s : Bytes)
  | bool (b : Bool)
  | int (i : Int)
  | dbl (f : F64)
  | arr (vs : List AnyValue)
  | kvl (kvs : List (Bytes × AnyValue))
  | bytes (b : Bytes)
  deriving Repr, Inhabited

/-- `KeyValue` with a non-nil value (a nil `value` is not representable: the driver reports it as a failure) -/
abbrev PKV := Bytes × AnyValue

mutual
  def AnyValue.beq : AnyValue → AnyValue → Bool
    | .unset, .unset => true
    | .str a, .str b => a == b
    | .bool a, .bool b => a == b
    | .int a, .int b => a == b
    | .dbl a, .dbl b => a == b
    | .arr a, .arr b => AnyValue.beqList a b
    | .kvl a, .kvl b => AnyValue.beqKVs a b
    | .bytes a, .bytes b => a == b
    | _, _ => false
  def AnyValue.beqList : List AnyValue → List AnyValue → Bool
    | [], [] => true
    | a :: as, b :: bs => AnyValue.beq a b && AnyValue.beqList as bs
    | _, _ => false
  def AnyValue.beqKVs : List (Bytes × AnyValue) → List (Bytes × AnyValue) → Bool
    | [], [] => true
    | (k, a) :: as, (l, b) :: bs => k == l && AnyValue.beq a b && AnyValue.beqKVs as bs
    | _, _ => false
end
instance : BEq AnyValue := ⟨AnyValue.beq⟩

mutual
  def LVal.beq : LVal → LVal → Bool
    | .empty, .empty => true
    | .bool a, .bool b => a == b
    | .int a, .int b => a == b
    | .float a, .float b => a == b
    | .str a, .str b => a == b
    | .bytes a, .bytes b => a == b
    | .slice a, .slice b => LVal.beqList a b
    | .map a, .map b => LVal.beqKVs a b
    | _, _ => false
  def LVal.beqList : List LVal → List LVal → Bool
    | [], [] => true
    | a :: as, b :: bs => LVal.beq a b && LVal.beqList as bs
    | _, _ => false
  def LVal.beqKVs : List (Bytes × LVal) → List (Bytes × LVal) → Bool
    | [], [] => true
    | (k, a) :: as, (l, b) :: bs => k == l && LVal.beq a b && LVal.beqKVs as bs
    | _, _ => false
end
instance : BEq LVal := ⟨LVal.beq⟩

/-- the bytes of the Go string literal `"INVALID"` -/
def invalidStr : Bytes := [73, 78, 86, 65, 76, 73, 68]

/-! ### attribute values (tracetransform/attribute.go:51-149; identical in the metric and log copies) -/

/-- `Value` / `AttrValue` -/
def encodeVal : Val → AnyValue
  | .bool b => .bool b
  | .boolSlice l => .arr (l.map .bool)
  | .int i => .int i
  | .intSlice l => .arr (l.map .int)
  | .float f => .dbl f
  | .floatSlice l => .arr (l.map .dbl)
  | .str s => .str s
  | .strSlice l => .arr (l.map .str)
  | .emptySlice => .arr []
  | .invalid => .str invalidStr

/-- `KeyValue` / `Attr` -/
def encodeKV (kv : KV) : PKV := (kv.key, encodeVal kv.val)

/-- `KeyValues` / `Iterator` / `AttrIter` (a nil result and an empty one are the same repeated field) -/
def encodeKVs (kvs : List KV) : List PKV := kvs.map encodeKV

/-! ### log values (otlplog*/internal/transform/log.go:261-340) -/
mutual
  /-- `LogAttrValue` -/
  def encodeLVal : LVal → AnyValue
    | .bool b => .bool b
    | .int i => .int i
    | .float f => .dbl f
    | .str s => .str s
    | .bytes b => .bytes b
    | .slice l => .arr (encodeLVals l)
    | .map l => .kvl (encodeLKVs l)
    | .empty => .str invalidStr
  /-- `LogAttrValues` -/
  def encodeLVals : List LVal → List AnyValue
    | [] => []
    | v :: vs => encodeLVal v :: encodeLVals vs
  /-- `LogAttrs` -/
  def encodeLKVs : List (Bytes × LVal) → List (Bytes × AnyValue)
    | [] => []
    | (k, v) :: kvs => (k, encodeLVal v) :: encodeLKVs kvs
end

/-! ### shared scalars -/

/-- `clampUint32` (span.go:124-132) -/
def clampUint32 (v : Int) : Nat :=
  if v < 0 then 0 else if v > 4294967295 then 4294967295 else v.toNat

/-- `uint64(max(0, t.UnixNano()))` / `timeUnixNano` -/
def timeNano (t : Int) : Nat := if t < 0 then 0 else t.toNat

/-! ### resource / scope messages -/
structure Resource where
  attrs : List KV
  schemaUrl : Bytes
  deriving DecidableEq, Repr

structure Scope where
  name : Bytes
  version : Bytes
  schemaUrl : Bytes
  attrs : List KV
  deriving DecidableEq, Repr

/-- `instrumentation.Scope{}` -/
def Scope.isZero (s : Scope) : Bool := s.name == [] && s.version == [] && s.schemaUrl == [] && s.attrs == []

structure PResource where
  attrs : List PKV            -- 1
  dropped : Nat               -- 2
  deriving BEq, Repr

structure PScope where
  name : Bytes                -- 1
  version : Bytes             -- 2
  attrs : List PKV            -- 3
  dropped : Nat               -- 4
  deriving BEq, Repr

/-- grouping key of a resource: `Resource.Equivalent()` = its attribute set (nil resource = empty set) -/
def resKey : Option Resource → List KV
  | none => []
  | some r => r.attrs

def resSchema : Option Resource → Bytes
  | none => []
  | some r => r.schemaUrl

/-! ### generic first-seen grouping (the two Go maps `rsm`/`ssm`, `resMap`/`scopeMap`) -/
section Group
variable {K P V : Type} [DecidableEq K]

/-- add `v` to the group with key `k`, creating it (with payload `p`) at the end when the key is new -/
def insertG (k : K) (p : P) (v : V) : List (K × P × List V) → List (K × P × List V)
  | [] => [(k, p, [v])]
  | (k', p', vs) :: rest =>
    if k' = k then (k', p', vs ++ [v]) :: rest else (k', p', vs) :: insertG k p v rest

def groupFrom (key : V → K) (pay : V → P) (acc : List (K × P × List V)) : List V → List (K × P × List V)
  | [] => acc
  | x :: xs => groupFrom key pay (insertG (key x) (pay x) x acc) xs

/-- groups in first-seen order, members in input order, payload taken from the first member -/
def groupBy (key : V → K) (pay : V → P) (xs : List V) : List (K × P × List V) := groupFrom key pay [] xs
end Group

/-! ### traces (tracetransform/span.go) -/
structure SpanCtx where
  traceId : Bytes
  spanId : Bytes
  flags : Nat
  traceState : Bytes
  remote : Bool
  deriving DecidableEq, Repr

structure Event where
  name : Bytes
  time : Int
  attrs : List KV
  dropped : Int
  deriving DecidableEq, Repr

structure Link where
  sc : SpanCtx
  attrs : List KV
  dropped : Int
  deriving DecidableEq, Repr

structure Span where
  name : Bytes
  sc : SpanCtx
  parent : SpanCtx
  kind : Int
  start : Int
  stop : Int
  attrs : List KV
  events : List Event
  links : List Link
  statusCode : Nat
  statusDesc : Bytes
  droppedAttrs : Int
  droppedEvents : Int
  droppedLinks : Int
  childCount : Int
  resource : Option Resource
  scope : Scope
  deriving DecidableEq, Repr

structure PStatus where
  message : Bytes             -- 2
  code : Int                  -- 3
  deriving BEq, Repr

structure PEvent where
  time : Nat                  -- 1
  name : Bytes                -- 2
  attrs : List PKV            -- 3
  dropped : Nat               -- 4
  deriving BEq, Repr

structure PLink where
  traceId : Bytes             -- 1
  spanId : Bytes              -- 2
  traceState : Bytes          -- 3
  attrs : List PKV            -- 4
  dropped : Nat               -- 5
  flags : Nat                 -- 6
  deriving BEq, Repr

structure PSpan where
  traceId : Bytes             -- 1
  spanId : Bytes              -- 2
  traceState : Bytes          -- 3
  parentSpanId : Bytes        -- 4
  name : Bytes                -- 5
  kind : Int                  -- 6
  start : Nat                 -- 7
  stop : Nat                  -- 8
  attrs : List PKV            -- 9
  droppedAttrs : Nat          -- 10
  events : List PEvent        -- 11
  droppedEvents : Nat         -- 12
  links : List PLink          -- 13
  droppedLinks : Nat          -- 14
  status : Option PStatus     -- 15
  flags : Nat                 -- 16
  deriving BEq, Repr

structure PScopeSpans where
  scope : Option PScope       -- 1
  spans : List PSpan          -- 2
  schemaUrl : Bytes           -- 3
  deriving BEq, Repr

structure PResourceSpans where
  resource : Option PResource -- 1
  scopeSpans : List PScopeSpans -- 2
  schemaUrl : Bytes           -- 3
  deriving BEq, Repr

/-- `SpanID.IsValid`: not all zero -/
def idValid (b : Bytes) : Bool := b.any (· != 0)

/-- `status` (span.go:135-149): codes.Unset=0, codes.Error=1, codes.Ok=2 → UNSET=0, OK=1, ERROR=2 -/
def statusCode (c : Nat) : Int := if c = 2 then 1 else if c = 1 then 2 else 0

/-- `spanKind` (span.go:203-219) -/
def spanKind (k : Int) : Int :=
  if k = 1 then 1 else if k = 3 then 3 else if k = 2 then 2 else if k = 4 then 4 else if k = 5 then 5 else 0

/-- `buildSpanFlags`: HAS_IS_REMOTE (0x100), plus IS_REMOTE (0x200) -/
def spanFlags (sc : SpanCtx) : Nat := if sc.remote then 768 else 256

/-- `spanEvents` -/
def encodeEvent (e : Event) : PEvent :=
  { time := timeNano e.time, name := e.name, attrs := encodeKVs e.attrs, dropped := clampUint32 e.dropped }

/-- `links` (`TraceState` set since fe0bf20) -/
def encodeLink (l : Link) : PLink :=
  { traceId := l.sc.traceId, spanId := l.sc.spanId, traceState := l.sc.traceState, attrs := encodeKVs l.attrs,
    dropped := clampUint32 l.dropped, flags := spanFlags l.sc }

/-- `span` (span.go:89-122) -/
def encodeSpan (s : Span) : PSpan :=
  { traceId := s.sc.traceId, spanId := s.sc.spanId, traceState := s.sc.traceState,
    parentSpanId := if idValid s.parent.spanId then s.parent.spanId else [],
    name := s.name, kind := spanKind s.kind, start := timeNano s.start, stop := timeNano s.stop,
    attrs := encodeKVs s.attrs, droppedAttrs := clampUint32 s.droppedAttrs,
    events := s.events.map encodeEvent, droppedEvents := clampUint32 s.droppedEvents,
    links := s.links.map encodeLink, droppedLinks := clampUint32 s.droppedLinks,
    status := some { message := s.statusDesc, code := statusCode s.statusCode },
    flags := spanFlags s.parent }

/-- `Resource` (resource.go): nil stays nil -/
def encodeTraceResource : Option Resource → Option PResource
  | none => none
  | some r => some { attrs := encodeKVs r.attrs, dropped := 0 }

/-- `InstrumentationScope` (instrumentation.go): the zero scope becomes nil -/
def encodeTraceScope (s : Scope) : Option PScope :=
  if s.isZero then none else some { name := s.name, version := s.version, attrs := encodeKVs s.attrs, dropped := 0 }

def encodeScopeSpans (g : Scope × Unit × List Span) : PScopeSpans :=
  { scope := encodeTraceScope g.1, spans := g.2.2.map encodeSpan, schemaUrl := g.1.schemaUrl }

/-- grouping key of a resource since 089ce94: `resKey{r: Resource.Equivalent(), url: Resource.SchemaURL()}` -/
def resGroupKey (o : Option Resource) : List KV × Bytes := (resKey o, resSchema o)

def encodeResourceSpans (g : (List KV × Bytes) × Option Resource × List Span) : PResourceSpans :=
  { resource := encodeTraceResource g.2.1,
    scopeSpans := (groupBy (·.scope) (fun _ => ()) g.2.2).map encodeScopeSpans,
    schemaUrl := resSchema g.2.1 }

/-- `Spans` (span.go:19-86): nil spans skipped; ResourceSpans in first-seen order here (Go: map order) -/
def encodeSpans (sdl : List (Option Span)) : List PResourceSpans :=
  (groupBy (fun s => resGroupKey s.resource) (·.resource) (sdl.filterMap id)).map encodeResourceSpans

/-! ### logs (otlplog*/internal/transform/log.go:25-118) -/
structure LogRecord where
  eventName : Bytes
  time : Int
  observed : Int
  severity : Int
  severityText : Bytes
  body : LVal
  attrs : List (Bytes × LVal)
  traceId : Bytes
  spanId : Bytes
  flags : Nat
  dropped : Int
  resource : Resource
  scope : Scope
  deriving BEq, Repr

structure PLogRecord where
  time : Nat                  -- 1
  severity : Int              -- 2
  severityText : Bytes        -- 3
  body : Option AnyValue      -- 5
  attrs : List PKV            -- 6
  dropped : Nat               -- 7
  flags : Nat                 -- 8
  traceId : Bytes             -- 9
  spanId : Bytes              -- 10
  observed : Nat              -- 11
  eventName : Bytes           -- 12
  deriving BEq, Repr

structure PScopeLogs where
  scope : Option PScope       -- 1
  records : List PLogRecord   -- 2
  schemaUrl : Bytes           -- 3
  deriving BEq, Repr

structure PResourceLogs where
  resource : Option PResource -- 1
  scopeLogs : List PScopeLogs -- 2
  schemaUrl : Bytes           -- 3
  deriving BEq, Repr

/-- `SeverityNumber` (log.go:341-393): the 24 named severities map to the enum value with the same number,
everything else to UNSPECIFIED -/
def severityNumber (s : Int) : Int := if 1 ≤ s ∧ s ≤ 24 then s else 0

/-- `uint32(min(record.DroppedAttributes(), math.MaxUint32))` (after the F18 repair): a Go `int → uint32`
conversion keeps the low 32 bits, so a negative count wraps -/
def logDropped (v : Int) : Nat := ((if v < 4294967295 then v else 4294967295) % 4294967296).toNat

/-- `LogRecord` (log.go:89-118) -/
def encodeLogRecord (r : LogRecord) : PLogRecord :=
  { time := timeNano r.time, observed := timeNano r.observed, eventName := r.eventName,
    severity := severityNumber r.severity, severityText := r.severityText,
    body := some (encodeLVal r.body), attrs := encodeLKVs r.attrs, flags := r.flags,
    dropped := logDropped r.dropped,
    traceId := if idValid r.traceId then r.traceId else [],
    spanId := if idValid r.spanId then r.spanId else [] }

/-- the Resource message is only set when the resource has attributes -/
def encodeLogResource (r : Resource) : Option PResource :=
  if r.attrs.isEmpty then none else some { attrs := encodeKVs r.attrs, dropped := 0 }

def encodeScopeLogs (g : Scope × Unit × List LogRecord) : PScopeLogs :=
  if g.1.isZero then { scope := none, records := g.2.2.map encodeLogRecord, schemaUrl := [] }
  else { scope := some { name := g.1.name, version := g.1.version, attrs := encodeKVs g.1.attrs, dropped := 0 },
         records := g.2.2.map encodeLogRecord, schemaUrl := g.1.schemaUrl }

def encodeResourceLogs (g : Resource × Resource × List LogRecord) : PResourceLogs :=
  { resource := encodeLogResource g.2.1,
    scopeLogs := (groupBy (·.scope) (fun _ => ()) g.2.2).map encodeScopeLogs,
    schemaUrl := g.2.1.schemaUrl }

/-- `ResourceLogs` (log.go:25-86) -/
def encodeLogs (rs : List LogRecord) : List PResourceLogs :=
  (groupBy (·.resource) (·.resource) rs).map encodeResourceLogs

/-! ### metrics (otlpmetric*/internal/transform/metricdata.go) -/

/-- a measurement value of number type int64 or float64 -/
inductive Num where
  | int (v : Int)
  | float (f : F64)
  deriving DecidableEq, Repr

structure Exemplar where
  filtered : List KV
  time : Int
  value : Num
  spanId : Bytes
  traceId : Bytes
  deriving DecidableEq, Repr

structure DataPoint where
  attrs : List KV
  start : Int
  time : Int
  value : Num
  exemplars : List Exemplar
  deriving DecidableEq, Repr

structure HistPoint where
  attrs : List KV
  start : Int
  time : Int
  count : Nat
  bounds : List F64
  bucketCounts : List Nat
  min : Option Num
  max : Option Num
  sum : Num
  exemplars : List Exemplar
  deriving DecidableEq, Repr

structure ExpoBucket where
  offset : Int
  counts : List Nat
  deriving DecidableEq, Repr

structure ExpoPoint where
  attrs : List KV
  start : Int
  time : Int
  count : Nat
  min : Option Num
  max : Option Num
  sum : Num
  scale : Int
  zeroCount : Nat
  positive : ExpoBucket
  negative : ExpoBucket
  zeroThreshold : F64
  exemplars : List Exemplar
  deriving DecidableEq, Repr

structure Quantile where
  quantile : F64
  value : F64
  deriving DecidableEq, Repr

structure SummaryPoint where
  attrs : List KV
  start : Int
  time : Int
  count : Nat
  sum : F64
  quantiles : List Quantile
  deriving DecidableEq, Repr

/-- `metricdata.Aggregation`: the nine concrete types (number type = the `Num` tags inside), or anything else
(`unknown`: nil / a foreign implementation) -/
inductive Agg where
  | gauge (pts : List DataPoint)
  | sum (pts : List DataPoint) (temporality : Nat) (monotonic : Bool)
  | hist (pts : List HistPoint) (temporality : Nat)
  | expo (pts : List ExpoPoint) (temporality : Nat)
  | summary (pts : List SummaryPoint)
  | unknown
  deriving DecidableEq, Repr

structure Metric where
  name : Bytes
  desc : Bytes
  unit : Bytes
  data : Agg
  deriving DecidableEq, Repr

structure ScopeMetrics where
  scope : Scope
  metrics : List Metric
  deriving DecidableEq, Repr

structure ResourceMetrics where
  resource : Resource
  scopeMetrics : List ScopeMetrics
  deriving DecidableEq, Repr

structure PExemplar where
  time : Nat                  -- 2
  asDouble : Option F64       -- 3
  spanId : Bytes              -- 4
  traceId : Bytes             -- 5
  asInt : Option Int          -- 6
  filtered : List PKV         -- 7
  deriving BEq, Repr

structure PNumberPoint where
  start : Nat                 -- 2
  time : Nat                  -- 3
  asDouble : Option F64       -- 4
  exemplars : List PExemplar  -- 5
  asInt : Option Int          -- 6
  attrs : List PKV            -- 7
  flags : Nat                 -- 8
  deriving BEq, Repr

structure PHistPoint where
  start : Nat                 -- 2
  time : Nat                  -- 3
  count : Nat                 -- 4
  sum : Option F64            -- 5
  bucketCounts : List Nat     -- 6
  bounds : List F64           -- 7
  exemplars : List PExemplar  -- 8
  attrs : List PKV            -- 9
  flags : Nat                 -- 10
  min : Option F64            -- 11
  max : Option F64            -- 12
  deriving BEq, Repr

structure PBuckets where
  offset : Int                -- 1
  counts : List Nat           -- 2
  deriving BEq, Repr

structure PExpoPoint where
  attrs : List PKV            -- 1
  start : Nat                 -- 2
  time : Nat                  -- 3
  count : Nat                 -- 4
  sum : Option F64            -- 5
  scale : Int                 -- 6
  zeroCount : Nat             -- 7
  positive : Option PBuckets  -- 8
  negative : Option PBuckets  -- 9
  flags : Nat                 -- 10
  exemplars : List PExemplar  -- 11
  min : Option F64            -- 12
  max : Option F64            -- 13
  zeroThreshold : F64         -- 14
  deriving BEq, Repr

structure PQuantile where
  quantile : F64              -- 1
  value : F64                 -- 2
  deriving BEq, Repr

structure PSummaryPoint where
  start : Nat                 -- 2
  time : Nat                  -- 3
  count : Nat                 -- 4
  sum : F64                   -- 5
  quantiles : List PQuantile  -- 6
  attrs : List PKV            -- 7
  flags : Nat                 -- 8
  deriving BEq, Repr

/-- the `data` oneof of `Metric` (fields 5, 7, 9, 10, 11) -/
inductive PData where
  | unset
  | gauge (pts : List PNumberPoint)
  | sum (pts : List PNumberPoint) (temporality : Int) (monotonic : Bool)
  | hist (pts : List PHistPoint) (temporality : Int)
  | expo (pts : List PExpoPoint) (temporality : Int)
  | summary (pts : List PSummaryPoint)
  deriving BEq, Repr

structure PMetric where
  name : Bytes                -- 1
  desc : Bytes                -- 2
  unit : Bytes                -- 3
  data : PData                -- 5/7/9/10/11
  metadata : List PKV         -- 12
  deriving BEq, Repr

structure PScopeMetrics where
  scope : Option PScope       -- 1
  metrics : List PMetric      -- 2
  schemaUrl : Bytes           -- 3
  deriving BEq, Repr

structure PResourceMetrics where
  resource : Option PResource -- 1
  scopeMetrics : List PScopeMetrics -- 2
  schemaUrl : Bytes           -- 3
  deriving BEq, Repr

/-- Go's `float64(m)` for a natural number `0 < m < 2⁶⁴`: round to nearest, ties to even, as IEEE bits
(without the sign) -/
def natToF64 (m : Nat) : Nat :=
  let l := Nat.log2 m + 1          -- bit length
  if l ≤ 53 then
    (1022 + l) * 2 ^ 52 + (m * 2 ^ (53 - l) - 2 ^ 52)
  else
    let sh := l - 53
    let q := m / 2 ^ sh
    let r := m % 2 ^ sh
    let half := 2 ^ (sh - 1)
    let q' := if r > half ∨ (r = half ∧ q % 2 = 1) then q + 1 else q
    (1022 + l) * 2 ^ 52 + (q' - 2 ^ 52)

/-- Go's `float64(v)` for an `int64`, as IEEE bits -/
def intToF64 (v : Int) : F64 :=
  if v = 0 then 0
  else if v > 0 then UInt64.ofNat (natToF64 v.toNat)
  else UInt64.ofNat (2 ^ 63 + natToF64 (-v).toNat)

/-- `float64(dPt.Sum)` etc. (the OTLP histogram points have only double fields) -/
def numToF64 : Num → F64
  | .int v => intToF64 v
  | .float f => f

/-- `Temporality` (metricdata.go:281-292): Cumulative=1 → CUMULATIVE=2, Delta=2 → DELTA=1, else error -/
def temporality (t : Nat) : Option Int := if t = 2 then some 1 else if t = 1 then some 2 else none

/-- `Exemplars` -/
def encodeExemplar (e : Exemplar) : PExemplar :=
  { filtered := encodeKVs e.filtered, time := timeNano e.time, spanId := e.spanId, traceId := e.traceId,
    asInt := match e.value with | .int v => some v | .float _ => none,
    asDouble := match e.value with | .int _ => none | .float f => some f }

/-- `DataPoints` -/
def encodeDataPoint (d : DataPoint) : PNumberPoint :=
  { attrs := encodeKVs d.attrs, start := timeNano d.start, time := timeNano d.time,
    exemplars := d.exemplars.map encodeExemplar, flags := 0,
    asInt := match d.value with | .int v => some v | .float _ => none,
    asDouble := match d.value with | .int _ => none | .float f => some f }

/-- `HistogramDataPoints` -/
def encodeHistPoint (d : HistPoint) : PHistPoint :=
  { attrs := encodeKVs d.attrs, start := timeNano d.start, time := timeNano d.time, count := d.count,
    sum := some (numToF64 d.sum), bucketCounts := d.bucketCounts, bounds := d.bounds,
    exemplars := d.exemplars.map encodeExemplar, flags := 0,
    min := d.min.map numToF64, max := d.max.map numToF64 }

/-- `ExponentialHistogramDataPointBuckets` -/
def encodeBuckets (b : ExpoBucket) : PBuckets := { offset := b.offset, counts := b.counts }

/-- `ExponentialHistogramDataPoints`: `ZeroThreshold` is not set (F17) -/
def encodeExpoPoint (d : ExpoPoint) : PExpoPoint :=
  { attrs := encodeKVs d.attrs, start := timeNano d.start, time := timeNano d.time, count := d.count,
    sum := some (numToF64 d.sum), scale := d.scale, zeroCount := d.zeroCount,
    exemplars := d.exemplars.map encodeExemplar, flags := 0,
    positive := some (encodeBuckets d.positive), negative := some (encodeBuckets d.negative),
    min := d.min.map numToF64, max := d.max.map numToF64, zeroThreshold := 0 }

/-- `SummaryDataPoints` / `QuantileValues` -/
def encodeSummaryPoint (d : SummaryPoint) : PSummaryPoint :=
  { attrs := encodeKVs d.attrs, start := timeNano d.start, time := timeNano d.time, count := d.count, sum := d.sum,
    quantiles := d.quantiles.map fun q => { quantile := q.quantile, value := q.value }, flags := 0 }

/-- the `switch` of `metric` (metricdata.go:83-112): `none` = an error is returned and the metric is dropped -/
def encodeAgg : Agg → Option PData
  | .gauge pts => some (.gauge (pts.map encodeDataPoint))
  | .sum pts t mono => (temporality t).map fun t' => .sum (pts.map encodeDataPoint) t' mono
  | .hist pts t => (temporality t).map fun t' => .hist (pts.map encodeHistPoint) t'
  | .expo pts t => (temporality t).map fun t' => .expo (pts.map encodeExpoPoint) t'
  | .summary pts => some (.summary (pts.map encodeSummaryPoint))
  | .unknown => none

def encodeMetric (m : Metric) : Option PMetric :=
  (encodeAgg m.data).map fun d => { name := m.name, desc := m.desc, unit := m.unit, data := d, metadata := [] }

/-- `Metrics`: invalid metrics are dropped and reported -/
def encodeMetrics (ms : List Metric) : List PMetric := ms.filterMap encodeMetric

/-- `ScopeMetrics`: the scope message is always set (no nil for the zero scope, unlike traces and logs) -/
def encodeScopeMetrics (sm : ScopeMetrics) : PScopeMetrics :=
  { scope := some { name := sm.scope.name, version := sm.scope.version, attrs := encodeKVs sm.scope.attrs, dropped := 0 },
    metrics := encodeMetrics sm.metrics, schemaUrl := sm.scope.schemaUrl }

/-- `ResourceMetrics` (metricdata.go:24-34): the resource message is always set -/
def encodeResourceMetrics (rm : ResourceMetrics) : PResourceMetrics :=
  { resource := some { attrs := encodeKVs rm.resource.attrs, dropped := 0 },
    scopeMetrics := rm.scopeMetrics.map encodeScopeMetrics, schemaUrl := rm.resource.schemaUrl }

/-- an error is returned iff some metric was dropped -/
def encodeMetricsErr (rm : ResourceMetrics) : Bool :=
  rm.scopeMetrics.any fun sm => sm.metrics.any fun m => (encodeMetric m).isNone

/-! ### Zipkin ids (exporters/zipkin/model.go:62-127) -/

/-- `binary.BigEndian.Uint64` (for any number of bytes) -/
def beNat : Bytes → Nat
  | [] => 0
  | b :: rest => b.toNat * 256 ^ rest.length + beNat rest

/-- `toZipkinTraceID`: (High, Low) -/
def zipkinTraceId (tid : Bytes) : Nat × Nat := (beNat (tid.take 8), beNat (tid.drop 8))
/-- `toZipkinID` -/
def zipkinId (sid : Bytes) : Nat := beNat sid
/-- `toZipkinParentID`: nil unless the parent span id is valid -/
def zipkinParentId (sid : Bytes) : Option Nat := if idValid sid then some (beNat sid) else none

def kSERVER : Bytes := [83, 69, 82, 86, 69, 82]
def kCLIENT : Bytes := [67, 76, 73, 69, 78, 84]
def kPRODUCER : Bytes := [80, 82, 79, 68, 85, 67, 69, 82]
def kCONSUMER : Bytes := [67, 79, 78, 83, 85, 77, 69, 82]

/-- `toZipkinKind`: unspecified and internal → Undetermined (`""`) -/
def zipkinKind (k : Int) : Bytes :=
  if k = 2 then kSERVER else if k = 3 then kCLIENT else if k = 4 then kPRODUCER else if k = 5 then kCONSUMER else []

/-- `data.EndTime().Sub(data.StartTime())`: `time.Time.Sub` saturates at the int64 range -/
def zipkinDuration (start stop : Int) : Int :=
  let d := stop - start
  if d > 9223372036854775807 then 9223372036854775807
  else if d < -9223372036854775808 then -9223372036854775808 else d

end Otel.C13
