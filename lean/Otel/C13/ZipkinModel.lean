/-
C13 — the rest of the Zipkin model conversion (exporters/zipkin/model.go), core Lean only:
`toZipkinTags` + `attributeToStringPair` (model.go:160-225), `toZipkinRemoteEndpoint` +
`remoteEndpointPeerIPWithPort` + `remoteEndpointKeyRank` (model.go:227-308), `getServiceName` (model.go:52-60),
`toZipkinAnnotations` (model.go:129-148) and the constant fields of `toZipkinSpanModel`/`toZipkinSpanContext`.
(ids, kind, timestamp and duration are in Model.lean / ZipkinE2E.lean.)

Taken as inputs, not modelled (Go runtime / standard library, not logic of this repository):
* the text of a float64 (`fmt.Sprint`) and of a `[]float64` (`encoding/json`): `ZVal.float`/`.floatSlice` carry the
  rendering, computed by the harness with strconv/encoding/json;
* `net.ParseIP` (+ `To4`): the parameter `parseIP`, tabulated on the line by the harness;
* the JSON text of an event's attribute map (`json.Marshal(map[string]interface{})`): `ZEvent.json`.
JSON strings inside string slices follow encoding/json's escaping rules (`jsonEscapeChunk`, over the rune walk of
Otel.Base.Utf8).
-/
import Otel.C13.Model
import Otel.Base.Utf8
namespace Otel.C13

/-- `attribute.Value` as the Zipkin conversion sees it -/
inductive ZVal where
  | bool (b : Bool)
  | int (i : Int)
  | float (render : Bytes)
  | str (s : Bytes)
  | boolSlice (l : List Bool)
  | intSlice (l : List Int)
  | floatSlice (render : Bytes)
  | strSlice (l : List Bytes)
  | invalid
  deriving DecidableEq, Repr, Inhabited

structure ZKV where
  key : Bytes
  val : ZVal
  deriving DecidableEq, Repr, Inhabited

/-- `"peer.service"` -/
def kPeerService : Bytes := [112, 101, 101, 114, 46, 115, 101, 114, 118, 105, 99, 101]
/-- `"server.address"` -/
def kServerAddress : Bytes := [115, 101, 114, 118, 101, 114, 46, 97, 100, 100, 114, 101, 115, 115]
/-- `"net.peer.name"` -/
def kNetPeerName : Bytes := [110, 101, 116, 46, 112, 101, 101, 114, 46, 110, 97, 109, 101]
/-- `"network.peer.address"` -/
def kNetworkPeerAddress : Bytes := [110, 101, 116, 119, 111, 114, 107, 46, 112, 101, 101, 114, 46, 97, 100, 100, 114, 101, 115, 115]
/-- `"server.socket.domain"` -/
def kServerSocketDomain : Bytes := [115, 101, 114, 118, 101, 114, 46, 115, 111, 99, 107, 101, 116, 46, 100, 111, 109, 97, 105, 110]
/-- `"server.socket.address"` -/
def kServerSocketAddress : Bytes := [115, 101, 114, 118, 101, 114, 46, 115, 111, 99, 107, 101, 116, 46, 97, 100, 100, 114, 101, 115, 115]
/-- `"net.sock.peer.name"` -/
def kNetSockPeerName : Bytes := [110, 101, 116, 46, 115, 111, 99, 107, 46, 112, 101, 101, 114, 46, 110, 97, 109, 101]
/-- `"net.sock.peer.addr"` -/
def kNetSockPeerAddr : Bytes := [110, 101, 116, 46, 115, 111, 99, 107, 46, 112, 101, 101, 114, 46, 97, 100, 100, 114]
/-- `"peer.hostname"` -/
def kPeerHostname : Bytes := [112, 101, 101, 114, 46, 104, 111, 115, 116, 110, 97, 109, 101]
/-- `"peer.address"` -/
def kPeerAddress : Bytes := [112, 101, 101, 114, 46, 97, 100, 100, 114, 101, 115, 115]
/-- `"db.name"` -/
def kDBName : Bytes := [100, 98, 46, 110, 97, 109, 101]
/-- `"network.peer.port"` -/
def kNetworkPeerPort : Bytes := [110, 101, 116, 119, 111, 114, 107, 46, 112, 101, 101, 114, 46, 112, 111, 114, 116]
/-- `"server.socket.port"` -/
def kServerSocketPort : Bytes := [115, 101, 114, 118, 101, 114, 46, 115, 111, 99, 107, 101, 116, 46, 112, 111, 114, 116]
/-- `"net.sock.peer.port"` -/
def kNetSockPeerPort : Bytes := [110, 101, 116, 46, 115, 111, 99, 107, 46, 112, 101, 101, 114, 46, 112, 111, 114, 116]
/-- `"otel.status_code"` -/
def kStatusCode : Bytes := [111, 116, 101, 108, 46, 115, 116, 97, 116, 117, 115, 95, 99, 111, 100, 101]
/-- `"otel.scope.name"` -/
def kScopeName : Bytes := [111, 116, 101, 108, 46, 115, 99, 111, 112, 101, 46, 110, 97, 109, 101]
/-- `"otel.scope.version"` -/
def kScopeVersion : Bytes := [111, 116, 101, 108, 46, 115, 99, 111, 112, 101, 46, 118, 101, 114, 115, 105, 111, 110]
/-- `"error"` -/
def kError : Bytes := [101, 114, 114, 111, 114]
/-- `"service.name"` -/
def kServiceName : Bytes := [115, 101, 114, 118, 105, 99, 101, 46, 110, 97, 109, 101]
/-- `"true"` -/
def sTrue : Bytes := [116, 114, 117, 101]
/-- `"false"` -/
def sFalse : Bytes := [102, 97, 108, 115, 101]
/-- `"unknown"` -/
def sUnknown : Bytes := [117, 110, 107, 110, 111, 119, 110]
/-- `"ERROR"` -/
def sERROR : Bytes := [69, 82, 82, 79, 82]
/-- `"OK"` -/
def sOK : Bytes := [79, 75]

/-! ### text of scalar values (`strconv.FormatBool`, `strconv.FormatInt(…, 10)`) -/

def decDigits : Nat → Nat → Bytes
  | 0, _ => []
  | f + 1, n => if n < 10 then [UInt8.ofNat (48 + n)] else decDigits f (n / 10) ++ [UInt8.ofNat (48 + n % 10)]

def renderNat (n : Nat) : Bytes := decDigits (n + 1) n
def renderInt (i : Int) : Bytes := if i < 0 then 45 :: renderNat (-i).toNat else renderNat i.toNat
def renderBool (b : Bool) : Bytes := if b then sTrue else sFalse

/-- `a,b,c` -/
def joinWith (sep : UInt8) : List Bytes → Bytes
  | [] => []
  | [x] => x
  | x :: y :: rest => x ++ sep :: joinWith sep (y :: rest)

/-- `json.Marshal` of a `[]bool` / `[]int64` / `[]string` -/
def jsonArray (items : List Bytes) : Bytes := 91 :: joinWith 44 items ++ [93]

/-- lower-case hex digit -/
def hexd (n : Nat) : UInt8 := if n < 10 then UInt8.ofNat (48 + n) else UInt8.ofNat (87 + n)

/-- `\uXXXX` -/
def jsonU4 (n : Nat) : Bytes := [92, 117, hexd (n / 4096 % 16), hexd (n / 256 % 16), hexd (n / 16 % 16), hexd (n % 16)]

/-- one step of encoding/json `appendString` with `escapeHTML = true` (what `json.Marshal` uses), for one rune chunk
of `for i, c := range s`: `"` and `\` get a backslash; \b \f \n \r \t their short forms; other bytes below 0x20
and `<`, `>`, `&` become `\u00XX`; an invalid UTF-8 byte becomes `\ufffd`; U+2028 / U+2029 become `\u2028` / `\u2029`;
everything else (0x7f and every valid multi-byte rune included) is copied. -/
def jsonEscapeChunk (c : Utf8.Chunk) : Bytes :=
  if c.invalid then jsonU4 0xFFFD
  else if c.rune = 0x22 then [92, 34] else if c.rune = 0x5C then [92, 92]
  else if c.rune = 8 then [92, 98] else if c.rune = 12 then [92, 102] else if c.rune = 10 then [92, 110]
  else if c.rune = 13 then [92, 114] else if c.rune = 9 then [92, 116]
  else if c.rune < 0x20 ∨ c.rune = 0x3C ∨ c.rune = 0x3E ∨ c.rune = 0x26 then jsonU4 c.rune
  else if c.rune = 0x2028 ∨ c.rune = 0x2029 then jsonU4 c.rune
  else c.bytes

def jsonEscape (s : Bytes) : Bytes := (Utf8.chunks s).flatMap jsonEscapeChunk

/-- a JSON string as `json.Marshal` writes it -/
def jsonStr (s : Bytes) : Bytes := 34 :: jsonEscape s ++ [34]

/-- `attributeToStringPair` (model.go:160-179): slices as JSON lists, everything else `Value.Emit()`
(INVALID → "unknown") -/
def tagValue : ZVal → Bytes
  | .boolSlice l => jsonArray (l.map renderBool)
  | .intSlice l => jsonArray (l.map renderInt)
  | .floatSlice r => r
  | .strSlice l => jsonArray (l.map jsonStr)
  | .bool b => renderBool b
  | .int i => renderInt i
  | .float r => r
  | .str s => s
  | .invalid => sUnknown

/-- `Value.Emit()` (attribute/value.go:226-259) as far as the port lookup needs it: `fmt.Sprint([]bool)` is
space-separated; for a float slice the JSON rendering stands in (Emit differs only when json.Marshal fails, and
neither text is a decimal number) -/
def emit : ZVal → Bytes
  | .boolSlice l => 91 :: joinWith 32 (l.map renderBool) ++ [93]
  | v => tagValue v

/-- `Value.AsString()`: the string of a STRING value, `""` for every other type -/
def asString : ZVal → Bytes
  | .str s => s
  | _ => []

/-! ### a Go `map[string]string` as an association list without repeated keys (insertion order; the harness prints
the real map sorted by key and the driver compares as maps) -/

def mset (k v : Bytes) : List (Bytes × Bytes) → List (Bytes × Bytes)
  | [] => [(k, v)]
  | (k', v') :: rest => if k' = k then (k, v) :: rest else (k', v') :: mset k v rest

def mdel (k : Bytes) (m : List (Bytes × Bytes)) : List (Bytes × Bytes) := m.filter fun e => !(e.1 == k)

def mget (k : Bytes) : List (Bytes × Bytes) → Option Bytes
  | [] => none
  | (k', v') :: rest => if k' = k then some v' else mget k rest

/-- `Code.String()` then `strings.ToUpper`: a code outside the table has the empty name -/
def codeUpper (c : Nat) : Bytes := if c = 1 then sERROR else if c = 2 then sOK else []

structure ZTagInput where
  attrs : List ZKV
  resAttrs : List ZKV
  code : Nat            -- codes.Unset = 0, Error = 1, Ok = 2
  desc : Bytes
  scopeName : Bytes
  scopeVersion : Bytes
  deriving DecidableEq, Repr

/-- `toZipkinTags` (model.go:188-225), statement by statement -/
def zipkinTags (x : ZTagInput) : List (Bytes × Bytes) :=
  let m := x.attrs.foldl (fun m kv => mset kv.key (tagValue kv.val) m) []
  let m := x.resAttrs.foldl (fun m kv => mset kv.key (tagValue kv.val) m) m
  let m := if x.code ≠ 0 then mset kStatusCode (codeUpper x.code) m else m
  let m := if x.code = 1 then mset kError x.desc m else mdel kError m
  let m := if x.scopeName ≠ [] then
      (let m := mset kScopeName x.scopeName m
       if x.scopeVersion ≠ [] then mset kScopeVersion x.scopeVersion m else m)
    else m
  m

/-! ### remote endpoint -/

/-- `remoteEndpointKeyRank` (model.go:229-241) -/
def rankOf (k : Bytes) : Option Nat :=
  if k = kPeerService then some 1 else if k = kServerAddress then some 2 else if k = kNetPeerName then some 3
  else if k = kNetworkPeerAddress then some 4 else if k = kServerSocketDomain then some 5
  else if k = kServerSocketAddress then some 6 else if k = kNetSockPeerName then some 7
  else if k = kNetSockPeerAddr then some 8 else if k = kPeerHostname then some 9 else if k = kPeerAddress then some 10
  else if k = kDBName then some 11 else none

/-- one iteration of the selection loop (model.go:251-263); `cur` starts as the zero KeyValue (key `""`) -/
def pickStep (cur kv : ZKV) : ZKV :=
  match rankOf kv.key with
  | none => cur
  | some rank =>
    match rankOf cur.key with
    | some currentKeyRank => if rank < currentKeyRank then kv else cur
    | none => kv

def zeroKV : ZKV := ⟨[], .invalid⟩

def pickEndpointAttr (attrs : List ZKV) : ZKV := attrs.foldl pickStep zeroKV

structure ZEndpoint where
  serviceName : Bytes
  ipv4 : Bytes
  ipv6 : Bytes
  port : Nat
  deriving DecidableEq, Repr

def isDigit (b : UInt8) : Bool := 48 ≤ b && b ≤ 57

def decValue : Bytes → Nat → Nat
  | [], acc => acc
  | b :: rest, acc => decValue rest (acc * 10 + (b.toNat - 48))

/-- `port, _ := strconv.ParseUint(s, 10, 16)`: 0 on a syntax error (empty, sign, any non-digit), 65535 on a range
error, else the value -/
def parseUint16 (s : Bytes) : Nat :=
  if s.isEmpty || !s.all isDigit then 0 else min (decValue s 0) 65535

/-- `remoteEndpointPeerIPWithPort` (model.go:285-308); `parseIP s = some (is4, ip)` ⇔ `net.ParseIP(s) = ip ≠ nil`
and `is4 = (ip.To4() != nil)` -/
def ipWithPort (parseIP : Bytes → Option (Bool × Bytes)) (peerIP portKey : Bytes) (attrs : List ZKV) : Option ZEndpoint :=
  match parseIP peerIP with
  | none => none
  | some (is4, ip) =>
    let port := match attrs.find? (fun kv => kv.key == portKey) with
      | some kv => parseUint16 (emit kv.val)
      | none => 0
    some ⟨[], if is4 then ip else [], if is4 then [] else ip, port⟩

/-- `toZipkinRemoteEndpoint` (model.go:243-283); span kinds: client = 3, producer = 4 -/
def zipkinRemoteEndpoint (parseIP : Bytes → Option (Bool × Bytes)) (kind : Int) (attrs : List ZKV) : Option ZEndpoint :=
  if kind ≠ 3 ∧ kind ≠ 4 then none
  else
    let e := pickEndpointAttr attrs
    if e.key = [] then none
    else
      let v := asString e.val
      if e.key = kNetworkPeerAddress then ipWithPort parseIP v kNetworkPeerPort attrs
      else if e.key = kServerSocketAddress then ipWithPort parseIP v kServerSocketPort attrs
      else if e.key = kNetSockPeerAddr then ipWithPort parseIP v kNetSockPeerPort attrs
      else some ⟨v, [], [], 0⟩

/-- `getServiceName` (model.go:52-60): the first `service.name` resource attribute, as a string -/
def zipkinServiceName (defaultName : Bytes) : List ZKV → Bytes
  | [] => defaultName
  | kv :: rest => if kv.key = kServiceName then asString kv.val else zipkinServiceName defaultName rest

structure ZEvent where
  name : Bytes
  time : Int
  nattrs : Nat
  json : Bytes          -- `json.Marshal` of the attribute map, `""` when it fails
  deriving DecidableEq, Repr

/-- `toZipkinAnnotations` (model.go:129-148): `name` or `name: {json}` -/
def zipkinAnnotation (e : ZEvent) : Int × Bytes :=
  (e.time, if e.nattrs > 0 ∧ e.json ≠ [] then e.name ++ [58, 32] ++ e.json else e.name)

structure ZModelInput where
  kind : Int
  tags : ZTagInput
  defaultService : Bytes
  events : List ZEvent
  deriving DecidableEq, Repr

/-- the part of `zkmodel.SpanModel` that is not ids/name/kind/time (those: `zipkinJsonSpan`) -/
structure ZModelOut where
  service : Bytes
  remote : Option ZEndpoint
  tags : List (Bytes × Bytes)
  annotations : List (Int × Bytes)
  /-- Shared, Debug, Sampled ≠ nil, Err ≠ nil -/
  flags : List Bool
  deriving DecidableEq, Repr

/-- `toZipkinSpanModel` (model.go:62-77) for those fields -/
def zipkinModel (parseIP : Bytes → Option (Bool × Bytes)) (x : ZModelInput) : ZModelOut :=
  { service := zipkinServiceName x.defaultService x.tags.resAttrs,
    remote := zipkinRemoteEndpoint parseIP x.kind x.tags.attrs,
    tags := zipkinTags x.tags,
    annotations := x.events.map zipkinAnnotation,
    flags := [false, false, false, false] }

/-! ## Spec: written from the OpenTelemetry → Zipkin mapping rules (specification/trace/sdk_exporters/zipkin.md),
not from the code's map operations -/

/-- the value of the LAST attribute with key `k` -/
def lastVal (k : Bytes) : List ZKV → Option ZVal
  | [] => none
  | kv :: rest => match lastVal k rest with
    | some v => some v
    | none => if kv.key = k then some kv.val else none

/-- the attributes' say on tag `k`: the last resource attribute with that key, else the last span attribute -/
def attrTagSpec (x : ZTagInput) (k : Bytes) : Option Bytes :=
  match lastVal k x.resAttrs with
  | some v => some (tagValue v)
  | none => (lastVal k x.attrs).map tagValue

/-- **what the tag `k` must be**: instrumentation scope name/version (when the scope has a name), then the
`error` tag — the status description for an Error status and ABSENT otherwise, whatever the attributes say —,
then `otel.status_code` for a status that is not Unset, then the attributes: resource attributes override span
attributes, later ones override earlier ones, values rendered by `tagValue`. -/
def tagSpec (x : ZTagInput) (k : Bytes) : Option Bytes :=
  if k = kScopeVersion ∧ x.scopeName ≠ [] ∧ x.scopeVersion ≠ [] then some x.scopeVersion
  else if k = kScopeName ∧ x.scopeName ≠ [] then some x.scopeName
  else if k = kError then (if x.code = 1 then some x.desc else none)
  else if k = kStatusCode ∧ x.code ≠ 0 then some (codeUpper x.code)
  else attrTagSpec x k

def keysNodup : List Bytes → Bool
  | [] => true
  | k :: rest => !rest.contains k && keysNodup rest

/-- ORACLE (tags), on the observed map: no key twice, and every key that occurs in the observation, in the
input or among the four special keys has exactly the value `tagSpec` gives -/
def zipkinTagsOK (x : ZTagInput) (obs : List (Bytes × Bytes)) : Bool :=
  keysNodup (obs.map (·.1)) &&
  (obs.map (·.1) ++ x.attrs.map (·.key) ++ x.resAttrs.map (·.key) ++ [kScopeVersion, kScopeName, kError, kStatusCode]).all
    fun k => mget k obs == tagSpec x k

/-- the smallest rank among the attributes (`none` = no attribute names a remote endpoint) -/
def minRank : List ZKV → Option Nat
  | [] => none
  | kv :: rest => match rankOf kv.key, minRank rest with
    | some r, some m => some (min r m)
    | some r, none => some r
    | none, m => m

/-- **which attribute names the remote endpoint**: the FIRST attribute whose key has the smallest rank -/
def endpointAttrSpec (attrs : List ZKV) : Option ZKV :=
  match minRank attrs with
  | none => none
  | some m => attrs.find? fun kv => rankOf kv.key == some m

/-- reference for the remote endpoint: only for client/producer spans; service name = the string value of the
chosen attribute, except for the three socket-address keys, which give an IP endpoint (absent if the text is not
an IP address) with the port of the FIRST attribute with the matching port key (0 if none or not a uint16 …) -/
def endpointSpec (parseIP : Bytes → Option (Bool × Bytes)) (kind : Int) (attrs : List ZKV) : Option ZEndpoint :=
  if kind = 3 ∨ kind = 4 then
    match endpointAttrSpec attrs with
    | none => none
    | some e =>
      let portKey : Option Bytes :=
        if e.key = kNetworkPeerAddress then some kNetworkPeerPort
        else if e.key = kServerSocketAddress then some kServerSocketPort
        else if e.key = kNetSockPeerAddr then some kNetSockPeerPort else none
      match portKey with
      | none => some ⟨asString e.val, [], [], 0⟩
      | some pk => ipWithPort parseIP (asString e.val) pk attrs
  else none

/-- reference for the local service name: the first `service.name` resource attribute as a string, else the default -/
def serviceNameSpec (d : Bytes) (resAttrs : List ZKV) : Bytes :=
  match resAttrs.find? (fun kv => kv.key == kServiceName) with
  | some kv => asString kv.val
  | none => d

/-- ORACLE (whole model line) on the observed SpanModel -/
def zipkinModelOK (parseIP : Bytes → Option (Bool × Bytes)) (x : ZModelInput) (o : ZModelOut) : Bool :=
  zipkinTagsOK x.tags o.tags &&
  o.remote == endpointSpec parseIP x.kind x.tags.attrs &&
  o.service == serviceNameSpec x.defaultService x.tags.resAttrs &&
  o.annotations.length == x.events.length &&
  ((x.events.zip o.annotations).all fun p =>
    p.2.1 == p.1.time && (if p.1.nattrs = 0 then p.2.2 == p.1.name else p.1.name.isPrefixOf p.2.2)) &&
  o.flags == [false, false, false, false]

/-! ## driver step for `zipkinm` lines -/
open Otel.Wire

def csv? {α : Type} (f : String → Option α) (s : String) : Option (List α) :=
  if s = "-" then some [] else (s.splitOn ",").mapM f

def zval? (ty v : String) : Option ZVal :=
  match ty with
  | "b" => if v = "1" then some (.bool true) else if v = "0" then some (.bool false) else none
  | "i" => (parseInt v).map .int
  | "f" => (parseHex v).map .float
  | "s" => (parseHex v).map .str
  | "B" => (csv? (fun t => if t = "1" then some true else if t = "0" then some false else none) v).map .boolSlice
  | "I" => (csv? parseInt v).map .intSlice
  | "F" => (parseHex v).map .floatSlice
  | "S" => (csv? parseHex v).map .strSlice
  | "v" => some .invalid
  | _ => none

def zkvs? : Nat → List String → Option (List ZKV × List String)
  | 0, rest => some ([], rest)
  | n + 1, k :: ty :: v :: rest => do
    let kv : ZKV := ⟨← parseHex k, ← zval? ty v⟩
    let (l, rest') ← zkvs? n rest
    pure (kv :: l, rest')
  | _, _ => none

def zevents? : Nat → List String → Option (List ZEvent × List String)
  | 0, rest => some ([], rest)
  | n + 1, name :: tm :: na :: js :: rest => do
    let e : ZEvent := ⟨← parseHex name, ← parseInt tm, ← parseNat na, ← parseHex js⟩
    let (l, rest') ← zevents? n rest
    pure (e :: l, rest')
  | _, _ => none

def dropS (n : Nat) (s : String) : String := String.ofList (s.toList.drop n)

def zips? : Nat → List String → Option (List (Bytes × Option (Bool × Bytes)) × List String)
  | 0, rest => some ([], rest)
  | n + 1, txt :: r :: rest => do
    let t ← parseHex txt
    let v ← (if r = "-" then some none
             else match r.toList.head? with
               | some '4' => (parseHex (dropS 1 r)).map fun b => some (true, b)
               | some '6' => (parseHex (dropS 1 r)).map fun b => some (false, b)
               | _ => none)
    let (l, rest') ← zips? n rest
    pure ((t, v) :: l, rest')
  | _, _ => none

def pairs? : Nat → List String → Option (List (Bytes × Bytes) × List String)
  | 0, rest => some ([], rest)
  | n + 1, k :: v :: rest => do
    let (l, rest') ← pairs? n rest
    pure ((← parseHex k, ← parseHex v) :: l, rest')
  | _, _ => none

def annos? : Nat → List String → Option (List (Int × Bytes) × List String)
  | 0, rest => some ([], rest)
  | n + 1, t :: v :: rest => do
    let (l, rest') ← annos? n rest
    pure ((← parseInt t, ← parseHex v) :: l, rest')
  | _, _ => none

def ipTable (tbl : List (Bytes × Option (Bool × Bytes))) (s : Bytes) : Option (Bool × Bytes) :=
  match tbl.find? (fun e => e.1 == s) with
  | some e => e.2
  | none => none

def zremote? : List String → Option (Option ZEndpoint × List String)
  | "-" :: rest => some (none, rest)
  | "ep" :: svc :: v4 :: v6 :: port :: rest => do
    pure (some ⟨← parseHex svc, ← parseHex v4, ← parseHex v6, ← parseNat port⟩, rest)
  | _ => none

def stepZipkinModel (inp obs : List String) : Option Verdict := do
  match inp with
  | kind :: code :: desc :: sn :: sv :: dsvc :: "A" :: na :: rest =>
    let (attrs, rest) ← zkvs? (← parseNat na) rest
    match rest with
    | "R" :: nr :: rest =>
      let (resAttrs, rest) ← zkvs? (← parseNat nr) rest
      match rest with
      | "E" :: ne :: rest =>
        let (events, rest) ← zevents? (← parseNat ne) rest
        match rest with
        | "IP" :: ni :: rest =>
          let (tbl, rest) ← zips? (← parseNat ni) rest
          if !rest.isEmpty then none else
          let x : ZModelInput :=
            { kind := ← parseInt kind,
              tags := ⟨attrs, resAttrs, ← parseNat code, ← parseHex desc, ← parseHex sn, ← parseHex sv⟩,
              defaultService := ← parseHex dsvc, events := events }
          let pip := ipTable tbl
          match obs with
          | "-" :: _ => pure { agree := false, spec := "FAIL", nontrivial := true, branches := "-", model := "no-local-endpoint" }
          | svc :: orest =>
            let (remote, orest) ← zremote? orest
            match orest with
            | "T" :: nt :: orest =>
              let (tags, orest) ← pairs? (← parseNat nt) orest
              match orest with
              | "N" :: nn :: orest =>
                let (annos, orest) ← annos? (← parseNat nn) orest
                match orest with
                | [fl] =>
                  let o : ZModelOut := ⟨← parseHex svc, remote, tags, annos, fl.toList.map (· == '1')⟩
                  let m := zipkinModel pip x
                  let agree := m.service == o.service && m.remote == o.remote && m.tags.isPerm o.tags &&
                    m.annotations == o.annotations && m.flags == o.flags
                  let ok := zipkinModelOK pip x o
                  let e := pickEndpointAttr attrs
                  let ranked := attrs.filter fun kv => (rankOf kv.key).isSome
                  let isIPKey := e.key == kNetworkPeerAddress || e.key == kServerSocketAddress || e.key == kNetSockPeerAddr
                  let allKeys := (attrs ++ resAttrs).map (·.key)
                  let br :=
                    (if x.kind = 3 ∨ x.kind = 4 then ["kind-remote"] else ["kind-local"]) ++
                    (if ranked.length > 1 then ["multi-ranked"] else []) ++
                    (if ranked.any (fun kv => rankOf kv.key == rankOf e.key && kv != e) then ["rank-tie"] else []) ++
                    (match ranked with | f :: _ => if f != e then ["later-better-rank"] else [] | [] => ["no-ranked"]) ++
                    (if isIPKey then ["ip-key"] else []) ++
                    (match m.remote with
                     | none => ["remote-nil"]
                     | some r => (if r.ipv4 != [] then ["ipv4"] else []) ++ (if r.ipv6 != [] then ["ipv6"] else []) ++
                        (if r.port = 65535 then ["port-max"] else if r.port != 0 then ["port"] else []) ++
                        (if r.serviceName != [] then ["svc"] else [])) ++
                    (if isIPKey && (x.kind = 3 ∨ x.kind = 4) && m.remote.isNone then ["ip-unparsable"] else []) ++
                    (if allKeys.contains kError then ["attr-error"] else []) ++
                    (if allKeys.contains kStatusCode then ["attr-status"] else []) ++
                    (if allKeys.contains kScopeName || allKeys.contains kScopeVersion then ["attr-scope"] else []) ++
                    (if x.tags.code = 1 then ["status-error"] else if x.tags.code = 2 then ["status-ok"]
                     else if x.tags.code = 0 then ["status-unset"] else ["status-other"]) ++
                    (if x.tags.scopeName != [] then (if x.tags.scopeVersion != [] then ["scope-name-version"] else ["scope-name"])
                     else if x.tags.scopeVersion != [] then ["scope-version-only"] else []) ++
                    (if attrs.any (fun a => resAttrs.any fun b => a.key == b.key) then ["res-overrides-attr"] else []) ++
                    (if !keysNodup (attrs.map (·.key)) then ["dup-attr-key"] else []) ++
                    (if m.tags.isEmpty then ["tags-nil"] else []) ++
                    (if resAttrs.any (·.key == kServiceName) then ["service-name"] else ["service-default"]) ++
                    (if events.any (fun e => e.nattrs > 0 && e.json != []) then ["anno-json"] else []) ++
                    (if events.any (fun e => e.nattrs > 0 && e.json == []) then ["anno-json-failed"] else []) ++
                    (if (attrs ++ resAttrs).any (fun kv => match kv.val with | .boolSlice _ | .intSlice _ | .floatSlice _ | .strSlice _ => true | _ => false) then ["slice-tag"] else []) ++
                    (if (attrs ++ resAttrs).any (fun kv => kv.val == .invalid) then ["invalid-tag"] else []) ++
                    (if (attrs ++ resAttrs).any (fun kv => match kv.val with | .strSlice l => l.any (fun e => jsonEscape e != e) | _ => false) then ["json-escaped"] else []) ++
                    (if (attrs ++ resAttrs).any (fun kv => match kv.val with | .strSlice l => l.any (fun e => !Utf8.validString e) | _ => false) then ["json-invalid-utf8"] else [])
                  pure { agree := agree, spec := if ok then "ok" else "FAIL",
                         nontrivial := !attrs.isEmpty || !resAttrs.isEmpty || x.tags.code != 0 || !events.isEmpty,
                         branches := ",".intercalate br,
                         model := if agree then "=" else (toString (repr m)).replace "\n" " " }
                | _ => none
              | _ => none
            | _ => none
          | _ => none
        | _ => none
      | _ => none
    | _ => none
  | _ => none

end Otel.C13
