/-
C13 — Zipkin end to end: model of `Exporter.ExportSpans` (exporters/zipkin/zipkin.go:123-177) over SEQUENCES of
calls, the Spec clause `zipkinRequestFaithful`, and the driver step for `zipkinseq` lines (core Lean only).

The model is stateful only in the `stopped` flag (Shutdown); the request body of a call is built from that call's
batch alone (`json.Marshal(SpanModels(spans))` into a fresh buffer), using the same `zipkinTraceId`/`zipkinId`/
`zipkinParentId`/`zipkinKind`/`zipkinDuration` the `zipkin_*` theorems are about, followed by the Zipkin JSON
rendering rules of zipkin-go's `SpanModel.MarshalJSON` (microsecond resolution, lower-cased name).
-/
import Otel.C13.Spec
namespace Otel.C13
open Otel.Wire

structure ZSpan where
  tid : Bytes
  sid : Bytes
  pid : Bytes
  name : Bytes
  kind : Int
  start : Int
  stop : Int
  deriving DecidableEq, Repr

/-- what the scripted collector/transport does with the request of a call -/
inductive ZResp where
  | status (code : Nat)   -- body read, this status returned (202 = accepted)
  | teBefore              -- transport error (or dial failure) before the body is read
  | tePartial             -- transport error in the middle of the body
  | teAfter               -- transport error after the body was read
  | cancel                -- context cancelled inside the transport, nothing written
  deriving DecidableEq, Repr

structure ZCall where
  stopBefore : Bool       -- Shutdown is called before this call
  resp : ZResp
  spans : List ZSpan
  deriving DecidableEq, Repr

/-- one span object of the JSON body as a Zipkin v2 collector reads it -/
structure ZJson where
  high : Nat
  low : Nat
  id : Nat
  parent : Option Nat
  name : Bytes
  kind : Bytes
  tsMicros : Int
  durMicros : Int
  deriving DecidableEq, Repr

structure ZObs where
  err : Bool                        -- ExportSpans returned an error
  body : Option (List ZJson)        -- `some` = a complete request body was delivered
  deriving DecidableEq, Repr

/-- `strings.ToLower` restricted to ASCII (the harness uses ASCII names) -/
def asciiLower (b : UInt8) : UInt8 := if 65 ≤ b ∧ b ≤ 90 then b + 32 else b

/-- zipkin-go `MarshalJSON`: duration in µs — 0 stays 0 (omitted), below 1 µs is reported as 1, otherwise rounded
to the nearest µs -/
def durMicros (d : Int) : Int := if d = 0 then 0 else if d < 1000 then 1 else (d + 500) / 1000

/-- zipkin-go `MarshalJSON`: timestamp rounded to the nearest µs -/
def tsMicros (t : Int) : Int := (t + 500) / 1000

/-- `toZipkinSpanModel` + `MarshalJSON` for the fields the statement names -/
def zipkinJsonSpan (s : ZSpan) : ZJson :=
  { high := (zipkinTraceId s.tid).1, low := (zipkinTraceId s.tid).2, id := zipkinId s.sid,
    parent := zipkinParentId s.pid, name := s.name.map asciiLower, kind := zipkinKind s.kind,
    tsMicros := tsMicros s.start, durMicros := durMicros (zipkinDuration s.start s.stop) }

/-- `MarshalJSON` fails (so `json.Marshal(models)` fails and nothing is sent) for a negative duration and for a
timestamp before 1970-01-01T00:00:01Z -/
def zMarshalable (s : ZSpan) : Bool := decide (0 ≤ zipkinDuration s.start s.stop) && decide (1000000000 ≤ s.start)

/-- one `ExportSpans` call: (stopped, call) ↦ observation -/
def zipkinExportCall (stopped : Bool) (c : ZCall) : ZObs :=
  if stopped then ⟨false, none⟩                      -- "exporter stopped, not exporting span batch"
  else if c.spans.isEmpty then ⟨false, none⟩         -- "no spans to export"
  else if !c.spans.all zMarshalable then ⟨true, none⟩  -- "failed to serialize zipkin models to JSON"
  else match c.resp with
    | .status code => ⟨code != 202, some (c.spans.map zipkinJsonSpan)⟩
    | .teAfter => ⟨true, some (c.spans.map zipkinJsonSpan)⟩
    | .teBefore => ⟨true, none⟩
    | .tePartial => ⟨true, none⟩
    | .cancel => ⟨true, none⟩

/-- a sequence of calls on one exporter -/
def zipkinExportSeqFrom (stopped : Bool) : List ZCall → List ZObs
  | [] => []
  | c :: cs => zipkinExportCall (stopped || c.stopBefore) c :: zipkinExportSeqFrom (stopped || c.stopBefore) cs

def zipkinExportSeq (cs : List ZCall) : List ZObs := zipkinExportSeqFrom false cs

/-! ### Spec -/

/-- one decoded span object against one exported span (reference: Zipkin v2 API — ids big-endian lower-hex,
parent present iff valid, kind table, µs timestamps) -/
def zipkinJsonOK (s : ZSpan) (j : ZJson) : Bool :=
  toBE 8 j.high ++ toBE 8 j.low == s.tid && decide (j.high < 2 ^ 64) && decide (j.low < 2 ^ 64) &&
  toBE 8 j.id == s.sid && decide (j.id < 2 ^ 64) &&
  (match j.parent with
   | none => !idValid s.pid
   | some p => idValid s.pid && toBE 8 p == s.pid && decide (p < 2 ^ 64)) &&
  j.name == s.name.map asciiLower &&
  j.kind == (if s.kind = 2 then kSERVER else if s.kind = 3 then kCLIENT else if s.kind = 4 then kPRODUCER
             else if s.kind = 5 then kCONSUMER else []) &&
  j.tsMicros == (s.start + 500) / 1000 &&
  (let d := s.stop - s.start
   if d = 0 then j.durMicros == 0 else if d < 1000 then j.durMicros == 1
   else if d ≤ 9223372036854775807 then j.durMicros == (d + 500) / 1000 else true)

def zipkinBodyOK : List ZSpan → List ZJson → Bool
  | [], [] => true
  | s :: ss, j :: js => zipkinJsonOK s j && zipkinBodyOK ss js
  | _, _ => false

/-- **Spec clause `zipkinRequestFaithful`.** A delivered request body is ONE JSON array (the harness's reference
decoder reports anything else as `bad:…`, i.e. not a `some` body) whose spans are exactly — same number, same
order — the Zipkin encoding of THAT call's batch; nothing of any earlier call. -/
def zipkinRequestFaithful (c : ZCall) (o : ZObs) : Bool :=
  match o.body with
  | none => true
  | some js => !c.spans.isEmpty && zipkinBodyOK c.spans js

/-- the error contract of one call, given what was delivered: nil iff nothing had to be sent, or the complete
body was delivered and answered 202 -/
def zipkinErrOK (stopped : Bool) (c : ZCall) (o : ZObs) : Bool :=
  if stopped || c.spans.isEmpty then !o.err && o.body.isNone
  else o.err == !(o.body.isSome && c.resp == .status 202)

/-! ### driver -/
def zresp? (s : String) : Option ZResp :=
  if s = "ok" then some (.status 202) else if s = "s200" then some (.status 200)
  else if s = "s204" then some (.status 204) else if s = "s400" then some (.status 400)
  else if s = "s500" then some (.status 500) else if s = "tebefore" then some .teBefore
  else if s = "tepartial" then some .tePartial else if s = "teafter" then some .teAfter
  else if s = "cancel" then some .cancel else none

def splitBar : List String → List (List String)
  | [] => [[]]
  | t :: ts => match splitBar ts with
    | [] => [[t]]
    | g :: gs => if t = "|" then [] :: g :: gs else (t :: g) :: gs

def zspans? : Nat → List String → Option (List ZSpan)
  | 0, [] => some []
  | n + 1, tid :: sid :: pid :: name :: kind :: st :: en :: rest => do
    let s : ZSpan := ⟨← parseHex tid, ← parseHex sid, ← parseHex pid, ← parseHex name, ← parseInt kind, ← parseInt st, ← parseInt en⟩
    pure (s :: (← zspans? n rest))
  | _, _ => none

def zcall? : List String → Option ZCall
  | stop :: resp :: n :: rest => do
    pure ⟨stop == "1", ← zresp? resp, ← zspans? (← parseNat n) rest⟩
  | _ => none

def zjsons? : Nat → List String → Option (List ZJson)
  | 0, [] => some []
  | n + 1, h :: l :: id :: p :: name :: kind :: ts :: d :: rest => do
    let par ← (if p = "-" then some none else (parseNat p).map some)
    let j : ZJson := ⟨← parseNat h, ← parseNat l, ← parseNat id, par, ← parseHex name, ← parseHex kind, ← parseInt ts, ← parseInt d⟩
    pure (j :: (← zjsons? n rest))
  | _, _ => none

/-- `none` = unparsable; `some (obs, bad)` with `bad` = the body was not one well-formed JSON array -/
def zobs? : List String → Option (ZObs × Bool)
  | [e, "nodeliv"] => if e = "nil" then some (⟨false, none⟩, false) else if e = "err" then some (⟨true, none⟩, false) else none
  | e :: k :: rest =>
    if e != "nil" && e != "err" then none
    else if k.startsWith "bad:" then some (⟨e == "err", none⟩, true)
    else do
      let js ← zjsons? (← parseNat k) rest
      pure (⟨e == "err", some js⟩, false)
  | _ => none

def stoppedFlags (stopped : Bool) : List ZCall → List Bool
  | [] => []
  | c :: cs => (stopped || c.stopBefore) :: stoppedFlags (stopped || c.stopBefore) cs

def stepZipkinSeq (inp obs : List String) : Option Verdict := do
  match inp with
  | mode :: rest =>
    let calls ← (splitBar rest).mapM zcall?
    let os ← (splitBar obs).mapM zobs?
    if calls.length != os.length then none else
    let model := zipkinExportSeq calls
    let agree := model == os.map (·.1) && os.all (fun o => !o.2)
    let flags := stoppedFlags false calls
    let ok := os.all (fun o => !o.2) &&
      ((calls.zip os).all fun p => zipkinRequestFaithful p.1 p.2.1) &&
      ((flags.zip (calls.zip os)).all fun p => zipkinErrOK p.1 p.2.1 p.2.2.1)
    let failedBefore := (calls.zip model).any fun p => p.2.err && p.2.body.isNone && !p.1.spans.isEmpty
    let tags :=
      [mode, s!"calls{calls.length}"] ++
      (if calls.any (·.stopBefore) then ["shutdown"] else []) ++
      (if calls.any (fun c => !c.spans.isEmpty && !c.spans.all zMarshalable) then ["unmarshalable"] else []) ++
      (if failedBefore then ["undelivered-failure"] else []) ++
      (if calls.any (fun c => c.resp == .teAfter) then ["te-after"] else []) ++
      (if calls.any (fun c => c.resp == .tePartial) then ["te-partial"] else []) ++
      (if calls.any (fun c => c.resp == .cancel) then ["cancel"] else []) ++
      (if calls.any (fun c => match c.resp with | .status n => n != 202 | _ => false) then ["status-not-202"] else [])
    pure { agree := agree, spec := if ok then "ok" else "FAIL", nontrivial := calls.length > 1 || failedBefore,
           branches := ",".intercalate tags, model := if agree then "=" else (toString (repr model)).replace "\n" " " }
  | _ => none

end Otel.C13
