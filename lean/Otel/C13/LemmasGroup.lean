/-
C13 — the grouping step (`groupBy`, the model of the two Go maps `rsm`/`ssm`, `resMap`/`scopeMap`) characterised
as a function: the members of the group with key `k` are exactly `xs.filter (key · = k)` — the input restricted to
that key, **in input order** — and its payload is the payload of the first such input. Together with
`groupBy_nodup` this says that `groupBy` is the partition of the input by key.
-/
import Otel.C13.Lemmas
namespace Otel.C13

section Group
variable {K P V : Type} [DecidableEq K]

/-- members of the first group with key `k` (`[]` if there is none) -/
def lookupG (k : K) : List (K × P × List V) → List V
  | [] => []
  | (k', _, vs) :: rest => if k' = k then vs else lookupG k rest

/-- payload of the first group with key `k` -/
def lookupP (k : K) : List (K × P × List V) → Option P
  | [] => none
  | (k', p, _) :: rest => if k' = k then some p else lookupP k rest

theorem insertG_lookupG (k : K) (p : P) (v : V) (k' : K) :
    ∀ g : List (K × P × List V),
      lookupG k' (insertG k p v g) = if k' = k then lookupG k' g ++ [v] else lookupG k' g
  | [] => by
    by_cases h : k' = k
    · simp [insertG, lookupG, h]
    · have h' : ¬ k = k' := fun e => h e.symm
      simp [insertG, lookupG, h, h']
  | (k'', p'', vs) :: rest => by
    have ih := insertG_lookupG k p v k' rest
    unfold insertG
    by_cases h1 : k'' = k
    · subst h1
      by_cases h2 : k'' = k'
      · subst h2; simp [lookupG]
      · have h2' : ¬ k' = k'' := fun e => h2 e.symm
        simp [lookupG, h2, h2']
    · simp only [h1, if_false]
      by_cases h2 : k'' = k'
      · subst h2
        simp [lookupG, h1]
      · simp only [lookupG, h2, if_false, ih]

theorem insertG_lookupP (k : K) (p : P) (v : V) (k' : K) :
    ∀ g : List (K × P × List V),
      lookupP k' (insertG k p v g) = if k' = k then some ((lookupP k' g).getD p) else lookupP k' g
  | [] => by
    by_cases h : k' = k
    · simp [insertG, lookupP, h]
    · have h' : ¬ k = k' := fun e => h e.symm
      simp [insertG, lookupP, h, h']
  | (k'', p'', vs) :: rest => by
    have ih := insertG_lookupP k p v k' rest
    unfold insertG
    by_cases h1 : k'' = k
    · subst h1
      by_cases h2 : k'' = k'
      · subst h2; simp [lookupP]
      · have h2' : ¬ k' = k'' := fun e => h2 e.symm
        simp [lookupP, h2, h2']
    · simp only [h1, if_false]
      by_cases h2 : k'' = k'
      · subst h2
        simp [lookupP, h1]
      · simp only [lookupP, h2, if_false, ih]

theorem groupFrom_lookupG (key : V → K) (pay : V → P) (k : K) :
    ∀ (xs : List V) (acc : List (K × P × List V)),
      lookupG k (groupFrom key pay acc xs) = lookupG k acc ++ xs.filter (fun x => decide (key x = k))
  | [], acc => by simp [groupFrom]
  | x :: xs, acc => by
    unfold groupFrom
    rw [groupFrom_lookupG key pay k xs, insertG_lookupG]
    by_cases h : key x = k
    · subst h
      simp
    · have h' : ¬ k = key x := fun e => h e.symm
      simp [h, h']

theorem groupFrom_lookupP (key : V → K) (pay : V → P) (k : K) :
    ∀ (xs : List V) (acc : List (K × P × List V)),
      lookupP k (groupFrom key pay acc xs) =
        (lookupP k acc).or ((xs.find? (fun x => decide (key x = k))).map pay)
  | [], acc => by simp [groupFrom]
  | x :: xs, acc => by
    unfold groupFrom
    rw [groupFrom_lookupP key pay k xs, insertG_lookupP]
    by_cases h : key x = k
    · subst h
      cases hl : lookupP (key x) acc <;> simp
    · have h' : ¬ k = key x := fun e => h e.symm
      simp [h, h']

/-- in a list of groups without repeated keys, looking a group's key up finds that group -/
theorem lookup_of_mem :
    ∀ (g : List (K × P × List V)), (g.map (·.1)).Nodup → ∀ e ∈ g, lookupG e.1 g = e.2.2 ∧ lookupP e.1 g = some e.2.1
  | [], _, e, he => by simp at he
  | (k', p', vs) :: rest, hn, e, he => by
    simp only [List.map_cons, List.nodup_cons] at hn
    simp only [List.mem_cons] at he
    rcases he with he | he
    · subst he; simp [lookupG, lookupP]
    · have hne : ¬ k' = e.1 := by
        intro h
        apply hn.1
        rw [h]
        exact List.mem_map.mpr ⟨e, he, rfl⟩
      have ih := lookup_of_mem rest hn.2 e he
      simp [lookupG, lookupP, hne, ih]

/-- **the grouping step is the partition of the input by key, order preserved.** For every input list:
no two groups have the same key; the members of a group are exactly the inputs with the group's key, in input
order (`List.filter`); no group is empty; the payload of a group is that of the first input with its key; and
every input's key has a group. -/
theorem groupBy_partition (key : V → K) (pay : V → P) (xs : List V) :
    ((groupBy key pay xs).map (·.1)).Nodup ∧
    (∀ e ∈ groupBy key pay xs,
      e.2.2 = xs.filter (fun x => decide (key x = e.1)) ∧ e.2.2 ≠ [] ∧
      some e.2.1 = (xs.find? (fun x => decide (key x = e.1))).map pay) ∧
    (∀ x ∈ xs, ∃ e ∈ groupBy key pay xs, e.1 = key x) := by
  have hn := groupBy_nodup key pay xs
  refine ⟨hn, ?_, ?_⟩
  · intro e he
    have hl := lookup_of_mem _ hn e he
    have h1 : lookupG e.1 (groupBy key pay xs) = xs.filter (fun x => decide (key x = e.1)) := by
      simp [groupBy, groupFrom_lookupG, lookupG]
    have h2 : lookupP e.1 (groupBy key pay xs) = (xs.find? (fun x => decide (key x = e.1))).map pay := by
      simp [groupBy, groupFrom_lookupP, lookupP]
    refine ⟨hl.1.symm.trans h1, ?_, hl.2.symm.trans h2⟩
    obtain ⟨w, hw, _⟩ := (groupBy_ok key pay xs e he).2
    intro h; rw [h] at hw; simp at hw
  · intro x hx
    have hmem : x ∈ (groupBy key pay xs).flatMap (·.2.2) := (groupBy_perm key pay xs).symm.subset hx
    obtain ⟨e, he, hxe⟩ := List.mem_flatMap.mp hmem
    exact ⟨e, he, ((groupBy_ok key pay xs e he).1 x hxe).symm⟩

/-- order within a group is the input order: the members are a sublist of the input -/
theorem groupBy_sublist (key : V → K) (pay : V → P) (xs : List V) :
    ∀ e ∈ groupBy key pay xs, e.2.2.Sublist xs := by
  intro e he
  rw [((groupBy_partition key pay xs).2.1 e he).1]
  exact List.filter_sublist

/-- reference: the distinct keys of a list in order of first occurrence -/
def firstSeen : List K → List K
  | [] => []
  | k :: ks => k :: (firstSeen ks).filter (fun k' => !decide (k' = k))

private theorem filter_notin_filter_ne (acc : List K) (k : K) (hk : k ∈ acc) (l : List K) :
    (l.filter (fun k' => !decide (k' = k))).filter (fun k' => !decide (k' ∈ acc)) =
      l.filter (fun k' => !decide (k' ∈ acc)) := by
  rw [List.filter_filter]
  apply List.filter_congr
  intro x _
  by_cases hx : x = k
  · subst hx; simp [hk]
  · simp [hx]

theorem groupFrom_keys (key : V → K) (pay : V → P) :
    ∀ (xs : List V) (acc : List (K × P × List V)),
      (groupFrom key pay acc xs).map (·.1) =
        acc.map (·.1) ++ (firstSeen (xs.map key)).filter (fun k' => !decide (k' ∈ acc.map (·.1)))
  | [], acc => by simp [groupFrom, firstSeen]
  | x :: xs, acc => by
    unfold groupFrom
    rw [groupFrom_keys key pay xs, insertG_keys]
    by_cases hk : key x ∈ acc.map (·.1)
    · simp only [hk, if_true, List.map_cons, firstSeen, List.filter_cons, decide_true, Bool.not_true]
      simp only [Bool.false_eq_true, if_false]
      rw [filter_notin_filter_ne _ _ hk]
    · simp only [hk, if_false, List.map_cons, firstSeen, List.filter_cons, decide_false, Bool.not_false,
        if_true, List.append_assoc, List.singleton_append]
      congr 2
      rw [List.filter_filter]
      apply List.filter_congr
      intro y _
      by_cases hy : y = key x
      · subst hy; simp
      · simp [hy]

/-- **groups come in first-seen order of their keys** (the order in which the Go code appends a new
ScopeSpans / ScopeLogs to its parent) -/
theorem groupBy_keys_firstSeen (key : V → K) (pay : V → P) (xs : List V) :
    (groupBy key pay xs).map (·.1) = firstSeen (xs.map key) := by
  simp [groupBy, groupFrom_keys]
end Group

end Otel.C13
