/-
C13 — driver. One self-contained case per line:
  spans   <gen> <caseSeed> <batch> => <ResourceSpans dump>
  e2e13   … # <batch> => <attempts> <status> <k> <dump> [|| …]   (real exporters against in-process collectors)
For each line: run the model (`encode*`) on the canonical input, compare with the implementation's decoded
payload (`agree`), and evaluate the Spec oracles (reference decoder + recovered/grouping predicates) on the
**observed** payload.
-/
import Otel.C13.Parse
import Otel.C13.ZipkinE2E
import Otel.C13.ZipkinModel
open Otel Otel.Wire Otel.C13 Otel.C13.Tree

def tagIf (b : Bool) (t : String) : List String := if b then [t] else []
def tagsStr (ts : List String) : String := if ts.isEmpty then "-" else ",".intercalate ts

def one? (toks : List String) : Option Tree :=
  match parseTrees toks [] [] with
  | some [t] => some t
  | _ => none

def failV (why : String) : Verdict := { agree := false, spec := "FAIL", nontrivial := true, branches := "-", model := why }

def kvsTags (kvs : List KV) : List String :=
  tagIf (kvs.any fun kv => kv.val == .invalid) "attr-invalid" ++
  tagIf (kvs.any fun kv => !kv.val.plain && kv.val != .invalid) "attr-empty-slice"

def stepSpans (inp obs : List String) : Option Verdict := do
  let batch ← (← one? inp) |> spanBatch?
  let ss := batch.filterMap id
  let model := encodeSpans batch
  match obs with
  | ["err:wire"] => pure (failV "wire-error")
  | _ =>
  match (one? obs).bind (·.list? pResourceSpans?) with
  | none => pure (failV "observed-payload-not-representable")
  | some o =>
    let agree := o.isPerm model
    let groups := spanGroupsOK batch o
    -- no known finding is left for traces (F16, F32 repaired): anything but the strict round trip is a FAIL
    let spec := if spansRecovered batch o && groups then "ok" else "FAIL"
    let resKeys := (ss.map fun s => (resKey s.resource, resSchema s.resource)).eraseDups
    let sameAttrsOtherSchema := resKeys.any fun a => resKeys.any fun b => a.1 == b.1 && a.2 != b.2
    let nilAndEmpty := ss.any (·.resource.isNone) && ss.any (fun s => s.resource == some ⟨[], []⟩)
    let linkTS := ss.any fun s => s.links.any fun l => l.sc.traceState != []
    let allKvs := ss.flatMap fun s => s.attrs ++ s.events.flatMap (·.attrs) ++ s.links.flatMap (·.attrs)
    let br :=
      tagIf (batch.any (·.isNone)) "nil-span" ++ tagIf (ss.any (·.resource.isNone)) "nil-resource" ++
      tagIf (ss.any (·.scope.isZero)) "zero-scope" ++ tagIf (model.length > 1) "multi-resource" ++
      tagIf (model.any (·.scopeSpans.length > 1)) "multi-scope" ++
      tagIf (model.any (·.scopeSpans.any (·.spans.length > 1))) "multi-span-group" ++
      tagIf sameAttrsOtherSchema "same-attrs-other-schema" ++ tagIf nilAndEmpty "nil-and-empty-resource" ++ tagIf linkTS "link-tracestate" ++
      tagIf (ss.any fun s => s.start < 0 || s.stop < 0) "time-neg" ++
      tagIf (ss.any fun s => s.droppedAttrs < 0 || s.droppedEvents < 0 || s.droppedLinks < 0) "clamp-neg" ++
      tagIf (ss.any fun s => s.droppedAttrs > 4294967295 || s.droppedEvents > 4294967295 || s.droppedLinks > 4294967295) "clamp-hi" ++
      tagIf (ss.any fun s => spanKind s.kind != s.kind) "kind-default" ++
      tagIf (ss.any fun s => s.statusCode > 2) "status-default" ++
      tagIf (ss.any fun s => !idValid s.parent.spanId) "no-parent" ++
      tagIf (ss.any fun s => s.parent.remote) "parent-remote" ++
      tagIf (ss.any fun s => !s.events.isEmpty) "events" ++ tagIf (ss.any fun s => !s.links.isEmpty) "links" ++
      kvsTags allKvs
    pure { agree := agree, spec := spec, nontrivial := !ss.isEmpty, branches := tagsStr br,
           model := if agree then "=" else oneLine model }

mutual
  def lvalDepth : LVal → Nat
    | .slice l => 1 + lvalsDepth l
    | .map l => 1 + lkvsDepth l
    | _ => 0
  def lvalsDepth : List LVal → Nat
    | [] => 0
    | v :: vs => max (lvalDepth v) (lvalsDepth vs)
  def lkvsDepth : List (Bytes × LVal) → Nat
    | [] => 0
    | (_, v) :: kvs => max (lvalDepth v) (lkvsDepth kvs)
end

def stepLogs (inp obs : List String) : Option Verdict := do
  let rs ← (← one? inp) |> logBatch?
  let model := encodeLogs rs
  match obs with
  | ["err:wire"] => pure (failV "wire-error")
  | _ =>
  match (one? obs).bind (·.list? pResourceLogs?) with
  | none => pure (failV "observed-payload-not-representable")
  | some o =>
    let agree := o.isPerm model
    let f33 := F33_applies rs
    let groups := logGroupsOK rs o
    -- strict first; KNOWN:F33 only when the sole deviation is the empty value arriving as "INVALID"
    let spec :=
      if logsRecovered false rs o && groups then "ok"
      else if f33 && logsRecovered true rs o && groups then "KNOWN:F33"
      else "FAIL"
    let resKeys := (rs.map (·.resource)).eraseDups
    let sameAttrsOtherSchema := resKeys.any fun a => resKeys.any fun b => a.attrs == b.attrs && a.schemaUrl != b.schemaUrl
    let depth := rs.foldl (fun d r => max d (max (lvalDepth r.body) (lkvsDepth r.attrs + 1))) 0
    let br :=
      tagIf (rs.any (·.resource.attrs.isEmpty)) "no-resource-msg" ++
      tagIf (rs.any (·.scope.isZero)) "zero-scope" ++ tagIf (model.length > 1) "multi-resource" ++
      tagIf (model.any (·.scopeLogs.length > 1)) "multi-scope" ++
      tagIf (model.any (·.scopeLogs.any (·.records.length > 1))) "multi-record-group" ++
      tagIf sameAttrsOtherSchema "same-attrs-other-schema" ++ tagIf f33 "f33" ++
      tagIf (rs.any fun r => r.time < 0 || r.observed < 0) "time-neg" ++
      tagIf (rs.any fun r => r.dropped > 0) "dropped" ++
      tagIf (rs.any fun r => r.dropped > 4294967295) "dropped-clamp" ++
      tagIf (rs.any fun r => r.dropped < 0) "dropped-neg" ++
      tagIf (rs.any fun r => severityNumber r.severity != r.severity) "severity-default" ++
      tagIf (rs.any fun r => !idValid r.traceId) "no-traceid" ++ tagIf (rs.any fun r => !idValid r.spanId) "no-spanid" ++
      [s!"depth{depth}"]
    pure { agree := agree, spec := spec, nontrivial := !rs.isEmpty, branches := tagsStr br,
           model := if agree then "=" else oneLine model }

def aggTag : Agg → String
  | .gauge _ => "gauge"
  | .sum .. => "sum"
  | .hist .. => "histogram"
  | .expo .. => "expo"
  | .summary _ => "summary"
  | .unknown => "unknown-agg"

def aggNums : Agg → List Num
  | .gauge pts => pts.map (·.value)
  | .sum pts _ _ => pts.map (·.value)
  | .hist pts _ => pts.map (·.sum)
  | .expo pts _ => pts.map (·.sum)
  | _ => []

def stepMetrics (inp obs : List String) : Option Verdict := do
  let rm ← (← one? inp) |> resourceMetrics?
  let model := encodeResourceMetrics rm
  let modelErr := encodeMetricsErr rm
  match obs with
  | ["err:wire"] => pure (failV "wire-error")
  | st :: rest =>
    if st != "ok" && st != "err" then none else
    match (one? rest).bind pResourceMetrics? with
    | none => pure (failV "observed-payload-not-representable")
    | some o =>
      let obsErr := st == "err"
      let agree := o == model && obsErr == modelErr
      let f17 := F17_applies rm
      let spec :=
        if metricsRecovered false rm obsErr o then "ok"
        else if f17 && metricsRecovered true rm obsErr o then "KNOWN:F17"
        else "FAIL"
      let ms := rm.scopeMetrics.flatMap (·.metrics)
      let nums := ms.flatMap (aggNums ·.data)
      let big := fun (n : Num) => match n with | .int v => v > 9007199254740992 || v < -9007199254740992 | _ => false
      let br :=
        (ms.map (aggTag ·.data)).eraseDups ++
        tagIf (nums.any fun n => match n with | .int _ => true | _ => false) "int64" ++
        tagIf (nums.any fun n => match n with | .float _ => true | _ => false) "float64" ++
        tagIf modelErr "dropped-metric" ++ tagIf f17 "f17" ++
        tagIf (ms.any fun m => match m.data with | .hist pts _ => pts.any (fun p => big p.sum) | .expo pts _ => pts.any (fun p => big p.sum) | _ => false) "int-sum-beyond-2^53" ++
        tagIf (rm.scopeMetrics.length > 1) "multi-scope" ++
        tagIf (rm.scopeMetrics.any (·.metrics.isEmpty)) "empty-scope" ++
        tagIf (rm.scopeMetrics.any (·.scope.isZero)) "zero-scope" ++
        tagIf (rm.resource.attrs.isEmpty) "empty-resource"
      pure { agree := agree, spec := spec, nontrivial := !ms.isEmpty, branches := tagsStr br,
             model := if agree then "=" else (if modelErr then "err " else "ok ") ++ oneLine model }
  | _ => none

def stepZipkin (inp obs : List String) : Option Verdict := do
  match inp, obs with
  | [tid, sid, pid, name, kind, start, stop], [high, low, id, parent, oname, okind, ts, dur] =>
    let tid ← parseHex tid; let sid ← parseHex sid; let pid ← parseHex pid; let name ← parseHex name
    let kind ← parseInt kind; let start ← parseInt start; let stop ← parseInt stop
    let high ← parseNat high; let low ← parseNat low; let id ← parseNat id
    let parent ← (if parent = "-" then some none else (parseNat parent).map some)
    let oname ← parseHex oname; let okind ← parseHex okind; let ts ← parseInt ts; let dur ← parseInt dur
    let m := (zipkinTraceId tid, zipkinId sid, zipkinParentId pid, name, zipkinKind kind, start, zipkinDuration start stop)
    let agree := m == ((high, low), id, parent, oname, okind, ts, dur)
    let ok := zipkinOK tid sid pid name kind start stop high low id parent oname okind ts dur
    let br := tagIf (parent.isNone) "no-parent" ++ tagIf (zipkinDuration start stop != stop - start) "duration-saturated" ++
      tagIf (zipkinKind kind == []) "kind-undetermined" ++ tagIf (high == 0) "high-zero" ++ tagIf (low == 0) "low-zero"
    pure { agree := agree, spec := if ok then "ok" else "FAIL", nontrivial := idValid tid || idValid sid,
           branches := tagsStr br, model := if agree then "=" else oneLine m }
  | _, _ => none

/-- model-free sensitivity lines: `sens <signal> 0 <field> => changed|same`. Changing only that field of a
fixed base item must change the deterministic wire encoding. Fields OTLP does not carry in fields the statement
lists (DESIGN §5 C13) are expected to be `same` and judged `na`; the two known findings are classified. -/
def stepSens (field : String) (obs : List String) : Option Verdict :=
  match obs with
  | [r] =>
    if r != "changed" && r != "same" then none else
    let known : Option String := none   -- F16 (trace.link-tracestate) is repaired: it must now be `changed`
    let notCarried := ["trace.span-flags", "trace.link-flags", "trace.child-count"].contains field
    let expected := if known.isSome || notCarried then "same" else "changed"
    let spec := if r == "changed" then "ok" else match known with
      | some f => "KNOWN:" ++ f
      | none => if notCarried then "na" else "FAIL"
    some { agree := r == expected, spec := spec, nontrivial := true, branches := "sens:" ++ field, model := expected }
  | _ => none

/-! ### end-to-end lines (harness/bb/otlpe2e): the payload as an in-process collector received it -/

/-- split at every occurrence of `sep` -/
def splitAll (sep : String) (l : List String) : List (List String) :=
  let (cur, acc) := l.foldr (fun t (cur, acc) => if t == sep then ([], cur :: acc) else (t :: cur, acc)) ([], [])
  cur :: acc

def worstSpec (specs : List String) : String :=
  if specs.any (· == "FAIL") then "FAIL"
  else match specs.find? (·.startsWith "KNOWN:") with
    | some k => k
    | none => if specs.all (· == "ok") then "ok" else "FAIL"

/-- `e2e13 <gen> <exp> <batch id> <configuration and script: not used here> # <batch> => <attempts> <ok|err|-> <k> <dump> [|| <k> <dump>]…`
The real exporter (public API, real HTTP/gRPC client, possibly gzip, possibly several attempts) delivered the
batch to a collector; every attempt's body was decompressed, `proto.Unmarshal`ed and dumped with the dumper of
the white-box legs. Each group of attempts is judged by the SAME step function as the white-box line of that
signal (`encodeSpans` / `encodeLogs` / `encodeResourceMetrics` + the Spec decoders): every attempt carries the
model's encoding of the input, hence all attempts carry the same payload. -/
def stepE2E (exp : String) (rest obs : List String) : Option Verdict := do
  let batchToks ← (match splitAll "#" rest with
    | [_, b] => some b
    | _ => none)
  match obs with
  | natt :: st :: groupsToks =>
    let natt ← natt.toNat?
    let groups := splitAll "||" groupsToks
    let judged ← groups.mapM (fun g => match g with
      | k :: dump => do
        let k ← k.toNat?
        let v ← (match exp.toList.head? with
          | some 't' => stepSpans batchToks dump
          | some 'l' => stepLogs batchToks dump
          | some 'm' => stepMetrics batchToks (if dump == ["err:wire"] then dump else st :: dump)
          | _ => none)
        pure (k, v)
      | [] => none)
    let total := judged.foldl (fun a kv => a + kv.1) 0
    let vs := judged.map (·.2)
    match vs with
    | [] => none
    | v0 :: _ =>
      -- at least one attempt arrived, every attempt is accounted for, and all attempts decoded to one and the
      -- same payload, which is the model's
      let shape := natt ≥ 1 && total == natt && judged.length == 1
      pure { agree := shape && vs.all (·.agree),
             spec := if natt == 0 || total != natt then "FAIL" else worstSpec (vs.map (·.spec)),
             nontrivial := v0.nontrivial,
             branches := (if v0.branches == "-" then "" else v0.branches ++ ",") ++ s!"{exp},attempts{min natt 3}",
             model := v0.model }
  | _ => none

/-- `tmpl <signal>/<exporter> 0 <file> => same | differs:<sibling|template>:<file>:<line> | err:<what>`: the rendered
copies of the templated transform code (this package, the sibling exporter's, the template) are textually identical
modulo the package import comment and the exporter's import-path prefix — so the model of one copy is the model of
all. Model-free: anything but `same` is a failure. -/
def stepTmpl (file : String) (obs : List String) : Option Verdict :=
  match obs with
  | [r] =>
    if r == "same" then some { agree := true, spec := "ok", nontrivial := true, branches := "tmpl:" ++ file, model := "=" }
    else if r.startsWith "differs:" || r.startsWith "err:" then
      some { agree := false, spec := "FAIL", nontrivial := true, branches := "tmpl:" ++ file, model := "same" }
    else none
  | _ => none

/-- `e2epair pair <exp> <gen>:<seed> <nretry> <final> => <attempts gz> <attempts id> <enc gz> <enc id> <same|differs|nodata>`
(harness/bb/otlpe2e/c13_pair_test.go): two exporters of one kind that differ only in the compression option export
the same batch; the collector answers `nretry` retryable answers, then the final one (success, partial success,
warning-only partial success, non-empty response). Oracle: every attempt of both runs decoded to ONE message
(`same`: the payload does not depend on the compression), and the batch was sent exactly `nretry + 1` times in each
run — a partial success is a final answer: nothing is re-sent after it (no item delivered twice). `agree`
additionally requires that the two runs really used gzip and identity. -/
def stepE2EPair (inp obs : List String) : Option Verdict :=
  match inp, obs with
  | [exp, _, nretry, final], [ag, ai, eg, ei, eq] => do
    let nr ← nretry.toNat?
    let ag ← ag.toNat?
    let ai ← ai.toNat?
    if eq != "same" && eq != "differs" && eq != "nodata" then none else
    let want := nr + 1
    let ok := eq == "same" && ag == want && ai == want
    let agree := ok && eg == "gzip" && ei == "id"
    let fields := final.splitOn ";"
    let cls :=
      if exp.toList.drop 1 == ['h'] then
        (match fields with
         | [_, _, _, b] =>
           if b == "e" then "final-ok" else if b.startsWith "n" then "final-nonempty"
           else if b.startsWith "p" then (match b.splitOn ":" with
             | [_, rej, _] => if rej == "0" then "final-warning" else "final-partial"
             | _ => "final-?")
           else "final-?"
         | _ => "final-?")
      else
        (match fields with
         | [_, _, p] => if p == "-" then "final-ok" else (match p.splitOn ":" with
             | [rej, _] => if rej == "0" then "final-warning" else "final-partial"
             | _ => "final-?")
         | _ => "final-?")
    pure { agree := agree, spec := if ok then "ok" else "FAIL", nontrivial := true,
           branches := s!"pair-{exp},{cls},retries{nr}",
           model := if agree then "=" else s!"{want} {want} gzip id same" }
  | _, _ => none

def stepLine (_ : Unit) (toks : List String) : Unit × Option Verdict :=
  let (inp, obs) := splitObs toks
  match inp with
  | "e2e13" :: _ :: exp :: rest => ((), stepE2E exp rest obs)
  | "spans" :: _ :: _ :: rest => ((), stepSpans rest obs)
  | "logs" :: _ :: _ :: rest => ((), stepLogs rest obs)
  | "metrics" :: _ :: _ :: rest => ((), stepMetrics rest obs)
  | "zipkin" :: _ :: _ :: rest => ((), stepZipkin rest obs)
  | "zipkinseq" :: _ :: _ :: rest => ((), stepZipkinSeq rest obs)
  | "zipkinm" :: _ :: _ :: rest => ((), stepZipkinModel rest obs)
  | ["sens", _, _, field] => ((), stepSens field obs)
  | ["tmpl", _, _, file] => ((), stepTmpl file obs)
  | "e2epair" :: _ :: rest => ((), stepE2EPair rest obs)
  | _ => ((), none)

def main : IO Unit := Wire.run () stepLine
