/-
C13 — helper lemmas (core Lean only).
-/
import Otel.C13.Spec
namespace Otel.C13

theorem mapOpt_map {α β γ : Type} (f : α → β) (g : β → Option γ) (h : α → γ) (l : List α)
    (H : ∀ x ∈ l, g (f x) = some (h x)) : mapOpt g (l.map f) = some (l.map h) := by
  induction l with
  | nil => rfl
  | cons x xs ih =>
    have h1 := H x (by simp)
    have h2 := ih (fun y hy => H y (by simp [hy]))
    simp [mapOpt, h1, h2]

theorem mapOpt_map_id {α β : Type} (f : α → β) (g : β → Option α) (l : List α)
    (H : ∀ x, g (f x) = some x) : mapOpt g (l.map f) = some l := by
  have := mapOpt_map f g id l (fun x _ => H x)
  simpa using this

theorem mapOpt_asBool (l : List Bool) : mapOpt asBool (l.map .bool) = some l := mapOpt_map_id _ _ _ (fun _ => rfl)
theorem mapOpt_asInt (l : List Int) : mapOpt asInt (l.map .int) = some l := mapOpt_map_id _ _ _ (fun _ => rfl)
theorem mapOpt_asDbl (l : List F64) : mapOpt asDbl (l.map .dbl) = some l := mapOpt_map_id _ _ _ (fun _ => rfl)
theorem mapOpt_asStr (l : List Bytes) : mapOpt asStr (l.map .str) = some l := mapOpt_map_id _ _ _ (fun _ => rfl)

theorem decodeVal_encodeVal (v : Val) : decodeVal (encodeVal v) = some (normVal v) := by
  cases v with
  | boolSlice l => cases l <;> simp [encodeVal, decodeVal, normVal, mapOpt_asBool]
  | intSlice l => cases l <;> simp [encodeVal, decodeVal, normVal, mapOpt_asInt]
  | floatSlice l => cases l <;> simp [encodeVal, decodeVal, normVal, mapOpt_asDbl]
  | strSlice l => cases l <;> simp [encodeVal, decodeVal, normVal, mapOpt_asStr]
  | _ => simp [encodeVal, decodeVal, normVal]

theorem normVal_of_plain (v : Val) (h : v.plain = true) : normVal v = v := by
  cases v with
  | boolSlice l => cases l <;> simp_all [normVal, Val.plain]
  | intSlice l => cases l <;> simp_all [normVal, Val.plain]
  | floatSlice l => cases l <;> simp_all [normVal, Val.plain]
  | strSlice l => cases l <;> simp_all [normVal, Val.plain]
  | _ => simp_all [normVal, Val.plain]

theorem decodeKVs_encodeKVs (kvs : List KV) : decodeKVs (encodeKVs kvs) = some (normKVs kvs) := by
  unfold decodeKVs encodeKVs normKVs
  apply mapOpt_map
  intro x _
  simp [decodeKV, encodeKV, decodeVal_encodeVal, normKV]

mutual
  theorem decodeLVal_encodeLVal : ∀ v : LVal, decodeLVal (encodeLVal v) = some (normLVal v)
    | .empty => by simp [encodeLVal, decodeLVal, normLVal]
    | .bool _ => by simp [encodeLVal, decodeLVal, normLVal]
    | .int _ => by simp [encodeLVal, decodeLVal, normLVal]
    | .float _ => by simp [encodeLVal, decodeLVal, normLVal]
    | .str _ => by simp [encodeLVal, decodeLVal, normLVal]
    | .bytes _ => by simp [encodeLVal, decodeLVal, normLVal]
    | .slice l => by simp [encodeLVal, decodeLVal, normLVal, decodeLVals_encodeLVals l]
    | .map l => by simp [encodeLVal, decodeLVal, normLVal, decodeLKVs_encodeLKVs l]
  theorem decodeLVals_encodeLVals : ∀ l : List LVal, decodeLVals (encodeLVals l) = some (normLVals l)
    | [] => by simp [encodeLVals, decodeLVals, normLVals]
    | v :: vs => by simp [encodeLVals, decodeLVals, normLVals, decodeLVal_encodeLVal v, decodeLVals_encodeLVals vs]
  theorem decodeLKVs_encodeLKVs : ∀ l : List (Bytes × LVal), decodeLKVs (encodeLKVs l) = some (normLKVs l)
    | [] => by simp [encodeLKVs, decodeLKVs, normLKVs]
    | (k, v) :: kvs => by simp [encodeLKVs, decodeLKVs, normLKVs, decodeLVal_encodeLVal v, decodeLKVs_encodeLKVs kvs]
end

mutual
  theorem normLVal_of_plain : ∀ v : LVal, v.plain = true → normLVal v = v
    | .empty, h => by simp [LVal.plain] at h
    | .bool _, _ => by simp [normLVal]
    | .int _, _ => by simp [normLVal]
    | .float _, _ => by simp [normLVal]
    | .str _, _ => by simp [normLVal]
    | .bytes _, _ => by simp [normLVal]
    | .slice l, h => by simp [normLVal, normLVals_of_plain l (by simpa [LVal.plain] using h)]
    | .map l, h => by simp [normLVal, normLKVs_of_plain l (by simpa [LVal.plain] using h)]
  theorem normLVals_of_plain : ∀ l : List LVal, LVal.plainList l = true → normLVals l = l
    | [], _ => by simp [normLVals]
    | v :: vs, h => by
      simp [LVal.plainList] at h
      simp [normLVals, normLVal_of_plain v h.1, normLVals_of_plain vs h.2]
  theorem normLKVs_of_plain : ∀ l : List (Bytes × LVal), LVal.plainKVs l = true → normLKVs l = l
    | [], _ => by simp [normLKVs]
    | (k, v) :: kvs, h => by
      simp [LVal.plainKVs] at h
      simp [normLKVs, normLVal_of_plain v h.1, normLKVs_of_plain kvs h.2]
end

/-! ### first-seen grouping -/
section Group
variable {K P V : Type} [DecidableEq K]

theorem insertG_perm (k : K) (p : P) (v : V) :
    ∀ g : List (K × P × List V), ((insertG k p v g).flatMap (·.2.2)).Perm (g.flatMap (·.2.2) ++ [v])
  | [] => by simp [insertG]
  | (k', p', vs) :: rest => by
    unfold insertG; split
    · simp only [List.flatMap_cons, List.append_assoc]
      exact List.Perm.append_left vs List.perm_append_comm
    · simp only [List.flatMap_cons, List.append_assoc]
      exact List.Perm.append_left vs (insertG_perm k p v rest)

theorem insertG_keys (k : K) (p : P) (v : V) :
    ∀ g : List (K × P × List V), (insertG k p v g).map (·.1) =
      if k ∈ g.map (·.1) then g.map (·.1) else g.map (·.1) ++ [k]
  | [] => by simp [insertG]
  | (k', p', vs) :: rest => by
    unfold insertG
    by_cases h : k' = k
    · simp [h]
    · have ih := insertG_keys k p v rest
      have h' : ¬ k = k' := fun e => h e.symm
      simp only [h, if_false, List.map_cons, List.mem_cons, h', false_or, ih]
      split <;> simp

theorem insertG_nodup (k : K) (p : P) (v : V) (g : List (K × P × List V))
    (h : (g.map (·.1)).Nodup) : ((insertG k p v g).map (·.1)).Nodup := by
  rw [insertG_keys]
  split
  · exact h
  · rename_i hk
    rw [List.nodup_append]
    refine ⟨h, by simp, ?_⟩
    intro a ha b hb
    simp at hb
    subst hb
    intro e; subst e; exact hk ha

/-- what every group satisfies: all members have the group's key, the payload is that of some member -/
def GroupOK (key : V → K) (pay : V → P) (e : K × P × List V) : Prop :=
  (∀ v ∈ e.2.2, key v = e.1) ∧ ∃ v ∈ e.2.2, e.2.1 = pay v

theorem insertG_ok (key : V → K) (pay : V → P) (x : V) :
    ∀ g : List (K × P × List V), (∀ e ∈ g, GroupOK key pay e) →
      ∀ e ∈ insertG (key x) (pay x) x g, GroupOK key pay e
  | [], _ => by
    intro e he
    simp [insertG] at he
    subst he
    exact ⟨by simp, x, by simp, rfl⟩
  | (k', p', vs) :: rest, H => by
    intro e he
    unfold insertG at he
    by_cases h : k' = key x
    · simp only [h, if_true, List.mem_cons] at he
      rcases he with he | he
      · subst he
        have := H (k', p', vs) (by simp)
        refine ⟨?_, ?_⟩
        · intro v hv
          simp at hv
          rcases hv with hv | hv
          · simpa [h] using this.1 v hv
          · subst hv; rfl
        · obtain ⟨w, hw, hp⟩ := this.2
          exact ⟨w, by simp [hw], hp⟩
      · exact H e (by simp [he])
    · simp only [h, if_false, List.mem_cons] at he
      rcases he with he | he
      · subst he; exact H _ (by simp)
      · exact insertG_ok key pay x rest (fun e he => H e (by simp [he])) e he

theorem groupFrom_spec (key : V → K) (pay : V → P) :
    ∀ (xs : List V) (acc : List (K × P × List V)),
      (acc.map (·.1)).Nodup → (∀ e ∈ acc, GroupOK key pay e) →
      ((groupFrom key pay acc xs).map (·.1)).Nodup ∧ (∀ e ∈ groupFrom key pay acc xs, GroupOK key pay e) ∧
      ((groupFrom key pay acc xs).flatMap (·.2.2)).Perm (acc.flatMap (·.2.2) ++ xs)
  | [], acc, h1, h2 => ⟨by simpa [groupFrom] using h1, by simpa only [groupFrom] using h2, by simp [groupFrom]⟩
  | x :: xs, acc, h1, h2 => by
    unfold groupFrom
    have ih := groupFrom_spec key pay xs (insertG (key x) (pay x) x acc) (insertG_nodup _ _ _ _ h1)
      (insertG_ok key pay x acc h2)
    refine ⟨ih.1, ih.2.1, ih.2.2.trans ?_⟩
    have := (insertG_perm (key x) (pay x) x acc).append_right xs
    simpa using this

theorem groupBy_nodup (key : V → K) (pay : V → P) (xs : List V) : ((groupBy key pay xs).map (·.1)).Nodup :=
  (groupFrom_spec key pay xs [] (by simp) (by simp)).1

theorem groupBy_ok (key : V → K) (pay : V → P) (xs : List V) : ∀ e ∈ groupBy key pay xs, GroupOK key pay e :=
  (groupFrom_spec key pay xs [] (by simp) (by simp)).2.1

theorem groupBy_perm (key : V → K) (pay : V → P) (xs : List V) :
    ((groupBy key pay xs).flatMap (·.2.2)).Perm xs := by
  simpa [groupBy] using (groupFrom_spec key pay xs [] (by simp) (by simp)).2.2

theorem groupBy_mem (key : V → K) (pay : V → P) (xs : List V) (e : K × P × List V)
    (he : e ∈ groupBy key pay xs) (v : V) (hv : v ∈ e.2.2) : v ∈ xs :=
  (groupBy_perm key pay xs).subset (List.mem_flatMap.mpr ⟨e, he, hv⟩)
end Group

/-! ### traces -/
theorem idValid_ne_nil (b : Bytes) (h : idValid b = true) : b ≠ [] := by
  intro e; subst e; simp [idValid] at h

theorem decodeRemote_spanFlags (sc : SpanCtx) : decodeRemote (spanFlags sc) = some sc.remote := by
  unfold decodeRemote spanFlags
  cases sc.remote <;> simp

theorem decodeStatusCode_statusCode (c : Nat) : decodeStatusCode (statusCode c) = some (normStatusCode c) := by
  unfold decodeStatusCode statusCode normStatusCode
  by_cases h2 : c = 2
  · simp [h2]
  · by_cases h1 : c = 1
    · simp [h1]
    · simp [h1, h2]

theorem spanKind_range (k : Int) : 0 ≤ spanKind k ∧ spanKind k ≤ 5 := by
  unfold spanKind
  repeat' split
  all_goals omega

theorem decodeEvent_encodeEvent (e : Event) : decodeEvent (encodeEvent e) = some (normEvent e) := by
  simp [decodeEvent, encodeEvent, decodeKVs_encodeKVs, normEvent]

theorem decodeLink_encodeLink (l : Link) : decodeLink (encodeLink l) = some (normLink l) := by
  simp only [decodeLink, encodeLink, decodeKVs_encodeKVs, decodeRemote_spanFlags, normLink]

theorem decodeSpan_encodeSpan (s : Span) :
    decodeSpan (normRes s.resource) (normScope s.scope) (encodeSpan s) = some (normSpan s) := by
  have hl : mapOpt decodeLink (s.links.map encodeLink) = some (s.links.map normLink) :=
    mapOpt_map _ _ _ _ (fun l _ => decodeLink_encodeLink l)
  have he : mapOpt decodeEvent (s.events.map encodeEvent) = some (s.events.map normEvent) :=
    mapOpt_map _ _ _ _ (fun e _ => decodeEvent_encodeEvent e)
  have hk := spanKind_range s.kind
  simp only [decodeSpan, encodeSpan, decodeKVs_encodeKVs, he, hl, decodeRemote_spanFlags,
    decodeStatusCode_statusCode, hk.1, hk.2, and_self, if_true, normSpan]
  by_cases hp : idValid s.parent.spanId = true
  · simp [hp, idValid_ne_nil _ hp]
  · simp [hp]

theorem decodeResource_encodeTraceResource (r : Option Resource) :
    decodeResourceMsg (encodeTraceResource r) (resSchema r) = some (normRes r) := by
  cases r with
  | none => simp [decodeResourceMsg, decodeResource, encodeTraceResource, resSchema, normRes, resKey, normKVs]
  | some x =>
    simp [decodeResourceMsg, decodeResource, encodeTraceResource, resSchema, decodeKVs_encodeKVs, normRes, resKey]

theorem decodeScope_encodeTraceScope (sc : Scope) :
    decodeScope (encodeTraceScope sc) sc.schemaUrl = some (normScope sc) := by
  unfold encodeTraceScope
  by_cases hz : sc.isZero = true
  · simp only [hz, if_true, decodeScope]
    cases sc with
    | mk n v u a =>
      simp only [Scope.isZero, Bool.and_eq_true, beq_iff_eq] at hz
      obtain ⟨⟨⟨h1, h2⟩, h3⟩, h4⟩ := hz
      subst h1 h2 h3 h4
      simp [normScope, normKVs]
  · simp [hz, decodeScope, decodeKVs_encodeKVs, normScope]

theorem decodeScopeSpans_encodeScopeSpans (r : Option Resource) (g : Scope × Unit × List Span)
    (H : ∀ s ∈ g.2.2, s.scope = g.1 ∧ normRes s.resource = normRes r) :
    decodeScopeSpans (normRes r) (encodeScopeSpans g) = some (g.2.2.map normSpan) := by
  simp only [decodeScopeSpans, encodeScopeSpans, decodeScope_encodeTraceScope]
  apply mapOpt_map
  intro s hs
  obtain ⟨h1, h2⟩ := H s hs
  rw [← h1, ← h2]
  exact decodeSpan_encodeSpan s

theorem flatten_map_map {α β : Type} (f : α → β) (l : List (List α)) :
    (l.map (List.map f)).flatten = l.flatten.map f := by
  rw [List.map_flatten]

/-- spans of a batch in the order the payload holds them -/
def scopeGrouped (rs : List Span) : List Span := (groupBy (·.scope) (fun _ => ()) rs).flatMap (·.2.2)

def groupedSpans (sdl : List (Option Span)) : List Span :=
  (groupBy (fun s => resGroupKey s.resource) (·.resource) (sdl.filterMap id)).flatMap fun g => scopeGrouped g.2.2

theorem decodeResourceSpans_encodeResourceSpans (g : (List KV × Bytes) × Option Resource × List Span)
    (H : ∀ s ∈ g.2.2, normRes s.resource = normRes g.2.1) :
    decodeResourceSpans (encodeResourceSpans g) = some ((scopeGrouped g.2.2).map normSpan) := by
  simp only [decodeResourceSpans, encodeResourceSpans, decodeResource_encodeTraceResource]
  have : mapOpt (decodeScopeSpans (normRes g.2.1))
      ((groupBy (·.scope) (fun _ => ()) g.2.2).map encodeScopeSpans) =
      some ((groupBy (·.scope) (fun _ => ()) g.2.2).map fun sg => sg.2.2.map normSpan) := by
    apply mapOpt_map
    intro sg hsg
    apply decodeScopeSpans_encodeScopeSpans
    intro s hs
    have hmem := groupBy_mem _ _ _ sg hsg s hs
    exact ⟨(groupBy_ok _ _ _ sg hsg).1 s hs, H s hmem⟩
  rw [this]
  simp only [Option.map_some, scopeGrouped, List.flatMap_def]
  rw [← flatten_map_map, List.map_map]
  rfl

theorem perm_flatMap_left {α β : Type} (f g : α → List β) :
    ∀ l : List α, (∀ a ∈ l, (f a).Perm (g a)) → (l.flatMap f).Perm (l.flatMap g)
  | [], _ => by simp
  | a :: l, H => by
    simp only [List.flatMap_cons]
    exact (H a (by simp)).append (perm_flatMap_left f g l (fun b hb => H b (by simp [hb])))

theorem scopeGrouped_perm (rs : List Span) : (scopeGrouped rs).Perm rs := groupBy_perm _ _ rs

theorem groupedSpans_perm (sdl : List (Option Span)) : (groupedSpans sdl).Perm (sdl.filterMap id) := by
  unfold groupedSpans
  refine (perm_flatMap_left _ (·.2.2) _ (fun g _ => scopeGrouped_perm g.2.2)).trans ?_
  exact groupBy_perm _ _ _

/-! ### logs -/
theorem severityNumber_range (s : Int) : 0 ≤ severityNumber s ∧ severityNumber s ≤ 24 := by
  unfold severityNumber; split <;> omega

theorem decodeLogRecord_encodeLogRecord (r : LogRecord) (hf : r.flags < 256) :
    decodeLogRecord (normResource r.resource) (normScope r.scope) (encodeLogRecord r) = some (normLog r) := by
  have hs := severityNumber_range r.severity
  simp only [decodeLogRecord, encodeLogRecord, decodeLVal_encodeLVal, decodeLKVs_encodeLKVs, hs.1, hs.2, hf,
    and_self, if_true, normLog]
  by_cases ht : idValid r.traceId = true <;> by_cases hp : idValid r.spanId = true <;>
    simp [ht, hp, idValid_ne_nil]

theorem decodeLogResource_encodeLogResource (r : Resource) :
    decodeLogResource (encodeLogResource r) r.schemaUrl = some (normResource r) := by
  cases r with
  | mk attrs schema =>
    cases attrs with
    | nil =>
      by_cases h : schema = []
      · simp [decodeLogResource, decodeResource, encodeLogResource, normResource, normKVs, h]
      · simp [decodeLogResource, decodeResource, encodeLogResource, normResource, normKVs, h]
    | cons a as =>
      simp [decodeLogResource, decodeResource, encodeLogResource, decodeKVs_encodeKVs, normResource]

theorem decodeScopeLogs_encodeScopeLogs (res : Resource) (g : Scope × Unit × List LogRecord)
    (H : ∀ r ∈ g.2.2, r.scope = g.1 ∧ r.resource = res ∧ r.flags < 256) :
    decodeScopeLogs (normResource res) (encodeScopeLogs g) = some (g.2.2.map normLog) := by
  have hsc : decodeScope (encodeScopeLogs g).scope (encodeScopeLogs g).schemaUrl = some (normScope g.1) := by
    unfold encodeScopeLogs
    by_cases hz : g.1.isZero = true
    · simp only [hz, if_true, decodeScope]
      cases hg : g.1 with
      | mk n v u a =>
        rw [hg] at hz
        simp only [Scope.isZero, Bool.and_eq_true, beq_iff_eq] at hz
        obtain ⟨⟨⟨h1, h2⟩, h3⟩, h4⟩ := hz
        subst h1 h2 h3 h4
        simp [normScope, normKVs]
    · simp [hz, decodeScope, decodeKVs_encodeKVs, normScope]
  have hrec : (encodeScopeLogs g).records = g.2.2.map encodeLogRecord := by
    unfold encodeScopeLogs; split <;> rfl
  simp only [decodeScopeLogs, hsc, hrec]
  apply mapOpt_map
  intro r hr
  obtain ⟨h1, h2, h3⟩ := H r hr
  rw [← h1, ← h2]
  exact decodeLogRecord_encodeLogRecord r h3

def scopeGroupedLogs (rs : List LogRecord) : List LogRecord := (groupBy (·.scope) (fun _ => ()) rs).flatMap (·.2.2)

def groupedLogs (rs : List LogRecord) : List LogRecord :=
  (groupBy (·.resource) (·.resource) rs).flatMap fun g => scopeGroupedLogs g.2.2

theorem decodeResourceLogs_encodeResourceLogs (g : Resource × Resource × List LogRecord)
    (H : ∀ r ∈ g.2.2, r.resource = g.2.1 ∧ r.flags < 256) :
    decodeResourceLogs (encodeResourceLogs g) = some ((scopeGroupedLogs g.2.2).map normLog) := by
  simp only [decodeResourceLogs, encodeResourceLogs, decodeLogResource_encodeLogResource]
  have : mapOpt (decodeScopeLogs (normResource g.2.1))
      ((groupBy (·.scope) (fun _ => ()) g.2.2).map encodeScopeLogs) =
      some ((groupBy (·.scope) (fun _ => ()) g.2.2).map fun sg => sg.2.2.map normLog) := by
    apply mapOpt_map
    intro sg hsg
    apply decodeScopeLogs_encodeScopeLogs
    intro r hr
    have hmem := groupBy_mem _ _ _ sg hsg r hr
    exact ⟨(groupBy_ok _ _ _ sg hsg).1 r hr, (H r hmem).1, (H r hmem).2⟩
  rw [this]
  simp only [Option.map_some, scopeGroupedLogs, List.flatMap_def]
  rw [← flatten_map_map, List.map_map]
  rfl

theorem groupedLogs_perm (rs : List LogRecord) : (groupedLogs rs).Perm rs := by
  unfold groupedLogs
  refine (perm_flatMap_left _ (·.2.2) _ (fun g _ => groupBy_perm _ _ g.2.2)).trans ?_
  exact groupBy_perm _ _ _

/-! ### metrics -/
theorem decodeExemplar_encodeExemplar (e : Exemplar) : decodeExemplar (encodeExemplar e) = some (normExemplar e) := by
  cases e with
  | mk f t v s tr => cases v <;> simp [decodeExemplar, encodeExemplar, decodeKVs_encodeKVs, decodeNum, normExemplar]

theorem mapOpt_exemplars (es : List Exemplar) :
    mapOpt decodeExemplar (es.map encodeExemplar) = some (es.map normExemplar) :=
  mapOpt_map _ _ _ _ (fun e _ => decodeExemplar_encodeExemplar e)

theorem decodeDataPoint_encodeDataPoint (d : DataPoint) :
    decodeDataPoint (encodeDataPoint d) = some (normDataPoint d) := by
  cases d with
  | mk a s t v es =>
    cases v <;> simp [decodeDataPoint, encodeDataPoint, decodeKVs_encodeKVs, decodeNum, mapOpt_exemplars, normDataPoint]

theorem decodeHistPoint_encodeHistPoint (d : HistPoint) :
    decodeHistPoint (encodeHistPoint d) = some (normHistPoint d) := by
  cases d with
  | mk a s t c b bc mn mx sm es =>
    simp only [decodeHistPoint, encodeHistPoint, decodeKVs_encodeKVs, mapOpt_exemplars, normHistPoint, normNumF,
      if_true, Option.map_map]
    rfl

theorem decodeExpoPoint_encodeExpoPoint (d : ExpoPoint) (h : d.zeroThreshold = 0) :
    decodeExpoPoint (encodeExpoPoint d) = some (normExpoPoint d) := by
  cases d with
  | mk a s t c mn mx sm sc zc p n zt es =>
    simp only at h
    subst h
    simp only [decodeExpoPoint, encodeExpoPoint, decodeKVs_encodeKVs, mapOpt_exemplars, normExpoPoint, normNumF,
      if_true, Option.map_map, decodeBuckets, encodeBuckets]
    rfl

theorem decodeSummaryPoint_encodeSummaryPoint (d : SummaryPoint) :
    decodeSummaryPoint (encodeSummaryPoint d) = some (normSummaryPoint d) := by
  cases d with
  | mk a s t c sm qs =>
    simp [decodeSummaryPoint, encodeSummaryPoint, decodeKVs_encodeKVs, normSummaryPoint, List.map_map, Function.comp_def]

theorem decodeTemporality_temporality (t : Nat) (t' : Int) (h : temporality t = some t') :
    decodeTemporality t' = some t := by
  unfold temporality at h
  by_cases h2 : t = 2
  · simp [h2] at h; subst h; simp [decodeTemporality, h2]
  · by_cases h1 : t = 1
    · simp [h1] at h; subst h; simp [decodeTemporality, h1]
    · simp [h1, h2] at h

/-- no exponential point of this aggregation has a zero threshold other than +0 -/
def aggZT0 (a : Agg) : Prop := ∀ p ∈ aggExpoPoints a, p.zeroThreshold = 0

theorem decodeData_encodeAgg (a : Agg) (d : PData) (h : encodeAgg a = some d) (hz : aggZT0 a) :
    decodeData d = some (normAgg a) := by
  cases a with
  | gauge pts =>
    simp [encodeAgg] at h; subst h
    simp [decodeData, normAgg, mapOpt_map _ _ _ _ (fun p _ => decodeDataPoint_encodeDataPoint p)]
  | sum pts t m =>
    simp only [encodeAgg, Option.map_eq_some_iff] at h
    obtain ⟨t', ht, hd⟩ := h; subst hd
    simp [decodeData, normAgg, mapOpt_map _ _ _ _ (fun p _ => decodeDataPoint_encodeDataPoint p),
      decodeTemporality_temporality t t' ht]
  | hist pts t =>
    simp only [encodeAgg, Option.map_eq_some_iff] at h
    obtain ⟨t', ht, hd⟩ := h; subst hd
    simp [decodeData, normAgg, mapOpt_map _ _ _ _ (fun p _ => decodeHistPoint_encodeHistPoint p),
      decodeTemporality_temporality t t' ht]
  | expo pts t =>
    simp only [encodeAgg, Option.map_eq_some_iff] at h
    obtain ⟨t', ht, hd⟩ := h; subst hd
    have : mapOpt decodeExpoPoint (pts.map encodeExpoPoint) = some (pts.map normExpoPoint) :=
      mapOpt_map _ _ _ _ (fun p hp => decodeExpoPoint_encodeExpoPoint p (hz p (by simpa [aggExpoPoints] using hp)))
    simp [decodeData, normAgg, this, decodeTemporality_temporality t t' ht]
  | summary pts =>
    simp [encodeAgg] at h; subst h
    simp [decodeData, normAgg, mapOpt_map _ _ _ _ (fun p _ => decodeSummaryPoint_encodeSummaryPoint p)]
  | unknown => simp [encodeAgg] at h

theorem mapOpt_filterMap {α β γ : Type} (e : α → Option β) (d : β → Option γ) (n : α → γ) :
    ∀ l : List α, (∀ x ∈ l, ∀ y, e x = some y → d y = some (n x)) →
      mapOpt d (l.filterMap e) = some ((l.filter fun x => (e x).isSome).map n)
  | [], _ => rfl
  | x :: xs, H => by
    have ih := mapOpt_filterMap e d n xs (fun y hy => H y (by simp [hy]))
    cases hx : e x with
    | none => simp [List.filterMap_cons, hx, ih]
    | some y =>
      have := H x (by simp) y hx
      simp [List.filterMap_cons, hx, mapOpt, this, ih]

theorem decodeMetrics_encodeMetrics (ms : List Metric)
    (hz : ∀ m ∈ ms, m.valid = true → aggZT0 m.data) :
    mapOpt decodeMetric (encodeMetrics ms) = some ((ms.filter Metric.valid).map normMetric) := by
  unfold encodeMetrics
  have := mapOpt_filterMap encodeMetric decodeMetric normMetric ms (by
    intro m hm y hy
    simp only [encodeMetric, Option.map_eq_some_iff] at hy
    obtain ⟨d, hd, hy⟩ := hy
    subst hy
    have hv : m.valid = true := by simp [Metric.valid, hd]
    simp [decodeMetric, decodeData_encodeAgg m.data d hd (hz m hm hv), normMetric])
  rw [this]
  congr 2
  apply List.filter_congr
  intro m _
  simp [Metric.valid, encodeMetric]

theorem decodeScopeMetrics_encodeScopeMetrics (sm : ScopeMetrics)
    (hz : ∀ m ∈ sm.metrics, m.valid = true → aggZT0 m.data) :
    decodeScopeMetrics (encodeScopeMetrics sm) = some (normScopeMetrics sm) := by
  simp [decodeScopeMetrics, encodeScopeMetrics, decodeScope, decodeKVs_encodeKVs, decodeMetrics_encodeMetrics _ hz,
    normScopeMetrics, normScope]

/-! ### the Bool forms of the exclusion predicates -/
theorem normLog_eq_normLogS (r : LogRecord) (h1 : r.body.plain = true) (h2 : LVal.plainKVs r.attrs = true) :
    normLog r = normLogS r := by
  simp [normLog, normLogS, normLVal_of_plain _ h1, normLKVs_of_plain _ h2]

end Otel.C13
