/-
C13 — property theorems for the Zipkin model conversion beyond ids/kind/time (ZipkinModel.lean): tags
(`toZipkinTags`), remote endpoint (`toZipkinRemoteEndpoint`), local service name, annotations. The Spec side
(`tagSpec`, `endpointAttrSpec`, `endpointSpec`, `zipkinModelOK`) is what the driver evaluates on the observed
SpanModel of the real exporter.
-/
import Otel.C13.ZipkinModel
import Otel.C13.ZipkinE2E
namespace Otel.C13

/-! ### the association-list map -/

private theorem mget_mset (k v k' : Bytes) :
    ∀ m : List (Bytes × Bytes), mget k' (mset k v m) = if k' = k then some v else mget k' m
  | [] => by
    by_cases h : k' = k
    · subst h; simp [mset, mget]
    · have h' : ¬ k = k' := fun e => h e.symm
      simp [mset, mget, h, h']
  | (k'', v'') :: rest => by
    have ih := mget_mset k v k' rest
    unfold mset
    by_cases h1 : k'' = k
    · subst h1
      by_cases h2 : k' = k''
      · subst h2; simp [mget]
      · have h2' : ¬ k'' = k' := fun e => h2 e.symm
        simp [mget, h2, h2']
    · simp only [h1, if_false]
      by_cases h2 : k'' = k'
      · subst h2
        have h1' : ¬ k'' = k := h1
        simp [mget, h1']
      · simp only [mget, h2, if_false, ih]

private theorem mget_mdel (k k' : Bytes) :
    ∀ m : List (Bytes × Bytes), mget k' (mdel k m) = if k' = k then none else mget k' m
  | [] => by simp [mdel, mget]
  | (k'', v'') :: rest => by
    have ih := mget_mdel k k' rest
    unfold mdel at ih ⊢
    by_cases h1 : k'' = k
    · subst h1
      by_cases h2 : k' = k''
      · subst h2; simpa [List.filter_cons, mget] using ih
      · have h2' : ¬ k'' = k' := fun e => h2 e.symm
        simpa [List.filter_cons, mget, h2, h2'] using ih
    · have hb : (k'' == k) = false := by simpa using h1
      by_cases h2 : k'' = k'
      · subst h2
        simp [List.filter_cons, mget, hb, h1]
      · simp only [List.filter_cons, hb, Bool.not_false, if_true, mget, h2, if_false]
        exact ih

private theorem mset_keys (k v : Bytes) :
    ∀ m : List (Bytes × Bytes), (mset k v m).map (·.1) = if k ∈ m.map (·.1) then m.map (·.1) else m.map (·.1) ++ [k]
  | [] => by simp [mset]
  | (k', v') :: rest => by
    unfold mset
    by_cases h : k' = k
    · subst h; simp
    · have ih := mset_keys k v rest
      have h' : ¬ k = k' := fun e => h e.symm
      simp only [h, if_false, List.map_cons, List.mem_cons, h', false_or, ih]
      split <;> simp

private theorem mset_nodup (k v : Bytes) (m : List (Bytes × Bytes)) (h : (m.map (·.1)).Nodup) :
    ((mset k v m).map (·.1)).Nodup := by
  rw [mset_keys]
  split
  · exact h
  · rename_i hk
    rw [List.nodup_append]
    refine ⟨h, by simp, ?_⟩
    intro a ha b hb
    simp at hb
    subst hb
    intro e; subst e; exact hk ha

private theorem mdel_nodup (k : Bytes) (m : List (Bytes × Bytes)) (h : (m.map (·.1)).Nodup) :
    ((mdel k m).map (·.1)).Nodup := by
  unfold mdel
  exact (List.Nodup.sublist (List.Sublist.map _ List.filter_sublist) h)

private theorem foldl_mset_get (k : Bytes) :
    ∀ (attrs : List ZKV) (m0 : List (Bytes × Bytes)),
      mget k (attrs.foldl (fun m kv => mset kv.key (tagValue kv.val) m) m0) =
        match lastVal k attrs with
        | some v => some (tagValue v)
        | none => mget k m0
  | [], m0 => by simp [lastVal]
  | kv :: rest, m0 => by
    simp only [List.foldl_cons, lastVal]
    rw [foldl_mset_get k rest]
    cases hl : lastVal k rest with
    | some v => simp
    | none =>
      simp only [mget_mset]
      by_cases h : k = kv.key
      · subst h; simp
      · have h' : ¬ kv.key = k := fun e => h e.symm
        simp [h, h']

private theorem foldl_mset_nodup :
    ∀ (attrs : List ZKV) (m0 : List (Bytes × Bytes)), (m0.map (·.1)).Nodup →
      ((attrs.foldl (fun m kv => mset kv.key (tagValue kv.val) m) m0).map (·.1)).Nodup
  | [], _, h => by simpa using h
  | kv :: rest, m0, h => by
    simp only [List.foldl_cons]
    exact foldl_mset_nodup rest _ (mset_nodup _ _ _ h)

/-! ## tags -/

/-- **toZipkinTags is `tagSpec`, key by key, for every input.** For every span (any attributes incl. repeated
keys and keys that collide with the special tags, any resource attributes, any status and scope) and EVERY key:
the tag the conversion produces is exactly what the mapping rules say — scope name/version tags when the scope is
named; the `error` tag is the status description iff the status is Error and is otherwise ABSENT even if an
attribute is called `error`; `otel.status_code` is the upper-cased status unless it is Unset; otherwise the last
resource attribute with that key, else the last span attribute with that key, rendered by `tagValue`; absent if
there is none. -/
theorem zipkin_tags_lookup (x : ZTagInput) (k : Bytes) : mget k (zipkinTags x) = tagSpec x k := by
  have hsv_sn : kScopeVersion ≠ kScopeName := by decide
  have hsv_er : kScopeVersion ≠ kError := by decide
  have hsv_st : kScopeVersion ≠ kStatusCode := by decide
  have hsn_er : kScopeName ≠ kError := by decide
  have hsn_st : kScopeName ≠ kStatusCode := by decide
  have her_st : kError ≠ kStatusCode := by decide
  have base : ∀ k, mget k (x.resAttrs.foldl (fun m kv => mset kv.key (tagValue kv.val) m)
      (x.attrs.foldl (fun m kv => mset kv.key (tagValue kv.val) m) [])) = attrTagSpec x k := by
    intro k
    rw [foldl_mset_get, foldl_mset_get]
    unfold attrTagSpec
    cases lastVal k x.resAttrs <;> cases lastVal k x.attrs <;> simp [mget]
  unfold zipkinTags tagSpec
  by_cases h1 : k = kScopeVersion
  · subst h1
    by_cases hn : x.scopeName = [] <;> by_cases hv : x.scopeVersion = [] <;>
      by_cases hc0 : x.code = 0 <;> by_cases hc1 : x.code = 1 <;>
      simp [hn, hv, hc0, hc1, mget_mset, mget_mdel, base, hsv_sn, hsv_er, hsv_st]
  · by_cases h2 : k = kScopeName
    · subst h2
      by_cases hn : x.scopeName = [] <;> by_cases hv : x.scopeVersion = [] <;>
        by_cases hc0 : x.code = 0 <;> by_cases hc1 : x.code = 1 <;>
        simp [hn, hv, hc0, hc1, mget_mset, mget_mdel, base, hsv_sn.symm, hsn_er, hsn_st]
    · by_cases h3 : k = kError
      · subst h3
        by_cases hn : x.scopeName = [] <;> by_cases hv : x.scopeVersion = [] <;>
          by_cases hc0 : x.code = 0 <;> by_cases hc1 : x.code = 1 <;>
          simp [hn, hv, hc0, hc1, mget_mset, mget_mdel, base, hsv_er.symm, hsn_er.symm, her_st]
      · by_cases h4 : k = kStatusCode
        · subst h4
          by_cases hn : x.scopeName = [] <;> by_cases hv : x.scopeVersion = [] <;>
            by_cases hc0 : x.code = 0 <;> by_cases hc1 : x.code = 1 <;>
            simp [hn, hv, hc0, hc1, mget_mset, mget_mdel, base, hsv_st.symm, hsn_st.symm, her_st.symm]
        · by_cases hn : x.scopeName = [] <;> by_cases hv : x.scopeVersion = [] <;>
            by_cases hc0 : x.code = 0 <;> by_cases hc1 : x.code = 1 <;>
            simp [hn, hv, hc0, hc1, mget_mset, mget_mdel, base, h1, h2, h3, h4]

/-- the tag map has no key twice (it is a map: together with `zipkin_tags_lookup` the tags are determined) -/
theorem zipkin_tags_keys_nodup (x : ZTagInput) : ((zipkinTags x).map (·.1)).Nodup := by
  have h0 := foldl_mset_nodup x.resAttrs _ (foldl_mset_nodup x.attrs [] (by simp))
  unfold zipkinTags
  simp only
  generalize (x.resAttrs.foldl (fun m kv => mset kv.key (tagValue kv.val) m)
      (x.attrs.foldl (fun m kv => mset kv.key (tagValue kv.val) m) [])) = m0 at h0 ⊢
  have h1 : ((if x.code ≠ 0 then mset kStatusCode (codeUpper x.code) m0 else m0).map (·.1)).Nodup := by
    split
    · exact mset_nodup _ _ _ h0
    · exact h0
  generalize (if x.code ≠ 0 then mset kStatusCode (codeUpper x.code) m0 else m0) = m1 at h1 ⊢
  have h2 : ((if x.code = 1 then mset kError x.desc m1 else mdel kError m1).map (·.1)).Nodup := by
    split
    · exact mset_nodup _ _ _ h1
    · exact mdel_nodup _ _ h1
  generalize (if x.code = 1 then mset kError x.desc m1 else mdel kError m1) = m2 at h2 ⊢
  split
  · split
    · exact mset_nodup _ _ _ (mset_nodup _ _ _ h2)
    · exact mset_nodup _ _ _ h2
  · exact h2

/-- **status / error tag rules** (corollaries of `zipkin_tags_lookup`): whatever the attributes are,
`error` = the status description iff the status code is Error, absent otherwise; `otel.status_code` = ERROR / OK
for a status that is not Unset, and for an Unset status only an attribute of that name can supply it. -/
theorem zipkin_status_error_rules (x : ZTagInput) :
    mget kError (zipkinTags x) = (if x.code = 1 then some x.desc else none) ∧
    (x.code = 1 → mget kStatusCode (zipkinTags x) = some sERROR) ∧
    (x.code = 2 → mget kStatusCode (zipkinTags x) = some sOK) ∧
    (x.code = 0 → mget kStatusCode (zipkinTags x) = attrTagSpec x kStatusCode) := by
  have e1 : kError ≠ kScopeVersion := by decide
  have e2 : kError ≠ kScopeName := by decide
  have s1 : kStatusCode ≠ kScopeVersion := by decide
  have s2 : kStatusCode ≠ kScopeName := by decide
  have s3 : kStatusCode ≠ kError := by decide
  refine ⟨?_, ?_, ?_, ?_⟩
  · rw [zipkin_tags_lookup]; simp [tagSpec, e1, e2]
  · intro h; rw [zipkin_tags_lookup]; simp [tagSpec, s1, s2, s3, h, codeUpper]
  · intro h; rw [zipkin_tags_lookup]; simp [tagSpec, s1, s2, s3, h, codeUpper]
  · intro h; rw [zipkin_tags_lookup]; simp [tagSpec, s1, s2, s3, h]

/-- the model's tags pass the tag oracle, for every input -/
theorem zipkin_tags_ok (x : ZTagInput) : zipkinTagsOK x (zipkinTags x) = true := by
  unfold zipkinTagsOK
  have hn : keysNodup ((zipkinTags x).map (·.1)) = true := by
    have := zipkin_tags_keys_nodup x
    generalize (zipkinTags x).map (·.1) = ks at this
    induction ks with
    | nil => rfl
    | cons k rest ih =>
      simp only [List.nodup_cons] at this
      simp [keysNodup, this.1, ih this.2]
  rw [hn, Bool.true_and, List.all_eq_true]
  intro k _
  simp [zipkin_tags_lookup]

/-! ## remote endpoint -/

private theorem rankOf_nil : rankOf [] = none := by decide

/-- the first attribute with the smallest rank is found by `find?` whenever there is a smallest rank -/
private theorem find_minRank :
    ∀ (l : List ZKV) (m : Nat), minRank l = some m → ∃ a, (l.find? fun kv => rankOf kv.key == some m) = some a
  | [], m, h => by simp [minRank] at h
  | kv :: rest, m, h => by
    simp only [minRank] at h
    cases hr : rankOf kv.key with
    | none =>
      rw [hr] at h
      obtain ⟨a, ha⟩ := find_minRank rest m h
      exact ⟨a, by simp [List.find?_cons, hr, ha]⟩
    | some r =>
      rw [hr] at h
      cases hm : minRank rest with
      | none =>
        rw [hm] at h
        simp only [Option.some.injEq] at h
        subst h
        exact ⟨kv, by simp [List.find?_cons, hr]⟩
      | some m' =>
        rw [hm] at h
        simp only [Option.some.injEq] at h
        by_cases hle : r ≤ m'
        · have : r = m := by omega
          subst this
          exact ⟨kv, by simp [List.find?_cons, hr]⟩
        · have : m' = m := by omega
          subst this
          obtain ⟨a, ha⟩ := find_minRank rest m' hm
          have hne : (some r == some m') = false := by simp; omega
          exact ⟨a, by simp [List.find?_cons, hr, hne, ha]⟩

/-- the selection loop started from an attribute that already has a rank -/
private theorem foldl_pick_ranked :
    ∀ (l : List ZKV) (cur : ZKV) (rc : Nat), rankOf cur.key = some rc →
      l.foldl pickStep cur =
        match minRank l with
        | some m => if m < rc then (l.find? fun kv => rankOf kv.key == some m).getD cur else cur
        | none => cur
  | [], cur, rc, _ => by simp [minRank]
  | kv :: rest, cur, rc, hc => by
    simp only [List.foldl_cons]
    cases hr : rankOf kv.key with
    | none =>
      have hstep : pickStep cur kv = cur := by simp [pickStep, hr]
      rw [hstep, foldl_pick_ranked rest cur rc hc]
      simp only [minRank, hr]
      cases hm : minRank rest with
      | none => rfl
      | some m => simp [List.find?_cons, hr]
    | some r =>
      by_cases hlt : r < rc
      · have hstep : pickStep cur kv = kv := by simp [pickStep, hr, hc, hlt]
        rw [hstep, foldl_pick_ranked rest kv r hr]
        simp only [minRank, hr]
        cases hm : minRank rest with
        | none => simp [hlt, List.find?_cons, hr]
        | some m =>
          simp only
          by_cases hmr : m < r
          · have hmin : min r m = m := by omega
            have hne : (some r == some m) = false := by simp; omega
            have : m < rc := by omega
            obtain ⟨a, ha⟩ := find_minRank rest m hm
            simp [hmr, hmin, this, List.find?_cons, hr, hne, ha]
          · have hmin : min r m = r := by omega
            simp [hmr, hmin, hlt, List.find?_cons, hr]
      · have hstep : pickStep cur kv = cur := by simp [pickStep, hr, hc, hlt]
        rw [hstep, foldl_pick_ranked rest cur rc hc]
        simp only [minRank, hr]
        cases hm : minRank rest with
        | none => simp [hlt]
        | some m =>
          simp only
          by_cases hmc : m < rc
          · have hmin : min r m = m := by omega
            have hne : (some r == some m) = false := by simp; omega
            simp [hmc, hmin, List.find?_cons, hr, hne]
          · have : ¬ min r m < rc := by omega
            simp [hmc, this]

/-- **which attribute names the remote endpoint, for every attribute list.** The selection loop of
`toZipkinRemoteEndpoint` returns the zero KeyValue iff no attribute key is in the rank table, and otherwise the
FIRST attribute whose key has the SMALLEST rank (peer.service < server.address < net.peer.name <
network.peer.address < … < db.name) — independent of where better- or worse-ranked attributes stand. -/
theorem zipkin_endpoint_attr_spec (attrs : List ZKV) :
    pickEndpointAttr attrs = (endpointAttrSpec attrs).getD zeroKV := by
  unfold pickEndpointAttr
  induction attrs with
  | nil => simp [endpointAttrSpec, minRank]
  | cons kv rest ih =>
    simp only [List.foldl_cons]
    cases hr : rankOf kv.key with
    | none =>
      have hstep : pickStep zeroKV kv = zeroKV := by simp [pickStep, hr]
      rw [hstep, ih]
      simp only [endpointAttrSpec, minRank, hr]
      cases hm : minRank rest with
      | none => rfl
      | some m => simp [List.find?_cons, hr]
    | some r =>
      have hstep : pickStep zeroKV kv = kv := by simp [pickStep, hr, zeroKV, rankOf_nil]
      rw [hstep, foldl_pick_ranked rest kv r hr]
      simp only [endpointAttrSpec, minRank, hr]
      cases hm : minRank rest with
      | none => simp [List.find?_cons, hr]
      | some m =>
        simp only
        by_cases hmr : m < r
        · have hmin : min r m = m := by omega
          have hne : (some r == some m) = false := by simp; omega
          obtain ⟨a, ha⟩ := find_minRank rest m hm
          simp [hmr, hmin, List.find?_cons, hr, hne, ha]
        · have hmin : min r m = r := by omega
          simp [hmr, hmin, List.find?_cons, hr]

private theorem endpointAttrSpec_key (attrs : List ZKV) (a : ZKV) (h : endpointAttrSpec attrs = some a) :
    a.key ≠ [] := by
  unfold endpointAttrSpec at h
  cases hm : minRank attrs with
  | none => simp [hm] at h
  | some m =>
    simp only [hm] at h
    have := List.find?_some h
    intro e
    rw [e, rankOf_nil] at this
    simp at this

/-- **toZipkinRemoteEndpoint is `endpointSpec`, for every span kind and attribute list** (and every behaviour of
`net.ParseIP`): no remote endpoint unless the span is a client or producer span; otherwise it is built from the
first attribute of smallest rank — its string value as service name, or, for the three socket-address keys, the
parsed IP (v4 or v6, absent when unparsable) with the port of the first attribute with the matching port key. -/
theorem zipkin_remote_endpoint_spec (parseIP : Bytes → Option (Bool × Bytes)) (kind : Int) (attrs : List ZKV) :
    zipkinRemoteEndpoint parseIP kind attrs = endpointSpec parseIP kind attrs := by
  have d1 : kServerSocketAddress ≠ kNetworkPeerAddress := by decide
  have d2 : kNetSockPeerAddr ≠ kNetworkPeerAddress := by decide
  have d3 : kNetSockPeerAddr ≠ kServerSocketAddress := by decide
  unfold zipkinRemoteEndpoint endpointSpec
  by_cases hk : kind = 3 ∨ kind = 4
  · have hk' : ¬ (kind ≠ 3 ∧ kind ≠ 4) := by omega
    simp only [hk', if_false, hk, if_true, zipkin_endpoint_attr_spec]
    cases hs : endpointAttrSpec attrs with
    | none => simp [zeroKV]
    | some a =>
      have hne := endpointAttrSpec_key attrs a hs
      simp only [Option.getD_some, hne, if_false]
      by_cases h1 : a.key = kNetworkPeerAddress
      · simp [h1]
      · by_cases h2 : a.key = kServerSocketAddress
        · simp [h2, d1]
        · by_cases h3 : a.key = kNetSockPeerAddr
          · simp [h3, d2, d3]
          · simp [h1, h2, h3]
  · have hk' : kind ≠ 3 ∧ kind ≠ 4 := by omega
    simp [hk, hk']

/-- a server/consumer/internal/unspecified span never gets a remote endpoint -/
theorem zipkin_remote_endpoint_kinds (parseIP : Bytes → Option (Bool × Bytes)) (kind : Int) (attrs : List ZKV)
    (h : kind ≠ 3 ∧ kind ≠ 4) : zipkinRemoteEndpoint parseIP kind attrs = none := by
  simp [zipkinRemoteEndpoint, h]

/-! ## the whole model line -/

private theorem serviceName_find (d : Bytes) (l : List ZKV) :
    zipkinServiceName d l = serviceNameSpec d l := by
  unfold serviceNameSpec
  induction l with
  | nil => rfl
  | cons kv rest ih =>
    unfold zipkinServiceName
    by_cases h : kv.key = kServiceName
    · simp [h, List.find?_cons]
    · have hb : (kv.key == kServiceName) = false := by simpa using h
      simp [h, List.find?_cons, hb, ih]

private theorem annotations_ok (es : List ZEvent) :
    ((es.zip (es.map zipkinAnnotation)).all fun p =>
      p.2.1 == p.1.time && (if p.1.nattrs = 0 then p.2.2 == p.1.name else p.1.name.isPrefixOf p.2.2)) = true := by
  induction es with
  | nil => rfl
  | cons e rest ih =>
    simp only [List.map_cons, List.zip_cons_cons, List.all_cons, ih, Bool.and_true]
    unfold zipkinAnnotation
    by_cases h0 : e.nattrs = 0
    · simp [h0]
    · simp only [h0, if_false, beq_self_eq_true, Bool.true_and]
      split
      · rw [List.isPrefixOf_iff_prefix]
        simp [List.append_assoc]
      · rw [List.isPrefixOf_iff_prefix]
        exact List.prefix_refl _

/-- **the Zipkin model conversion meets its Spec, for every input**: local service name = the first
`service.name` resource attribute (as a string) or the default; remote endpoint per `endpointSpec`; tags per
`tagSpec` without repeated keys; one annotation per event in order with the event's time and a value that is the
event name (no attributes) or starts with it; Shared/Debug false, Sampled/Err unset. -/
theorem zipkin_model_faithful (parseIP : Bytes → Option (Bool × Bytes)) (x : ZModelInput) :
    zipkinModelOK parseIP x (zipkinModel parseIP x) = true := by
  unfold zipkinModelOK zipkinModel
  simp only [zipkin_tags_ok, zipkin_remote_endpoint_spec, serviceName_find, annotations_ok, List.length_map,
    beq_self_eq_true, Bool.and_self]

/-! ### non-vacuity -/

def exZTag : ZTagInput :=
  { attrs := [⟨kError, .str [120]⟩, ⟨[97], .int (-12)⟩, ⟨[97], .boolSlice [true, false]⟩, ⟨kStatusCode, .str [122]⟩],
    resAttrs := [⟨kServiceName, .str [115]⟩, ⟨[97], .intSlice [1, -2]⟩],
    code := 2, desc := [100], scopeName := [108], scopeVersion := [] }

example : zipkinTags exZTag =
    [([97], [91, 49, 44, 45, 50, 93]), (kStatusCode, sOK), (kServiceName, [115]), (kScopeName, [108])] := by decide

example : tagValue (.boolSlice [true, false]) = [91, 116, 114, 117, 101, 44, 102, 97, 108, 115, 101, 93] ∧
    emit (.boolSlice [true, false]) = [91, 116, 114, 117, 101, 32, 102, 97, 108, 115, 101, 93] ∧
    tagValue (.int (-12)) = [45, 49, 50] := by decide

def exZAttrs : List ZKV :=
  [⟨kDBName, .str [100]⟩, ⟨kNetSockPeerAddr, .str [49]⟩, ⟨kNetworkPeerPort, .int 70000⟩,
   ⟨kNetworkPeerAddress, .str [50]⟩, ⟨kNetworkPeerAddress, .str [51]⟩, ⟨kNetworkPeerPort, .int 1⟩]

/-- rank 11, then 8, then 4 (first of two): the endpoint is the IP of the FIRST network.peer.address with the
FIRST network.peer.port, which is out of range and therefore 65535 -/
example : pickEndpointAttr exZAttrs = ⟨kNetworkPeerAddress, .str [50]⟩ ∧
    zipkinRemoteEndpoint (fun s => if s = [50] then some (true, [1, 2, 3, 4]) else none) 3 exZAttrs =
      some ⟨[], [1, 2, 3, 4], [], 65535⟩ ∧
    zipkinRemoteEndpoint (fun _ => none) 2 exZAttrs = none ∧
    zipkinRemoteEndpoint (fun _ => none) 4 [⟨kPeerService, .int 5⟩] = some ⟨[], [], [], 0⟩ := by decide

/-! ## decimal text, ports, kinds, timestamps -/

private theorem decValue_append (a : Bytes) (d : UInt8) :
    ∀ acc, decValue (a ++ [d]) acc = decValue a acc * 10 + (d.toNat - 48) := by
  induction a with
  | nil => intro acc; simp [decValue]
  | cons b rest ih => intro acc; simp [decValue, ih]

private theorem digit_toNat (n : Nat) (h : n < 10) : (UInt8.ofNat (48 + n)).toNat - 48 = n := by
  have : (UInt8.ofNat (48 + n)).toNat = 48 + n := by
    simp [UInt8.toNat_ofNat']; omega
  omega

private theorem digit_isDigit (n : Nat) (h : n < 10) : isDigit (UInt8.ofNat (48 + n)) = true := by
  have : (UInt8.ofNat (48 + n)).toNat = 48 + n := by
    simp [UInt8.toNat_ofNat']; omega
  simp only [isDigit, UInt8.le_iff_toNat_le, this, Bool.and_eq_true, decide_eq_true_eq]
  decide +revert

private theorem decDigits_spec : ∀ (f n : Nat), n < f →
    decValue (decDigits f n) 0 = n ∧ (decDigits f n).all isDigit = true ∧ decDigits f n ≠ []
  | 0, n, h => by omega
  | f + 1, n, h => by
    unfold decDigits
    by_cases h10 : n < 10
    · simp only [h10, if_true]
      refine ⟨?_, ?_, by simp⟩
      · simp only [decValue, Nat.zero_mul, Nat.zero_add]; exact digit_toNat n h10
      · simp only [List.all_cons, List.all_nil, Bool.and_true]; exact digit_isDigit n h10
    · have ih := decDigits_spec f (n / 10) (by omega)
      simp only [h10, if_false]
      refine ⟨?_, ?_, by simp⟩
      · rw [decValue_append, ih.1, digit_toNat _ (by omega)]; omega
      · rw [List.all_append, ih.2.1]
        simp only [List.all_cons, List.all_nil, Bool.and_true, Bool.true_and]
        exact digit_isDigit (n % 10) (by omega)

/-- **decimal text of a natural number is lossless** (`strconv.FormatInt` as modelled): reading the digits back
gives the number; all characters are digits; never empty -/
theorem renderNat_roundtrip (n : Nat) :
    decValue (renderNat n) 0 = n ∧ (renderNat n).all isDigit = true ∧ renderNat n ≠ [] :=
  decDigits_spec (n + 1) n (by omega)

/-- int tags are injective: two int64 attribute values with the same tag text are equal -/
theorem renderInt_injective (i j : Int) (h : renderInt i = renderInt j) : i = j := by
  unfold renderInt at h
  have hd : ∀ n, renderNat n ≠ [] ∧ ∀ rest, renderNat n ≠ 45 :: rest := by
    intro n
    refine ⟨(renderNat_roundtrip n).2.2, ?_⟩
    intro rest e
    have := (renderNat_roundtrip n).2.1
    rw [e] at this
    simp [isDigit] at this
  by_cases hi : i < 0 <;> by_cases hj : j < 0
  · simp only [hi, hj, if_true, List.cons.injEq, true_and] at h
    have := congrArg (decValue · 0) h
    simp only [(renderNat_roundtrip _).1] at this
    omega
  · simp only [hi, hj, if_true, if_false] at h
    exact absurd h.symm ((hd _).2 _)
  · simp only [hi, hj, if_true, if_false] at h
    exact absurd h ((hd _).2 _)
  · simp only [hi, hj, if_false] at h
    have := congrArg (decValue · 0) h
    simp only [(renderNat_roundtrip _).1] at this
    omega

/-- **port from an int64 attribute**: the port of an IP endpoint whose port attribute is the integer `i` is `i`
itself for 0 ≤ i ≤ 65535, 65535 above that (strconv's range error value is used), 0 for a negative number -/
theorem zipkin_port_of_int (i : Int) :
    parseUint16 (emit (.int i)) = if i < 0 then 0 else min i.toNat 65535 := by
  simp only [emit, tagValue, renderInt]
  by_cases hi : i < 0
  · simp [hi, parseUint16, isDigit]
  · have := renderNat_roundtrip i.toNat
    simp only [hi, if_false, parseUint16]
    have hne : (renderNat i.toNat).isEmpty = false := by
      cases h : renderNat i.toNat with
      | nil => exact absurd h this.2.2
      | cons _ _ => rfl
    simp [hne, this.2.1, this.1]

/-- **Zipkin kind is lossless on the four kinds Zipkin has**: server, client, producer, consumer map to four
different names; unspecified, internal and unknown values all map to the undetermined kind `""` -/
theorem zipkin_kind_injective (k k' : Int) (hk : 2 ≤ k ∧ k ≤ 5) (h : zipkinKind k = zipkinKind k') : k = k' := by
  have e1 : kSERVER ≠ kCLIENT := by decide
  have e2 : kSERVER ≠ kPRODUCER := by decide
  have e3 : kSERVER ≠ kCONSUMER := by decide
  have e4 : kCLIENT ≠ kPRODUCER := by decide
  have e5 : kCLIENT ≠ kCONSUMER := by decide
  have e6 : kPRODUCER ≠ kCONSUMER := by decide
  have n1 : kSERVER ≠ [] := by decide
  have n2 : kCLIENT ≠ [] := by decide
  have n3 : kPRODUCER ≠ [] := by decide
  have n4 : kCONSUMER ≠ [] := by decide
  have hc : k = 2 ∨ k = 3 ∨ k = 4 ∨ k = 5 := by omega
  have e1' := e1.symm; have e2' := e2.symm; have e3' := e3.symm
  have e4' := e4.symm; have e5' := e5.symm; have e6' := e6.symm
  have n1' := n1.symm; have n2' := n2.symm; have n3' := n3.symm; have n4' := n4.symm
  by_cases a2 : k' = 2 <;> by_cases a3 : k' = 3 <;> by_cases a4 : k' = 4 <;> by_cases a5 : k' = 5 <;>
    rcases hc with rfl | rfl | rfl | rfl <;> simp_all [zipkinKind]

/-- **timestamps**: the JSON timestamp (µs) is within half a microsecond of the start time, and exact for
times that are whole microseconds -/
theorem zipkin_timestamp_micros (t : Int) :
    tsMicros t * 1000 - t ≤ 500 ∧ t - tsMicros t * 1000 < 500 ∧ (t % 1000 = 0 → tsMicros t * 1000 = t) := by
  unfold tsMicros
  omega

example : renderInt (-9223372036854775808) =
    [45, 57, 50, 50, 51, 51, 55, 50, 48, 51, 54, 56, 53, 52, 55, 55, 53, 56, 48, 56] := by decide


/-! ## JSON string escaping inside string-slice tags -/
section JsonEscape
open Otel.Utf8

/-- **JSON escaping on ASCII strings is byte by byte**: for a string of bytes below 0x80 the rune walk of
`encoding/json` degenerates to one chunk per byte, so the escaped text is the concatenation of the per-byte
escapes. -/
theorem json_escape_ascii (s : Bytes) (h : ∀ b ∈ s, b.toNat < 0x80) :
    jsonEscape s = s.flatMap fun b => jsonEscapeChunk ⟨[b], b.toNat, false⟩ := by
  unfold jsonEscape
  induction s with
  | nil => simp
  | cons b r ih =>
    have hb : b.toNat < 0x80 := h b (by simp)
    have hd : decode (b :: r) = (b.toNat, 1) := by simp [decode, hb]
    have hne : (b.toNat == 0xFFFD) = false := by
      have : b.toNat ≠ 0xFFFD := by omega
      simpa using this
    rw [chunks_cons, hd]
    simp only [List.flatMap_cons, List.take_succ_cons, List.take_zero, List.drop_succ_cons, List.drop_zero, hne,
      Bool.false_and]
    rw [ih (fun x hx => h x (by simp [hx]))]

/-- **what encoding/json leaves alone**: a string of printable ASCII (0x20…0x7f) without `"`, `\`, `<`, `>`, `&`
is its own escaped form — the class the generators were restricted to before; everything else is now modelled by
`jsonEscapeChunk` and compared with the real exporter. -/
theorem json_escape_identity_on_plain (s : Bytes)
    (h : ∀ b ∈ s, 0x20 ≤ b.toNat ∧ b.toNat < 0x80 ∧ b.toNat ≠ 0x22 ∧ b.toNat ≠ 0x5C ∧ b.toNat ≠ 0x3C ∧
      b.toNat ≠ 0x3E ∧ b.toNat ≠ 0x26) :
    jsonEscape s = s := by
  rw [json_escape_ascii s (fun b hb => (h b hb).2.1)]
  induction s with
  | nil => rfl
  | cons b r ih =>
    have hb := h b (by simp)
    have e : jsonEscapeChunk ⟨[b], b.toNat, false⟩ = [b] := by
      unfold jsonEscapeChunk
      have h1 : ¬ b.toNat = 0x22 := hb.2.2.1
      have h2 : ¬ b.toNat = 0x5C := hb.2.2.2.1
      have h3 : ¬ b.toNat = 8 := by omega
      have h4 : ¬ b.toNat = 12 := by omega
      have h5 : ¬ b.toNat = 10 := by omega
      have h6 : ¬ b.toNat = 13 := by omega
      have h7 : ¬ b.toNat = 9 := by omega
      have h8 : ¬ (b.toNat < 0x20 ∨ b.toNat = 0x3C ∨ b.toNat = 0x3E ∨ b.toNat = 0x26) := by omega
      have h9 : ¬ (b.toNat = 0x2028 ∨ b.toNat = 0x2029) := by omega
      simp [h1, h2, h3, h4, h5, h6, h7, h8, h9]
    simp only [List.flatMap_cons, e, List.singleton_append]
    rw [ih (fun x hx => h x (by simp [hx]))]

/-- the escapes of the special ASCII characters and of the non-ASCII cases, as encoding/json writes them -/
theorem json_escape_table :
    jsonEscape [0x22] = [92, 34] ∧ jsonEscape [0x5C] = [92, 92] ∧ jsonEscape [10] = [92, 110] ∧
    jsonEscape [0x1F] = [92, 117, 48, 48, 49, 102] ∧ jsonEscape [0x3C] = [92, 117, 48, 48, 51, 99] ∧
    jsonEscape [0x7F] = [0x7F] ∧ jsonEscape [0xFF] = [92, 117, 102, 102, 102, 100] ∧
    jsonEscape [0xE2, 0x80] = [92, 117, 102, 102, 102, 100, 92, 117, 102, 102, 102, 100] ∧
    jsonEscape [0xE2, 0x80, 0xA8] = [92, 117, 50, 48, 50, 56] ∧ jsonEscape [0xC3, 0xA9] = [0xC3, 0xA9] ∧
    jsonEscape [0xEF, 0xBF, 0xBD] = [0xEF, 0xBF, 0xBD] := by decide

end JsonEscape

end Otel.C13
