/-
C13 — deeper property theorems (session 3): the grouping step as the order-preserving partition of the input,
injectivity of the attribute/log value conversions with the exact list of collisions, and exactness of the two
exclusion predicates (F33, F17): the round trip holds IF AND ONLY IF the predicate is false.
-/
import Otel.C13.Props
import Otel.C13.LemmasGroup
namespace Otel.C13

/-! ## grouping = partition of the input preserving order within groups -/

/-- **Generic statement** (the two Go maps of every transform are instances): `groupBy` yields one group per
distinct key, whose members are exactly the inputs with that key in input order, never empty, carrying the payload
of the first such input; every input's key has a group. -/
theorem grouping_is_partition {K P V : Type} [DecidableEq K] (key : V → K) (pay : V → P) (xs : List V) :
    ((groupBy key pay xs).map (·.1)).Nodup ∧
    (∀ e ∈ groupBy key pay xs,
      e.2.2 = xs.filter (fun x => decide (key x = e.1)) ∧ e.2.2 ≠ [] ∧
      some e.2.1 = (xs.find? (fun x => decide (key x = e.1))).map pay) ∧
    (∀ x ∈ xs, ∃ e ∈ groupBy key pay xs, e.1 = key x) :=
  groupBy_partition key pay xs

/-- **spans: ScopeSpans = the input restricted to (resource key, scope), in input order.** For every batch,
every ResourceSpans group `g` and every ScopeSpans group `sg` inside it: the spans of `sg` are exactly the non-nil
input spans whose resource key (attributes + schema URL) is `g`'s and whose scope is `sg`'s, in the order of the
input; the group is not empty; the Resource message is that of the FIRST input span with this key. -/
theorem spans_grouping_partition (sdl : List (Option Span)) :
    let ss := sdl.filterMap id
    ∀ g ∈ groupBy (fun s : Span => resGroupKey s.resource) (·.resource) ss,
      some g.2.1 = (ss.find? (fun s => decide (resGroupKey s.resource = g.1))).map (·.resource) ∧
      ∀ sg ∈ groupBy (fun s : Span => s.scope) (fun _ => ()) g.2.2,
        sg.2.2 = ss.filter (fun s => decide (resGroupKey s.resource = g.1) && decide (s.scope = sg.1)) ∧
        sg.2.2 ≠ [] := by
  intro ss g hg
  have h1 := (groupBy_partition (fun s : Span => resGroupKey s.resource) (·.resource) ss).2.1 g hg
  refine ⟨h1.2.2, ?_⟩
  intro sg hsg
  have h2 := (groupBy_partition (fun s : Span => s.scope) (fun _ => ()) g.2.2).2.1 sg hsg
  refine ⟨?_, h2.2.1⟩
  rw [h2.1, h1.1, List.filter_filter]
  apply List.filter_congr
  intro s _
  exact Bool.and_comm _ _

/-- every non-nil input span has its ResourceSpans group and, inside it, its ScopeSpans group -/
theorem spans_grouping_total (sdl : List (Option Span)) :
    ∀ s ∈ sdl.filterMap id,
      ∃ g ∈ groupBy (fun s : Span => resGroupKey s.resource) (·.resource) (sdl.filterMap id),
        g.1 = resGroupKey s.resource ∧ ∃ sg ∈ groupBy (fun s : Span => s.scope) (fun _ => ()) g.2.2,
          sg.1 = s.scope ∧ s ∈ sg.2.2 := by
  intro s hs
  obtain ⟨g, hg, hk⟩ := (groupBy_partition (fun s : Span => resGroupKey s.resource) (·.resource) _).2.2 s hs
  refine ⟨g, hg, hk, ?_⟩
  have hm : s ∈ g.2.2 := by
    rw [((groupBy_partition (fun s : Span => resGroupKey s.resource) (·.resource) _).2.1 g hg).1]
    simp [hs, hk]
  obtain ⟨sg, hsg, hk2⟩ := (groupBy_partition (fun s : Span => s.scope) (fun _ => ()) g.2.2).2.2 s hm
  refine ⟨sg, hsg, hk2, ?_⟩
  rw [((groupBy_partition (fun s : Span => s.scope) (fun _ => ()) g.2.2).2.1 sg hsg).1]
  simp [hm, hk2]

/-- **logs: ScopeLogs = the input restricted to (resource, scope), in input order.** -/
theorem logs_grouping_partition (rs : List LogRecord) :
    ∀ g ∈ groupBy (fun r : LogRecord => r.resource) (·.resource) rs,
      g.2.1 = g.1 ∧
      ∀ sg ∈ groupBy (fun r : LogRecord => r.scope) (fun _ => ()) g.2.2,
        sg.2.2 = rs.filter (fun r => decide (r.resource = g.1) && decide (r.scope = sg.1)) ∧ sg.2.2 ≠ [] := by
  intro g hg
  have h1 := (groupBy_partition (fun r : LogRecord => r.resource) (·.resource) rs).2.1 g hg
  refine ⟨?_, ?_⟩
  · have := h1.2.2
    cases hf : rs.find? (fun r => decide (r.resource = g.1)) with
    | none => rw [hf] at this; simp at this
    | some w =>
      rw [hf] at this
      have hw := List.find?_some hf
      simp only [Option.map_some, Option.some.injEq] at this
      rw [this]
      simpa using hw
  · intro sg hsg
    have h2 := (groupBy_partition (fun r : LogRecord => r.scope) (fun _ => ()) g.2.2).2.1 sg hsg
    refine ⟨?_, h2.2.1⟩
    rw [h2.1, h1.1, List.filter_filter]
    apply List.filter_congr
    intro s _
    exact Bool.and_comm _ _

example : (groupBy (fun s : Span => resGroupKey s.resource) (·.resource) (exBatch.filterMap id)).map
      (fun g => (groupBy (fun s : Span => s.scope) (fun _ => ()) g.2.2).map fun sg => sg.2.2.map (·.name)) =
    [[[[1], [5]], [[3]]], [[[2]]], [[[4]]]] := by decide

/-- **Generic: groups come in first-seen order of their keys** (`firstSeen` = the distinct keys in order of first
occurrence): the order in which the Go code appends a new ScopeSpans / ScopeLogs to its parent. -/
theorem grouping_keys_first_seen {K P V : Type} [DecidableEq K] (key : V → K) (pay : V → P) (xs : List V) :
    (groupBy key pay xs).map (·.1) = firstSeen (xs.map key) :=
  groupBy_keys_firstSeen key pay xs

/-- **ScopeSpans order.** Inside every ResourceSpans the ScopeSpans appear in the order in which their scopes
first occur among that resource's spans (deterministic, input-order dependent only), and, in the model's
first-seen rendering of the Go map, so do the ResourceSpans. -/
theorem spans_scope_order (sdl : List (Option Span)) :
    ∀ g ∈ groupBy (fun s : Span => resGroupKey s.resource) (·.resource) (sdl.filterMap id),
      (groupBy (fun s : Span => s.scope) (fun _ => ()) g.2.2).map (·.1) = firstSeen (g.2.2.map (·.scope)) := by
  intro g _
  exact groupBy_keys_firstSeen _ _ _

/-- **ScopeLogs order.** -/
theorem logs_scope_order (rs : List LogRecord) :
    ∀ g ∈ groupBy (fun r : LogRecord => r.resource) (·.resource) rs,
      (groupBy (fun r : LogRecord => r.scope) (fun _ => ()) g.2.2).map (·.1) = firstSeen (g.2.2.map (·.scope)) := by
  intro g _
  exact groupBy_keys_firstSeen _ _ _

example : firstSeen [3, 1, 3, 2, 1] = [3, 1, 2] := by decide


/-! ## attribute value conversion: injective up to the two stated collisions -/

private theorem encodeVal_normVal (v : Val) : encodeVal (normVal v) = encodeVal v := by
  cases v with
  | boolSlice l => cases l <;> rfl
  | intSlice l => cases l <;> rfl
  | floatSlice l => cases l <;> rfl
  | strSlice l => cases l <;> rfl
  | _ => rfl

/-- **`Value` is injective exactly up to `normVal`.** Two attribute values are sent as the same AnyValue iff
they agree after the two stated lossy points (INVALID type ↦ the string "INVALID"; empty slice ↦ untyped empty
array). -/
theorem value_encode_eq_iff (a b : Val) : encodeVal a = encodeVal b ↔ normVal a = normVal b := by
  constructor
  · intro h
    have := decodeVal_encodeVal a
    rw [h, decodeVal_encodeVal b] at this
    exact (Option.some.inj this).symm
  · intro h
    rw [← encodeVal_normVal a, h, encodeVal_normVal b]

/-- is an empty slice of any element type (or the decoder's untyped empty slice) -/
def Val.isEmptySlice : Val → Bool
  | .boolSlice [] => true
  | .intSlice [] => true
  | .floatSlice [] => true
  | .strSlice [] => true
  | .emptySlice => true
  | _ => false

/-- **the complete list of collisions.** Two DIFFERENT attribute values with the same AnyValue are either the
INVALID-typed value and the literal string "INVALID" (the F33-like case for `attribute.Value`, as narrow as it
can be: no other string, no other type), or two empty slices (of different element types). Everything else —
all bools, ints, float bit patterns, strings, non-empty typed slices — is carried injectively. -/
theorem value_collisions (a b : Val) (h : encodeVal a = encodeVal b) :
    a = b ∨ (a = .invalid ∧ b = .str invalidStr) ∨ (a = .str invalidStr ∧ b = .invalid) ∨
    (a.isEmptySlice = true ∧ b.isEmptySlice = true) := by
  have hn := (value_encode_eq_iff a b).mp h
  rcases a with _ | _ | _ | _ | _ | (_ | ⟨_, _⟩) | (_ | ⟨_, _⟩) | (_ | ⟨_, _⟩) | (_ | ⟨_, _⟩) | _ <;>
  rcases b with _ | _ | _ | _ | _ | (_ | ⟨_, _⟩) | (_ | ⟨_, _⟩) | (_ | ⟨_, _⟩) | (_ | ⟨_, _⟩) | _ <;>
  simp_all [normVal, Val.isEmptySlice]

/-- corollary: on values that are neither INVALID-typed nor an empty slice the conversion is injective -/
theorem value_encode_injective (a b : Val) (ha : a.plain = true) (hb : b.plain = true)
    (h : encodeVal a = encodeVal b) : a = b := by
  have := (value_encode_eq_iff a b).mp h
  rwa [normVal_of_plain a ha, normVal_of_plain b hb] at this

example : encodeVal .invalid = encodeVal (.str invalidStr) ∧ encodeVal (.boolSlice []) = encodeVal (.strSlice []) :=
  ⟨rfl, rfl⟩

/-! ## log values (nested): injective up to `normLVal`; F33 is exact -/

mutual
  private theorem encodeLVal_normLVal : ∀ v : LVal, encodeLVal (normLVal v) = encodeLVal v
    | .empty => by simp [normLVal, encodeLVal]
    | .bool _ => by simp [normLVal]
    | .int _ => by simp [normLVal]
    | .float _ => by simp [normLVal]
    | .str _ => by simp [normLVal]
    | .bytes _ => by simp [normLVal]
    | .slice l => by simp [normLVal, encodeLVal, encodeLVals_normLVals l]
    | .map l => by simp [normLVal, encodeLVal, encodeLKVs_normLKVs l]
  private theorem encodeLVals_normLVals : ∀ l : List LVal, encodeLVals (normLVals l) = encodeLVals l
    | [] => by simp [normLVals]
    | v :: vs => by simp [normLVals, encodeLVals, encodeLVal_normLVal v, encodeLVals_normLVals vs]
  private theorem encodeLKVs_normLKVs : ∀ l : List (Bytes × LVal), encodeLKVs (normLKVs l) = encodeLKVs l
    | [] => by simp [normLKVs]
    | (k, v) :: kvs => by simp [normLKVs, encodeLKVs, encodeLVal_normLVal v, encodeLKVs_normLKVs kvs]
end

/-- **`LogAttrValue` is injective exactly up to `normLVal`**, at any nesting depth: two log values (bool, int64,
float64, string, bytes, slices, maps) are sent as the same AnyValue iff they agree once every empty value is read
as the string "INVALID". -/
theorem log_value_encode_eq_iff (a b : LVal) : encodeLVal a = encodeLVal b ↔ normLVal a = normLVal b := by
  constructor
  · intro h
    have := decodeLVal_encodeLVal a
    rw [h, decodeLVal_encodeLVal b] at this
    exact (Option.some.inj this).symm
  · intro h
    rw [← encodeLVal_normLVal a, h, encodeLVal_normLVal b]

/-- corollary: on values without an empty value inside, `LogAttrValue` is injective (maps, slices and bytes
included) -/
theorem log_value_encode_injective (a b : LVal) (ha : a.plain = true) (hb : b.plain = true)
    (h : encodeLVal a = encodeLVal b) : a = b := by
  have := (log_value_encode_eq_iff a b).mp h
  rwa [normLVal_of_plain a ha, normLVal_of_plain b hb] at this

mutual
  private theorem plain_of_normLVal : ∀ v : LVal, normLVal v = v → v.plain = true
    | .empty, h => by simp [normLVal] at h
    | .bool _, _ => rfl
    | .int _, _ => rfl
    | .float _, _ => rfl
    | .str _, _ => rfl
    | .bytes _, _ => rfl
    | .slice l, h => by
      simp only [normLVal, LVal.slice.injEq] at h
      simpa [LVal.plain] using plainList_of_normLVals l h
    | .map l, h => by
      simp only [normLVal, LVal.map.injEq] at h
      simpa [LVal.plain] using plainKVs_of_normLKVs l h
  private theorem plainList_of_normLVals : ∀ l : List LVal, normLVals l = l → LVal.plainList l = true
    | [], _ => rfl
    | v :: vs, h => by
      simp only [normLVals, List.cons.injEq] at h
      simp [LVal.plainList, plain_of_normLVal v h.1, plainList_of_normLVals vs h.2]
  private theorem plainKVs_of_normLKVs : ∀ l : List (Bytes × LVal), normLKVs l = l → LVal.plainKVs l = true
    | [], _ => rfl
    | (k, v) :: kvs, h => by
      simp only [normLKVs, List.cons.injEq, Prod.mk.injEq, true_and] at h
      simp [LVal.plainKVs, plain_of_normLVal v h.1, plainKVs_of_normLKVs kvs h.2]
end

/-- a log value is carried unchanged iff it has no empty value inside -/
theorem log_value_roundtrip_exact_iff (v : LVal) : decodeLVal (encodeLVal v) = some v ↔ v.plain = true := by
  rw [decodeLVal_encodeLVal]
  constructor
  · intro h; exact plain_of_normLVal v (Option.some.inj h)
  · intro h; rw [normLVal_of_plain v h]

/-- **F33_applies is exact (the exclusion cannot be narrowed).** For every batch of records (trace flags one
byte): the strict round trip — every record once, under its own resource and scope, body and nested attribute
values unchanged — holds IF AND ONLY IF no record contains an empty value. `logs_decode_encode_partial` is the
`←` direction; the `→` direction says every batch the predicate excludes really fails. -/
theorem logs_decode_encode_iff (rs : List LogRecord) (hf : ∀ r ∈ rs, r.flags < 256) :
    decodeLogs (encodeLogs rs) = some ((groupedLogs rs).map normLogS) ↔ F33_applies rs = false := by
  constructor
  · intro h
    rw [logs_decode_encode_normalised rs hf] at h
    have hEq := Option.some.inj h
    simp only [F33_applies, List.any_eq_false]
    intro r hr
    have hr' : r ∈ groupedLogs rs := (groupedLogs_perm rs).symm.subset hr
    have := List.map_inj_left.mp hEq r hr'
    have hb : normLVal r.body = r.body := by
      have := congrArg LogRecord.body this
      simpa [normLog, normLogS] using this
    have ha : normLKVs r.attrs = r.attrs := by
      have := congrArg LogRecord.attrs this
      simpa [normLog, normLogS] using this
    simp [plain_of_normLVal r.body hb, plainKVs_of_normLKVs r.attrs ha]
  · intro h; exact logs_decode_encode_partial rs h hf

/-! ## metrics: what the payload decodes to for ALL inputs; F17 is exact -/

private theorem encodeAgg_eraseZT (a : Agg) : encodeAgg (eraseZTAgg a) = encodeAgg a := by
  cases a with
  | expo pts t =>
    simp only [eraseZTAgg, encodeAgg, List.map_map]
    congr 1
  | _ => rfl

private theorem encodeMetrics_eraseZT (ms : List Metric) :
    encodeMetrics (ms.map fun m => { m with data := eraseZTAgg m.data }) = encodeMetrics ms := by
  simp only [encodeMetrics, List.filterMap_map]
  congr 1
  funext m
  simp [encodeMetric, encodeAgg_eraseZT]

/-- the encoder does not look at the zero threshold -/
theorem encode_eraseZT (rm : ResourceMetrics) : encodeResourceMetrics (eraseZT rm) = encodeResourceMetrics rm := by
  simp only [encodeResourceMetrics, eraseZT, List.map_map]
  congr 1
  apply List.map_congr_left
  intro sm _
  simp [encodeScopeMetrics, encodeMetrics_eraseZT]

private theorem valid_eraseZT (m : Metric) : Metric.valid { m with data := eraseZTAgg m.data } = m.valid := by
  simp [Metric.valid, encodeAgg_eraseZT]

theorem F17_eraseZT (rm : ResourceMetrics) : F17_applies (eraseZT rm) = false := by
  simp only [F17_applies, eraseZT, List.any_eq_false, List.any_map, List.mem_map, List.mem_filter]
  intro sm _
  simp only [Function.comp, List.any_eq_true, not_exists, not_and, List.mem_filter, List.mem_map]
  intro m hm
  obtain ⟨⟨m0, _, rfl⟩, _⟩ := hm
  cases hd : m0.data <;> simp [eraseZTAgg, aggExpoPoints]

/-- **metrics, normalised form (no exclusion).** What the payload of `ResourceMetrics` decodes to for *any*
input: the input with every exponential-histogram zero threshold replaced by +0 (`eraseZT` — that replacement is
F17, not a tolerated lossy point), then `normResourceMetrics`. -/
theorem metrics_decode_encode_normalised (rm : ResourceMetrics) :
    decodeResourceMetrics (encodeResourceMetrics rm) = some (normResourceMetrics (eraseZT rm)) := by
  rw [← encode_eraseZT rm]
  exact metrics_decode_encode_partial (eraseZT rm) (F17_eraseZT rm)

/-- the zero thresholds that `normResourceMetrics` keeps (those of the valid metrics' exponential points) -/
def keptZT (rm : ResourceMetrics) : List (List (List F64)) :=
  rm.scopeMetrics.map fun sm => sm.metrics.map fun m => (aggExpoPoints m.data).map (·.zeroThreshold)

private theorem aggExpoPoints_normAgg (a : Agg) :
    (aggExpoPoints (normAgg a)).map (·.zeroThreshold) = (aggExpoPoints a).map (·.zeroThreshold) := by
  cases a <;> simp [normAgg, aggExpoPoints, normExpoPoint, List.map_map, Function.comp_def]

private theorem keptZT_norm (rm : ResourceMetrics) :
    keptZT (normResourceMetrics rm) = rm.scopeMetrics.map fun sm =>
      (sm.metrics.filter Metric.valid).map fun m => (aggExpoPoints m.data).map (·.zeroThreshold) := by
  simp only [keptZT, normResourceMetrics, List.map_map]
  apply List.map_congr_left
  intro sm _
  simp only [Function.comp, normScopeMetrics, List.map_map]
  apply List.map_congr_left
  intro m _
  simp [normMetric, aggExpoPoints_normAgg]

private theorem aggExpoPoints_eraseZT (a : Agg) :
    (aggExpoPoints (eraseZTAgg a)).map (·.zeroThreshold) = (aggExpoPoints a).map (fun _ => (0 : F64)) := by
  cases a <;> simp [eraseZTAgg, aggExpoPoints, List.map_map, Function.comp_def]

/-- **F17_applies is exact (the exclusion cannot be narrowed).** For every `ResourceMetrics`: the round trip
holds IF AND ONLY IF no exponential-histogram point of a metric that is sent has a zero threshold other than +0.
`metrics_decode_encode_partial` is the `←` direction. -/
theorem metrics_decode_encode_iff (rm : ResourceMetrics) :
    decodeResourceMetrics (encodeResourceMetrics rm) = some (normResourceMetrics rm) ↔ F17_applies rm = false := by
  constructor
  · intro h
    rw [metrics_decode_encode_normalised rm] at h
    have hk := congrArg keptZT (Option.some.inj h)
    rw [keptZT_norm, keptZT_norm] at hk
    simp only [F17_applies, List.any_eq_false]
    intro sm hsm
    simp only [List.any_eq_true, not_exists, not_and, Bool.not_eq_true]
    intro m hm
    intro p hp
    -- project the equation hk to (sm, m, p)
    simp only [eraseZT, List.map_map] at hk
    have h1 := List.map_inj_left.mp hk sm hsm
    simp only [Function.comp] at h1
    have hv : (List.filter Metric.valid (sm.metrics.map fun m => { m with data := eraseZTAgg m.data })) =
        (sm.metrics.filter Metric.valid).map fun m => { m with data := eraseZTAgg m.data } := by
      rw [List.filter_map]
      congr 1
      apply List.filter_congr
      intro x _
      simp [Function.comp, valid_eraseZT]
    rw [hv, List.map_map] at h1
    have h2 := List.map_inj_left.mp h1 m hm
    simp only [Function.comp, aggExpoPoints_eraseZT] at h2
    have h3 := List.map_inj_left.mp h2 p hp
    simp [← h3]
  · intro h; exact metrics_decode_encode_partial rm h

example : F17_applies (eraseZT f17Witness) = false ∧
    decodeResourceMetrics (encodeResourceMetrics f17Witness) = some (normResourceMetrics (eraseZT f17Witness)) := by
  decide

end Otel.C13
