/-
C13 — helper lemmas about the int64 → float64 conversion model (`natToF64` / `intToF64`): up to 2⁵³ in magnitude
the conversion is exact, i.e. the IEEE-754 reference reading `f64ToInt` of the produced bits is the integer itself.
-/
import Otel.C13.Spec
namespace Otel.C13

example : f64ToInt 0x3ff0000000000000 = some 1 := by decide
example : f64ToInt 0xc008000000000000 = some (-3) := by decide
example : f64ToInt 0x3fe0000000000000 = none := by decide   -- 0.5
example : f64ToInt 0x7ff0000000000000 = none := by decide   -- +Inf
example : f64ToInt 0x4340000000000000 = some 9007199254740992 := by decide

/-- bit length facts: `2^(log2 m) ≤ m < 2^(log2 m + 1)` -/
theorem log2_bounds (m : Nat) (h : m ≠ 0) : 2 ^ Nat.log2 m ≤ m ∧ m < 2 ^ (Nat.log2 m + 1) :=
  ⟨Nat.log2_self_le h, Nat.lt_log2_self⟩

/-- the core: for `1 ≤ m ≤ 2⁵³` the bits `natToF64 m` are below 2⁶³ (sign bit clear) and read back as `m` -/
theorem natToF64_exact (m : Nat) (h1 : 1 ≤ m) (h2 : m ≤ 2 ^ 53) :
    natToF64 m < 2 ^ 63 ∧ f64MagToNat (natToF64 m) = some m := by
  obtain ⟨hlo, hhi⟩ := log2_bounds m (by omega)
  by_cases hl : Nat.log2 m + 1 ≤ 53
  · -- bit length ≤ 53: the mantissa is m shifted left, nothing is rounded
    have hk : 2 ^ Nat.log2 m * 2 ^ (53 - (Nat.log2 m + 1)) = 2 ^ 52 := by
      rw [← Nat.pow_add]; congr 1; omega
    generalize hP : 2 ^ (53 - (Nat.log2 m + 1)) = P at hk
    have hPpos : 0 < P := by rw [← hP]; exact Nat.pow_pos (by decide)
    have hM1 : 2 ^ 52 ≤ m * P := by rw [← hk]; exact Nat.mul_le_mul_right _ hlo
    have hM2 : m * P < 2 ^ 53 := by
      have : m * P < 2 ^ (Nat.log2 m + 1) * P := Nat.mul_lt_mul_of_pos_right hhi hPpos
      rw [Nat.pow_succ, Nat.mul_assoc, Nat.mul_comm 2 P, ← Nat.mul_assoc, hk] at this
      omega
    have hn : natToF64 m = (1022 + (Nat.log2 m + 1)) * 2 ^ 52 + (m * P - 2 ^ 52) := by
      simp only [natToF64, hl, if_true, hP]
    generalize hM : m * P = M at hM1 hM2 hn
    generalize hL : Nat.log2 m + 1 = l at hl hn hP
    have hE : natToF64 m / 2 ^ 52 % 2048 = 1022 + l := by rw [hn]; omega
    have hf : natToF64 m % 2 ^ 52 = M - 2 ^ 52 := by rw [hn]; omega
    refine ⟨by rw [hn]; omega, ?_⟩
    have hl0 : 1 ≤ l := by omega
    simp only [f64MagToNat, hE, hf]
    have e1 : ¬ (1022 + l = 2047) := by omega
    have e2 : ¬ (1022 + l = 0) := by omega
    simp only [e1, e2, if_false]
    have hMM : 2 ^ 52 + (M - 2 ^ 52) = M := by omega
    rw [hMM]
    by_cases h53 : l = 53
    · subst h53
      have : P = 1 := by rw [← hP]
      subst this
      simp
      omega
    · have e3 : ¬ (1075 ≤ 1022 + l) := by omega
      have e4 : 1075 - (1022 + l) = 53 - l := by omega
      simp only [e3, if_false, e4, hP]
      rw [← hM, Nat.mul_mod_left, Nat.mul_div_cancel _ hPpos]
      simp
  · -- bit length 54 and m ≤ 2⁵³: m = 2⁵³
    have : 2 ^ 53 ≤ m := by
      have : 53 ≤ Nat.log2 m := by omega
      exact Nat.le_trans (Nat.pow_le_pow_right (by decide) this) hlo
    have hm : m = 2 ^ 53 := by omega
    subst hm
    decide

/-- `intToF64` is exact on `[-2⁵³, 2⁵³]`: the IEEE-754 reading of the produced bits is `v` itself -/
theorem intToF64_exact (v : Int) (h1 : -9007199254740992 ≤ v) (h2 : v ≤ 9007199254740992) :
    f64ToInt (intToF64 v) = some v := by
  unfold intToF64
  by_cases h0 : v = 0
  · subst h0
    have : f64MagToNat 0 = some 0 := by
      simp [f64MagToNat, -Nat.reducePow]
    simp [f64ToInt, this]
  · by_cases hp : v > 0
    · obtain ⟨hlt, hex⟩ := natToF64_exact v.toNat (by omega) (by omega)
      simp only [h0, hp, if_true, if_false]
      generalize natToF64 v.toNat = n at hlt hex
      have ht : (UInt64.ofNat n).toNat = n := by
        rw [UInt64.toNat_ofNat']; omega
      have a1 : n % 2 ^ 63 = n := Nat.mod_eq_of_lt hlt
      have a2 : ¬ (n / 2 ^ 63 = 1) := by omega
      simp only [f64ToInt, ht, a1, a2, hex, Option.map_some, if_false]
      simp only [Int.ofNat_eq_natCast]; congr 1; omega
    · obtain ⟨hlt, hex⟩ := natToF64_exact (-v).toNat (by omega) (by omega)
      simp only [h0, hp, if_false]
      generalize natToF64 (-v).toNat = n at hlt hex
      have ht : (UInt64.ofNat (2 ^ 63 + n)).toNat = 2 ^ 63 + n := by
        rw [UInt64.toNat_ofNat']; omega
      have a1 : (2 ^ 63 + n) % 2 ^ 63 = n := by omega
      have a2 : (2 ^ 63 + n) / 2 ^ 63 = 1 := by omega
      simp only [f64ToInt, ht, a1, a2, hex, Option.map_some, if_true]
      simp only [Int.ofNat_eq_natCast]; congr 1; omega

end Otel.C13
