/-
C13 — line protocol (driver only; nothing here is used by a theorem): token trees `( … )`, and the conversions
tree → SDK input values (format written by the Go harness printers) and tree → PB structures (format written by
the generic protoreflect dumper `c13DumpMsg`: every field of the descriptor, positionally, in field-number order).
-/
import Otel.C13.Spec
namespace Otel.C13
open Otel.Wire

inductive Tree where
  | atom (s : String)
  | node (cs : List Tree)
  deriving Inhabited

/-- tokens → forest; `stack` holds the reversed children of the open nodes -/
def parseTrees : List String → List (List Tree) → List Tree → Option (List Tree)
  | [], [], cur => some cur.reverse
  | [], _ :: _, _ => none
  | t :: ts, st, cur =>
    if t = "(" then parseTrees ts (cur :: st) []
    else if t = ")" then
      match st with
      | [] => none
      | p :: st' => parseTrees ts st' (Tree.node cur.reverse :: p)
    else parseTrees ts st (Tree.atom t :: cur)

namespace Tree
def isAbs : Tree → Bool
  | .atom "-" => true
  | _ => false
def nat? : Tree → Option Nat
  | .atom s => s.toNat?
  | _ => none
def int? : Tree → Option Int
  | .atom s => s.toInt?
  | _ => none
def bytes? : Tree → Option Bytes
  | .atom s => parseHex s
  | _ => none
def bool? : Tree → Option Bool
  | .atom "0" => some false
  | .atom "1" => some true
  | _ => none
def hexNat (cs : List Char) : Option Nat :=
  cs.foldl (fun acc c => match acc, hexVal c with
    | some a, some v => some (a * 16 + v)
    | _, _ => none) (some 0)
/-- `f<16 hex>` -/
def f64? : Tree → Option F64
  | .atom s => match s.toList with
    | 'f' :: rest => if rest.length = 16 then (hexNat rest).map UInt64.ofNat else none
    | _ => none
  | _ => none
def list? {α : Type} (f : Tree → Option α) : Tree → Option (List α)
  | .node cs => cs.mapM f
  | _ => none
def opt? {α : Type} (f : Tree → Option α) (t : Tree) : Option (Option α) :=
  if t.isAbs then some none else (f t).map some
end Tree
open Tree

/-! ### SDK input -/
def val? : Tree → Option Val
  | .node [.atom "inv"] => some .invalid
  | .node [.atom "b", x] => x.bool?.map .bool
  | .node [.atom "i", x] => x.int?.map .int
  | .node [.atom "f", x] => x.f64?.map .float
  | .node [.atom "s", x] => x.bytes?.map .str
  | .node [.atom "bs", x] => (x.list? bool?).map .boolSlice
  | .node [.atom "is", x] => (x.list? int?).map .intSlice
  | .node [.atom "fs", x] => (x.list? f64?).map .floatSlice
  | .node [.atom "ss", x] => (x.list? bytes?).map .strSlice
  | _ => none

def kv? : Tree → Option KV
  | .node [k, v] => do pure ⟨← k.bytes?, ← val? v⟩
  | _ => none
def kvs? (t : Tree) : Option (List KV) := t.list? kv?

def resource? : Tree → Option Resource
  | .node [a, s] => do pure ⟨← kvs? a, ← s.bytes?⟩
  | _ => none
def scope? : Tree → Option Scope
  | .node [n, v, s, a] => do pure ⟨← n.bytes?, ← v.bytes?, ← s.bytes?, ← kvs? a⟩
  | _ => none
def spanCtx? : Tree → Option SpanCtx
  | .node [t, s, f, ts, r] => do pure ⟨← t.bytes?, ← s.bytes?, ← f.nat?, ← ts.bytes?, ← r.bool?⟩
  | _ => none
def event? : Tree → Option Event
  | .node [n, t, a, d] => do pure ⟨← n.bytes?, ← t.int?, ← kvs? a, ← d.int?⟩
  | _ => none
def link? : Tree → Option Link
  | .node [sc, a, d] => do pure ⟨← spanCtx? sc, ← kvs? a, ← d.int?⟩
  | _ => none
def span? : Tree → Option Span
  | .node [n, sc, p, k, st, en, a, ev, ln, c, d, da, de, dl, ch, r, s] => do
    pure { name := ← n.bytes?, sc := ← spanCtx? sc, parent := ← spanCtx? p, kind := ← k.int?, start := ← st.int?,
           stop := ← en.int?, attrs := ← kvs? a, events := ← ev.list? event?, links := ← ln.list? link?,
           statusCode := ← c.nat?, statusDesc := ← d.bytes?, droppedAttrs := ← da.int?, droppedEvents := ← de.int?,
           droppedLinks := ← dl.int?, childCount := ← ch.int?, resource := ← r.opt? resource?, scope := ← scope? s }
  | _ => none
def spanBatch? (t : Tree) : Option (List (Option Span)) := t.list? (opt? span?)

/-! ### PB (positional, field-number order) -/
mutual
  partial def anyValue? : Tree → Option AnyValue
    | .node [s, b, i, d, a, k, y] =>
      match ([s, b, i, d, a, k, y].filter (fun t => !t.isAbs)).length with
      | 0 => some .unset
      | 1 =>
        if !s.isAbs then s.bytes?.map .str
        else if !b.isAbs then b.bool?.map .bool
        else if !i.isAbs then i.int?.map .int
        else if !d.isAbs then d.f64?.map .dbl
        else if !a.isAbs then match a with
          | .node [.node vs] => (vs.mapM anyValue?).map .arr
          | _ => none
        else if !k.isAbs then match k with
          | .node [.node kvs] => (kvs.mapM pkv?).map .kvl
          | _ => none
        else y.bytes?.map .bytes
      | _ => none
    | _ => none
  partial def pkv? : Tree → Option PKV
    | .node [k, v] => do pure (← k.bytes?, ← anyValue? v)
    | _ => none
end
def pkvs? (t : Tree) : Option (List PKV) := t.list? pkv?

def pResource? : Tree → Option PResource
  | .node [a, d] => do pure ⟨← pkvs? a, ← d.nat?⟩
  | _ => none
def pScope? : Tree → Option PScope
  | .node [n, v, a, d] => do pure ⟨← n.bytes?, ← v.bytes?, ← pkvs? a, ← d.nat?⟩
  | _ => none
def pStatus? : Tree → Option PStatus
  | .node [m, c] => do pure ⟨← m.bytes?, ← c.int?⟩
  | _ => none
def pEvent? : Tree → Option PEvent
  | .node [t, n, a, d] => do pure ⟨← t.nat?, ← n.bytes?, ← pkvs? a, ← d.nat?⟩
  | _ => none
def pLink? : Tree → Option PLink
  | .node [t, s, ts, a, d, f] => do pure ⟨← t.bytes?, ← s.bytes?, ← ts.bytes?, ← pkvs? a, ← d.nat?, ← f.nat?⟩
  | _ => none
def pSpan? : Tree → Option PSpan
  | .node [t, s, ts, p, n, k, st, en, a, da, ev, de, ln, dl, stt, f] => do
    pure { traceId := ← t.bytes?, spanId := ← s.bytes?, traceState := ← ts.bytes?, parentSpanId := ← p.bytes?,
           name := ← n.bytes?, kind := ← k.int?, start := ← st.nat?, stop := ← en.nat?, attrs := ← pkvs? a,
           droppedAttrs := ← da.nat?, events := ← ev.list? pEvent?, droppedEvents := ← de.nat?,
           links := ← ln.list? pLink?, droppedLinks := ← dl.nat?, status := ← stt.opt? pStatus?, flags := ← f.nat? }
  | _ => none
def pScopeSpans? : Tree → Option PScopeSpans
  | .node [sc, sp, u] => do pure ⟨← sc.opt? pScope?, ← sp.list? pSpan?, ← u.bytes?⟩
  | _ => none
def pResourceSpans? : Tree → Option PResourceSpans
  | .node [r, ss, u] => do pure ⟨← r.opt? pResource?, ← ss.list? pScopeSpans?, ← u.bytes?⟩
  | _ => none

/-! ### logs -/
mutual
  partial def lval? : Tree → Option LVal
    | .node [.atom "e"] => some .empty
    | .node [.atom "b", x] => x.bool?.map .bool
    | .node [.atom "i", x] => x.int?.map .int
    | .node [.atom "f", x] => x.f64?.map .float
    | .node [.atom "s", x] => x.bytes?.map .str
    | .node [.atom "y", x] => x.bytes?.map .bytes
    | .node [.atom "l", .node xs] => (xs.mapM lval?).map .slice
    | .node [.atom "m", .node xs] => (xs.mapM lkv?).map .map
    | _ => none
  partial def lkv? : Tree → Option (Bytes × LVal)
    | .node [k, v] => do pure (← k.bytes?, ← lval? v)
    | _ => none
end

def logRecord? : Tree → Option LogRecord
  | .node [en, t, o, sv, st, b, a, tid, sid, f, d, r, s] => do
    pure { eventName := ← en.bytes?, time := ← t.int?, observed := ← o.int?, severity := ← sv.int?,
           severityText := ← st.bytes?, body := ← lval? b, attrs := ← a.list? lkv?, traceId := ← tid.bytes?,
           spanId := ← sid.bytes?, flags := ← f.nat?, dropped := ← d.int?, resource := ← resource? r, scope := ← scope? s }
  | _ => none
def logBatch? (t : Tree) : Option (List LogRecord) := t.list? logRecord?

def pLogRecord? : Tree → Option PLogRecord
  | .node [t, sv, st, b, a, d, f, tid, sid, o, en] => do
    pure { time := ← t.nat?, severity := ← sv.int?, severityText := ← st.bytes?, body := ← b.opt? anyValue?,
           attrs := ← pkvs? a, dropped := ← d.nat?, flags := ← f.nat?, traceId := ← tid.bytes?, spanId := ← sid.bytes?,
           observed := ← o.nat?, eventName := ← en.bytes? }
  | _ => none
def pScopeLogs? : Tree → Option PScopeLogs
  | .node [sc, rs, u] => do pure ⟨← sc.opt? pScope?, ← rs.list? pLogRecord?, ← u.bytes?⟩
  | _ => none
def pResourceLogs? : Tree → Option PResourceLogs
  | .node [r, ss, u] => do pure ⟨← r.opt? pResource?, ← ss.list? pScopeLogs?, ← u.bytes?⟩
  | _ => none

/-! ### metrics -/
def num? : Tree → Option Num
  | .node [.atom "i", x] => x.int?.map .int
  | .node [.atom "f", x] => x.f64?.map .float
  | _ => none
def exemplar? : Tree → Option Exemplar
  | .node [a, t, v, s, tr] => do pure ⟨← kvs? a, ← t.int?, ← num? v, ← s.bytes?, ← tr.bytes?⟩
  | _ => none
def dataPoint? : Tree → Option DataPoint
  | .node [a, s, t, v, e] => do pure ⟨← kvs? a, ← s.int?, ← t.int?, ← num? v, ← e.list? exemplar?⟩
  | _ => none
def histPoint? : Tree → Option HistPoint
  | .node [a, s, t, c, b, bc, mn, mx, sm, e] => do
    pure ⟨← kvs? a, ← s.int?, ← t.int?, ← c.nat?, ← b.list? f64?, ← bc.list? nat?, ← mn.opt? num?, ← mx.opt? num?,
          ← num? sm, ← e.list? exemplar?⟩
  | _ => none
def expoBucket? : Tree → Option ExpoBucket
  | .node [o, c] => do pure ⟨← o.int?, ← c.list? nat?⟩
  | _ => none
def expoPoint? : Tree → Option ExpoPoint
  | .node [a, s, t, c, mn, mx, sm, sc, zc, p, n, zt, e] => do
    pure ⟨← kvs? a, ← s.int?, ← t.int?, ← c.nat?, ← mn.opt? num?, ← mx.opt? num?, ← num? sm, ← sc.int?, ← zc.nat?,
          ← expoBucket? p, ← expoBucket? n, ← zt.f64?, ← e.list? exemplar?⟩
  | _ => none
def quantile? : Tree → Option Quantile
  | .node [q, v] => do pure ⟨← q.f64?, ← v.f64?⟩
  | _ => none
def summaryPoint? : Tree → Option SummaryPoint
  | .node [a, s, t, c, sm, q] => do pure ⟨← kvs? a, ← s.int?, ← t.int?, ← c.nat?, ← sm.f64?, ← q.list? quantile?⟩
  | _ => none
def agg? : Tree → Option Agg
  | .node [.atom "g", p] => (p.list? dataPoint?).map .gauge
  | .node [.atom "s", p, t, m] => do pure (.sum (← p.list? dataPoint?) (← t.nat?) (← m.bool?))
  | .node [.atom "h", p, t] => do pure (.hist (← p.list? histPoint?) (← t.nat?))
  | .node [.atom "x", p, t] => do pure (.expo (← p.list? expoPoint?) (← t.nat?))
  | .node [.atom "y", p] => (p.list? summaryPoint?).map .summary
  | .node [.atom "u"] => some .unknown
  | _ => none
def metric? : Tree → Option Metric
  | .node [n, d, u, a] => do pure ⟨← n.bytes?, ← d.bytes?, ← u.bytes?, ← agg? a⟩
  | _ => none
def scopeMetrics? : Tree → Option ScopeMetrics
  | .node [s, m] => do pure ⟨← scope? s, ← m.list? metric?⟩
  | _ => none
def resourceMetrics? : Tree → Option ResourceMetrics
  | .node [r, s] => do pure ⟨← resource? r, ← s.list? scopeMetrics?⟩
  | _ => none

def pExemplar? : Tree → Option PExemplar
  | .node [t, d, s, tr, i, a] => do pure ⟨← t.nat?, ← d.opt? f64?, ← s.bytes?, ← tr.bytes?, ← i.opt? int?, ← pkvs? a⟩
  | _ => none
def pNumberPoint? : Tree → Option PNumberPoint
  | .node [s, t, d, e, i, a, f] => do
    pure ⟨← s.nat?, ← t.nat?, ← d.opt? f64?, ← e.list? pExemplar?, ← i.opt? int?, ← pkvs? a, ← f.nat?⟩
  | _ => none
def pHistPoint? : Tree → Option PHistPoint
  | .node [s, t, c, sm, bc, b, e, a, f, mn, mx] => do
    pure ⟨← s.nat?, ← t.nat?, ← c.nat?, ← sm.opt? f64?, ← bc.list? nat?, ← b.list? f64?, ← e.list? pExemplar?, ← pkvs? a,
          ← f.nat?, ← mn.opt? f64?, ← mx.opt? f64?⟩
  | _ => none
def pBuckets? : Tree → Option PBuckets
  | .node [o, c] => do pure ⟨← o.int?, ← c.list? nat?⟩
  | _ => none
def pExpoPoint? : Tree → Option PExpoPoint
  | .node [a, s, t, c, sm, sc, zc, p, n, f, e, mn, mx, zt] => do
    pure ⟨← pkvs? a, ← s.nat?, ← t.nat?, ← c.nat?, ← sm.opt? f64?, ← sc.int?, ← zc.nat?, ← p.opt? pBuckets?,
          ← n.opt? pBuckets?, ← f.nat?, ← e.list? pExemplar?, ← mn.opt? f64?, ← mx.opt? f64?, ← zt.f64?⟩
  | _ => none
def pQuantile? : Tree → Option PQuantile
  | .node [q, v] => do pure ⟨← q.f64?, ← v.f64?⟩
  | _ => none
def pSummaryPoint? : Tree → Option PSummaryPoint
  | .node [s, t, c, sm, q, a, f] => do
    pure ⟨← s.nat?, ← t.nat?, ← c.nat?, ← sm.f64?, ← q.list? pQuantile?, ← pkvs? a, ← f.nat?⟩
  | _ => none
def pMetric? : Tree → Option PMetric
  | .node [n, d, u, g, s, h, x, y, md] => do
    let data ← match ([g, s, h, x, y].filter (fun t => !t.isAbs)).length with
      | 0 => some PData.unset
      | 1 =>
        if !g.isAbs then match g with
          | .node [p] => (p.list? pNumberPoint?).map .gauge
          | _ => none
        else if !s.isAbs then match s with
          | .node [p, t, m] => do pure (.sum (← p.list? pNumberPoint?) (← t.int?) (← m.bool?))
          | _ => none
        else if !h.isAbs then match h with
          | .node [p, t] => do pure (.hist (← p.list? pHistPoint?) (← t.int?))
          | _ => none
        else if !x.isAbs then match x with
          | .node [p, t] => do pure (.expo (← p.list? pExpoPoint?) (← t.int?))
          | _ => none
        else match y with
          | .node [p] => (p.list? pSummaryPoint?).map .summary
          | _ => none
      | _ => none
    pure ⟨← n.bytes?, ← d.bytes?, ← u.bytes?, data, ← pkvs? md⟩
  | _ => none
def pScopeMetrics? : Tree → Option PScopeMetrics
  | .node [sc, ms, u] => do pure ⟨← sc.opt? pScope?, ← ms.list? pMetric?, ← u.bytes?⟩
  | _ => none
def pResourceMetrics? : Tree → Option PResourceMetrics
  | .node [r, ss, u] => do pure ⟨← r.opt? pResource?, ← ss.list? pScopeMetrics?, ← u.bytes?⟩
  | _ => none

/-- one-line rendering of a `Repr` value (for the `model` column of a verdict) -/
def oneLine {α : Type} [Repr α] (x : α) : String :=
  let s := (repr x).pretty 1000000
  String.ofList (s.toList.map fun c => if c = '\n' then ' ' else c)

end Otel.C13
