/-
C13 — specification side (core Lean only): the *reference decoders* written from the OTLP `.proto` definitions
(not from the Go transforms), the explicitly stated lossy points (`norm*`), the exclusion predicates of the known
findings, and the Bool-valued oracles the driver evaluates on the implementation's observed protobuf.

Decoders are strict: a message that carries information the SDK type cannot hold (a non-zero
`dropped_attributes_count` on a Resource, unknown flag bits, an enum value outside the table, a heterogeneous
array, …) is rejected (`none`), so a stray or missing field in the implementation's output fails the oracle.
-/
import Otel.C13.Model
namespace Otel.C13

/-- `mapM` for `Option`, written out so that proofs are plain inductions -/
def mapOpt {α β : Type} (f : α → Option β) : List α → Option (List β)
  | [] => some []
  | x :: xs => match f x, mapOpt f xs with
    | some y, some ys => some (y :: ys)
    | _, _ => none

/-! ### attribute values -/
def asBool : AnyValue → Option Bool
  | .bool b => some b
  | _ => none
def asInt : AnyValue → Option Int
  | .int i => some i
  | _ => none
def asDbl : AnyValue → Option F64
  | .dbl f => some f
  | _ => none
def asStr : AnyValue → Option Bytes
  | .str s => some s
  | _ => none

/-- AnyValue → attribute value: scalars, and homogeneous arrays of scalars (typed by their first element) -/
def decodeVal : AnyValue → Option Val
  | .str s => some (.str s)
  | .bool b => some (.bool b)
  | .int i => some (.int i)
  | .dbl f => some (.float f)
  | .arr [] => some .emptySlice
  | .arr (.bool b :: r) => (mapOpt asBool r).map fun l => .boolSlice (b :: l)
  | .arr (.int b :: r) => (mapOpt asInt r).map fun l => .intSlice (b :: l)
  | .arr (.dbl b :: r) => (mapOpt asDbl r).map fun l => .floatSlice (b :: l)
  | .arr (.str b :: r) => (mapOpt asStr r).map fun l => .strSlice (b :: l)
  | _ => none

def decodeKV (kv : PKV) : Option KV := (decodeVal kv.2).map fun v => ⟨kv.1, v⟩
def decodeKVs (kvs : List PKV) : Option (List KV) := mapOpt decodeKV kvs

/-- lossy points of the attribute value mapping: the INVALID type is sent as the string `"INVALID"`, and the
element type of an empty slice is not representable in OTLP -/
def normVal : Val → Val
  | .invalid => .str invalidStr
  | .boolSlice [] => .emptySlice
  | .intSlice [] => .emptySlice
  | .floatSlice [] => .emptySlice
  | .strSlice [] => .emptySlice
  | v => v

def normKV (kv : KV) : KV := ⟨kv.key, normVal kv.val⟩
def normKVs (kvs : List KV) : List KV := kvs.map normKV

/-- a value on which `normVal` is the identity -/
def Val.plain : Val → Bool
  | .invalid => false
  | .boolSlice [] => false
  | .intSlice [] => false
  | .floatSlice [] => false
  | .strSlice [] => false
  | _ => true

/-! ### log values (nested) -/
mutual
  def decodeLVal : AnyValue → Option LVal
    | .unset => some .empty
    | .str s => some (.str s)
    | .bool b => some (.bool b)
    | .int i => some (.int i)
    | .dbl f => some (.float f)
    | .bytes b => some (.bytes b)
    | .arr vs => (decodeLVals vs).map .slice
    | .kvl kvs => (decodeLKVs kvs).map .map
  def decodeLVals : List AnyValue → Option (List LVal)
    | [] => some []
    | v :: vs => match decodeLVal v, decodeLVals vs with
      | some y, some ys => some (y :: ys)
      | _, _ => none
  def decodeLKVs : List (Bytes × AnyValue) → Option (List (Bytes × LVal))
    | [] => some []
    | (k, v) :: kvs => match decodeLVal v, decodeLKVs kvs with
      | some y, some ys => some ((k, y) :: ys)
      | _, _ => none
end

mutual
  /-- lossy point of the log value mapping: the empty value is sent as the string `"INVALID"` -/
  def normLVal : LVal → LVal
    | .empty => .str invalidStr
    | .slice l => .slice (normLVals l)
    | .map l => .map (normLKVs l)
    | v => v
  def normLVals : List LVal → List LVal
    | [] => []
    | v :: vs => normLVal v :: normLVals vs
  def normLKVs : List (Bytes × LVal) → List (Bytes × LVal)
    | [] => []
    | (k, v) :: kvs => (k, normLVal v) :: normLKVs kvs
end

mutual
  /-- no empty value anywhere inside -/
  def LVal.plain : LVal → Bool
    | .empty => false
    | .slice l => LVal.plainList l
    | .map l => LVal.plainKVs l
    | _ => true
  def LVal.plainList : List LVal → Bool
    | [] => true
    | v :: vs => LVal.plain v && LVal.plainList vs
  def LVal.plainKVs : List (Bytes × LVal) → Bool
    | [] => true
    | (_, v) :: kvs => LVal.plain v && LVal.plainKVs kvs
end

/-! ### resources and scopes -/
def normResource (r : Resource) : Resource := { r with attrs := normKVs r.attrs }
def normScope (s : Scope) : Scope := { s with attrs := normKVs s.attrs }

/-- Resource message + schema URL of the enclosing Resource* message; an absent message with an empty schema URL
is "no resource" -/
def decodeResource (r : Option PResource) (schema : Bytes) : Option (Option Resource) :=
  match r with
  | none => if schema = [] then some none else some (some ⟨[], schema⟩)
  | some pr => if pr.dropped ≠ 0 then none else (decodeKVs pr.attrs).map fun a => some ⟨a, schema⟩

/-- InstrumentationScope message + schema URL of the enclosing Scope* message; absent = the zero scope -/
def decodeScope (s : Option PScope) (schema : Bytes) : Option Scope :=
  match s with
  | none => some ⟨[], [], schema, []⟩
  | some ps => if ps.dropped ≠ 0 then none else (decodeKVs ps.attrs).map fun a => ⟨ps.name, ps.version, schema, a⟩

/-! ### traces -/
def zeroSpanId : Bytes := [0, 0, 0, 0, 0, 0, 0, 0]

/-- Status.code → codes.Code (UNSET=0→Unset=0, OK=1→Ok=2, ERROR=2→Error=1) -/
def decodeStatusCode (c : Int) : Option Nat :=
  if c = 0 then some 0 else if c = 1 then some 2 else if c = 2 then some 1 else none

/-- flags: bit 8 "has is_remote" must be set, bit 9 "is_remote", nothing else -/
def decodeRemote (flags : Nat) : Option Bool :=
  if flags = 256 then some false else if flags = 768 then some true else none

def decodeEvent (e : PEvent) : Option Event :=
  (decodeKVs e.attrs).map fun a => ⟨e.name, Int.ofNat e.time, a, Int.ofNat e.dropped⟩

def decodeLink (l : PLink) : Option Link :=
  match decodeKVs l.attrs, decodeRemote l.flags with
  | some a, some rem => some ⟨⟨l.traceId, l.spanId, 0, l.traceState, rem⟩, a, Int.ofNat l.dropped⟩
  | _, _ => none

/-- a span under (resource, scope). Fields OTLP does not carry in fields the statement lists are fixed:
the span's own trace flags/remote bit, the parent's trace id/flags/trace state, the child count. -/
def decodeSpan (r : Resource) (sc : Scope) (p : PSpan) : Option Span :=
  match decodeKVs p.attrs, mapOpt decodeEvent p.events, mapOpt decodeLink p.links, p.status, decodeRemote p.flags with
  | some a, some es, some ls, some st, some rem =>
    match decodeStatusCode st.code with
    | some code =>
      if 0 ≤ p.kind ∧ p.kind ≤ 5 then
        some { name := p.name, sc := ⟨p.traceId, p.spanId, 0, p.traceState, false⟩,
               parent := ⟨[], if p.parentSpanId = [] then zeroSpanId else p.parentSpanId, 0, [], rem⟩,
               kind := p.kind, start := Int.ofNat p.start, stop := Int.ofNat p.stop, attrs := a, events := es,
               links := ls, statusCode := code, statusDesc := st.message,
               droppedAttrs := Int.ofNat p.droppedAttrs, droppedEvents := Int.ofNat p.droppedEvents,
               droppedLinks := Int.ofNat p.droppedLinks, childCount := 0, resource := some r, scope := sc }
      else none
    | none => none
  | _, _, _, _, _ => none

def decodeScopeSpans (r : Resource) (ss : PScopeSpans) : Option (List Span) :=
  match decodeScope ss.scope ss.schemaUrl with
  | some sc => mapOpt (decodeSpan r sc) ss.spans
  | none => none

/-- Resource message + schema URL of the enclosing Resource* message, read as a resource: an absent message is the
resource without attributes. (After a wire round trip an absent Resource and an empty `Resource{}` with the same
schema URL describe the same resource; a nil `*resource.Resource` and `resource.Empty()` are therefore one
resource — see `normRes`.) -/
def decodeResourceMsg (r : Option PResource) (schema : Bytes) : Option Resource :=
  (decodeResource r schema).map fun o => o.getD ⟨[], []⟩

def decodeResourceSpans (rs : PResourceSpans) : Option (List Span) :=
  match decodeResourceMsg rs.resource rs.schemaUrl with
  | some r => (mapOpt (decodeScopeSpans r) rs.scopeSpans).map List.flatten
  | none => none

/-- every span of the payload, each with the resource and scope of the group it sits in -/
def decodeSpans (rss : List PResourceSpans) : Option (List Span) :=
  (mapOpt decodeResourceSpans rss).map List.flatten

def normEvent (e : Event) : Event :=
  { e with time := Int.ofNat (timeNano e.time), attrs := normKVs e.attrs, dropped := Int.ofNat (clampUint32 e.dropped) }

/-- link: trace id, span id, remote bit, trace state (carried since the F16 repair), attributes, dropped count -/
def normLink (l : Link) : Link :=
  { sc := { l.sc with flags := 0 }, attrs := normKVs l.attrs, dropped := Int.ofNat (clampUint32 l.dropped) }

def normStatusCode (c : Nat) : Nat := if c = 1 then 1 else if c = 2 then 2 else 0

/-- a span's resource as a value: its attributes and schema URL (nil = the empty resource without schema URL) -/
def normRes (o : Option Resource) : Resource := ⟨normKVs (resKey o), resSchema o⟩

/-- the stated lossy points of a span: negative times → 0, counts clamped to [0, 2³²−1], kinds/status codes
outside the tables → unspecified/unset, attribute values as `normVal`; not carried at all: own trace flags and
remote bit, parent trace id/flags/trace state (parent span id and remote bit are), child count. -/
def normSpan (s : Span) : Span :=
  { s with
    sc := { s.sc with flags := 0, remote := false },
    parent := ⟨[], if idValid s.parent.spanId then s.parent.spanId else zeroSpanId, 0, [], s.parent.remote⟩,
    kind := spanKind s.kind, start := Int.ofNat (timeNano s.start), stop := Int.ofNat (timeNano s.stop),
    attrs := normKVs s.attrs, events := s.events.map normEvent, links := s.links.map normLink,
    statusCode := normStatusCode s.statusCode,
    droppedAttrs := Int.ofNat (clampUint32 s.droppedAttrs), droppedEvents := Int.ofNat (clampUint32 s.droppedEvents),
    droppedLinks := Int.ofNat (clampUint32 s.droppedLinks), childCount := 0,
    resource := some (normRes s.resource), scope := normScope s.scope }

/-- ORACLE (traces), evaluated on the implementation's observed payload: the decoded spans — each under the
resource (attributes + schema URL) and scope of its group — are exactly the (normalised) input spans, each once. -/
def spansRecovered (sdl : List (Option Span)) (obs : List PResourceSpans) : Bool :=
  match decodeSpans obs with
  | none => false
  | some ys => ys.isPerm ((sdl.filterMap id).map normSpan)

/-- ORACLE (grouping): one Resource* per distinct input resource (attributes + schema URL) and one Scope* per
distinct input (resource, scope) pair — so no two groups have equal keys — compared after normalisation. -/
def spanGroupsOK (sdl : List (Option Span)) (obs : List PResourceSpans) : Bool :=
  let ss := sdl.filterMap id
  let obsRes := obs.map fun rs => decodeResourceMsg rs.resource rs.schemaUrl
  let obsSc := obs.flatMap fun rs => rs.scopeSpans.map fun sc =>
    (decodeResourceMsg rs.resource rs.schemaUrl, decodeScope sc.scope sc.schemaUrl)
  let wantRes := (ss.map fun s => (resKey s.resource, resSchema s.resource)).eraseDups.map fun k => some (Resource.mk (normKVs k.1) k.2)
  let wantSc := (ss.map fun s => ((resKey s.resource, resSchema s.resource), s.scope)).eraseDups.map
    fun p => (some (Resource.mk (normKVs p.1.1) p.1.2), some (normScope p.2))
  obsRes.isPerm wantRes && obsSc.isPerm wantSc && obs.all (fun rs => rs.scopeSpans.all fun sc => !sc.spans.isEmpty)

/-! ### logs -/
def zeroTraceId : Bytes := [0, 0, 0, 0, 0, 0, 0, 0, 0, 0, 0, 0, 0, 0, 0, 0]

def decodeLogRecord (res : Resource) (sc : Scope) (p : PLogRecord) : Option LogRecord :=
  match (match p.body with | none => some LVal.empty | some b => decodeLVal b), decodeLKVs p.attrs with
  | some body, some attrs =>
    if 0 ≤ p.severity ∧ p.severity ≤ 24 ∧ p.flags < 256 then
      some { eventName := p.eventName, time := Int.ofNat p.time, observed := Int.ofNat p.observed,
             severity := p.severity, severityText := p.severityText, body := body, attrs := attrs,
             traceId := if p.traceId = [] then zeroTraceId else p.traceId,
             spanId := if p.spanId = [] then zeroSpanId else p.spanId,
             flags := p.flags, dropped := Int.ofNat p.dropped, resource := res, scope := sc }
    else none
  | _, _ => none

def decodeScopeLogs (res : Resource) (sl : PScopeLogs) : Option (List LogRecord) :=
  match decodeScope sl.scope sl.schemaUrl with
  | some sc => mapOpt (decodeLogRecord res sc) sl.records
  | none => none

/-- a log record always has a resource: an absent Resource message is the resource without attributes -/
def decodeLogResource (r : Option PResource) (schema : Bytes) : Option Resource :=
  (decodeResource r schema).map fun o => o.getD ⟨[], []⟩

def decodeResourceLogs (rl : PResourceLogs) : Option (List LogRecord) :=
  match decodeLogResource rl.resource rl.schemaUrl with
  | some res => (mapOpt (decodeScopeLogs res) rl.scopeLogs).map List.flatten
  | none => none

def decodeLogs (rls : List PResourceLogs) : Option (List LogRecord) :=
  (mapOpt decodeResourceLogs rls).map List.flatten

/-- the stated lossy points of a log record: negative times → 0, severities outside 1…24 → unspecified, the
dropped count reduced as `logDropped` (identity on 0 … 2³²−1), empty values → `"INVALID"` (`normLVal`) -/
def normLog (r : LogRecord) : LogRecord :=
  { r with
    time := Int.ofNat (timeNano r.time), observed := Int.ofNat (timeNano r.observed),
    severity := severityNumber r.severity, body := normLVal r.body, attrs := normLKVs r.attrs,
    traceId := if idValid r.traceId then r.traceId else zeroTraceId,
    spanId := if idValid r.spanId then r.spanId else zeroSpanId,
    dropped := Int.ofNat (logDropped r.dropped),
    resource := normResource r.resource, scope := normScope r.scope }

/-- the stated lossy points of a log record **without** the empty-value rewriting: body and attribute values
must come back as they are (this is what the statement asks; F33 is the failure for empty values) -/
def normLogS (r : LogRecord) : LogRecord :=
  { r with
    time := Int.ofNat (timeNano r.time), observed := Int.ofNat (timeNano r.observed),
    severity := severityNumber r.severity,
    traceId := if idValid r.traceId then r.traceId else zeroTraceId,
    spanId := if idValid r.spanId then r.spanId else zeroSpanId,
    dropped := Int.ofNat (logDropped r.dropped),
    resource := normResource r.resource, scope := normScope r.scope }

/-- F33: some record whose body or some attribute value — nested ones included — is the empty value -/
def F33_applies (rs : List LogRecord) : Bool := rs.any fun r => !r.body.plain || !LVal.plainKVs r.attrs

/-- ORACLE (logs): the decoded records — each under the resource/scope of its group — are exactly the input
records (`normLogS`), each once. `modF33`: empty values are expected as the string "INVALID" (`normLog`). -/
def logsRecovered (modF33 : Bool) (rs : List LogRecord) (obs : List PResourceLogs) : Bool :=
  let want := rs.map (if modF33 then normLog else normLogS)
  match decodeLogs obs with
  | none => false
  | some ys => ys.isPerm want

/-- ORACLE (log grouping): one ResourceLogs per distinct resource (attributes + schema URL), one ScopeLogs per
distinct (resource, scope) pair, no empty group -/
def logGroupsOK (rs : List LogRecord) (obs : List PResourceLogs) : Bool :=
  let obsRes := obs.map fun rl => decodeLogResource rl.resource rl.schemaUrl
  let obsSc := obs.flatMap fun rl => rl.scopeLogs.map fun sl =>
    (decodeLogResource rl.resource rl.schemaUrl, decodeScope sl.scope sl.schemaUrl)
  let wantRes := (rs.map fun r => r.resource).eraseDups.map fun k => some (normResource k)
  let wantSc := (rs.map fun r => (r.resource, r.scope)).eraseDups.map fun p => (some (normResource p.1), some (normScope p.2))
  obsRes.isPerm wantRes && obsSc.isPerm wantSc && obs.all (fun rl => rl.scopeLogs.all fun sl => !sl.records.isEmpty)

/-! ### metrics -/

/-- exactly one of as_int / as_double -/
def decodeNum (asInt : Option Int) (asDouble : Option F64) : Option Num :=
  match asInt, asDouble with
  | some v, none => some (.int v)
  | none, some f => some (.float f)
  | _, _ => none

def decodeExemplar (e : PExemplar) : Option Exemplar :=
  match decodeKVs e.filtered, decodeNum e.asInt e.asDouble with
  | some a, some v => some ⟨a, Int.ofNat e.time, v, e.spanId, e.traceId⟩
  | _, _ => none

def decodeDataPoint (d : PNumberPoint) : Option DataPoint :=
  match decodeKVs d.attrs, decodeNum d.asInt d.asDouble, mapOpt decodeExemplar d.exemplars with
  | some a, some v, some es => if d.flags = 0 then some ⟨a, Int.ofNat d.start, Int.ofNat d.time, v, es⟩ else none
  | _, _, _ => none

/-- histogram points carry sum/min/max as doubles only: they decode to `Num.float` -/
def decodeHistPoint (d : PHistPoint) : Option HistPoint :=
  match decodeKVs d.attrs, mapOpt decodeExemplar d.exemplars, d.sum with
  | some a, some es, some sum =>
    if d.flags = 0 then
      some { attrs := a, start := Int.ofNat d.start, time := Int.ofNat d.time, count := d.count, bounds := d.bounds,
             bucketCounts := d.bucketCounts, min := d.min.map .float, max := d.max.map .float, sum := .float sum,
             exemplars := es }
    else none
  | _, _, _ => none

def decodeBuckets : Option PBuckets → ExpoBucket
  | none => ⟨0, []⟩
  | some b => ⟨b.offset, b.counts⟩

def decodeExpoPoint (d : PExpoPoint) : Option ExpoPoint :=
  match decodeKVs d.attrs, mapOpt decodeExemplar d.exemplars, d.sum with
  | some a, some es, some sum =>
    if d.flags = 0 then
      some { attrs := a, start := Int.ofNat d.start, time := Int.ofNat d.time, count := d.count,
             min := d.min.map .float, max := d.max.map .float, sum := .float sum, scale := d.scale,
             zeroCount := d.zeroCount, positive := decodeBuckets d.positive, negative := decodeBuckets d.negative,
             zeroThreshold := d.zeroThreshold, exemplars := es }
    else none
  | _, _, _ => none

def decodeSummaryPoint (d : PSummaryPoint) : Option SummaryPoint :=
  match decodeKVs d.attrs with
  | some a =>
    if d.flags = 0 then
      some ⟨a, Int.ofNat d.start, Int.ofNat d.time, d.count, d.sum, d.quantiles.map fun q => ⟨q.quantile, q.value⟩⟩
    else none
  | none => none

/-- AGGREGATION_TEMPORALITY_DELTA=1 → Delta=2, CUMULATIVE=2 → Cumulative=1 -/
def decodeTemporality (t : Int) : Option Nat := if t = 1 then some 2 else if t = 2 then some 1 else none

def decodeData : PData → Option Agg
  | .unset => none
  | .gauge pts => (mapOpt decodeDataPoint pts).map .gauge
  | .sum pts t mono => match mapOpt decodeDataPoint pts, decodeTemporality t with
    | some ps, some t' => some (.sum ps t' mono)
    | _, _ => none
  | .hist pts t => match mapOpt decodeHistPoint pts, decodeTemporality t with
    | some ps, some t' => some (.hist ps t')
    | _, _ => none
  | .expo pts t => match mapOpt decodeExpoPoint pts, decodeTemporality t with
    | some ps, some t' => some (.expo ps t')
    | _, _ => none
  | .summary pts => (mapOpt decodeSummaryPoint pts).map .summary

def decodeMetric (m : PMetric) : Option Metric :=
  match decodeData m.data with
  | some d => if m.metadata.isEmpty then some ⟨m.name, m.desc, m.unit, d⟩ else none
  | none => none

def decodeScopeMetrics (sm : PScopeMetrics) : Option ScopeMetrics :=
  match decodeScope sm.scope sm.schemaUrl, mapOpt decodeMetric sm.metrics with
  | some sc, some ms => some ⟨sc, ms⟩
  | _, _ => none

def decodeResourceMetrics (rm : PResourceMetrics) : Option ResourceMetrics :=
  match decodeLogResource rm.resource rm.schemaUrl, mapOpt decodeScopeMetrics rm.scopeMetrics with
  | some r, some sms => some ⟨r, sms⟩
  | _, _ => none

def normExemplar (e : Exemplar) : Exemplar :=
  { e with filtered := normKVs e.filtered, time := Int.ofNat (timeNano e.time) }

def normDataPoint (d : DataPoint) : DataPoint :=
  { d with attrs := normKVs d.attrs, start := Int.ofNat (timeNano d.start), time := Int.ofNat (timeNano d.time),
           exemplars := d.exemplars.map normExemplar }

/-- stated lossy point: an int64 histogram's sum/min/max travel as doubles (exact up to 2⁵³ in magnitude) -/
def normNumF (n : Num) : Num := .float (numToF64 n)

/-- the 63 low bits of an IEEE-754 binary64 read as an exact natural number: `some a` iff the magnitude
(mantissa × 2^(exponent − 1075), hidden bit unless subnormal) is finite and integral, then `a` is that number.
Written from the IEEE-754 layout (1 sign bit, 11 exponent bits biased by 1023, 52 fraction bits), not from
`natToF64`. -/
def f64MagToNat (n : Nat) : Option Nat :=
  let E := n / 2 ^ 52 % 2048
  let f := n % 2 ^ 52
  if E = 2047 then none
  else
    let M := if E = 0 then f else 2 ^ 52 + f
    let Ee := if E = 0 then 1 else E
    if 1075 ≤ Ee then some (M * 2 ^ (Ee - 1075))
    else if M % 2 ^ (1075 - Ee) = 0 then some (M / 2 ^ (1075 - Ee)) else none

/-- reference decoder of a float64 bit pattern whose value is an integer (`none` for NaN, ±Inf and non-integral
values): the exact value of the double, as an `Int` -/
def f64ToInt (b : F64) : Option Int :=
  let n := b.toNat
  (f64MagToNat (n % 2 ^ 63)).map fun (a : Nat) => if n / 2 ^ 63 = 1 then -Int.ofNat a else Int.ofNat a

def normHistPoint (d : HistPoint) : HistPoint :=
  { d with attrs := normKVs d.attrs, start := Int.ofNat (timeNano d.start), time := Int.ofNat (timeNano d.time),
           min := d.min.map normNumF, max := d.max.map normNumF, sum := normNumF d.sum,
           exemplars := d.exemplars.map normExemplar }

/-- the zero threshold is *kept* (F17 is the failure to carry it) -/
def normExpoPoint (d : ExpoPoint) : ExpoPoint :=
  { d with attrs := normKVs d.attrs, start := Int.ofNat (timeNano d.start), time := Int.ofNat (timeNano d.time),
           min := d.min.map normNumF, max := d.max.map normNumF, sum := normNumF d.sum,
           exemplars := d.exemplars.map normExemplar }

def normSummaryPoint (d : SummaryPoint) : SummaryPoint :=
  { d with attrs := normKVs d.attrs, start := Int.ofNat (timeNano d.start), time := Int.ofNat (timeNano d.time) }

def normAgg : Agg → Agg
  | .gauge pts => .gauge (pts.map normDataPoint)
  | .sum pts t m => .sum (pts.map normDataPoint) t m
  | .hist pts t => .hist (pts.map normHistPoint) t
  | .expo pts t => .expo (pts.map normExpoPoint) t
  | .summary pts => .summary (pts.map normSummaryPoint)
  | .unknown => .unknown

/-- a metric the transform can express: a known aggregation with a defined temporality -/
def Metric.valid (m : Metric) : Bool := (encodeAgg m.data).isSome

def normMetric (m : Metric) : Metric := { m with data := normAgg m.data }

/-- stated lossy point: metrics that are not `valid` are dropped (and an error is returned) -/
def normScopeMetrics (sm : ScopeMetrics) : ScopeMetrics :=
  ⟨normScope sm.scope, (sm.metrics.filter Metric.valid).map normMetric⟩

def normResourceMetrics (rm : ResourceMetrics) : ResourceMetrics :=
  ⟨normResource rm.resource, rm.scopeMetrics.map normScopeMetrics⟩

def aggExpoPoints : Agg → List ExpoPoint
  | .expo pts _ => pts
  | _ => []

/-- F17: some exponential histogram point of a metric that is sent has a zero threshold other than +0 -/
def F17_applies (rm : ResourceMetrics) : Bool :=
  rm.scopeMetrics.any fun sm => (sm.metrics.filter Metric.valid).any fun m =>
    (aggExpoPoints m.data).any fun p => p.zeroThreshold != 0

def eraseZTAgg : Agg → Agg
  | .expo pts t => .expo (pts.map fun p => { p with zeroThreshold := 0 }) t
  | a => a

/-- what is left of the data when F17 is set aside -/
def eraseZT (rm : ResourceMetrics) : ResourceMetrics :=
  ⟨rm.resource, rm.scopeMetrics.map fun sm => ⟨sm.scope, sm.metrics.map fun m => { m with data := eraseZTAgg m.data }⟩⟩

/-- ORACLE (metrics): the decoded payload is exactly the (normalised) input — every scope in place, every valid
metric and every point once, in order — and an error is reported iff something was dropped. -/
def metricsRecovered (modF17 : Bool) (rm : ResourceMetrics) (obsErr : Bool) (obs : PResourceMetrics) : Bool :=
  let g := fun x => (if modF17 then eraseZT x else x)
  match decodeResourceMetrics obs with
  | none => false
  | some y => g y == g (normResourceMetrics rm) &&
      obsErr == (rm.scopeMetrics.any fun sm => sm.metrics.any fun m => !m.valid)

/-! ### Zipkin -/

/-- reference decoder: the `n`-byte big-endian rendering of a number -/
def toBE : Nat → Nat → Bytes
  | 0, _ => []
  | n + 1, v => UInt8.ofNat (v / 256 ^ n % 256) :: toBE n (v % 256 ^ n)

/-- ORACLE (Zipkin): ids are the big-endian readings of the SDK ids (High = first 8 bytes), the parent id is
present exactly for a valid parent span id, name/start unchanged, kind per the Zipkin mapping, and
duration = end − start whenever that fits an int64. -/
def zipkinOK (tid sid pid name : Bytes) (kind start stop : Int)
    (high low id : Nat) (parent : Option Nat) (oname okind : Bytes) (ts dur : Int) : Bool :=
  toBE 8 high ++ toBE 8 low == tid && high < 2 ^ 64 && low < 2 ^ 64 &&
  toBE 8 id == sid && id < 2 ^ 64 &&
  (match parent with
   | none => !idValid pid
   | some p => idValid pid && toBE 8 p == pid && p < 2 ^ 64) &&
  oname == name && ts == start &&
  okind == (if kind = 2 then kSERVER else if kind = 3 then kCLIENT else if kind = 4 then kPRODUCER
            else if kind = 5 then kCONSUMER else []) &&
  (if -9223372036854775808 ≤ stop - start ∧ stop - start ≤ 9223372036854775807 then dur == stop - start else true)

end Otel.C13
