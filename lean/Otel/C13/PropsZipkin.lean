/-
C13 — property theorems for the Zipkin exporter end to end (sequences of `ExportSpans` calls on one exporter).
-/
import Otel.C13.Props
import Otel.C13.ZipkinE2E
namespace Otel.C13

/-- ids as the SDK types have them: `[16]byte` trace id, `[8]byte` span ids -/
def ZSpan.WF (s : ZSpan) : Prop := s.tid.length = 16 ∧ s.sid.length = 8 ∧ s.pid.length = 8

private theorem pow256_8 : (256 : Nat) ^ 8 = 2 ^ 64 := by decide

private theorem dur_ok (start stop : Int) (h : 0 ≤ zipkinDuration start stop) :
    (let d := stop - start
     if d = 0 then durMicros (zipkinDuration start stop) == 0
     else if d < 1000 then durMicros (zipkinDuration start stop) == 1
     else if d ≤ 9223372036854775807 then durMicros (zipkinDuration start stop) == (d + 500) / 1000 else true) = true := by
  simp only [zipkinDuration] at h ⊢
  by_cases h0 : stop - start = 0
  · simp [h0, durMicros]
  · simp only [h0, if_false]
    by_cases h1 : stop - start < 1000
    · have hneg : ¬ stop - start < -9223372036854775808 := by
        intro hn
        have h9 : ¬ stop - start > 9223372036854775807 := by omega
        simp only [h9, if_false, hn, if_true] at h
        omega
      have h9 : ¬ stop - start > 9223372036854775807 := by omega
      simp only [h9, if_false, hneg] at h ⊢
      simp [h1, durMicros, h0]
    · simp only [h1, if_false]
      by_cases h2 : stop - start ≤ 9223372036854775807
      · have h9 : ¬ stop - start > 9223372036854775807 := by omega
        have hneg : ¬ stop - start < -9223372036854775808 := by omega
        simp [h2, h9, hneg, durMicros, h0, h1]
      · simp [h2]

/-- the model's JSON span passes the reference check against its own input span -/
theorem zipkinJsonOK_self (s : ZSpan) (hw : s.WF) (hm : zMarshalable s = true) :
    zipkinJsonOK s (zipkinJsonSpan s) = true := by
  obtain ⟨ht, hs, hp⟩ := hw
  have h1 := zipkin_trace_id s.tid ht
  have h2 := zipkin_beNat_roundtrip s.sid
  have h3 := zipkin_beNat_roundtrip s.pid
  rw [hs, pow256_8] at h2
  rw [hp, pow256_8] at h3
  simp only [zMarshalable, Bool.and_eq_true, decide_eq_true_eq] at hm
  have hd := dur_ok s.start s.stop hm.1
  unfold zipkinJsonOK zipkinJsonSpan
  simp only [h1.1, h1.2.1, h1.2.2, zipkinId, h2.1, h2.2, hd, zipkinKind, tsMicros, beq_self_eq_true,
    decide_true, Bool.and_self]
  unfold zipkinParentId
  by_cases hv : idValid s.pid = true
  · simp [hv, h3.1, h3.2]
  · simp [hv]

theorem zipkinBodyOK_map (ss : List ZSpan) (h : ∀ s ∈ ss, s.WF ∧ zMarshalable s = true) :
    zipkinBodyOK ss (ss.map zipkinJsonSpan) = true := by
  induction ss with
  | nil => rfl
  | cons s rest ih =>
    have hs := h s (by simp)
    simp [zipkinBodyOK, zipkinJsonOK_self s hs.1 hs.2, ih (fun x hx => h x (by simp [hx]))]

/-- one call, whatever the exporter's state: a delivered body is the encoding of this call's batch -/
theorem zipkin_call_faithful (stopped : Bool) (c : ZCall) (hw : ∀ s ∈ c.spans, s.WF) :
    zipkinRequestFaithful c (zipkinExportCall stopped c) = true := by
  unfold zipkinExportCall
  by_cases h1 : stopped = true
  · simp [h1, zipkinRequestFaithful]
  · by_cases h2 : c.spans.isEmpty = true
    · simp [h1, h2, zipkinRequestFaithful]
    · by_cases h3 : c.spans.all zMarshalable = true
      · have hb : zipkinBodyOK c.spans (c.spans.map zipkinJsonSpan) = true :=
          zipkinBodyOK_map c.spans (fun s hs => ⟨hw s hs, (List.all_eq_true.mp h3) s hs⟩)
        simp only [h1, h2, h3, Bool.false_eq_true, if_false, Bool.not_true]
        cases c.resp <;> simp [zipkinRequestFaithful, hb, h2]
      · simp [h1, h2, h3, zipkinRequestFaithful]

/-- **zipkinRequestFaithful, for all call and response sequences.** On one exporter, for every sequence of
`ExportSpans` calls with any scripted outcome per call (202, other statuses, transport errors before / in the
middle of / after the body, cancellation, unserialisable batches, Shutdown in between), every request body that is
delivered is exactly the Zipkin encoding of THAT call's batch — independent of what happened in earlier calls. -/
theorem zipkin_request_faithful (cs : List ZCall) (hw : ∀ c ∈ cs, ∀ s ∈ c.spans, s.WF) (stopped : Bool) :
    ∀ p ∈ cs.zip (zipkinExportSeqFrom stopped cs), zipkinRequestFaithful p.1 p.2 = true := by
  induction cs generalizing stopped with
  | nil => simp [zipkinExportSeqFrom]
  | cons c rest ih =>
    intro p hp
    simp only [zipkinExportSeqFrom, List.zip_cons_cons, List.mem_cons] at hp
    rcases hp with hp | hp
    · subst hp
      exact zipkin_call_faithful _ c (hw c (by simp))
    · exact ih (fun c' hc' => hw c' (by simp [hc'])) _ p hp

/-- the body of a call does not depend on the exporter's history (only whether anything is sent does) -/
theorem zipkin_body_history_independent (c : ZCall) (b : List ZJson) (stopped : Bool)
    (h : (zipkinExportCall stopped c).body = some b) : b = c.spans.map zipkinJsonSpan := by
  unfold zipkinExportCall at h
  split at h
  · simp at h
  · split at h
    · simp at h
    · split at h
      · simp at h
      · cases hr : c.resp <;> simp [hr] at h <;> exact h.symm

/-- the error contract of the model: nil iff nothing had to be sent or the complete body was answered 202 -/
theorem zipkin_error_contract (stopped : Bool) (c : ZCall) :
    zipkinErrOK stopped c (zipkinExportCall stopped c) = true := by
  unfold zipkinErrOK zipkinExportCall
  by_cases h1 : stopped = true
  · simp [h1]
  · by_cases h2 : c.spans.isEmpty = true
    · simp [h1, h2]
    · by_cases h3 : c.spans.all zMarshalable = true
      · simp only [h1, h2, h3, Bool.false_eq_true, if_false, Bool.not_true, Bool.or_self]
        cases hr : c.resp with
        | status code =>
          by_cases hc : code = 202
          · subst hc; simp
          · have e : (ZResp.status code == ZResp.status 202) = false := by
              rw [beq_eq_false_iff_ne]; intro h; injection h with h; exact hc h
            simp [hc, e]
        | _ => simp
      · simp [h1, h2, h3]

/-- non-vacuity: a failed call followed by a good one (the shape of seeded change C13-3) -/
def exZCalls : List ZCall :=
  [⟨false, .teBefore, [⟨[1, 0, 0, 0, 0, 0, 0, 0, 0, 0, 0, 0, 0, 0, 0, 0], [2, 0, 0, 0, 0, 0, 0, 0], zeroSpanId, [70], 2,
      1700000000000000000, 1700000000000001000⟩]⟩,
   ⟨false, .status 202, [⟨[3, 0, 0, 0, 0, 0, 0, 0, 0, 0, 0, 0, 0, 0, 0, 0], [4, 0, 0, 0, 0, 0, 0, 0], [5, 0, 0, 0, 0, 0, 0, 0], [83], 3,
      1700000001000000000, 1700000001000002499⟩]⟩]

example : (∀ c ∈ exZCalls, ∀ s ∈ c.spans, s.tid.length = 16 ∧ s.sid.length = 8 ∧ s.pid.length = 8) ∧
    (zipkinExportSeq exZCalls).map (·.err) = [true, false] ∧
    (zipkinExportSeq exZCalls).map (fun o => o.body.isSome) = [false, true] ∧
    ((zipkinExportSeq exZCalls).map (fun o => (o.body.getD []).map (fun j => (j.id, j.durMicros)))) =
      [[], [(288230376151711744, 2)]] := by decide

end Otel.C13
