/-
C07 — the collection step of the exponential histogram aggregator (`expoHistogram.delta` / `.cumulative`), the
map of attribute sets with the cardinality limiter (`limiter.Attributes`), and the re-use of the destination
`metricdata.Aggregation` across collections (`reset` + `copy` into recycled slices). Core Lean only.

Go slices are modelled as `Slice α` = visible part + the elements between `len` and `cap` (stale memory that a
re-slice makes visible again). The destination of a collection is whatever an earlier collection — of this or of
any other aggregator — left there; the iteration order of the Go map is a parameter (`order`), in the driver it
is the order the implementation itself used (observed as the order of the reported points).
-/
import Otel.C07.Model
namespace Otel.C07

/-! ## Go slices with capacity -/

structure Slice (α : Type) where
  vis : List α
  hid : List α
deriving Repr

instance {α : Type} : Inhabited (Slice α) := ⟨⟨[], []⟩⟩

def Slice.cap {α : Type} (s : Slice α) : Nat := s.vis.length + s.hid.length

/-- `reset(s, n, n)` (aggregate.go): a fresh zeroed slice when the capacity is too small, else the re-slice
`s[:n]` — which keeps the old elements and may un-hide stale ones -/
def Slice.reset {α : Type} (s : Slice α) (n : Nat) (zero : α) : Slice α :=
  if s.cap < n then ⟨List.replicate n zero, []⟩
  else ⟨(s.vis ++ s.hid).take n, (s.vis ++ s.hid).drop n⟩

/-- `copy(dst, src)`: overwrites the first `min(len dst, len src)` elements -/
def Slice.copy {α : Type} (s : Slice α) (src : List α) : Slice α :=
  ⟨src.take s.vis.length ++ s.vis.drop src.length, s.hid⟩

/-! ## the destination data point (`metricdata.ExponentialHistogramDataPoint`) -/

structure DPoint where
  attr : Nat
  count : Nat
  scale : Int
  zero : Nat
  posOff : Int
  pos : Slice Nat
  negOff : Int
  neg : Slice Nat
  sum : Dy
  min : Option Val
  max : Option Val
deriving Repr

instance : Inhabited DPoint := ⟨⟨0, 0, 0, 0, 0, default, 0, default, (0, 0), none, none⟩⟩

/-- what a reader of the point sees -/
structure PView where
  attr : Nat
  count : Nat
  scale : Int
  zero : Nat
  pos : Buckets
  neg : Buckets
  sum : Dy
  min : Option Val
  max : Option Val
deriving DecidableEq, Repr

def DPoint.view (d : DPoint) : PView :=
  ⟨d.attr, d.count, d.scale, d.zero, ⟨d.posOff, d.pos.vis⟩, ⟨d.negOff, d.neg.vis⟩, d.sum, d.min, d.max⟩

/-- the point an aggregator state stands for — a function of the state (and the two configuration flags) only -/
def exportPoint (noMinMax noSum : Bool) (attr : Nat) (p : Expo) : PView :=
  ⟨attr, p.count, p.scale, p.zero, p.pos, p.neg,
   if noSum then (0, 0) else p.sum,
   if noMinMax then none else some p.min,
   if noMinMax then none else some p.max⟩

/-- `dest.Offset = b.startBin; dest.Counts = reset(dest.Counts, n, n); copy(dest.Counts, b.counts)` -/
def writeBuckets (old : Slice Nat) (b : Buckets) : Slice Nat :=
  (old.reset b.counts.length 0).copy b.counts

/-- the body of the `for _, val := range e.values` loop of `delta`/`cumulative`: every field of the recycled
destination point is assigned -/
def writePoint (noMinMax noSum : Bool) (old : DPoint) (attr : Nat) (val : Expo) : DPoint :=
  { attr := attr
    count := val.count
    scale := val.scale
    zero := val.zero
    posOff := val.pos.start
    pos := writeBuckets old.pos val.pos
    negOff := val.neg.start
    neg := writeBuckets old.neg val.neg
    sum := if !noSum then val.sum else (0, 0)
    min := if !noMinMax then some val.min else none
    max := if !noMinMax then some val.max else none }

def zipWrite (noMinMax noSum : Bool) : List DPoint → List (Nat × Expo) → List DPoint
  | old :: ds, av :: r => writePoint noMinMax noSum old av.1 av.2 :: zipWrite noMinMax noSum ds r
  | _, _ => []

/-- `hDPts := reset(h.DataPoints, n, n)` followed by the loop over the map in the iteration order `order` -/
def collectInto (noMinMax noSum : Bool) (order : List (Nat × Expo)) (dest : Slice DPoint) : Slice DPoint :=
  let d := dest.reset order.length default
  ⟨zipWrite noMinMax noSum d.vis order, d.hid⟩

/-! ## the aggregator: attribute sets, cardinality limit, delta / cumulative -/

/-- attribute set `otel.metric.overflow=true` -/
def overflowAttr : Nat := 0

def lookupA : List (Nat × Expo) → Nat → Option Expo
  | [], _ => none
  | (k, p) :: r, a => if k = a then some p else lookupA r a

def upsertA : List (Nat × Expo) → Nat → Expo → List (Nat × Expo)
  | [], a, p => [(a, p)]
  | (k, q) :: r, a, p => if k = a then (k, p) :: r else (k, q) :: upsertA r a p

/-- `limiter.Attributes` -/
def limitAttr (limit : Nat) (vals : List (Nat × Expo)) (a : Nat) : Nat :=
  if limit > 0 then
    if (lookupA vals a).isNone ∧ vals.length ≥ limit - 1 then overflowAttr else a
  else a

/-- `expoHistogram.measure`: NaN/±Inf (`none`) return before anything else -/
def aggMeasure (L : Int → Val → Int) (maxSize : Nat) (maxScale : Int) (limit : Nat)
    (vals : List (Nat × Expo)) (a : Nat) (v : Option Val) : List (Nat × Expo) × Out :=
  match v with
  | none => (vals, .skipped)
  | some v =>
    let a' := limitAttr limit vals a
    let p := (lookupA vals a').getD (Expo.init maxScale)
    let r := record L maxSize p v
    (upsertA vals a' r.1, r.2)

/-- the values of the map in the iteration order `order` (attribute ids) -/
def inOrder (vals : List (Nat × Expo)) (order : List Nat) : List (Nat × Expo) :=
  order.filterMap (fun a => (lookupA vals a).map (fun p => (a, p)))

inductive Op
  | meas (a : Nat) (v : Option Val)
  | collect (order : List Nat)
  | fresh                             -- another aggregator (same configuration) takes over the destination
deriving Repr

structure Cfg where
  delta : Bool
  maxSize : Nat
  maxScale : Int
  limit : Nat
  noMinMax : Bool
  noSum : Bool

structure AggSt where
  vals : List (Nat × Expo)
  dest : Slice DPoint
  outs : List Out
  reports : List (List PView)

def AggSt.init (dest : Slice DPoint := default) : AggSt := ⟨[], dest, [], []⟩

def aggStep (L : Int → Val → Int) (c : Cfg) (st : AggSt) : Op → AggSt
  | .meas a v =>
    let r := aggMeasure L c.maxSize c.maxScale c.limit st.vals a v
    { st with vals := r.1, outs := st.outs ++ [r.2] }
  | .collect order =>
    let d := collectInto c.noMinMax c.noSum (inOrder st.vals order) st.dest
    { st with dest := d, reports := st.reports ++ [d.vis.map DPoint.view],
              vals := if c.delta then [] else st.vals }
  | .fresh => { st with vals := [] }

def aggRun (L : Int → Val → Int) (c : Cfg) (st : AggSt) (ops : List Op) : AggSt :=
  ops.foldl (aggStep L c) st


/-! ## explicit-bucket histogram: the collection step (`histogram.delta` / `.cumulative`) -/

/-- `metricdata.HistogramDataPoint` as a reader sees it -/
structure HDPoint where
  attr : Nat
  count : Nat
  bounds : List Int
  counts : List Nat
  sum : Int
  min : Option Int
  max : Option Int
deriving DecidableEq, Repr

instance : Inhabited HDPoint := ⟨⟨0, 0, [], [], 0, none, none⟩⟩

/-- the body of the loop over `s.values`: every field of the recycled point is assigned (`Bounds` is a fresh clone
of the aggregator's boundaries, `BucketCounts` the accumulator's counts — handed over by `delta`, which then
forgets the accumulator, cloned by `cumulative`) -/
def writeHPoint (noMinMax noSum : Bool) (bounds : List Int) (_old : HDPoint) (attr : Nat) (h : Hist) : HDPoint :=
  { attr := attr
    count := h.count
    bounds := bounds
    counts := h.counts
    sum := if !noSum then h.total else 0
    min := if !noMinMax then some h.min else none
    max := if !noMinMax then some h.max else none }

def zipWriteH (noMinMax noSum : Bool) (bounds : List Int) : List HDPoint → List (Nat × Hist) → List HDPoint
  | old :: ds, av :: r => writeHPoint noMinMax noSum bounds old av.1 av.2 :: zipWriteH noMinMax noSum bounds ds r
  | _, _ => []

def hCollectInto (noMinMax noSum : Bool) (bounds : List Int) (order : List (Nat × Hist)) (dest : Slice HDPoint) :
    Slice HDPoint :=
  let d := dest.reset order.length default
  ⟨zipWriteH noMinMax noSum bounds d.vis order, d.hid⟩

def lookupH : List (Nat × Hist) → Nat → Option Hist
  | [], _ => none
  | (k, p) :: r, a => if k = a then some p else lookupH r a

def upsertH : List (Nat × Hist) → Nat → Hist → List (Nat × Hist)
  | [], a, p => [(a, p)]
  | (k, q) :: r, a, p => if k = a then (k, p) :: r else (k, q) :: upsertH r a p

def hLimitAttr (limit : Nat) (vals : List (Nat × Hist)) (a : Nat) : Nat :=
  if limit > 0 then
    if (lookupH vals a).isNone ∧ vals.length ≥ limit - 1 then overflowAttr else a
  else a

/-- `histValues.measure` with the attribute map; `bounds` are the sorted boundaries. With `noSum` the
accumulator does not add to its total (`if !s.noSum { b.sum(value) }`) -/
def hMeasure (bounds : List Int) (limit : Nat) (noSum : Bool) (vals : List (Nat × Hist)) (a : Nat) (v : Int) :
    List (Nat × Hist) :=
  let a' := hLimitAttr limit vals a
  let idx := searchIdx bounds v
  let h := match lookupH vals a' with
    | some h => h
    | none => Hist.new bounds.length v
  upsertH vals a' (if noSum then h.bin idx v else (h.bin idx v).addSum v)

def hInOrder (vals : List (Nat × Hist)) (order : List Nat) : List (Nat × Hist) :=
  order.filterMap (fun a => (lookupH vals a).map (fun p => (a, p)))

inductive HOp
  | meas (a : Nat) (v : Int)
  | collect (order : List Nat)
  | fresh (noMinMax noSum : Bool)     -- another aggregator (same boundaries, other flags) takes over the destination
deriving Repr

structure HSt where
  vals : List (Nat × Hist)
  dest : Slice HDPoint
  noMinMax : Bool
  noSum : Bool
  reports : List (List HDPoint)

def hStep (delta : Bool) (limit : Nat) (bounds : List Int) (st : HSt) : HOp → HSt
  | .meas a v => { st with vals := hMeasure bounds limit st.noSum st.vals a v }
  | .collect order =>
    let d := hCollectInto st.noMinMax st.noSum bounds (hInOrder st.vals order) st.dest
    { st with dest := d, reports := st.reports ++ [d.vis], vals := if delta then [] else st.vals }
  | .fresh nmm ns => { st with vals := [], noMinMax := nmm, noSum := ns }

/-- `newHistogram` (clone + sort of the boundaries) and a run of operations -/
def hRun (delta : Bool) (limit : Nat) (rawBounds : List Int) (noMinMax noSum : Bool) (dest : Slice HDPoint)
    (ops : List HOp) : HSt :=
  ops.foldl (hStep delta limit (sortBounds rawBounds)) ⟨[], dest, noMinMax, noSum, []⟩

/-! ## the in-place loop of `expoBuckets.downscale` -/

/-- `for i := 1; i < len; i++ { idx := i + offset; if idx % steps == 0 { c[idx/steps] = c[i]; continue };
c[idx/steps] += c[i] }` on one array (`n` iterations left, next index `i`) -/
def downLoop (steps offset : Nat) : Nat → Nat → List Nat → List Nat
  | 0, _, c => c
  | n + 1, i, c =>
    let idx := i + offset
    let c' := if idx % steps = 0 then c.set (idx / steps) (c.getD i 0)
              else c.set (idx / steps) (c.getD (idx / steps) 0 + c.getD i 0)
    downLoop steps offset n (i + 1) c'

/-- `expoBuckets.downscale` as written: early return, the in-place loop, the re-slice -/
def Buckets.downscaleInPlace (b : Buckets) (δ : Nat) : Buckets :=
  if b.counts.length ≤ 1 ∨ δ < 1 then ⟨b.start >>> δ, b.counts⟩
  else
    let steps := 2 ^ δ
    let offset := (b.start % ((2 ^ δ : Nat) : Int)).toNat
    let c := downLoop steps offset (b.counts.length - 1) 1 b.counts
    let lastIdx := (b.counts.length - 1 + offset) / steps
    ⟨b.start >>> δ, c.take (lastIdx + 1)⟩

end Otel.C07
