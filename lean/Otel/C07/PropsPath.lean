/-
C07 — property theorems about the configuration paths (Path.lean): what reaches the histogram aggregators
through instrument options, reader aggregation selectors, `NewView` masks and hand-written `View` functions.
-/
import Otel.C07.Lemmas
import Otel.C07.Path
import Otel.C07.Spec
namespace Otel.C07
open Spec

private theorem validExpo_iff' (ms sc : Int) : validExpo ms sc = true ↔ (1 ≤ ms ∧ -10 ≤ sc ∧ sc ≤ 20) := by
  unfold validExpo
  split
  · simp; omega
  · split
    · simp; omega
    · split
      · simp; omega
      · simp; omega

private theorem defaultBounds_valid : validBounds defaultBounds = true := by decide

private theorem defaultSel_not_bad (k : Kind) : (defaultSel k).bad = false := by
  cases k <;> simp [defaultSel, ACfg.bad, defaultBounds_valid]

private theorem readerDefault_not_bad (sel : Option ACfg) (k : Kind) : (readerDefault sel k).bad = false := by
  unfold readerDefault
  split
  · exact defaultSel_not_bad k
  · exact defaultSel_not_bad k
  · split
    · exact defaultSel_not_bad k
    · rename_i h; simpa using h

private theorem readerAggFor_not_bad (sel : Option ACfg) (k : Kind) (inst : Option (List Int)) :
    (readerAggFor sel k inst).1.bad = false := by
  have h := readerDefault_not_bad sel k
  unfold readerAggFor
  split
  · rename_i b
    cases hr : readerDefault sel .histogram with
    | hist b0 nmm =>
      rw [hr] at h
      by_cases hv : validBounds b = true
      · by_cases hl : b.length > 0
        · simp [hv, hl, ACfg.bad]
        · have hl' : ¬ 0 < b.length := hl
          simp only [hv]
          simpa [hl'] using h
      · simp only [hv]
        simpa using h
    | _ => rw [hr] at h; simpa using h
  · exact h

private theorem viewAgg_not_bad (vk : ViewKind) (hv : vk ≠ .custom) (a : Option ACfg) :
    ∀ x, viewAgg vk a = some x → x.bad = false := by
  intro x hx
  cases vk with
  | none => simp [viewAgg] at hx
  | custom => exact absurd rfl hv
  | newView =>
    cases a with
    | none => simp [viewAgg] at hx
    | some a =>
      simp only [viewAgg] at hx
      split at hx
      · simp at hx
      · rename_i hb
        injection hx with hx
        subst hx
        simpa using hb

private theorem effective_not_bad (k : Kind) (sa : Option ACfg) (ra : ACfg) (hs : ∀ x, sa = some x → x.bad = false)
    (hr : ra.bad = false) : (effective k sa ra).bad = false := by
  unfold effective
  have key : ∀ a : ACfg, a.bad = false → (match a with
      | .dflt => defaultSel k
      | a => a).bad = false := by
    intro a ha
    cases a <;> first | exact defaultSel_not_bad k | exact ha
  apply key
  cases sa with
  | none => exact hr
  | some x =>
    cases x with
    | dflt => exact defaultSel_not_bad k
    | _ => exact hs _ rfl

/-- every validated path delivers a valid configuration: unless the view is a hand-written `View` function,
whatever the instrument option, the reader's aggregation selector and the `NewView` mask contain (unsorted or
duplicate boundaries, `MaxSize ≤ 0`, `MaxScale` outside −10..20, in any combination), the explicit-bucket
aggregator is created with strictly increasing boundaries and the exponential one with `MaxSize ≥ 1` and
`−10 ≤ MaxScale ≤ 20` — the hypotheses of `expo_size_bound` / `expo_scale_floor` -/
theorem path_validated (k : Kind) (inst : Option (List Int)) (sel : Option ACfg) (vk : ViewKind)
    (hv : vk ≠ .custom) (va : Option ACfg) :
    match (resolve k inst sel vk va).1 with
    | .hist b _ _ => validBounds b = true
    | .expo ms sc _ _ => 1 ≤ ms ∧ -10 ≤ sc ∧ sc ≤ 20
    | _ => True := by
  have h := effective_not_bad k (viewAgg vk va) (readerAggFor sel k inst).1 (viewAgg_not_bad vk hv va)
    (readerAggFor_not_bad sel k inst)
  unfold resolve
  simp only
  cases he : effective k (viewAgg vk va) (readerAggFor sel k inst).1 with
  | hist b nmm => simp only; simpa [he, ACfg.bad] using h
  | expo ms sc nmm =>
    simp only
    have : validExpo ms sc = true := by simpa [he, ACfg.bad] using h
    unfold validExpo at this
    split at this
    · simp at this
    · split at this
      · simp at this
      · split at this
        · simp at this
        · omega
  | _ => simp

/-- strictly increasing boundaries are reported as configured (the sort in `newHistValues` is the identity) -/
theorem path_valid_bounds_kept : ∀ (b : List Int), validBounds b = true → sortBounds b = b
  | [], _ => rfl
  | [_], _ => rfl
  | a :: c :: r, h => by
    unfold validBounds at h
    split at h
    · simp at h
    · rename_i hac
      have ih := path_valid_bounds_kept (c :: r) h
      show insertSorted a (sortBounds (c :: r)) = a :: c :: r
      rw [ih]
      simp only [insertSorted]
      split
      · rfl
      · omega

/-- no sum is collected exactly for the instruments that can make negative measurements (up-down counter, gauge
and their observable forms), on every path, for both histogram aggregations -/
theorem path_noSum (k : Kind) (inst : Option (List Int)) (sel : Option ACfg) (vk : ViewKind) (va : Option ACfg) :
    match (resolve k inst sel vk va).1 with
    | .hist _ _ ns => ns = noSumKind k
    | .expo _ _ _ ns => ns = noSumKind k
    | _ => True := by
  unfold resolve
  simp only
  cases effective k (viewAgg vk va) (readerAggFor sel k inst).1 <;> simp

/-- boundaries given with the instrument take precedence over the reader's when they are valid and non-empty
(no view); invalid ones are ignored — the instrument is created with the reader's boundaries and an error -/
theorem path_instrument_bounds (b : List Int) (sel : Option ACfg) (rb : List Int) (nmm : Bool)
    (hr : readerDefault sel .histogram = .hist rb nmm) :
    resolve .histogram (some b) sel .none none =
      if validBounds b = true then (.hist (if b.length > 0 then b else rb) nmm false, false)
      else (.hist rb nmm false, true) := by
  unfold resolve readerAggFor
  simp only [hr, viewAgg, effective, noSumKind]
  by_cases hv : validBounds b = true
  · by_cases hl : b.length > 0 <;> simp [hv, hl]
  · simp [hv]

/-- the path that is NOT validated (candidate finding, reported): a hand-written `View` function hands its
aggregation to the aggregator as it is — e.g. `MaxScale = 21` (the first `Record` then indexes `scaleFactors[21]`)
or `MaxSize = 0` — which is why `path_validated` excludes it -/
theorem path_custom_view_unvalidated_witness :
    (resolve .histogram none none .custom (some (.expo 160 21 false))).1 = .expo 160 21 false false ∧
    validExpo 160 21 = false ∧
    (resolve .counter none none .custom (some (.expo 0 5 true))).1 = .expo 0 5 true false ∧
    (resolve .gauge none none .custom (some (.hist [10, 0, 5] false))).1 = .hist [10, 0, 5] false true := by decide


/-! ### the unvalidated path (known finding F46) -/

private theorem effective_expo_valid (k : Kind) (sa : Option ACfg) (ra : ACfg)
    (hs : ∀ ms sc n, sa = some (.expo ms sc n) → validExpo ms sc = true) (hr : ra.bad = false)
    (ms sc : Int) (n : Bool) (he : effective k sa ra = .expo ms sc n) : validExpo ms sc = true := by
  unfold effective at he
  have hd : ∀ a : ACfg, (match a with
      | .dflt => defaultSel k
      | a => a) = .expo ms sc n → a = .expo ms sc n := by
    intro a ha
    cases a with
    | dflt => cases k <;> simp [defaultSel] at ha
    | _ => first | simpa using ha | (simp at ha)
  have h1 := hd _ he
  cases sa with
  | none =>
    simp only at h1
    rw [h1] at hr
    simpa [ACfg.bad] using hr
  | some x =>
    cases x with
    | dflt => simp only at h1; cases k <;> simp [defaultSel] at h1
    | expo ms' sc' n' =>
      simp only at h1
      injection h1 with h1 h2 h3
      subst h1; subst h2
      exact hs _ _ _ rfl
    | _ => simp at h1

/-- the strongest statement that holds on every path: outside finding F46 (`custom_view_unvalidated`: hand-written
`View` function ∧ exponential parameters that `err()` rejects) the exponential aggregator is created with
`MaxSize ≥ 1`, `−10 ≤ MaxScale ≤ 20` — also from a hand-written `View` function — and the explicit-bucket one with
strictly increasing boundaries unless they come from a hand-written `View` function (then `newHistValues` sorts
them: `hist_ok` holds for every raw list) -/
theorem path_validated_partial (k : Kind) (inst : Option (List Int)) (sel : Option ACfg) (vk : ViewKind)
    (va : Option ACfg) (hf : custom_view_unvalidated vk va = false) :
    match (resolve k inst sel vk va).1 with
    | .hist b _ _ => vk ≠ .custom → validBounds b = true
    | .expo ms sc _ _ => 1 ≤ ms ∧ -10 ≤ sc ∧ sc ≤ 20
    | _ => True := by
  by_cases hv : vk = .custom
  · subst hv
    have hs : ∀ ms sc n, viewAgg .custom va = some (.expo ms sc n) → validExpo ms sc = true := by
      intro ms sc n h
      simp only [viewAgg] at h
      subst h
      simpa [custom_view_unvalidated] using hf
    unfold resolve
    simp only
    cases he : effective k (viewAgg .custom va) (readerAggFor sel k inst).1 with
    | hist b nmm => simp
    | expo ms sc nmm =>
      simp only
      have := effective_expo_valid k _ _ hs (readerAggFor_not_bad sel k inst) ms sc nmm he
      exact (validExpo_iff' ms sc).mp this
    | _ => simp
  · have := path_validated k inst sel vk hv va
    revert this
    cases (resolve k inst sel vk va).1 <;> simp
    intro h _; exact h

/-- the full statement ("every path delivers accepted exponential parameters"), refuted by F46 -/
def path_validated_full_statement : Prop :=
  ∀ (k : Kind) (inst : Option (List Int)) (sel : Option ACfg) (vk : ViewKind) (va : Option ACfg),
    match (resolve k inst sel vk va).1 with
    | .expo ms sc _ _ => 1 ≤ ms ∧ -10 ≤ sc ∧ sc ≤ 20
    | _ => True

set_option maxRecDepth 16000 in
set_option exponentiation.threshold 2000 in
/-- F46 witness, `MaxScale = −15` through a hand-written `View` function: the predicate applies, the aggregator is
created with scale −15, and after recording 3 and 5 the data point reports scale −15 — the clause "a scale that
never goes below −10" of the statement fails (`scaleOK`), while count = zero + positive + negative still holds -/
theorem path_min_scale_witness :
    custom_view_unvalidated .custom (some (.expo 4 (-15) false)) = true ∧
    (resolve .histogram none none .custom (some (.expo 4 (-15) false))).1 = .expo 4 (-15) false false ∧
    (run exactIdx 4 (-15) [some (ofInt 3), some (ofInt 5)]).1.scale = -15 ∧
    scaleOK (-15) (run exactIdx 4 (-15) [some (ofInt 3), some (ofInt 5)]).1 = false ∧
    countOK (run exactIdx 4 (-15) [some (ofInt 3), some (ofInt 5)]).1 = true := by decide

/-- the full statement does not hold of the current tree -/
theorem path_validated_full_statement_refuted : ¬ path_validated_full_statement := by
  intro h
  have := h .histogram none none .custom (some (.expo 4 (-15) false))
  have hr : (resolve .histogram none none .custom (some (.expo 4 (-15) false))).1 = .expo 4 (-15) false false := by
    decide
  rw [hr] at this
  simp at this

/-! ### non-vacuity -/

example : resolve .histogram (some [1, 2, 3]) (some (.hist [5, 4] true)) .none none = (.hist [1, 2, 3] false false, false) ∧
    resolve .histogram (some [3, 2]) (some (.hist [4, 5] true)) .none none = (.hist [4, 5] true false, true) ∧
    resolve .updown none (some (.expo 0 5 false)) .newView (some (.expo 4 25 true)) = (.sum, false) ∧
    resolve .updown none (some (.expo 4 5 false)) .newView (some (.expo 4 25 true)) = (.expo 4 5 false true, false) ∧
    resolve .obsGauge none none .newView (some (.hist [1, 1] false)) = (.lastValue, false) ∧
    resolve .histogram (some [1, 2]) none .newView (some (.expo 8 3 true)) = (.expo 8 3 true false, false) ∧
    resolve .counter none (some .drop) .custom (some .dflt) = (.sum, false) := by decide

end Otel.C07
