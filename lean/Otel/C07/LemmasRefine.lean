/-
C07 — refinement: the exponential aggregator with several attribute sets behaves like a family of independent
single-set runs, each on exactly the measurements of its attribute set since the last reset.
-/
import Otel.C07.LemmasColl
import Otel.C07.Lemmas
namespace Otel.C07

/-- reference state: per live attribute set (in creation order) the finite measurements it has received since
the last reset -/
abbrev Ghost := List (Nat × List (Option Val))

def gLookup : Ghost → Nat → Option (List (Option Val))
  | [], _ => none
  | (k, vs) :: r, a => if k = a then some vs else gLookup r a

def gAdd : Ghost → Nat → Val → Ghost
  | [], a, v => [(a, [some v])]
  | (k, vs) :: r, a, v => if k = a then (k, vs ++ [some v]) :: r else (k, vs) :: gAdd r a v

/-- the cardinality limit, on the reference state: a new attribute set beyond the limit is the overflow set -/
def gLimit (limit : Nat) (g : Ghost) (a : Nat) : Nat :=
  if limit > 0 then
    if (gLookup g a).isNone ∧ g.length ≥ limit - 1 then overflowAttr else a
  else a

structure GSt where
  live : Ghost
  reports : List (List PView)

/-- the specification of the aggregator: measurements are filed under their attribute set, a collection reports
for each live set the export of the single-set `run` on its list, delta collections and replacements reset -/
def gStep (L : Int → Val → Int) (c : Cfg) (g : GSt) : Op → GSt
  | .meas _ none => g
  | .meas a (some v) => { g with live := gAdd g.live (gLimit c.limit g.live a) v }
  | .collect order =>
    { reports := g.reports ++ [order.filterMap (fun a => (gLookup g.live a).map (fun vs =>
        exportPoint c.noMinMax c.noSum a (run L c.maxSize c.maxScale vs).1))],
      live := if c.delta then [] else g.live }
  | .fresh => { g with live := [] }

def specReports (L : Int → Val → Int) (c : Cfg) (ops : List Op) : List (List PView) :=
  (ops.foldl (gStep L c) ⟨[], []⟩).reports

def gPt (L : Int → Val → Int) (c : Cfg) (x : Nat × List (Option Val)) : Nat × Expo :=
  (x.1, (run L c.maxSize c.maxScale x.2).1)

theorem run_snoc (L : Int → Val → Int) (ms : Nat) (sc : Int) (vs : List (Option Val)) (v : Val) :
    (run L ms sc (vs ++ [some v])).1 = (record L ms (run L ms sc vs).1 v).1 := by
  simp [run, runFrom, List.foldl_append, measure]

theorem lookupA_ghost (L : Int → Val → Int) (c : Cfg) : ∀ (g : Ghost) (a : Nat),
    lookupA (g.map (gPt L c)) a = (gLookup g a).map (fun vs => (run L c.maxSize c.maxScale vs).1)
  | [], _ => rfl
  | (k, vs) :: r, a => by
    simp only [List.map_cons, gPt, lookupA, gLookup]
    split
    · rfl
    · exact lookupA_ghost L c r a

theorem limitAttr_ghost (L : Int → Val → Int) (c : Cfg) (g : Ghost) (a : Nat) :
    limitAttr c.limit (g.map (gPt L c)) a = gLimit c.limit g a := by
  unfold limitAttr gLimit
  rw [lookupA_ghost]
  simp

theorem upsertA_ghost (L : Int → Val → Int) (c : Cfg) (a : Nat) (v : Val) : ∀ (g : Ghost),
    upsertA (g.map (gPt L c)) a
      (record L c.maxSize ((lookupA (g.map (gPt L c)) a).getD (Expo.init c.maxScale)) v).1 =
    (gAdd g a v).map (gPt L c)
  | [] => by
    simp [upsertA, gAdd, gPt, lookupA, run, runFrom, measure]
  | (k, vs) :: r => by
    simp only [List.map_cons, gPt, lookupA, upsertA, gAdd]
    split
    · simp only [Option.getD_some, List.map_cons, gPt, run_snoc]
    · simp only [List.map_cons, gPt]
      congr 1
      exact upsertA_ghost L c a v r

theorem inOrder_ghost (L : Int → Val → Int) (c : Cfg) (g : Ghost) (order : List Nat) :
    (inOrder (g.map (gPt L c)) order).map (fun av => exportPoint c.noMinMax c.noSum av.1 av.2) =
      order.filterMap (fun a => (gLookup g a).map (fun vs =>
        exportPoint c.noMinMax c.noSum a (run L c.maxSize c.maxScale vs).1)) := by
  unfold inOrder
  rw [List.map_filterMap]
  congr 1
  funext a
  rw [lookupA_ghost]
  cases gLookup g a <;> rfl

theorem aggStep_refines (L : Int → Val → Int) (c : Cfg) (st : AggSt) (g : GSt) (op : Op)
    (h : st.vals = g.live.map (gPt L c) ∧ st.reports = g.reports) :
    (aggStep L c st op).vals = (gStep L c g op).live.map (gPt L c) ∧
    (aggStep L c st op).reports = (gStep L c g op).reports := by
  obtain ⟨hv, hr⟩ := h
  cases op with
  | meas a v =>
    cases v with
    | none => exact ⟨hv, hr⟩
    | some v =>
      refine ⟨?_, hr⟩
      simp only [aggStep, aggMeasure, gStep, hv, limitAttr_ghost]
      exact upsertA_ghost L c _ v g.live
  | collect order =>
    constructor
    · simp only [aggStep, gStep]
      split
      · rfl
      · exact hv
    · simp only [aggStep, gStep, collectInto_view, hv, hr, inOrder_ghost]
  | fresh => exact ⟨rfl, hr⟩

/-! ## explicit-bucket histogram -/

/-- reference state: per live attribute set its first measurement and the later ones (never empty) -/
abbrev HGhost := List (Nat × Int × List Int)

def hgLookup : HGhost → Nat → Option (Int × List Int)
  | [], _ => none
  | (k, x) :: r, a => if k = a then some x else hgLookup r a

def hgAdd : HGhost → Nat → Int → HGhost
  | [], a, v => [(a, v, [])]
  | (k, x) :: r, a, v => if k = a then (k, x.1, x.2 ++ [v]) :: r else (k, x) :: hgAdd r a v

def hgLimit (limit : Nat) (g : HGhost) (a : Nat) : Nat :=
  if limit > 0 then
    if (hgLookup g a).isNone ∧ g.length ≥ limit - 1 then overflowAttr else a
  else a

/-- the single-set accumulator for the measurements `v0 :: rest` (`histRunSorted_cons_acc`) -/
def hAcc (bounds : List Int) (x : Int × List Int) : Hist :=
  (x.1 :: x.2).foldl (histStep bounds) (Hist.new bounds.length x.1)

theorem histRunSorted_cons_acc (bounds : List Int) (v0 : Int) (rest : List Int) :
    histRunSorted bounds (v0 :: rest) = some (hAcc bounds (v0, rest)) := by
  simp [histRunSorted, hAcc, List.foldl_cons, histMeasure_none, fold_some]

structure HGSt where
  live : HGhost
  noMinMax : Bool
  noSum : Bool
  reports : List (List HDPoint)

/-- the specification of the explicit-bucket aggregator: a collection reports for each live attribute set the
export (with the current flags) of the single-set accumulator of exactly that set's measurements -/
def hgStep (delta : Bool) (limit : Nat) (bounds : List Int) (g : HGSt) : HOp → HGSt
  | .meas a v => { g with live := hgAdd g.live (hgLimit limit g.live a) v }
  | .collect order =>
    { g with
      reports := g.reports ++ [order.filterMap (fun a => (hgLookup g.live a).map (fun x =>
        writeHPoint g.noMinMax g.noSum bounds default a (hAcc bounds x)))],
      live := if delta then [] else g.live }
  | .fresh nmm ns => { g with live := [], noMinMax := nmm, noSum := ns }

def hSpecReports (delta : Bool) (limit : Nat) (rawBounds : List Int) (noMinMax noSum : Bool) (ops : List HOp) :
    List (List HDPoint) :=
  (ops.foldl (hgStep delta limit (sortBounds rawBounds)) ⟨[], noMinMax, noSum, []⟩).reports

/-- with `noSum` the accumulator never adds to its total -/
def stripTotal (ns : Bool) (h : Hist) : Hist := if ns then { h with total := 0 } else h

def hgPt (bounds : List Int) (ns : Bool) (x : Nat × Int × List Int) : Nat × Hist :=
  (x.1, stripTotal ns (hAcc bounds x.2))

theorem hAcc_snoc (bounds : List Int) (v0 : Int) (rest : List Int) (v : Int) :
    hAcc bounds (v0, rest ++ [v]) = histStep bounds (hAcc bounds (v0, rest)) v := by
  simp [hAcc, List.foldl_append]

theorem strip_step (bounds : List Int) (ns : Bool) (H : Hist) (v : Int) :
    (if ns then (stripTotal ns H).bin (searchIdx bounds v) v
     else ((stripTotal ns H).bin (searchIdx bounds v) v).addSum v) = stripTotal ns (histStep bounds H v) := by
  cases ns <;> simp [stripTotal, histStep, Hist.bin, Hist.addSum]

theorem strip_new (bounds : List Int) (ns : Bool) (v : Int) :
    (if ns then (Hist.new bounds.length v).bin (searchIdx bounds v) v
     else ((Hist.new bounds.length v).bin (searchIdx bounds v) v).addSum v) = stripTotal ns (hAcc bounds (v, [])) := by
  cases ns <;> simp [stripTotal, hAcc, histStep, Hist.bin, Hist.addSum, Hist.new]

theorem write_strip (nmm ns : Bool) (bounds : List Int) (d : HDPoint) (a : Nat) (H : Hist) :
    writeHPoint nmm ns bounds d a (stripTotal ns H) = writeHPoint nmm ns bounds d a H := by
  cases ns <;> simp [writeHPoint, stripTotal]

theorem lookupH_ghost (bounds : List Int) (ns : Bool) : ∀ (g : HGhost) (a : Nat),
    lookupH (g.map (hgPt bounds ns)) a = (hgLookup g a).map (fun x => stripTotal ns (hAcc bounds x))
  | [], _ => rfl
  | (k, x) :: r, a => by
    simp only [List.map_cons, hgPt, lookupH, hgLookup]
    split
    · rfl
    · exact lookupH_ghost bounds ns r a

theorem hLimitAttr_ghost (bounds : List Int) (ns : Bool) (limit : Nat) (g : HGhost) (a : Nat) :
    hLimitAttr limit (g.map (hgPt bounds ns)) a = hgLimit limit g a := by
  unfold hLimitAttr hgLimit
  rw [lookupH_ghost]
  simp

theorem hMeasure_ghost (bounds : List Int) (ns : Bool) (a : Nat) (v : Int) : ∀ (g : HGhost),
    upsertH (g.map (hgPt bounds ns)) a
      (if ns then (match lookupH (g.map (hgPt bounds ns)) a with
                   | some h => h
                   | none => Hist.new bounds.length v).bin (searchIdx bounds v) v
       else ((match lookupH (g.map (hgPt bounds ns)) a with
              | some h => h
              | none => Hist.new bounds.length v).bin (searchIdx bounds v) v).addSum v) =
    (hgAdd g a v).map (hgPt bounds ns)
  | [] => by
    simp only [List.map_nil, lookupH, upsertH, hgAdd, List.map_cons, hgPt]
    rw [strip_new]
  | (k, x) :: r => by
    simp only [List.map_cons, hgPt, lookupH, upsertH, hgAdd]
    split
    · simp only [List.map_cons, hgPt]
      rw [strip_step, ← hAcc_snoc]
    · simp only [List.map_cons, hgPt]
      congr 1
      exact hMeasure_ghost bounds ns a v r

theorem hInOrder_ghost (bounds : List Int) (nmm ns : Bool) (g : HGhost) (order : List Nat) :
    (hInOrder (g.map (hgPt bounds ns)) order).map (fun av => writeHPoint nmm ns bounds default av.1 av.2) =
      order.filterMap (fun a => (hgLookup g a).map (fun x =>
        writeHPoint nmm ns bounds default a (hAcc bounds x))) := by
  unfold hInOrder
  rw [List.map_filterMap]
  congr 1
  funext a
  rw [lookupH_ghost]
  cases hgLookup g a <;> simp [write_strip]

theorem hStep_refines (delta : Bool) (limit : Nat) (bounds : List Int) (st : HSt) (g : HGSt) (op : HOp)
    (h : st.vals = g.live.map (hgPt bounds st.noSum) ∧ st.noMinMax = g.noMinMax ∧ st.noSum = g.noSum ∧
      st.reports = g.reports) :
    (hStep delta limit bounds st op).vals =
        (hgStep delta limit bounds g op).live.map (hgPt bounds (hStep delta limit bounds st op).noSum) ∧
    (hStep delta limit bounds st op).noMinMax = (hgStep delta limit bounds g op).noMinMax ∧
    (hStep delta limit bounds st op).noSum = (hgStep delta limit bounds g op).noSum ∧
    (hStep delta limit bounds st op).reports = (hgStep delta limit bounds g op).reports := by
  obtain ⟨hv, hm, hs, hr⟩ := h
  cases op with
  | meas a v =>
    refine ⟨?_, hm, hs, hr⟩
    simp only [hStep, hMeasure, hgStep, hv, hLimitAttr_ghost]
    exact hMeasure_ghost bounds st.noSum _ v g.live
  | collect order =>
    refine ⟨?_, hm, hs, ?_⟩
    · simp only [hStep, hgStep]
      split
      · rfl
      · exact hv
    · simp only [hStep, hgStep, hCollectInto_vis, hv, hr, hInOrder_ghost, hm, hs]
  | fresh x y => exact ⟨rfl, rfl, rfl, hr⟩

end Otel.C07
