/-
C07 driver: reads the trace lines of the Go harnesses, runs the model on the same inputs and evaluates the
Spec oracle on the implementation's observed result.

  hist  <gen> <f|i> <shift> <bounds,> | <values,> => <P|N> <sorted bounds,> <counts,> <count> <sum> <min> <max>
  expo  <gen> <maxSize> <maxScale> | <f bits>… => <P|N> <scale> <posOff> <pos,> <negOff> <neg,> <zero> <count>
                                                    <min bits> <max bits> <sum bits> | <out token per value>…
        out token: `n` (NaN/Inf ignored) | `z` (zero) | `sb:ib:sa:ia:r`
  vexpo <gen> <maxSize> <maxScale> => ok|err          vhist <gen> <bounds,> => ok|err
-/
import Otel.Base.Wire
import Otel.C07.Spec
open Otel Otel.Wire Otel.C07

namespace Otel.C07.Drv

def parseCsvInt (s : String) : Option (List Int) :=
  if s == "-" then some [] else (s.splitOn ",").mapM (·.toInt?)

def parseCsvNat (s : String) : Option (List Nat) :=
  if s == "-" then some [] else (s.splitOn ",").mapM (·.toNat?)

def hexNat (cs : List Char) : Option Nat :=
  cs.foldlM (fun acc c => (hexVal c).map (fun d => acc * 16 + d)) 0

/-- `f<16 hex digits>` -/
def parseF (s : String) : Option Nat :=
  match s.toList with
  | 'f' :: rest => if rest.length == 16 then hexNat rest else none
  | _ => none

def csv {α} [ToString α] (l : List α) : String :=
  if l.isEmpty then "-" else ",".intercalate (l.map toString)

def parseOut (neg : Bool) (s : String) : Option Out :=
  if s == "n" then some .skipped
  else if s == "z" then some .zero
  else match (s.splitOn ":").mapM (·.toInt?) with
    | some [sb, ib, sa, ia, r] => some (.val neg sb ib sa ia (r == 1))
    | _ => none

def absBits (b : Nat) : Nat := b % 2 ^ 63

/-- the index table the implementation logged: (scale, mant, ex, idx) -/
abbrev Table := List (Int × Nat × Int × Int)

def mkTable : List (Option Val) → List Out → Table
  | some v :: vs, .val _ sb ib sa ia _ :: os => (sb, v.mant, v.ex, ib) :: (sa, v.mant, v.ex, ia) :: mkTable vs os
  | _ :: vs, _ :: os => mkTable vs os
  | _, _ => []

def lookup (t : Table) (s : Int) (v : Val) : Int :=
  match t.find? (fun e => e.1 == s && e.2.1 == v.mant && e.2.2.1 == v.ex) with
  | some e => e.2.2.2
  | none => Spec.exactIdx s v   -- only reached when model and implementation have already diverged

/-- value/out token correspondence: NaN/Inf ↔ n, zero ↔ z, non-zero ↔ val with the value's sign -/
def tokensMatch : List (Option Val) → List Out → Bool
  | [], [] => true
  | none :: vs, .skipped :: os => tokensMatch vs os
  | some v :: vs, .zero :: os => v.mant == 0 && tokensMatch vs os
  | some v :: vs, .val neg _ _ _ _ _ :: os => v.mant != 0 && neg == v.neg && tokensMatch vs os
  | _, _ => false

def recordedVals : List (Option Val) → List Out → List Val
  | some v :: vs, .zero :: os => v :: recordedVals vs os
  | some v :: vs, .val _ _ _ _ _ true :: os => v :: recordedVals vs os
  | _ :: vs, _ :: os => recordedVals vs os
  | _, _ => []

/-- is the exact dyadic `num·2^ex` a float64? -/
def representable (d : Dy) : Bool :=
  if d.1 == 0 then true
  else
    let r := stripZeros 4096 d.1.natAbs d.2
    let bits := r.1.log2 + 1
    decide (bits ≤ 53) && decide (r.2 ≥ -1074) && decide (r.2 + (bits : Int) - 1 ≤ 1023)

def partialSums : Dy → List Val → List Dy
  | _, [] => []
  | acc, v :: r => let a := dyAdd acc v.toDy; a :: partialSums a r

def dyEq (a b : Dy) : Bool := !dyLt a b && !dyLt b a

/-- min/max/sum clauses on the observed point, for the recorded values `rv` -/
def extremaOK (rv : List Val) (mn mx : Val) (sum : Option Val) : Bool :=
  if rv.isEmpty then mn == maxFloat && mx == minFloat && (sum.map (·.mant)) == some 0
  else
    rv.contains mn && rv.all (fun v => !v.lt mn) && rv.contains mx && rv.all (fun v => !mx.lt v) &&
    (let ps := partialSums (0, 0) rv
     !ps.all representable || (match sum with
                               | some sm => dyEq sm.toDy (ps.getLastD (0, 0))
                               | none => false))

def cost (s : Int) : Nat := if s ≤ 14 then 0 else 4 ^ (s - 14).toNat

def coherent : Out → Bool
  | .val _ sb ib sa ia _ => ia == ib >>> (sb - sa).toNat
  | _ => true

/-- classify the logged indices of one line; returns (places, remaining budget, checked count) -/
def classifyAll : List Nat → List Out → Nat → List Spec.Place → Nat → List Spec.Place × Nat × Nat
  | b :: bs, (.val n sb ib sa ia r) :: os, budget, acc, k =>
    let force := !coherent (.val n sb ib sa ia r)
    let c1 := cost sb
    let (acc, budget, k) :=
      if force || c1 ≤ budget then (Spec.classify sb (absBits b) ib :: acc, budget - (if force then 0 else c1), k + 1)
      else (acc, budget, k)
    let c2 := cost sa
    let (acc, budget, k) :=
      if sa == sb then (acc, budget, k)
      else if force || c2 ≤ budget then (Spec.classify sa (absBits b) ia :: acc, budget - (if force then 0 else c2), k + 1)
      else (acc, budget, k)
    classifyAll bs os budget acc k
  | _ :: bs, _ :: os, budget, acc, k => classifyAll bs os budget acc k
  | _, _, budget, acc, k => (acc, budget, k)

def incoherentCount (neg : Bool) (outs : List Out) : Nat :=
  outs.countP (fun o => match o with
    | .val n _ _ _ _ true => n == neg && !coherent o
    | _ => false)

/-- branch tags of the model for one line -/
def tagsOf (L : Int → Val → Int) (maxSize : Nat) : Expo → List (Option Val) → List String → List String
  | _, [], acc => acc
  | p, none :: vs, acc => tagsOf L maxSize p vs (if acc.contains "skip" then acc else "skip" :: acc)
  | p, some v :: vs, acc =>
    let r := record L maxSize p v
    let t : List String :=
      match r.2 with
      | .zero => ["zero"]
      | .skipped => []
      | .val neg sb ib sa _ rec =>
        let b := if neg then p.neg else p.pos
        let b' := if sa == sb then b else b.downscale (sb - sa).toNat
        let bin' := getBin L sa v
        let endBin := b'.start + (b'.counts.length : Int) - 1
        [if sb > 0 then "scale>0" else "scale<=0", if neg then "neg" else "pos"] ++
        (if !rec then [if scaleChange maxSize ib b.start b.counts.length > 30 then "drop-escape" else "drop"]
         else
          (if sa == sb then [] else [if sb - sa > 1 then "downscale-multi" else "downscale1"]) ++
          (if sa != sb && sb > 0 && sa ≤ 0 then ["cross0"] else []) ++
          [if b'.counts.length == 0 then "rec-empty"
           else if bin' ≥ b'.start && bin' ≤ endBin then "rec-inside"
           else if bin' < b'.start then "rec-left" else "rec-right"])
    tagsOf L maxSize r.1 vs (t.foldl (fun a x => if a.contains x then a else x :: a) acc)

def showB (b : Buckets) : String := s!"{b.start} {csv b.counts}"

def stepExpo (budget : Nat) (inp obs : List String) : Nat × Option Verdict :=
  match inp with
  | "expo" :: _ :: ms :: sc :: "|" :: bitToks =>
    let (o1, o2) := (obs.takeWhile (· ≠ "|"), (obs.dropWhile (· ≠ "|")).drop 1)
    match parseNat ms, parseInt sc, bitToks.mapM parseF, o1 with
    | some maxSize, some maxScale, some bits,
      [pt, oscale, opo, opc, ono, onc, ozero, ocount, omin, omax, osum] =>
      let vals := bits.map decode
      let negs := bits.map (fun b => decide (b ≥ 2 ^ 63))
      match parseInt oscale, parseInt opo, parseCsvNat opc, parseInt ono, parseCsvNat onc, parseNat ozero,
            parseNat ocount, (parseF omin).bind decode, (parseF omax).bind decode, (parseF osum).map decode,
            (List.zip negs o2).mapM (fun (n, t) => parseOut n t) with
      | some scale, some po, some pc, some no, some nc, some zc, some count, some mn, some mx, some sm,
        some outs =>
        if o2.length != bits.length then (budget, none) else
        let tbl := mkTable vals outs
        let L := lookup tbl
        let (pm, outsM) := run L maxSize maxScale vals
        let obsP : Expo := ⟨scale, ⟨po, pc⟩, ⟨no, nc⟩, zc, count, mn, mx, (0, 0)⟩
        let exists_ := vals.any (·.isSome)
        let rv := recordedVals vals outs
        let agree :=
          pm.scale == scale && pm.pos == obsP.pos && pm.neg == obsP.neg && pm.zero == zc && pm.count == count &&
          pm.min == mn && pm.max == mx && outsM == outs && (pt == "P") == exists_ &&
          (!(partialSums (0, 0) rv).all representable || (match sm with
                                                          | some x => dyEq pm.sum x.toDy
                                                          | none => false))
        -- oracle on the observed point
        let structural :=
          tokensMatch vals outs && (pt == "P") == exists_ &&
          Spec.countOK obsP && Spec.scaleOK maxScale obsP && Spec.chainOK maxScale outs scale &&
          Spec.placedOK false scale outs obsP.pos && Spec.placedOK true scale outs obsP.neg &&
          Spec.tallyOK outs obsP && Spec.dropsOK maxSize [] outs && extremaOK rv mn mx sm
        let (places, budget', _) := classifyAll bits outs budget [] 0
        let anyBad := places.contains .bad
        let anyF14 := places.contains .f14
        let incP := incoherentCount false outs
        let incN := incoherentCount true outs
        let sizeStrict := Spec.sizeOK maxSize obsP
        let sizeTol := decide (pc.length ≤ maxSize + incP) && decide (nc.length ≤ maxSize + incN)
        let spec :=
          if !structural || anyBad then "FAIL"
          else if !sizeStrict then (if sizeTol && anyF14 then "KNOWN:F14" else "FAIL")
          else if anyF14 then "KNOWN:F14" else "ok"
        let tags := tagsOf L maxSize (Expo.init maxScale) vals []
        let tags := if anyF14 then "F14" :: tags else tags
        let tags := if incP + incN > 0 then "incoherent" :: tags else tags
        let tags := if !sizeStrict then "oversize" :: tags else tags
        let nontrivial := decide (rv.length ≥ 2)
        (budget', some { agree := agree, spec := spec, nontrivial := nontrivial,
                         branches := if tags.isEmpty then "-" else ",".intercalate tags.reverse,
                         model := s!"{pm.scale} {showB pm.pos} {showB pm.neg} {pm.zero} {pm.count}" })
      | _, _, _, _, _, _, _, _, _, _, _ => (budget, none)
    | _, _, _, _ => (budget, none)
  | _ => (budget, none)

def showHist : Option Hist → String
  | none => "N"
  | some h => s!"P {csv h.counts} {h.count} {h.total} {h.min} {h.max}"

def stepHist (inp obs : List String) : Option Verdict :=
  match inp, obs with
  | ["hist", _, _, _, bs, "|", vs], [pt, osb, oc, ocount, osum, omin, omax] =>
    match parseCsvInt bs, parseCsvInt vs, parseCsvInt osb, parseCsvNat oc, parseNat ocount, parseInt osum,
          parseInt omin, parseInt omax with
    | some raw, some vals, some sorted, some counts, some count, some sum, some mn, some mx =>
      let m := histRun raw vals
      let obsH : Option Hist := if pt == "P" then some ⟨counts, count, sum, mn, mx⟩ else none
      let agree := m == obsH && sortBounds raw == sorted
      let spec := Spec.histOK raw sorted vals obsH
      let tags := (if vals.isEmpty then ["empty"] else []) ++
        (if raw != sorted then ["unsorted"] else []) ++
        (if vals.any (fun v => sorted.contains v) then ["on-bound"] else []) ++
        (if vals.any (fun v => searchIdx sorted v == sorted.length) then ["overflow-bucket"] else []) ++
        (if vals.any (fun v => searchIdx sorted v == 0) then ["first-bucket"] else [])
      some { agree := agree, spec := if spec then "ok" else "FAIL", nontrivial := decide (vals.length ≥ 2),
             branches := if tags.isEmpty then "-" else ",".intercalate tags, model := showHist m }
    | _, _, _, _, _, _, _, _ => none
  | _, _ => none

def stepValid (inp obs : List String) : Option Verdict :=
  match inp, obs with
  | ["vexpo", _, ms, sc], [r] =>
    match parseInt ms, parseInt sc with
    | some maxSize, some maxScale =>
      let m := validExpo maxSize maxScale
      let want := decide (1 ≤ maxSize) && decide (-10 ≤ maxScale) && decide (maxScale ≤ 20)
      let o := r == "ok"
      some { agree := m == o, spec := if o == want then "ok" else "FAIL", nontrivial := true,
             branches := if m then "accept" else if maxScale > 20 then "scale-high" else if maxScale < -10 then "scale-low" else "size",
             model := if m then "ok" else "err" }
    | _, _ => none
  | ["vhist", _, bs], [r] =>
    match parseCsvInt bs with
    | some b =>
      let m := validBounds b
      let want := decide (b.length ≤ 1) || (Spec.isSorted b && b.eraseDups.length == b.length)
      let o := r == "ok"
      some { agree := m == o, spec := if o == want then "ok" else "FAIL", nontrivial := decide (b.length ≥ 2),
             branches := if m then "accept" else "reject", model := if m then "ok" else "err" }
    | none => none
  | _, _ => none

/-- state = remaining budget (cost units) for exact-index checks above scale 14 -/
def stepLine (budget : Nat) (toks : List String) : Nat × Option Verdict :=
  let (inp, obs) := splitObs toks
  match inp with
  | "expo" :: _ => let (b, v) := stepExpo (budget + 10) inp obs; (b, v)
  | "hist" :: _ => (budget, stepHist inp obs)
  | _ => (budget, stepValid inp obs)

end Otel.C07.Drv

def main : IO Unit := Wire.run 100000 Otel.C07.Drv.stepLine
