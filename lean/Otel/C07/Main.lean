/-
C07 driver: reads the trace lines of the Go harnesses, runs the model on the same inputs and evaluates the
Spec oracle on the implementation's observed result.

  hist  <gen> <f|i> <shift> <bounds,> | <values,> => <P|N> <sorted bounds,> <counts,> <count> <sum> <min> <max>
  expo  <gen> <maxSize> <maxScale> | <f bits>… => <P|N> <scale> <posOff> <pos,> <negOff> <neg,> <zero> <count>
                                                    <min bits> <max bits> <sum bits> | <out token per value>…
        out token: `n` (NaN/Inf ignored) | `z` (zero) | `sb:ib:sa:ia:r`
  vexpo <gen> <maxSize> <maxScale> => ok|err          vhist <gen> <bounds,> => ok|err
  path  <gen> <kind> <i|f> <inst bounds,|-> <reader agg> <view -|n|c> <view agg> <d|c> | <values 1,> | <values 2,>
        => <err 0|1> none | S | G | H <bounds,> <counts,> <count> <sum> <min|-> <max|-> |
           E <scale> <posOff> <pos,> <negOff> <neg,> <zero> <count> <min|-> <max|-> <sum>
  hcoll <gen> <f|i> <d|c> <limit> <bounds,> <noMinMax><noSum> | <op>… => <C <n> <point>×n>…
        op: <attr>:<value> | c | n:<noMinMax><noSum> ; point: <attr> <bounds,> <counts,> <count> <sum> <min|-> <max|->
  coll  <gen> <d|c> <maxSize> <maxScale> <limit> <noMinMax> <noSum> | <op>… => <C <n> <point>×n>… | <out token per m op>…
        op: <attr>:f<bits> | c | n ; point (destination slot order): <attr> <scale> <posOff> <pos,> <negOff> <neg,>
        <zero> <count> <min bits|-> <max bits|-> <sum bits>
-/
import Otel.Base.Wire
import Otel.C07.Spec
import Otel.C07.Collect
import Otel.C07.Path
import Otel.C07.Int64
open Otel Otel.Wire Otel.C07

namespace Otel.C07.Drv

def parseCsvInt (s : String) : Option (List Int) :=
  if s == "-" then some [] else (s.splitOn ",").mapM (·.toInt?)

def parseCsvNat (s : String) : Option (List Nat) :=
  if s == "-" then some [] else (s.splitOn ",").mapM (·.toNat?)

def hexNat (cs : List Char) : Option Nat :=
  cs.foldlM (fun acc c => (hexVal c).map (fun d => acc * 16 + d)) 0

/-- `f<16 hex digits>` -/
def parseF (s : String) : Option Nat :=
  match s.toList with
  | 'f' :: rest => if rest.length == 16 then hexNat rest else none
  | _ => none

def csv {α} [ToString α] (l : List α) : String :=
  if l.isEmpty then "-" else ",".intercalate (l.map toString)

def parseOut (neg : Bool) (s : String) : Option Out :=
  if s == "n" then some .skipped
  else if s == "z" then some .zero
  else match (s.splitOn ":").mapM (·.toInt?) with
    | some [sb, ib, sa, ia, r] => some (.val neg sb ib sa ia (r == 1))
    | _ => none

def absBits (b : Nat) : Nat := b % 2 ^ 63

/-- the index table the implementation logged: (scale, mant, ex, idx) -/
abbrev Table := List (Int × Nat × Int × Int)

def mkTable : List (Option Val) → List Out → Table
  | some v :: vs, .val _ sb ib sa ia _ :: os => (sb, v.mant, v.ex, ib) :: (sa, v.mant, v.ex, ia) :: mkTable vs os
  | _ :: vs, _ :: os => mkTable vs os
  | _, _ => []

def lookup (t : Table) (s : Int) (v : Val) : Int :=
  match t.find? (fun e => e.1 == s && e.2.1 == v.mant && e.2.2.1 == v.ex) with
  | some e => e.2.2.2
  | none => Spec.exactIdx s v   -- only reached when model and implementation have already diverged

/-- value/out token correspondence: NaN/Inf ↔ n, zero ↔ z, non-zero ↔ val with the value's sign -/
def tokensMatch : List (Option Val) → List Out → Bool
  | [], [] => true
  | none :: vs, .skipped :: os => tokensMatch vs os
  | some v :: vs, .zero :: os => v.mant == 0 && tokensMatch vs os
  | some v :: vs, .val neg _ _ _ _ _ :: os => v.mant != 0 && neg == v.neg && tokensMatch vs os
  | _, _ => false

def recordedVals : List (Option Val) → List Out → List Val
  | some v :: vs, .zero :: os => v :: recordedVals vs os
  | some v :: vs, .val _ _ _ _ _ true :: os => v :: recordedVals vs os
  | _ :: vs, _ :: os => recordedVals vs os
  | _, _ => []

/-- is the exact dyadic `num·2^ex` a float64? -/
def representable (d : Dy) : Bool :=
  if d.1 == 0 then true
  else
    let r := stripZeros 4096 d.1.natAbs d.2
    let bits := r.1.log2 + 1
    decide (bits ≤ 53) && decide (r.2 ≥ -1074) && decide (r.2 + (bits : Int) - 1 ≤ 1023)

def partialSums : Dy → List Val → List Dy
  | _, [] => []
  | acc, v :: r => let a := dyAdd acc v.toDy; a :: partialSums a r

def dyEq (a b : Dy) : Bool := !dyLt a b && !dyLt b a

/-- min/max/sum clauses on the observed point, for the recorded values `rv` -/
def extremaOK (rv : List Val) (mn mx : Val) (sum : Option Val) : Bool :=
  if rv.isEmpty then mn == maxFloat && mx == minFloat && (sum.map (·.mant)) == some 0
  else
    rv.contains mn && rv.all (fun v => !v.lt mn) && rv.contains mx && rv.all (fun v => !mx.lt v) &&
    (let ps := partialSums (0, 0) rv
     !ps.all representable || (match sum with
                               | some sm => dyEq sm.toDy (ps.getLastD (0, 0))
                               | none => false))

def cost (s : Int) : Nat := if s ≤ 14 then 0 else 4 ^ (s - 14).toNat

def coherent : Out → Bool
  | .val _ sb ib sa ia _ => ia == ib >>> (sb - sa).toNat
  | _ => true

/-- classify the logged indices of one line; returns (places, remaining budget, checked count) -/
def classifyAll : List Nat → List Out → Nat → List Spec.Place → Nat → List Spec.Place × Nat × Nat
  | b :: bs, (.val n sb ib sa ia r) :: os, budget, acc, k =>
    let force := !coherent (.val n sb ib sa ia r)
    let c1 := cost sb
    let (acc, budget, k) :=
      if force || c1 ≤ budget then (Spec.classify sb (absBits b) ib :: acc, budget - (if force then 0 else c1), k + 1)
      else (acc, budget, k)
    let c2 := cost sa
    let (acc, budget, k) :=
      if sa == sb then (acc, budget, k)
      else if force || c2 ≤ budget then (Spec.classify sa (absBits b) ia :: acc, budget - (if force then 0 else c2), k + 1)
      else (acc, budget, k)
    classifyAll bs os budget acc k
  | _ :: bs, _ :: os, budget, acc, k => classifyAll bs os budget acc k
  | _, _, budget, acc, k => (acc, budget, k)

def incoherentCount (neg : Bool) (outs : List Out) : Nat :=
  outs.countP (fun o => match o with
    | .val n _ _ _ _ true => n == neg && !coherent o
    | _ => false)

/-- branch tags of the model for one line -/
def tagsOf (L : Int → Val → Int) (maxSize : Nat) : Expo → List (Option Val) → List String → List String
  | _, [], acc => acc
  | p, none :: vs, acc => tagsOf L maxSize p vs (if acc.contains "skip" then acc else "skip" :: acc)
  | p, some v :: vs, acc =>
    let r := record L maxSize p v
    let t : List String :=
      match r.2 with
      | .zero => ["zero"]
      | .skipped => []
      | .val neg sb ib sa _ rec =>
        let b := if neg then p.neg else p.pos
        let b' := if sa == sb then b else b.downscale (sb - sa).toNat
        let bin' := getBin L sa v
        let endBin := b'.start + (b'.counts.length : Int) - 1
        [if sb > 0 then "scale>0" else "scale<=0", if neg then "neg" else "pos"] ++
        (if !rec then [if scaleChange maxSize ib b.start b.counts.length > 30 then "drop-escape" else "drop"]
         else
          (if sa == sb then [] else [if sb - sa > 1 then "downscale-multi" else "downscale1"]) ++
          (if sa != sb && sb > 0 && sa ≤ 0 then ["cross0"] else []) ++
          [if b'.counts.length == 0 then "rec-empty"
           else if bin' ≥ b'.start && bin' ≤ endBin then "rec-inside"
           else if bin' < b'.start then "rec-left" else "rec-right"])
    tagsOf L maxSize r.1 vs (t.foldl (fun a x => if a.contains x then a else x :: a) acc)

def showB (b : Buckets) : String := s!"{b.start} {csv b.counts}"

def stepExpo (budget : Nat) (inp obs : List String) : Nat × Option Verdict :=
  match inp with
  | "expo" :: _ :: ms :: sc :: "|" :: bitToks =>
    let (o1, o2) := (obs.takeWhile (· ≠ "|"), (obs.dropWhile (· ≠ "|")).drop 1)
    match parseNat ms, parseInt sc, bitToks.mapM parseF, o1 with
    | some maxSize, some maxScale, some bits,
      [pt, oscale, opo, opc, ono, onc, ozero, ocount, omin, omax, osum] =>
      let vals := bits.map decode
      let negs := bits.map (fun b => decide (b ≥ 2 ^ 63))
      match parseInt oscale, parseInt opo, parseCsvNat opc, parseInt ono, parseCsvNat onc, parseNat ozero,
            parseNat ocount, (parseF omin).bind decode, (parseF omax).bind decode, (parseF osum).map decode,
            (List.zip negs o2).mapM (fun (n, t) => parseOut n t) with
      | some scale, some po, some pc, some no, some nc, some zc, some count, some mn, some mx, some sm,
        some outs =>
        if o2.length != bits.length then (budget, none) else
        let tbl := mkTable vals outs
        let L := lookup tbl
        let (pm, outsM) := run L maxSize maxScale vals
        let obsP : Expo := ⟨scale, ⟨po, pc⟩, ⟨no, nc⟩, zc, count, mn, mx, (0, 0)⟩
        let exists_ := vals.any (·.isSome)
        let rv := recordedVals vals outs
        let agree :=
          pm.scale == scale && pm.pos == obsP.pos && pm.neg == obsP.neg && pm.zero == zc && pm.count == count &&
          pm.min == mn && pm.max == mx && outsM == outs && (pt == "P") == exists_ &&
          (!(partialSums (0, 0) rv).all representable || (match sm with
                                                          | some x => dyEq pm.sum x.toDy
                                                          | none => false))
        -- oracle on the observed point
        let structural :=
          tokensMatch vals outs && (pt == "P") == exists_ &&
          Spec.countOK obsP && Spec.scaleOK maxScale obsP && Spec.chainOK maxScale outs scale &&
          Spec.placedOK false scale outs obsP.pos && Spec.placedOK true scale outs obsP.neg &&
          Spec.tallyOK outs obsP && Spec.dropsOK maxSize [] outs && extremaOK rv mn mx sm
        let (places, budget', _) := classifyAll bits outs budget [] 0
        let anyBad := places.contains .bad
        let anyF14 := places.contains .f14
        let incP := incoherentCount false outs
        let incN := incoherentCount true outs
        let sizeStrict := Spec.sizeOK maxSize obsP
        let sizeTol := decide (pc.length ≤ maxSize + incP) && decide (nc.length ≤ maxSize + incN)
        let spec :=
          if !structural || anyBad then "FAIL"
          else if !sizeStrict then (if sizeTol && anyF14 then "KNOWN:F14" else "FAIL")
          else if anyF14 then "KNOWN:F14" else "ok"
        let tags := tagsOf L maxSize (Expo.init maxScale) vals []
        let tags := if anyF14 then "F14" :: tags else tags
        let tags := if incP + incN > 0 then "incoherent" :: tags else tags
        let tags := if !sizeStrict then "oversize" :: tags else tags
        let nontrivial := decide (rv.length ≥ 2)
        (budget', some { agree := agree, spec := spec, nontrivial := nontrivial,
                         branches := if tags.isEmpty then "-" else ",".intercalate tags.reverse,
                         model := s!"{pm.scale} {showB pm.pos} {showB pm.neg} {pm.zero} {pm.count}" })
      | _, _, _, _, _, _, _, _, _, _, _ => (budget, none)
    | _, _, _, _ => (budget, none)
  | _ => (budget, none)


/-! ## `coll`: several attribute sets, several collections into one re-used destination -/

/-- an observed point; `sum = none` when the reported float sum is not finite -/
structure OPt where
  attr : Nat
  scale : Int
  pos : Buckets
  neg : Buckets
  zero : Nat
  count : Nat
  min : Option Val
  max : Option Val
  sum : Option Val

def parseOptF (s : String) : Option (Option Val) :=
  if s == "-" then some none else (parseF s).bind (fun b => (decode b).map some)

def parsePoint : List String → Option OPt
  | [a, sc, po, pc, no, nc, z, c, mn, mx, sm] => do
    let a ← parseNat a
    let sc ← parseInt sc
    let po ← parseInt po
    let pc ← parseCsvNat pc
    let no ← parseInt no
    let nc ← parseCsvNat nc
    let z ← parseNat z
    let c ← parseNat c
    let mn ← parseOptF mn
    let mx ← parseOptF mx
    let sm ← parseF sm
    pure ⟨a, sc, ⟨po, pc⟩, ⟨no, nc⟩, z, c, mn, mx, decode sm⟩
  | _ => none

def parsePoints : Nat → List String → Option (List OPt × List String)
  | 0, r => some ([], r)
  | n + 1, r => do
    let p ← parsePoint (r.take 11)
    let (ps, rest) ← parsePoints n (r.drop 11)
    pure (p :: ps, rest)

/-- the `C <n> <point>×n` groups; fuel = number of tokens -/
def parseReports : Nat → List String → Option (List (List OPt))
  | _, [] => some []
  | 0, _ => none
  | f + 1, "C" :: n :: r => do
    let n ← parseNat n
    let (ps, rest) ← parsePoints n r
    let more ← parseReports f rest
    pure (ps :: more)
  | _, _ => none

inductive ROp
  | meas (a : Nat) (bits : Nat)
  | collect
  | fresh

def parseROp (s : String) : Option ROp :=
  if s == "c" then some .collect
  else if s == "n" then some .fresh
  else match s.splitOn ":" with
    | [a, f] => do
      let a ← parseNat a
      let b ← parseF f
      pure (.meas a b)
    | _ => none

/-- fill the iteration order of every collect with the attribute order of the observed report -/
def fillOps : List ROp → List (List OPt) → Option (List Op)
  | [], [] => some []
  | .meas a b :: r, reps => (fillOps r reps).map (Op.meas a (decode b) :: ·)
  | .fresh :: r, reps => (fillOps r reps).map (Op.fresh :: ·)
  | .collect :: r, rep :: reps => (fillOps r reps).map (Op.collect (rep.map (·.attr)) :: ·)
  | _, _ => none

/-- min/max/sum clauses for one observed point with the recorded values `rv` -/
def extremaOK2 (noMinMax noSum : Bool) (rv : List Val) (o : OPt) : Bool × Bool :=
  let ps := partialSums (0, 0) rv
  let exact := noSum || ps.all representable
  let mm :=
    if noMinMax then o.min.isNone && o.max.isNone
    else match o.min, o.max with
      | some mn, some mx =>
        if rv.isEmpty then mn == maxFloat && mx == minFloat
        else rv.contains mn && rv.all (fun v => !v.lt mn) && rv.contains mx && rv.all (fun v => !mx.lt v)
      | _, _ => false
  let sm :=
    if noSum then (o.sum.map (·.mant)) == some 0
    else !exact || (match o.sum with
                    | some s => dyEq s.toDy (ps.getLastD (0, 0))
                    | none => false)
  (mm && sm, exact)

structure PtVerdict where
  structural : Bool
  sizeStrict : Bool
  sizeTol : Bool
  exact : Bool

/-- the per-point oracle of `expo` lines, for the (value, out) pairs of the point's attribute set -/
def pointOracle (maxSize : Nat) (maxScale : Int) (noMinMax noSum : Bool) (pairs : List (Val × Out)) (o : OPt) :
    PtVerdict :=
  let outs := pairs.map (·.2)
  let vals := pairs.map (fun p => some p.1)
  let obsP : Expo := ⟨o.scale, o.pos, o.neg, o.zero, o.count, maxFloat, minFloat, (0, 0)⟩
  let rv := recordedVals vals outs
  let (ex, exact) := extremaOK2 noMinMax noSum rv o
  let structural :=
    Spec.countOK obsP && Spec.scaleOK maxScale obsP && Spec.chainOK maxScale outs o.scale &&
    Spec.placedOK false o.scale outs o.pos && Spec.placedOK true o.scale outs o.neg &&
    Spec.tallyOK outs obsP && Spec.dropsOK maxSize [] outs && ex
  { structural := structural
    sizeStrict := Spec.sizeOK maxSize obsP
    sizeTol := decide (o.pos.counts.length ≤ maxSize + incoherentCount false outs) &&
               decide (o.neg.counts.length ≤ maxSize + incoherentCount true outs)
    exact := exact }

abbrev Live := List (Nat × List (Val × Out))

def liveAdd : Live → Nat → Val × Out → Live
  | [], a, x => [(a, [x])]
  | (k, l) :: r, a, x => if k == a then (k, l ++ [x]) :: r else (k, l) :: liveAdd r a x

/-- reference semantics of the attribute map with the cardinality limit (independent of the model): the live
attribute sets since the last reset; a new set beyond the limit is folded into the overflow set 0 -/
def effAttr (limit : Nat) (live : Live) (a : Nat) : Nat :=
  if limit > 0 && !(live.any (·.1 == a)) && decide (live.length + 1 ≥ limit) then 0 else a

/-- oracle pass: returns (all structural ok, all sizes strict, all sizes tolerable, exactness flags per report) -/
def oraclePass (delta : Bool) (maxSize : Nat) (maxScale : Int) (limit : Nat) (noMinMax noSum : Bool) :
    List ROp → List Out → List (List OPt) → Live → Bool × Bool × Bool × List (List Bool) →
    Bool × Bool × Bool × List (List Bool)
  | [], [], [], _, acc => acc
  | .meas a b :: r, o :: os, reps, live, acc =>
    match decode b, o with
    | none, .skipped => oraclePass delta maxSize maxScale limit noMinMax noSum r os reps live acc
    | some v, .zero =>
      if v.mant != 0 then (false, acc.2) else
      oraclePass delta maxSize maxScale limit noMinMax noSum r os reps (liveAdd live (effAttr limit live a) (v, o)) acc
    | some v, .val neg _ _ _ _ _ =>
      if v.mant == 0 || neg != v.neg then (false, acc.2) else
      oraclePass delta maxSize maxScale limit noMinMax noSum r os reps (liveAdd live (effAttr limit live a) (v, o)) acc
    | _, _ => (false, acc.2)
  | .fresh :: r, os, reps, _, acc => oraclePass delta maxSize maxScale limit noMinMax noSum r os reps [] acc
  | .collect :: r, os, rep :: reps, live, (s, st, tol, fl) =>
    let attrs := rep.map (·.attr)
    let permOK := attrs.length == live.length && attrs.eraseDups.length == attrs.length &&
      attrs.all (fun a => live.any (·.1 == a))
    let vs := rep.map (fun o => pointOracle maxSize maxScale noMinMax noSum
      (((live.find? (·.1 == o.attr)).map (·.2)).getD []) o)
    let acc' := (s && permOK && vs.all (·.structural), st && vs.all (·.sizeStrict), tol && vs.all (·.sizeTol),
      fl ++ [vs.map (·.exact)])
    oraclePass delta maxSize maxScale limit noMinMax noSum r os reps (if delta then [] else live) acc'
  | _, _, _, _, acc => (false, acc.2)

def pointAgrees (m : PView) (o : OPt) (exact : Bool) : Bool :=
  m.attr == o.attr && m.count == o.count && m.scale == o.scale && m.zero == o.zero && m.pos == o.pos &&
  m.neg == o.neg && m.min == o.min && m.max == o.max &&
  (!exact || (match o.sum with
              | some s => dyEq m.sum s.toDy
              | none => false))

def zipAll3 {α β γ : Type} (f : α → β → γ → Bool) : List α → List β → List γ → Bool
  | [], [], [] => true
  | a :: as, b :: bs, c :: cs => f a b c && zipAll3 f as bs cs
  | _, _, _ => false

def addTag (tags : List String) (t : String) : List String := if tags.contains t then tags else t :: tags

/-- branch tags of one model step (state before the step) -/
def collTags (c : Cfg) (st : AggSt) (op : Op) (tags : List String) : List String :=
  match op with
  | .fresh => addTag tags "fresh-agg"
  | .meas a (some _) =>
    let tags := if limitAttr c.limit st.vals a != a then addTag tags "limit-overflow" else tags
    if (lookupA st.vals (limitAttr c.limit st.vals a)).isNone then addTag tags "new-attr" else tags
  | .meas _ none => addTag tags "skip"
  | .collect order =>
    let pts := inOrder st.vals order
    let n := pts.length
    let old := st.dest.vis ++ st.dest.hid
    let tags := addTag tags (if c.delta then "collect-delta" else "collect-cumulative")
    let tags := if n == 0 then addTag tags "collect-empty" else tags
    let tags := if st.dest.cap < n then addTag tags "dest-realloc"
                else if n > st.dest.vis.length then addTag tags "dest-unhide"
                else if n < st.dest.vis.length then addTag tags "dest-shrink" else addTag tags "dest-same"
    let stale := decide (st.dest.cap ≥ n) && (List.zip (old.take n) pts).any (fun (d, av) =>
      (av.2.pos.counts.isEmpty && !d.pos.vis.isEmpty) || (av.2.neg.counts.isEmpty && !d.neg.vis.isEmpty))
    let tags := if stale then addTag tags "empty-side-over-stale" else tags
    let moved := decide (st.dest.cap ≥ n) && (List.zip (old.take n) pts).any (fun (d, av) => d.attr != av.1)
    if moved then addTag tags "slot-other-attr" else tags

def stepColl (budget : Nat) (inp obs : List String) : Nat × Option Verdict :=
  match inp with
  | "coll" :: _ :: dc :: ms :: sc :: lim :: nmm :: ns :: "|" :: opToks =>
    let (o1, o2) := (obs.takeWhile (· ≠ "|"), (obs.dropWhile (· ≠ "|")).drop 1)
    match parseNat ms, parseInt sc, parseNat lim, opToks.mapM parseROp, parseReports (o1.length + 1) o1 with
    | some maxSize, some maxScale, some limit, some rops, some reps =>
      let measBits := rops.filterMap (fun o => match o with
        | .meas _ b => some b
        | _ => none)
      let negs := measBits.map (fun b => decide (b ≥ 2 ^ 63))
      match (List.zip negs o2).mapM (fun (n, t) => parseOut n t), fillOps rops reps with
      | some outs, some ops =>
        if o2.length != measBits.length then (budget, none) else
        let cfg : Cfg := ⟨dc == "d", maxSize, maxScale, limit, nmm == "1", ns == "1"⟩
        let L := lookup (mkTable (measBits.map decode) outs)
        let (fin, tags) := ops.foldl (fun (st, tags) op => (aggStep L cfg st op, collTags cfg st op tags))
          (AggSt.init, ([] : List String))
        let (structural, sizeStrict, sizeTol, flags) :=
          oraclePass cfg.delta maxSize maxScale limit cfg.noMinMax cfg.noSum rops outs reps [] (true, true, true, [])
        let agree := fin.outs == outs &&
          zipAll3 (fun mr orp fl => zipAll3 pointAgrees mr orp fl) fin.reports reps flags
        let (places, budget', _) := classifyAll measBits outs budget [] 0
        let anyBad := places.contains .bad
        let anyF14 := places.contains .f14
        let spec :=
          if !structural || anyBad then "FAIL"
          else if !sizeStrict then (if sizeTol && anyF14 then "KNOWN:F14" else "FAIL")
          else if anyF14 then "KNOWN:F14" else "ok"
        let tags := if anyF14 then "F14" :: tags else tags
        let tags := if cfg.noMinMax then addTag tags "noMinMax" else tags
        let tags := if cfg.noSum then addTag tags "noSum" else tags
        let nontrivial := decide (reps.length ≥ 2) && decide ((outs.countP Spec.isRecorded) ≥ 2)
        (budget', some { agree := agree, spec := spec, nontrivial := nontrivial,
                         branches := if tags.isEmpty then "-" else ",".intercalate tags.reverse,
                         model := " ".intercalate (fin.reports.map (fun r =>
                           s!"C{r.length}:" ++ ";".intercalate (r.map (fun p =>
                             s!"{p.attr}/{p.scale}/{showB p.pos}/{showB p.neg}/{p.zero}/{p.count}")))) })
      | _, _ => (budget, none)
    | _, _, _, _, _ => (budget, none)
  | _ => (budget, none)

def showHist : Option Hist → String
  | none => "N"
  | some h => s!"P {csv h.counts} {h.count} {h.total} {h.min} {h.max}"

def stepHist (inp obs : List String) : Option Verdict :=
  match inp, obs with
  | ["hist", _, kd, _, bs, "|", vs], [pt, osb, oc, ocount, osum, omin, omax] =>
    match parseCsvInt bs, parseCsvInt vs, parseCsvInt osb, parseCsvNat oc, parseNat ocount, parseInt osum,
          parseInt omin, parseInt omax with
    | some raw, some vals, some sorted, some counts, some count, some sum, some mn, some mx =>
      -- int64 instruments: the int64 instantiation (float64(value) for the bucket search, wrapping int64 sum)
      let m := if kd == "i" then histRunI64 raw vals else histRun raw vals
      let obsH : Option Hist := if pt == "P" then some ⟨counts, count, sum, mn, mx⟩ else none
      let agree := m == obsH && sortBounds raw == sorted
      let specOK := Spec.histOK raw sorted vals obsH
      -- F49 (int64 only): the predicate holds and the placement clause is the only one that fails — every other
      -- clause holds of the observed point and its buckets are those of the rounded values
      let f49 := kd == "i" && Spec.int64_beyond_2p53_at_boundary sorted vals
      let onlyPlacement := match obsH with
        | some h =>
          Spec.histOK raw sorted (vals.map f64OfInt)
            (some ⟨h.counts, h.count, (vals.map f64OfInt).sum, Spec.minList (vals.map f64OfInt),
                   Spec.maxList (vals.map f64OfInt)⟩) &&
          h.total == vals.sum && h.min == Spec.minList vals && h.max == Spec.maxList vals
        | none => false
      let tags := (if vals.isEmpty then ["empty"] else []) ++
        (if raw != sorted then ["unsorted"] else []) ++
        (if vals.any (fun v => sorted.contains v) then ["on-bound"] else []) ++
        (if vals.any (fun v => searchIdx sorted v == sorted.length) then ["overflow-bucket"] else []) ++
        (if vals.any (fun v => searchIdx sorted v == 0) then ["first-bucket"] else []) ++
        (if kd == "i" then ["int64"] else []) ++
        (if kd == "i" && vals.any (fun v => decide (v.natAbs ≥ 2 ^ 53)) then ["int64-beyond-2p53"] else []) ++
        (if kd == "i" && Spec.int64_beyond_2p53_at_boundary sorted vals then ["F49"] else [])
      some { agree := agree,
             spec := if specOK then "ok" else if f49 && onlyPlacement then "KNOWN:F49" else "FAIL",
             nontrivial := decide (vals.length ≥ 2),
             branches := if tags.isEmpty then "-" else ",".intercalate tags, model := showHist m }
    | _, _, _, _, _, _, _, _ => none
  | _, _ => none


/-! ## `path`: the configuration paths through the public API -/

def parseAgg (s : String) : Option (Option ACfg) :=
  match s.splitOn ":" with
  | ["-"] => some none
  | ["d"] => some (some .dflt)
  | ["x"] => some (some .drop)
  | ["h", b, n] => (parseCsvInt b).map (fun b => some (.hist b (n == "1")))
  | ["e", ms, sc, n] => do
    let ms ← parseInt ms
    let sc ← parseInt sc
    pure (some (.expo ms sc (n == "1")))
  | _ => none

def parseOptInt (s : String) : Option (Option Int) :=
  if s == "-" then some none else (parseInt s).map some

/-- placement against the exact index, independent of the run: bucket `k` of the sign holds exactly the values
of that sign whose exact index at the reported scale is `start + k`, and every such index is inside the window -/
def placedExact (neg : Bool) (s : Int) (vs : List Val) (b : Buckets) : Bool :=
  let idxs := (vs.filter (fun v => v.mant != 0 && v.neg == neg)).map (Spec.exactIdx s)
  idxs.all (fun i => decide (b.start ≤ i) && decide (i < b.start + (b.counts.length : Int))) &&
  (List.range b.counts.length).all (fun k => b.counts.getD k 0 == idxs.count (b.start + (k : Int)))

def stepPath (inp obs : List String) : Option Verdict :=
  match inp with
  | ["path", _, kd, _, inst, rd, vk, va, tp, "|", v1, "|", v2] =>
    match (parseNat kd).bind Kind.ofCode, (if inst == "-" then some none else (parseCsvInt inst).map some),
          parseAgg rd, parseAgg va, parseCsvInt v1, parseCsvInt v2 with
    | some k, some instB, some sel, some vagg, some vals1, some vals2 =>
      let vkind : ViewKind := if vk == "n" then .newView else if vk == "c" then .custom else .none
      let (res, err) := resolve k instB sel vkind vagg
      let vals := if tp == "d" then vals2 else vals1 ++ vals2
      let errOK := obs.head? == some (if err then "1" else "0")
      let o := obs.drop 1
      let tagK := s!"kind{kd}"
      let tagV := s!"view-{vk}"
      let tagI := if instB.isSome then (if err then ["inst-bounds-invalid"] else ["inst-bounds"]) else []
      let tagR := if sel.isSome then ["reader-sel"] else []
      let mk (agree ok : Bool) (tag : String) (model : String) : Option Verdict :=
        some { agree := agree && errOK, spec := if ok then "ok" else "FAIL", nontrivial := decide (vals.length ≥ 2),
               branches := ",".intercalate ([tag, tagK, tagV] ++ tagI ++ tagR), model := model }
      match res with
      | .drop => mk (o == ["none"]) (o == ["none"]) "drop" "none"
      | .sum => mk (o == ["S"] || o == ["none"]) (o == ["S"] || o == ["none"]) "sum" "S"
      | .lastValue => mk (o == ["G"] || o == ["none"]) (o == ["G"] || o == ["none"]) "lastValue" "G"
      | .hist b nmm ns =>
        if vals.isEmpty then mk (o == ["none"]) (o == ["none"]) "hist-empty" "none" else
        match o with
        | ["H", ob, oc, ocount, osum, omin, omax] =>
          match parseCsvInt ob, parseCsvNat oc, parseNat ocount, parseInt osum, parseOptInt omin, parseOptInt omax with
          | some sorted, some counts, some count, some sum, some mn, some mx =>
            let m := (histRun b vals).map (histExport nmm ns)
            let agree := m == some (counts, count, sum, mn, mx) && sortBounds b == sorted
            -- oracle on the observed point: the clauses of the statement, flags applied
            let obsH : Hist := ⟨counts, count, if ns then vals.sum else sum, mn.getD (Spec.minList vals),
                                mx.getD (Spec.maxList vals)⟩
            let ok := Spec.histOK b sorted vals (some obsH) && (!ns || sum == 0) && (mn.isNone == nmm) &&
              (mx.isNone == nmm) &&
              (vkind == .custom || Spec.isSorted b && b.eraseDups.length == b.length && sorted == b)
            mk agree ok (if vkind == .custom && sortBounds b != b then "hist-unsorted-custom" else "hist")
              (showHist (histRun b vals))
          | _, _, _, _, _, _ => none
        | _ => mk false false "hist" (showHist (histRun b vals))
      | .expo ms sc nmm ns =>
        let f46 := Spec.custom_view_unvalidated vkind vagg
        let known (ok : Bool) : String := if ok then "ok" else if f46 then "KNOWN:F46" else "FAIL"
        let panicV (cls : String) : Option Verdict :=
          some { agree := obs == [s!"panic:{cls}"], spec := known false, nontrivial := decide (vals.length ≥ 2),
                 branches := ",".intercalate ([s!"expo-panic-{cls}", tagK, tagV] ++ tagR), model := s!"panic:{cls}" }
        match expoOutcome ms sc (vals1 ++ vals2) with
        | .panicMakeslice => panicV "makeslice"
        | .panicIndex => panicV "index"
        | .runs =>
        let mkE (agree ok : Bool) (tag : String) (model : String) : Option Verdict :=
          some { agree := agree && errOK, spec := known ok, nontrivial := decide (vals.length ≥ 2),
                 branches := ",".intercalate ([tag, tagK, tagV] ++ tagI ++ tagR ++ (if f46 then ["F46"] else [])),
                 model := model }
        if vals.isEmpty then mkE (o == ["none"]) (o == ["none"]) "expo-empty" "none" else
        match o with
        | ["E", oscale, opo, opc, ono, onc, ozero, ocount, omin, omax, osum] =>
          match parseInt oscale, parseInt opo, parseCsvNat opc, parseInt ono, parseCsvNat onc, parseNat ozero,
                parseNat ocount, parseOptInt omin, parseOptInt omax, parseInt osum with
          | some scale, some po, some pc, some no, some nc, some zc, some count, some mn, some mx, some sum =>
            let vs := vals.map ofInt
            let pm := (run Spec.exactIdx ms.toNat sc (vs.map some)).1
            let pv := exportPoint nmm ns 0 pm
            -- after a dropped value (only with unvalidated parameters) the sum/min/max are those of the recorded values
            let agree := pv.scale == scale && pv.pos == ⟨po, pc⟩ && pv.neg == ⟨no, nc⟩ && pv.zero == zc &&
              pv.count == count && pv.min == mn.map ofInt && pv.max == mx.map ofInt && dyEq pv.sum (sum, 0)
            let obsP : Expo := ⟨scale, ⟨po, pc⟩, ⟨no, nc⟩, zc, count, maxFloat, minFloat, (0, 0)⟩
            let ok := Spec.countOK obsP && Spec.scaleOK sc obsP && Spec.sizeOK ms.toNat obsP &&
              decide (-10 ≤ scale) && decide (scale ≤ 20) && count == vals.length &&
              zc == vals.countP (· == 0) && placedExact false scale vs ⟨po, pc⟩ && placedExact true scale vs ⟨no, nc⟩ &&
              (if ns then sum == 0 else sum == vals.sum) &&
              (if nmm then mn.isNone && mx.isNone
               else mn == some (Spec.minList vals) && mx == some (Spec.maxList vals))
            mkE agree ok "expo" s!"{pm.scale} {showB pm.pos} {showB pm.neg} {pm.zero} {pm.count}"
          | _, _, _, _, _, _, _, _, _, _ => none
        | _ => mkE false false "expo" "-"
    | _, _, _, _, _, _ => none
  | _ => none


/-! ## `hcoll`: explicit-bucket histogram, several attribute sets, re-used destination -/

def parseHPoint : List String → Option HDPoint
  | [a, b, c, n, sm, mn, mx] => do
    let a ← parseNat a
    let b ← parseCsvInt b
    let c ← parseCsvNat c
    let n ← parseNat n
    let sm ← parseInt sm
    let mn ← parseOptInt mn
    let mx ← parseOptInt mx
    pure ⟨a, n, b, c, sm, mn, mx⟩
  | _ => none

def parseHPoints : Nat → List String → Option (List HDPoint × List String)
  | 0, r => some ([], r)
  | n + 1, r => do
    let p ← parseHPoint (r.take 7)
    let (ps, rest) ← parseHPoints n (r.drop 7)
    pure (p :: ps, rest)

def parseHReports : Nat → List String → Option (List (List HDPoint))
  | _, [] => some []
  | 0, _ => none
  | f + 1, "C" :: n :: r => do
    let n ← parseNat n
    let (ps, rest) ← parseHPoints n r
    let more ← parseHReports f rest
    pure (ps :: more)
  | _, _ => none

inductive RHOp
  | meas (a : Nat) (v : Int)
  | collect
  | fresh (nmm ns : Bool)

def parseRHOp (s : String) : Option RHOp :=
  if s == "c" then some .collect
  else match s.splitOn ":" with
    | ["n", f] => match f.toList with
      | [x, y] => some (.fresh (x == '1') (y == '1'))
      | _ => none
    | [a, v] => do
      let a ← parseNat a
      let v ← parseInt v
      pure (.meas a v)
    | _ => none

def fillHOps : List RHOp → List (List HDPoint) → Option (List HOp)
  | [], [] => some []
  | .meas a v :: r, reps => (fillHOps r reps).map (HOp.meas a v :: ·)
  | .fresh x y :: r, reps => (fillHOps r reps).map (HOp.fresh x y :: ·)
  | .collect :: r, rep :: reps => (fillHOps r reps).map (HOp.collect (rep.map (·.attr)) :: ·)
  | _, _ => none

abbrev HLive := List (Nat × List Int)

def hLiveAdd : HLive → Nat → Int → HLive
  | [], a, x => [(a, [x])]
  | (k, l) :: r, a, x => if k == a then (k, l ++ [x]) :: r else (k, l) :: hLiveAdd r a x

/-- the clauses of the statement for one observed point with the values `vs` of its attribute set -/
def hPointOracle (raw : List Int) (nmm ns : Bool) (vs : List Int) (o : HDPoint) : Bool :=
  let obsH : Hist := ⟨o.counts, o.count, if ns then vs.sum else o.sum, o.min.getD (Spec.minList vs),
                      o.max.getD (Spec.maxList vs)⟩
  Spec.histOK raw o.bounds vs (some obsH) && (!ns || o.sum == 0) && (o.min.isNone == nmm) && (o.max.isNone == nmm)

/-- oracle pass with the reference semantics of the attribute map (live sets since the last reset, overflow) -/
def hOraclePass (delta : Bool) (limit : Nat) (raw : List Int) :
    List RHOp → List (List HDPoint) → HLive → Bool × Bool → Bool → Bool
  | [], [], _, _, acc => acc
  | .meas a v :: r, reps, live, fl, acc =>
    let e := if limit > 0 && !(live.any (·.1 == a)) && decide (live.length + 1 ≥ limit) then 0 else a
    hOraclePass delta limit raw r reps (hLiveAdd live e v) fl acc
  | .fresh x y :: r, reps, _, _, acc => hOraclePass delta limit raw r reps [] (x, y) acc
  | .collect :: r, rep :: reps, live, fl, acc =>
    let attrs := rep.map (·.attr)
    let permOK := attrs.length == live.length && attrs.eraseDups.length == attrs.length &&
      attrs.all (fun a => live.any (·.1 == a))
    let ok := rep.all (fun o => hPointOracle raw fl.1 fl.2 (((live.find? (·.1 == o.attr)).map (·.2)).getD []) o)
    hOraclePass delta limit raw r reps (if delta then [] else live) fl (acc && permOK && ok)
  | _, _, _, _, _ => false

def stepHColl (inp obs : List String) : Option Verdict :=
  match inp with
  | "hcoll" :: _ :: _ :: dc :: lim :: bs :: fl :: "|" :: opToks =>
    match parseNat lim, parseCsvInt bs, fl.toList, opToks.mapM parseRHOp, parseHReports (obs.length + 1) obs with
    | some limit, some raw, [x, y], some rops, some reps =>
      match fillHOps rops reps with
      | some ops =>
        let delta := dc == "d"
        let fin := hRun delta limit raw (x == '1') (y == '1') default ops
        let agree := fin.reports == reps
        let ok := hOraclePass delta limit raw rops reps [] (x == '1', y == '1') true
        let nMeas := rops.countP (fun o => match o with
          | .meas _ _ => true
          | _ => false)
        let tags := ["hcoll", if delta then "delta" else "cumulative"] ++
          (if rops.any (fun o => match o with
            | .fresh _ _ => true
            | _ => false) then ["fresh-agg-flags"] else []) ++
          (if reps.any (fun r => r.any (fun p => p.attr == 0)) then ["limit-overflow"] else []) ++
          (if sortBounds raw != raw then ["unsorted"] else [])
        some { agree := agree, spec := if ok then "ok" else "FAIL",
               nontrivial := decide (reps.length ≥ 2) && decide (nMeas ≥ 2),
               branches := ",".intercalate tags,
               model := " ".intercalate (fin.reports.map (fun r => s!"C{r.length}:" ++ ";".intercalate (r.map (fun p =>
                 s!"{p.attr}/{csv p.counts}/{p.count}/{p.sum}")))) }
      | none => none
    | _, _, _, _, _ => none
  | _ => none

def stepValid (inp obs : List String) : Option Verdict :=
  match inp, obs with
  | ["vexpo", _, ms, sc], [r] =>
    match parseInt ms, parseInt sc with
    | some maxSize, some maxScale =>
      let m := validExpo maxSize maxScale
      let want := decide (1 ≤ maxSize) && decide (-10 ≤ maxScale) && decide (maxScale ≤ 20)
      let o := r == "ok"
      some { agree := m == o, spec := if o == want then "ok" else "FAIL", nontrivial := true,
             branches := if m then "accept" else if maxScale > 20 then "scale-high" else if maxScale < -10 then "scale-low" else "size",
             model := if m then "ok" else "err" }
    | _, _ => none
  | ["vhist", _, bs], [r] =>
    match parseCsvInt bs with
    | some b =>
      let m := validBounds b
      let want := decide (b.length ≤ 1) || (Spec.isSorted b && b.eraseDups.length == b.length)
      let o := r == "ok"
      some { agree := m == o, spec := if o == want then "ok" else "FAIL", nontrivial := decide (b.length ≥ 2),
             branches := if m then "accept" else "reject", model := if m then "ok" else "err" }
    | none => none
  | _, _ => none

/-- state = remaining budget (cost units) for exact-index checks above scale 14 -/
def stepLine (budget : Nat) (toks : List String) : Nat × Option Verdict :=
  let (inp, obs) := splitObs toks
  match inp with
  | "expo" :: _ => let (b, v) := stepExpo (budget + 10) inp obs; (b, v)
  | "coll" :: _ => let (b, v) := stepColl (budget + 10) inp obs; (b, v)
  | "hist" :: _ => (budget, stepHist inp obs)
  | "path" :: _ => (budget, stepPath inp obs)
  | "hcoll" :: _ => (budget, stepHColl inp obs)
  | _ => (budget, stepValid inp obs)

end Otel.C07.Drv

def main : IO Unit := Wire.run 100000 Otel.C07.Drv.stepLine
