/-
C07 — the in-place loop of `expoBuckets.downscale` computes the array `Buckets.downscale` states.
-/
import Otel.C07.Collect
namespace Otel.C07

/-- content of new position `k` after the old positions `< i` have been merged -/
def mergedTo (orig : List Nat) (steps offset i k : Nat) : Nat :=
  sumTo i (fun p => if (p + offset) / steps = k then orig.getD p 0 else 0)

theorem sumTo_all_zero (n : Nat) (f : Nat → Nat) (h : ∀ p, p < n → f p = 0) : sumTo n f = 0 := by
  induction n with
  | zero => rfl
  | succ m ih =>
    simp only [sumTo]
    rw [ih (fun p hp => h p (by omega)), h m (by omega)]

theorem div_mono_add (steps offset p i : Nat) (h : p ≤ i) : (p + offset) / steps ≤ (i + offset) / steps :=
  Nat.div_le_div_right (by omega)

theorem mergedTo_above (orig : List Nat) (steps offset i k : Nat) (hi : 1 ≤ i)
    (hk : (i - 1 + offset) / steps < k) : mergedTo orig steps offset i k = 0 := by
  apply sumTo_all_zero
  intro p hp
  have := div_mono_add steps offset p (i - 1) (by omega)
  have hne : (p + offset) / steps ≠ k := by omega
  simp [hne]

theorem getD_set_eq (c : List Nat) (q v : Nat) (h : q < c.length) : (c.set q v).getD q 0 = v := by
  simp [List.getD_eq_getElem?_getD, h]

theorem getD_set_ne (c : List Nat) (q j v : Nat) (h : q ≠ j) : (c.set q v).getD j 0 = c.getD j 0 := by
  simp [List.getD_eq_getElem?_getD, h]

theorem div_bound (steps offset i : Nat) (hs : offset < steps) (hi : 1 ≤ i) : (i - 1 + offset) / steps ≤ i - 1 := by
  have h1 : (i - 1) * 1 ≤ (i - 1) * steps := Nat.mul_le_mul_left _ (by omega)
  have h2 : i - 1 + offset < (i - 1 + 1) * steps := by
    rw [Nat.add_mul]; omega
  have := (Nat.div_lt_iff_lt_mul (by omega : 0 < steps)).mpr h2
  omega

structure DownInv (orig : List Nat) (steps offset i : Nat) (c : List Nat) : Prop where
  len : c.length = orig.length
  done : ∀ k, k ≤ (i - 1 + offset) / steps → c.getD k 0 = mergedTo orig steps offset i k
  rest : ∀ j, i ≤ j → c.getD j 0 = orig.getD j 0

theorem DownInv.step (orig : List Nat) (steps offset i : Nat) (c : List Nat) (hs : offset < steps) (hi : 1 ≤ i)
    (hlen : i < orig.length) (h : DownInv orig steps offset i c) :
    DownInv orig steps offset (i + 1)
      (if (i + offset) % steps = 0 then c.set ((i + offset) / steps) (c.getD i 0)
       else c.set ((i + offset) / steps) (c.getD ((i + offset) / steps) 0 + c.getD i 0)) := by
  have hpos : 0 < steps := by omega
  have hb := div_bound steps offset i hs hi
  have hsucc : (i + offset) / steps = (i - 1 + offset) / steps + if steps ∣ i + offset then 1 else 0 := by
    have : i + offset = (i - 1 + offset) + 1 := by omega
    rw [this, Nat.succ_div]
  have hci : c.getD i 0 = orig.getD i 0 := h.rest i (Nat.le_refl _)
  have hstepS : ∀ k, mergedTo orig steps offset (i + 1) k =
      mergedTo orig steps offset i k + if (i + offset) / steps = k then orig.getD i 0 else 0 := by
    intro k; rfl
  by_cases hm : (i + offset) % steps = 0
  · have hd : steps ∣ i + offset := Nat.dvd_of_mod_eq_zero hm
    simp only [hd, if_true] at hsucc
    simp only [hm, if_true]
    have hq : (i + offset) / steps ≤ i := by omega
    refine ⟨by simp [h.len], ?_, ?_⟩
    · intro k hk
      simp only [Nat.add_sub_cancel] at hk
      by_cases hkq : k = (i + offset) / steps
      · subst hkq
        rw [getD_set_eq _ _ _ (by rw [h.len]; omega), hstepS, hci,
          mergedTo_above orig steps offset i _ hi (by omega)]
        simp
      · rw [getD_set_ne _ _ _ _ (Ne.symm hkq), hstepS, h.done k (by omega)]
        simp [Ne.symm hkq]
    · intro j hj
      rw [getD_set_ne _ _ _ _ (by omega)]
      exact h.rest j (by omega)
  · have hd : ¬ steps ∣ i + offset := fun hd => hm (Nat.mod_eq_zero_of_dvd hd)
    simp only [hd, if_false, Nat.add_zero] at hsucc
    simp only [hm, if_false]
    refine ⟨by simp [h.len], ?_, ?_⟩
    · intro k hk
      simp only [Nat.add_sub_cancel] at hk
      by_cases hkq : k = (i + offset) / steps
      · subst hkq
        rw [getD_set_eq _ _ _ (by rw [h.len]; omega), hstepS, hci, h.done _ (by omega)]
        simp
      · rw [getD_set_ne _ _ _ _ (Ne.symm hkq), hstepS, h.done k (by omega)]
        simp [Ne.symm hkq]
    · intro j hj
      rw [getD_set_ne _ _ _ _ (by omega)]
      exact h.rest j (by omega)

theorem downLoop_inv (orig : List Nat) (steps offset : Nat) (hs : offset < steps) :
    ∀ (n i : Nat) (c : List Nat), 1 ≤ i → i + n = orig.length → DownInv orig steps offset i c →
      DownInv orig steps offset orig.length (downLoop steps offset n i c)
  | 0, i, c, _, hn, h => by
    have : i = orig.length := by omega
    subst this
    exact h
  | n + 1, i, c, hi, hn, h => by
    unfold downLoop
    exact downLoop_inv orig steps offset hs n (i + 1) _ (by omega) (by omega)
      (DownInv.step orig steps offset i c hs hi (by omega) h)

theorem DownInv.init (orig : List Nat) (steps offset : Nat) (hs : offset < steps) :
    DownInv orig steps offset 1 orig := by
  refine ⟨rfl, ?_, fun _ _ => rfl⟩
  intro k hk
  have h0 : offset / steps = 0 := Nat.div_eq_of_lt hs
  simp only [Nat.sub_self, Nat.zero_add, h0, Nat.le_zero] at hk
  subst hk
  simp [mergedTo, sumTo, h0]

/-- the in-place loop yields the array the model states -/
theorem downscaleInPlace_eq (b : Buckets) (δ : Nat) : b.downscaleInPlace δ = b.downscale δ := by
  unfold Buckets.downscaleInPlace Buckets.downscale
  split
  · rfl
  · rename_i hc
    have hlen : 2 ≤ b.counts.length := by omega
    have hsteps : 0 < 2 ^ δ := Nat.two_pow_pos δ
    have hoff : (b.start % ((2 ^ δ : Nat) : Int)).toNat < 2 ^ δ := by
      have h1 := Int.emod_nonneg b.start (by omega : ((2 ^ δ : Nat) : Int) ≠ 0)
      have h2 := Int.emod_lt_of_pos b.start (by omega : (0 : Int) < ((2 ^ δ : Nat) : Int))
      omega
    generalize (b.start % ((2 ^ δ : Nat) : Int)).toNat = off at hoff ⊢
    generalize hst : 2 ^ δ = steps at hoff hsteps ⊢
    have inv := downLoop_inv b.counts steps off hoff (b.counts.length - 1) 1 b.counts (Nat.le_refl _) (by omega)
      (DownInv.init b.counts steps off hoff)
    have hb := div_bound steps off b.counts.length hoff (by omega)
    simp only
    congr 1
    apply List.ext_getElem
    · rw [List.length_take, List.length_map, List.length_range, inv.len]
      omega
    · intro k h1 h2
      rw [List.length_take, inv.len] at h1
      simp only [List.getElem_take, List.getElem_map, List.getElem_range]
      have := inv.done k (by omega)
      rw [List.getD_eq_getElem?_getD, List.getElem?_eq_getElem (by rw [inv.len]; omega)] at this
      simp only [Option.getD_some] at this
      rw [this]
      unfold mergedTo
      congr 1
      funext p
      simp [List.getD_eq_getElem?_getD]

end Otel.C07
