/-
C07 — further property theorems: the int64 instantiation of the explicit-bucket histogram, and the bounded
damage of an index function that is off by one (finding F14).
-/
import Otel.C07.Props
import Otel.C07.Int64
import Otel.C07.LemmasCoh
namespace Otel.C07
open Spec

/-! ## int64 instruments -/

private theorem wrap64_wrap64_add (a v : Int) : wrap64 (wrap64 a + v) = wrap64 (a + v) := by
  unfold wrap64; omega

private def wrapTotal (h : Hist) : Hist := { h with total := wrap64 h.total }

private theorem histMeasureI64_wrap (bounds : List Int) (st : Option Hist) (v : Int)
    (hv : searchIdx bounds (f64OfInt v) = searchIdx bounds v) :
    histMeasureI64 bounds (st.map wrapTotal) v = (histMeasure bounds st v).map wrapTotal := by
  cases st with
  | none => simp [histMeasureI64, histMeasure, wrapTotal, hv, Hist.bin, Hist.addSum, Hist.new]
  | some h =>
    simp [histMeasureI64, histMeasure, wrapTotal, hv, Hist.bin, Hist.addSum, wrap64_wrap64_add]
    all_goals first | rfl | (split <;> rfl)

private theorem foldl_I64_wrap (bounds : List Int) : ∀ (vs : List Int) (st : Option Hist),
    (∀ v ∈ vs, searchIdx bounds (f64OfInt v) = searchIdx bounds v) →
    vs.foldl (histMeasureI64 bounds) (st.map wrapTotal) = (vs.foldl (histMeasure bounds) st).map wrapTotal
  | [], _, _ => rfl
  | v :: r, st, h => by
    simp only [List.foldl_cons]
    rw [histMeasureI64_wrap bounds st v (h v List.mem_cons_self)]
    exact foldl_I64_wrap bounds r _ (fun w hw => h w (List.mem_cons_of_mem _ hw))

theorem f64OfInt_small (v : Int) (h : v.natAbs < 2 ^ 53) : f64OfInt v = v := by
  simp [f64OfInt, h]

/-- int64 instruments, values of magnitude below 2^53 (every such value is a binary64, so `float64(value)` is
exact): the int64 aggregator computes the same counts, count, minimum and maximum as the exact model, and a sum
that is the exact sum reduced modulo 2^64 — no floating-point operation touches the sum -/
theorem hist_i64_exact_below_2p53 (raw : List Int) (vs : List Int) (hv : ∀ v ∈ vs, v.natAbs < 2 ^ 53) :
    histRunI64 raw vs = (histRun raw vs).map (fun h => { h with total := wrap64 h.total }) := by
  have := foldl_I64_wrap (sortBounds raw) vs none (fun v h => by rw [f64OfInt_small v (hv v h)])
  have e : (fun h : Hist => { h with total := wrap64 h.total }) = wrapTotal := rfl
  rw [e]
  simpa [histRunI64, histRun, histRunSorted] using this

/-- …and all explicit-bucket clauses of the statement hold for the int64 aggregator ("exact sum" with the integer
accumulator) whenever the exact sum is an int64 -/
theorem hist_i64_ok (raw : List Int) (vs : List Int) (hv : ∀ v ∈ vs, v.natAbs < 2 ^ 53)
    (hs : -9223372036854775808 ≤ vs.sum ∧ vs.sum < 9223372036854775808) :
    histRunI64 raw vs = histRun raw vs ∧ histOK raw (sortBounds raw) vs (histRunI64 raw vs) = true := by
  have h1 := hist_i64_exact_below_2p53 raw vs hv
  have h2 : histRunI64 raw vs = histRun raw vs := by
    rw [h1]
    cases hr : histRun raw vs with
    | none => rfl
    | some h =>
      have := (hist_sum_min_max raw vs h hr).1
      simp only [Option.map_some]
      congr 1
      have hw : wrap64 h.total = h.total := by unfold wrap64; omega
      cases h
      simp_all
  exact ⟨h2, by rw [h2]; exact hist_ok raw vs⟩

/-- beyond 2^53 the bucket is found for the ROUNDED value (candidate finding, reported): with the boundary 2^53
the int64 value 2^53 + 1 is counted in the bucket (−∞, 2^53] although it is larger than the boundary; count, sum,
minimum and maximum are still exact -/
theorem hist_i64_beyond_2p53_witness :
    histRunI64 [9007199254740992] [9007199254740993] =
      some ⟨[1, 0], 1, 9007199254740993, 9007199254740993, 9007199254740993⟩ ∧
    inBucket [9007199254740992] 0 9007199254740993 = false ∧
    f64OfInt 9007199254740993 = 9007199254740992 ∧ f64OfInt 9007199254740995 = 9007199254740996 ∧
    f64OfInt (-4611686018427387905) = -4611686018427387904 := by decide

example : histRunI64 [10, 0, 5] [-1, 0, 1, 5, 6, 10, 11] = some ⟨[2, 2, 2, 1], 7, 32, -1, 11⟩ ∧
    wrap64 (9223372036854775807 + 1) = -9223372036854775808 := by decide


/-! ### known finding F49: the bucket of an int64 value is found for `float64(value)` -/

private theorem not_f49_idx (bounds : List Int) (vs : List Int)
    (hf : int64_beyond_2p53_at_boundary bounds vs = false) :
    ∀ v ∈ vs, searchIdx bounds (f64OfInt v) = searchIdx bounds v := by
  intro v hv
  by_cases hs : v.natAbs < 2 ^ 53
  · rw [f64OfInt_small v hs]
  · have := hf
    simp only [int64_beyond_2p53_at_boundary, List.any_eq_false] at this
    have h1 := this v hv
    have hge : v.natAbs ≥ 2 ^ 53 := by omega
    simpa [hge] using h1

/-- the strongest statement that holds for int64 instruments: outside finding F49
(`int64_beyond_2p53_at_boundary`: some value of magnitude ≥ 2^53 is moved across a boundary by the rounding of
`float64(value)`) — values of any magnitude, also those that are not binary64 numbers — the int64 aggregator is
the exact model with the sum reduced modulo 2^64, and when the exact sum fits an int64 every explicit-bucket
clause of the statement holds, the sum being accumulated in an integer -/
theorem hist_i64_ok_partial (raw : List Int) (vs : List Int)
    (hf : int64_beyond_2p53_at_boundary (sortBounds raw) vs = false)
    (hs : -9223372036854775808 ≤ vs.sum ∧ vs.sum < 9223372036854775808) :
    histRunI64 raw vs = histRun raw vs ∧ histOK raw (sortBounds raw) vs (histRunI64 raw vs) = true := by
  have h1 : histRunI64 raw vs = (histRun raw vs).map wrapTotal := by
    have := foldl_I64_wrap (sortBounds raw) vs none (not_f49_idx _ vs hf)
    simpa [histRunI64, histRun, histRunSorted] using this
  have h2 : histRunI64 raw vs = histRun raw vs := by
    rw [h1]
    cases hr : histRun raw vs with
    | none => rfl
    | some h =>
      have := (hist_sum_min_max raw vs h hr).1
      simp only [Option.map_some, wrapTotal]
      congr 1
      have hw : wrap64 h.total = h.total := by unfold wrap64; omega
      cases h
      simp_all
  exact ⟨h2, by rw [h2]; exact hist_ok raw vs⟩

/-- the full statement for int64 instruments ("every explicit-bucket clause holds whenever the exact sum is an
int64"), refuted by F49 -/
def hist_i64_ok_full_statement : Prop :=
  ∀ (raw vs : List Int), (-9223372036854775808 ≤ vs.sum ∧ vs.sum < 9223372036854775808) →
    histOK raw (sortBounds raw) vs (histRunI64 raw vs) = true

/-- F49 witness: boundary 2^53, int64 values 2^53 + 1 and 5 — the predicate applies, the aggregator (model and
/repo: `hist probe i 0 9007199254740992 | 9007199254740993,5 => P 9007199254740992 2,0 2 9007199254740998 5
9007199254740993`) counts both values in the bucket (−∞, 2^53], and the placement clause — and only it — fails:
the number of buckets, the total of the counts, the count, the sum, the minimum and the maximum are right -/
theorem hist_i64_f49_witness :
    int64_beyond_2p53_at_boundary [9007199254740992] [9007199254740993, 5] = true ∧
    histRunI64 [9007199254740992] [9007199254740993, 5] =
      some ⟨[2, 0], 2, 9007199254740998, 5, 9007199254740993⟩ ∧
    histOK [9007199254740992] [9007199254740992] [9007199254740993, 5]
      (histRunI64 [9007199254740992] [9007199254740993, 5]) = false ∧
    histRun [9007199254740992] [9007199254740993, 5] = some ⟨[1, 1], 2, 9007199254740998, 5, 9007199254740993⟩ := by
  decide

theorem hist_i64_ok_full_statement_refuted : ¬ hist_i64_ok_full_statement := by
  intro h
  have := h [9007199254740992] [9007199254740993, 5] (by decide)
  revert this
  decide


/-! ## the exact index is consistent across all scales -/

/-- "re-scaling without … misplacing": the exact bucket index of the statement is consistent across ALL scales —
lowering the scale by `δ` shifts the index by `δ` (floor): `exactIdx (s − δ) v = exactIdx s v >>> δ`, for positive,
zero and negative scales and across zero (on the positive scales by `E(Q²)/2 = E(Q)` for
`E(x) = log2 x − [x is a power of two]`, `bracket_sq_half`) -/
theorem expo_exact_index_coherent (s : Int) (δ : Nat) (v : Val) (hm : v.mant ≠ 0) :
    exactIdx (s - (δ : Int)) v = exactIdx s v >>> δ := by
  have nonpos : ∀ (s : Int), s ≤ 0 → ∀ δ : Nat, exactIdx (s - (δ : Int)) v = exactIdx s v >>> δ := by
    intro s hs δ
    have h1 := expo_placement_nonpos (fun _ _ => 0) s hs v
    have h2 := expo_placement_nonpos (fun _ _ => 0) (s - (δ : Int)) (by omega) v
    rw [← h1, ← h2]
    exact getBin_nonpos_coherent _ s hs δ v
  by_cases hs : s ≤ 0
  · exact nonpos s hs δ
  · by_cases hd : (δ : Int) ≤ s
    · exact exactIdx_coherent_nonneg v hm δ s hd
    · have e1 : s - (δ : Int) = 0 - ((δ - s.toNat : Nat) : Int) := by omega
      have e2 : δ = s.toNat + (δ - s.toNat) := by omega
      have h0 := exactIdx_coherent_nonneg v hm s.toNat s (by omega)
      have e3 : s - (s.toNat : Int) = 0 := by omega
      rw [e3] at h0
      rw [e1, nonpos 0 (Int.le_refl _) (δ - s.toNat), h0, ← Int.shiftRight_add, ← e2]

example : exactIdx 2 ⟨false, 9, -2⟩ = 4 ∧ exactIdx 1 ⟨false, 9, -2⟩ = 2 ∧ exactIdx 0 ⟨false, 9, -2⟩ = 1 ∧
    exactIdx (-1) ⟨false, 9, -2⟩ = 0 ∧ exactIdx 3 ⟨false, 3, -3⟩ = -12 ∧ exactIdx 1 ⟨false, 3, -3⟩ = -3 := by decide

/-! ## finding F14 bounded: index functions within one bucket of the exact index -/

/-- the tolerance of F14: on the positive scales the index function is off by at most one bucket (the float
computation with `math.Log` is, within 2 ulp of a boundary; on the non-positive scales `getBin` is exact) -/
def NearExact (L : Int → Val → Int) : Prop :=
  ∀ (s : Int) (v : Val), 0 < s → v.mant ≠ 0 → exactIdx s v - 1 ≤ L s v ∧ L s v ≤ exactIdx s v + 1

private theorem getBin_near (L : Int → Val → Int) (hL : NearExact L) (s : Int) (v : Val) (hm : v.mant ≠ 0) :
    exactIdx s v - 1 ≤ getBin L s v ∧ getBin L s v ≤ exactIdx s v + 1 := by
  by_cases hs : s ≤ 0
  · rw [expo_placement_nonpos L s hs v]; omega
  · have := hL s v (by omega) hm
    simpa [getBin, hs] using this

private theorem shift_near (a b : Int) (d : Nat) (h1 : a - 1 ≤ b) (h2 : b ≤ a + 1) :
    (a >>> d) - 1 ≤ b >>> d ∧ b >>> d ≤ (a >>> d) + 1 := by
  rw [Int.shiftRight_eq_div_pow, Int.shiftRight_eq_div_pow]
  have hc : (0 : Int) < ((2 ^ d : Nat) : Int) := by
    have := Nat.two_pow_pos d
    omega
  have hc1 : (1 : Int) ≤ ((2 ^ d : Nat) : Int) := by omega
  have e1 : (a + (-1) * ((2 ^ d : Nat) : Int)) / ((2 ^ d : Nat) : Int) = a / ((2 ^ d : Nat) : Int) + -1 :=
    Int.add_mul_ediv_right a (-1) (by omega)
  have e2 : (a + 1 * ((2 ^ d : Nat) : Int)) / ((2 ^ d : Nat) : Int) = a / ((2 ^ d : Nat) : Int) + 1 :=
    Int.add_mul_ediv_right a 1 (by omega)
  have l1 : (a + (-1) * ((2 ^ d : Nat) : Int)) / ((2 ^ d : Nat) : Int) ≤ b / ((2 ^ d : Nat) : Int) :=
    Int.ediv_le_ediv hc (by omega)
  have l2 : b / ((2 ^ d : Nat) : Int) ≤ (a + 1 * ((2 ^ d : Nat) : Int)) / ((2 ^ d : Nat) : Int) :=
    Int.ediv_le_ediv hc (by omega)
  omega

private theorem record_out_ia (L : Int → Val → Int) (ms : Nat) (p : Expo) (v : Val) (n : Bool) (sb ib sa ia : Int)
    (h : (record L ms p v).2 = Out.val n sb ib sa ia true) : ia = getBin L sa v ∧ v.mant ≠ 0 := by
  unfold record at h
  by_cases hz : v.mant = 0
  · simp [hz] at h
  · simp only [hz, if_false] at h
    refine ⟨?_, hz⟩
    split at h
    · split at h
      · simp at h
      · simp only [Out.val.injEq] at h
        obtain ⟨_, _, _, h4, h5, _⟩ := h
        subst h4
        exact h5.symm
    · simp only [Out.val.injEq] at h
      obtain ⟨_, h2, h3, h4, h5, _⟩ := h
      subst h4
      exact h5.symm

private theorem runFrom_out_index (L : Int → Val → Int) (ms : Nat) : ∀ (vs : List (Option Val)) (p : Expo)
    (k : Nat) (v : Val) (n : Bool) (sb ib sa ia : Int), vs[k]? = some (some v) →
    (runFrom L ms p vs).2[k]? = some (Out.val n sb ib sa ia true) → ia = getBin L sa v ∧ v.mant ≠ 0
  | [], _, _, _, _, _, _, _, _, hv, _ => by simp at hv
  | none :: r, p, 0, v, _, _, _, _, _, hv, _ => by simp at hv
  | none :: r, p, k + 1, v, n, sb, ib, sa, ia, hv, ho => by
    rw [runFrom_none] at ho
    exact runFrom_out_index L ms r p k v n sb ib sa ia (by simpa using hv) (by simpa using ho)
  | some w :: r, p, 0, v, n, sb, ib, sa, ia, hv, ho => by
    rw [runFrom_some] at ho
    have : w = v := by simpa using hv
    subst this
    exact record_out_ia L ms p w n sb ib sa ia (by simpa using ho)
  | some w :: r, p, k + 1, v, n, sb, ib, sa, ia, hv, ho => by
    rw [runFrom_some] at ho
    exact runFrom_out_index L ms r _ k v n sb ib sa ia (by simpa using hv) (by simpa using ho)

/-- F14's damage to the placement clause is at most one bucket. For every index function within one bucket of
the exact index (`NearExact`), every run and every recorded value `v` (the `k`-th measurement, logged as
`val n sb ib sa ia true`): the index it was recorded with is within one of the exact index at the scale `sa` in
force then, and the bucket it is finally counted in (`expo_placement`: `ia >>> (sa − s)` at the final scale
`s ≤ sa`) is the bucket that correct re-scaling of the exact index gives, `exactIdx sa v >>> (sa − s)`, or one of
its two neighbours -/
theorem expo_f14_placement_within_one (L : Int → Val → Int) (hL : NearExact L) (ms : Nat) (sc : Int)
    (vs : List (Option Val)) (k : Nat) (v : Val) (n : Bool) (sb ib sa ia : Int)
    (hv : vs[k]? = some (some v)) (ho : (run L ms sc vs).2[k]? = some (Out.val n sb ib sa ia true)) :
    (run L ms sc vs).1.scale ≤ sa ∧
    exactIdx sa v - 1 ≤ ia ∧ ia ≤ exactIdx sa v + 1 ∧
    finalIdx n (run L ms sc vs).1.scale (Out.val n sb ib sa ia true) =
      some (ia >>> (sa - (run L ms sc vs).1.scale).toNat) ∧
    (exactIdx sa v >>> (sa - (run L ms sc vs).1.scale).toNat) - 1 ≤ ia >>> (sa - (run L ms sc vs).1.scale).toNat ∧
    ia >>> (sa - (run L ms sc vs).1.scale).toNat ≤ (exactIdx sa v >>> (sa - (run L ms sc vs).1.scale).toNat) + 1 := by
  obtain ⟨hia, hm⟩ := runFrom_out_index L ms vs (Expo.init sc) k v n sb ib sa ia hv ho
  have hnear := getBin_near L hL sa v hm
  rw [← hia] at hnear
  have hs := (run_PInv L ms sc vs).sa_ge n sb ib sa ia (List.mem_of_getElem? ho)
  have hsh := shift_near (exactIdx sa v) ia (sa - (run L ms sc vs).1.scale).toNat hnear.1 hnear.2
  exact ⟨hs, hnear.1, hnear.2, by simp [finalIdx], hsh.1, hsh.2⟩

/-- …and every other clause that does not mention the exact index is untouched by F14 — these hold for every
index function whatsoever: count = zero + positive + negative, the scale starts at `maxScale`, only decreases and
stays ≥ −10, values are left out only on scale underflow, and every bucket holds exactly the recorded values whose
recorded index, shifted to the final scale, is that bucket (no count is lost or duplicated by re-scaling) -/
theorem expo_f14_other_clauses (L : Int → Val → Int) (ms : Nat) (sc : Int) (hm : -10 ≤ sc) (vs : List (Option Val)) :
    countOK (run L ms sc vs).1 = true ∧
    chainOK sc (run L ms sc vs).2 (run L ms sc vs).1.scale = true ∧
    (run L ms sc vs).1.scale ≤ sc ∧ -10 ≤ (run L ms sc vs).1.scale ∧
    dropsOK ms [] (run L ms sc vs).2 = true ∧
    placedOK false (run L ms sc vs).1.scale (run L ms sc vs).2 (run L ms sc vs).1.pos = true ∧
    placedOK true (run L ms sc vs).1.scale (run L ms sc vs).2 (run L ms sc vs).1.neg = true ∧
    tallyOK (run L ms sc vs).2 (run L ms sc vs).1 = true :=
  ⟨expo_count L ms sc vs, (expo_scale_monotone L ms sc vs).1, (expo_scale_monotone L ms sc vs).2,
   expo_scale_floor L ms sc hm vs, expo_drops_only_on_underflow L ms sc vs,
   (expo_placement L ms sc vs).1, (expo_placement L ms sc vs).2.1, (expo_placement L ms sc vs).2.2⟩


/-- F14's damage to the placement clause, against the exact index at the FINAL scale (with
`expo_exact_index_coherent`): every recorded value `v` is finally counted in the bucket `exactIdx s v` of the
statement — `base^i < |v| ≤ base^(i+1)` at the reported scale `s` — or in one of its two neighbours -/
theorem expo_f14_placement_final_scale (L : Int → Val → Int) (hL : NearExact L) (ms : Nat) (sc : Int)
    (vs : List (Option Val)) (k : Nat) (v : Val) (n : Bool) (sb ib sa ia : Int)
    (hv : vs[k]? = some (some v)) (ho : (run L ms sc vs).2[k]? = some (Out.val n sb ib sa ia true)) :
    ∃ j, finalIdx n (run L ms sc vs).1.scale (Out.val n sb ib sa ia true) = some j ∧
      exactIdx (run L ms sc vs).1.scale v - 1 ≤ j ∧ j ≤ exactIdx (run L ms sc vs).1.scale v + 1 := by
  obtain ⟨hs, _, _, hf, h1, h2⟩ := expo_f14_placement_within_one L hL ms sc vs k v n sb ib sa ia hv ho
  obtain ⟨_, hm⟩ := runFrom_out_index L ms vs (Expo.init sc) k v n sb ib sa ia hv ho
  have hc := expo_exact_index_coherent sa (sa - (run L ms sc vs).1.scale).toNat v hm
  have e : sa - ((sa - (run L ms sc vs).1.scale).toNat : Int) = (run L ms sc vs).1.scale := by omega
  rw [e] at hc
  exact ⟨_, hf, by rw [hc]; exact h1, by rw [hc]; exact h2⟩

/-! ### the size clause under F14 -/

private theorem bucket_step_tol (ms : Nat) (b : Buckets) (bin bin' : Int) (t : Nat)
    (hb : b.counts.length ≤ ms) (hms : 1 ≤ ms)
    (hδ : scaleChange ms bin b.start b.counts.length ≤ 30)
    (h1 : (bin >>> scaleChange ms bin b.start b.counts.length) - (t : Int) ≤ bin')
    (h2 : bin' ≤ (bin >>> scaleChange ms bin b.start b.counts.length) + (t : Int)) :
    ((b.downscale (scaleChange ms bin b.start b.counts.length)).record bin').counts.length ≤ ms + t := by
  by_cases hn : b.counts.length = 0
  · have hl := downscale_len_le b (scaleChange ms bin b.start b.counts.length)
    have := (record_len (b.downscale (scaleChange ms bin b.start b.counts.length)) bin').1 (by omega)
    omega
  · have hspec := (scaleChange_spec ms bin b.start b.counts.length hn).2 hδ
    have hl := downscale_len_le b (scaleChange ms bin b.start b.counts.length)
    have hlen := downscale_len b (scaleChange ms bin b.start b.counts.length) hn
    have hst := downscale_start b (scaleChange ms bin b.start b.counts.length)
    have hm1 := shr_mono b.start (b.start + (b.counts.length : Int) - 1) (scaleChange ms bin b.start b.counts.length) (by omega)
    have hn' : (b.downscale (scaleChange ms bin b.start b.counts.length)).counts.length ≠ 0 := by omega
    have hr := (record_len (b.downscale (scaleChange ms bin b.start b.counts.length)) bin').2 hn'
    rw [hst] at hr
    by_cases hsb : b.start ≥ bin
    · have h1' := hspec.1 hsb
      have hm2 := shr_mono bin b.start (scaleChange ms bin b.start b.counts.length) hsb
      omega
    · have h1' := hspec.2 hsb
      have hm2 := shr_mono b.start bin (scaleChange ms bin b.start b.counts.length) (by omega)
      omega

/-- the size clause under F14, per measurement: if the data point holds at most `maxSize` buckets per sign and
the index function is within one bucket of the exact index, then after one more measurement it holds at most
`maxSize + 2` (the index used to decide the re-scaling and the index used after it may err in opposite
directions: `expo_f14_size_plus_two_witness`), and nothing is added on the sign that was not measured. (When no
re-scaling happens the bound `maxSize` itself is kept: the same index decides and records.) -/
theorem expo_f14_size_step (L : Int → Val → Int) (hL : NearExact L) (ms : Nat) (hms : 1 ≤ ms) (p : Expo) (v : Val)
    (hs : p.scale ≤ 20) (h : sizeOK ms p = true) :
    (record L ms p v).1.pos.counts.length ≤ ms + 2 ∧ (record L ms p v).1.neg.counts.length ≤ ms + 2 := by
  simp only [sizeOK, Bool.and_eq_true, decide_eq_true_eq] at h
  unfold record
  by_cases hz : v.mant = 0
  · simp [hz, Expo.countMinMaxSum]; omega
  · simp only [hz, if_false]
    have hb : (p.bucketOf v.neg).counts.length ≤ ms := by
      unfold Expo.bucketOf; split <;> omega
    split
    · rename_i hpos
      split
      · exact ⟨by show p.pos.counts.length ≤ ms + 2; omega, by show p.neg.counts.length ≤ ms + 2; omega⟩
      · rename_i hu
        simp only [expoMinScale] at hu
        generalize hδe : scaleChange ms (getBin L p.scale v) (p.bucketOf v.neg).start (p.bucketOf v.neg).counts.length = δ at *
        have hδ : δ ≤ 30 := by omega
        have n1 := getBin_near L hL p.scale v hz
        have n2 := getBin_near L hL (p.scale - (δ : Int)) v hz
        have sh := shift_near (exactIdx p.scale v) (getBin L p.scale v) δ n1.1 n1.2
        have co := expo_exact_index_coherent p.scale δ v hz
        have step := bucket_step_tol ms (p.bucketOf v.neg) (getBin L p.scale v) (getBin L (p.scale - (δ : Int)) v) 2 hb hms
          (by rw [hδe]; exact hδ) (by rw [hδe]; omega) (by rw [hδe]; omega)
        rw [hδe] at step
        have hlp := downscale_len_le p.pos δ
        have hln := downscale_len_le p.neg δ
        cases hneg : v.neg
        · simp only [Expo.bucketOf, hneg, Bool.false_eq_true, if_false] at step
          simp only [Expo.recordBin, hneg, Expo.rescale, Expo.countMinMaxSum, Bool.false_eq_true, if_false]
          exact ⟨step, by omega⟩
        · simp only [Expo.bucketOf, hneg, if_true] at step
          simp only [Expo.recordBin, hneg, Expo.rescale, Expo.countMinMaxSum, if_true]
          exact ⟨by omega, step⟩
    · rename_i hpos
      have h0 : scaleChange ms (getBin L p.scale v) (p.bucketOf v.neg).start (p.bucketOf v.neg).counts.length = 0 := by omega
      have step := bucket_step ms hms (p.bucketOf v.neg) (getBin L p.scale v) hb (by omega)
      rw [h0, downscale_zero, Int.shiftRight_zero] at step
      cases hneg : v.neg
      · simp only [Expo.bucketOf, hneg, Bool.false_eq_true, if_false] at step
        simp only [Expo.recordBin, hneg, Expo.countMinMaxSum, Bool.false_eq_true, if_false]
        exact ⟨by omega, by omega⟩
      · simp only [Expo.bucketOf, hneg, if_true] at step
        simp only [Expo.recordBin, hneg, Expo.countMinMaxSum, if_true]
        exact ⟨by omega, by omega⟩

/-- an index function that is exact except for being one bucket low at one value of one scale -/
def exNearL (s : Int) (v : Val) : Int :=
  if s = 1 ∧ v = ⟨false, 5, 0⟩ then exactIdx s v - 1 else exactIdx s v

theorem exNearL_near : NearExact exNearL := by
  intro s v _ _
  unfold exNearL
  split <;> omega

/-- the one clause F14 CAN break beyond placement is the size bound (it needs an index function that is
consistent across scales, `expo_size_bound`): with `maxSize = 1`, 2.5 and then 5 — whose index at scale 1 is
reported one too low, so that one halving seems to suffice — end in two buckets. (The run-time oracle tolerates
exactly this: one extra bucket per value whose logged indices are inconsistent across scales, and only together
with a classified F14 index.) -/
theorem expo_f14_size_witness :
    sizeOK 1 (run exNearL 1 1 [some ⟨false, 5, -1⟩, some ⟨false, 5, 0⟩]).1 = false ∧
    (run exNearL 1 1 [some ⟨false, 5, -1⟩, some ⟨false, 5, 0⟩]).1.pos = ⟨1, [1, 1]⟩ ∧
    (run exNearL 1 1 [some ⟨false, 5, -1⟩, some ⟨false, 5, 0⟩]).1.scale = 0 := by decide

/-- an index function within one bucket of the exact index that errs in opposite directions at two scales -/
def exNearL2 (s : Int) (v : Val) : Int :=
  if v = ⟨false, 9, -2⟩ then
    (if s = 2 then exactIdx s v - 1 else if s = 1 then exactIdx s v + 1 else exactIdx s v)
  else exactIdx s v

theorem exNearL2_near : NearExact exNearL2 := by
  intro s v _ _
  unfold exNearL2
  split
  · split
    · omega
    · split <;> omega
  · omega

/-- `maxSize + 2` in `expo_f14_size_step` is attained by such an index function (`maxSize = 1`: 1.5, then 2.25
whose index is reported one too low at scale 2 — one halving seems to suffice — and one too high at scale 1),
so `maxSize + 1` is not a bound for every index function within one bucket of the exact index. (An index that
errs in one direction only, or a re-scaling that lands on a non-positive scale where `getBin` is exact, gives
`maxSize + 1`: `expo_f14_size_witness`.) -/
theorem expo_f14_size_plus_two_witness :
    sizeOK 1 (run exNearL2 1 2 [some ⟨false, 3, -1⟩]).1 = true ∧
    (run exNearL2 1 2 [some ⟨false, 3, -1⟩, some ⟨false, 9, -2⟩]).1.pos = ⟨1, [1, 0, 1]⟩ ∧
    (run exNearL2 1 2 [some ⟨false, 3, -1⟩, some ⟨false, 9, -2⟩]).1.scale = 1 := by decide

end Otel.C07
