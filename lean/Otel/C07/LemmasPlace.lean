/-
C07 — helper lemmas for the run-level placement invariant (`Spec.placedOK` / `Spec.tallyOK` hold for `run`):
every bucket holds exactly the recorded values whose index, shifted to the current scale, is that bucket.
Core Lean only.
-/
import Otel.C07.Lemmas
namespace Otel.C07
open Spec

/-! ## bucket contents as a function of the absolute index -/

theorem get_outside (b : Buckets) (i : Int) (h : i < b.start ∨ b.start + (b.counts.length : Int) ≤ i) :
    Buckets.get b i = 0 := by
  unfold Buckets.get
  split
  · rfl
  · rw [List.getD_eq_getElem?_getD, List.getElem?_eq_none (by omega)]; rfl

theorem get_inside (b : Buckets) (p : Nat) : Buckets.get b (b.start + (p : Int)) = b.counts[p]?.getD 0 := by
  unfold Buckets.get
  rw [if_neg (by omega), List.getD_eq_getElem?_getD]
  congr 2; omega

theorem getD_cons_rep (r : Nat) (l : List Nat) (n : Nat) :
    (1 :: (List.replicate r 0 ++ l)).getD n 0 =
      if n = 0 then 1 else if n ≤ r then 0 else l.getD (n - r - 1) 0 := by
  cases n with
  | zero => simp
  | succ k =>
    simp only [List.getD_eq_getElem?_getD, List.getElem?_cons_succ, Nat.add_one_ne_zero, if_false,
      List.getElem?_append, List.length_replicate, List.getElem?_replicate]
    by_cases h : k < r
    · simp [h, show k + 1 ≤ r by omega]
    · simp only [h, if_false, show ¬ k + 1 ≤ r by omega]
      congr 2; omega

theorem getD_app_rep (l : List Nat) (r n : Nat) :
    (l ++ (List.replicate r 0 ++ [1])).getD n 0 =
      if n < l.length then l.getD n 0 else if n = l.length + r then 1 else 0 := by
  simp only [List.getD_eq_getElem?_getD, List.getElem?_append, List.length_replicate, List.getElem?_replicate]
  by_cases h : n < l.length
  · simp [h]
  · simp only [h, if_false]
    by_cases h2 : n - l.length < r
    · simp [h2]; omega
    · simp only [h2, if_false]
      by_cases h3 : n = l.length + r
      · simp [h3]
      · simp only [h3, if_false]
        rw [List.getElem?_eq_none (by simp; omega)]; rfl

/-- `expoBuckets.record` adds one at `bin` and changes no other bucket -/
theorem record_get (b : Buckets) (bin i : Int) :
    Buckets.get (b.record bin) i = Buckets.get b i + (if i = bin then 1 else 0) := by
  by_cases h0 : b.counts.length = 0
  · have hnil : b.counts = [] := List.eq_nil_of_length_eq_zero h0
    rw [get_outside b i (by omega)]
    simp only [Buckets.record, h0, if_true, Buckets.get]
    by_cases h1 : i < bin
    · simp [h1]; omega
    · by_cases h2 : i = bin
      · subst h2; simp
      · obtain ⟨n, hn⟩ : ∃ n, (i - bin).toNat = n + 1 := ⟨(i - bin).toNat - 1, by omega⟩
        simp [h1, h2, hn]
  · by_cases hin : bin ≥ b.start ∧ bin ≤ b.start + (b.counts.length : Int) - 1
    · simp only [Buckets.record, h0, hin, if_false, and_self, if_true, Buckets.get]
      by_cases h1 : i < b.start
      · simp [h1]; omega
      · simp only [h1, if_false]
        rw [getD_modify_succ _ _ _ (by omega)]
        congr 1
        by_cases h2 : i = bin
        · subst h2; simp
        · rw [if_neg h2, if_neg (by omega)]
    · by_cases hl : bin < b.start
      · simp only [Buckets.record, h0, hin, hl, if_false, if_true, Buckets.get]
        rw [getD_cons_rep]
        by_cases h1 : i < bin
        · simp [h1, show i < b.start by omega]; omega
        · simp only [h1, if_false]
          by_cases h2 : i = bin
          · subst h2; simp [hl]
          · rw [if_neg (by omega), if_neg h2]
            by_cases h3 : i < b.start
            · rw [if_pos (by omega), if_pos h3]
            · rw [if_neg (by omega), if_neg h3]
              simp only [Nat.add_zero]
              congr 1; omega
      · simp only [Buckets.record, h0, hin, hl, if_false, Buckets.get]
        rw [getD_app_rep]
        by_cases h1 : i < b.start
        · simp [h1]; omega
        · simp only [h1, if_false]
          by_cases h2 : (i - b.start).toNat < b.counts.length
          · rw [if_pos h2, if_neg (by omega)]; rfl
          · rw [if_neg h2, List.getD_eq_getElem?_getD, List.getElem?_eq_none (by omega)]
            by_cases h3 : i = bin
            · subst h3; rw [if_pos (by omega)]; simp
            · rw [if_neg (by omega), if_neg h3]; rfl

/-! ## counting a list of indices through a window -/

theorem countP_window (l : List Int) (start : Int) (n : Nat) (q : Int → Bool)
    (hw : ∀ j ∈ l, start ≤ j ∧ j < start + (n : Int)) :
    l.countP q = sumTo n (fun p => if q (start + (p : Int)) then l.count (start + (p : Int)) else 0) := by
  induction l with
  | nil =>
    simp only [List.countP_nil, List.count_nil]
    rw [sumTo_congr n _ (fun _ => 0) (fun p _ => by split <;> rfl), sumTo_zero]
  | cons a r ih =>
    have hr := ih (fun j hj => hw j (List.mem_cons_of_mem _ hj))
    have ha := hw a (List.mem_cons_self ..)
    rw [List.countP_cons, hr]
    have hfun : ∀ p, p < n →
        (if q (start + (p : Int)) then (a :: r).count (start + (p : Int)) else 0) =
        (if q (start + (p : Int)) then r.count (start + (p : Int)) else 0) +
        (if (a - start).toNat = p then (if q a then 1 else 0) else 0) := by
      intro p _
      rw [List.count_cons]
      by_cases hp : (a - start).toNat = p
      · have e : start + (p : Int) = a := by omega
        rw [e]; simp [hp]; split <;> simp
      · have e : ¬ a = start + (p : Int) := by omega
        simp [hp, e]
    rw [sumTo_congr n _ _ hfun, sumTo_add, sumTo_indicator n (a - start).toNat _ (by omega)]

/-- `downscale δ` sends the multiset of indices `l` held by the buckets to `l.map (fun j : Int => j >>> δ)` -/
theorem downscale_tracks (b : Buckets) (l : List Int) (δ : Nat) (h : ∀ i, Buckets.get b i = l.count i) (i : Int) :
    Buckets.get (b.downscale δ) i = (l.map (fun j : Int => j >>> δ)).count i := by
  rw [downscale_get]
  have hw : ∀ j ∈ l, b.start ≤ j ∧ j < b.start + (b.counts.length : Int) := by
    intro j hj
    have hc : 0 < l.count j := List.count_pos_iff.mpr hj
    rw [← h j] at hc
    refine ⟨Int.not_lt.mp fun hlt => ?_, Int.not_le.mp fun hge => ?_⟩
    · rw [get_outside b j (Or.inl hlt)] at hc; omega
    · rw [get_outside b j (Or.inr hge)] at hc; omega
  have e : (l.map (fun j : Int => j >>> δ)).count i = l.countP (fun j : Int => j >>> δ == i) := by
    rw [List.count_eq_countP, List.countP_map]; rfl
  rw [e, countP_window l b.start b.counts.length _ hw]
  apply sumTo_congr
  intro p _
  rw [← get_inside, h]
  by_cases hq : (b.start + (p : Int)) >>> δ = i <;> simp [hq]

/-! ## the run-level invariant -/

theorem filterMap_congr' {α β : Type} {f g : α → Option β} {l : List α} (h : ∀ a ∈ l, f a = g a) :
    l.filterMap f = l.filterMap g := by
  induction l with
  | nil => rfl
  | cons a r ih =>
    rw [List.filterMap_cons, List.filterMap_cons, h a (List.mem_cons_self ..),
      ih (fun x hx => h x (List.mem_cons_of_mem _ hx))]

/-- shifting the target scale down by `δ` shifts every final index by `δ` -/
theorem finalIdx_shift (sg : Bool) (s : Int) (δ : Nat) (o : Out)
    (h : ∀ n sb ib sa ia, o = Out.val n sb ib sa ia true → s ≤ sa) :
    finalIdx sg (s - (δ : Int)) o = (finalIdx sg s o).map (fun j : Int => j >>> δ) := by
  cases o with
  | skipped => rfl
  | zero => rfl
  | val n sb ib sa ia r =>
    cases r with
    | false => rfl
    | true =>
      have hs := h n sb ib sa ia rfl
      simp only [finalIdx]
      split
      · simp only [Option.map_some, Option.some.injEq]
        rw [← Int.shiftRight_add]
        congr 1; omega
      · rfl

/-- the invariant of a run: `outs` is the log so far, `p` the accumulator -/
structure PInv (p : Expo) (outs : List Out) : Prop where
  sa_ge : ∀ n sb ib sa ia, Out.val n sb ib sa ia true ∈ outs → p.scale ≤ sa
  place : ∀ (sg : Bool) (i : Int),
    Buckets.get (p.bucketOf sg) i = (outs.filterMap (finalIdx sg p.scale)).count i
  zero : p.zero = outs.countP isZeroOut
  count : p.count = outs.countP isZeroOut + outs.countP isRecorded

theorem PInv.init (maxScale : Int) : PInv (Expo.init maxScale) [] := by
  refine ⟨by simp, ?_, rfl, rfl⟩
  intro sg i
  cases sg <;> simp [Expo.init, Expo.bucketOf, Buckets.get]

theorem PInv.skip {p : Expo} {outs : List Out} (h : PInv p outs) : PInv p (outs ++ [Out.skipped]) := by
  refine ⟨?_, ?_, ?_, ?_⟩
  · intro n sb ib sa ia hm
    simp only [List.mem_append, List.mem_singleton, reduceCtorEq, or_false] at hm
    exact h.sa_ge n sb ib sa ia hm
  · intro sg i
    rw [List.filterMap_append]
    simpa [List.filterMap_cons, List.filterMap_nil, finalIdx] using h.place sg i
  · simp [List.countP_append, isZeroOut, h.zero]
  · simp [List.countP_append, isZeroOut, isRecorded, h.count]

theorem PInv.dropped {p : Expo} {outs : List Out} (h : PInv p outs) (n : Bool) (sb ib sa ia : Int) :
    PInv p (outs ++ [Out.val n sb ib sa ia false]) := by
  refine ⟨?_, ?_, ?_, ?_⟩
  · intro n' sb' ib' sa' ia' hm
    simp only [List.mem_append, List.mem_singleton, Out.val.injEq, Bool.true_eq_false, and_false, or_false] at hm
    exact h.sa_ge n' sb' ib' sa' ia' hm
  · intro sg i
    rw [List.filterMap_append]
    simpa [List.filterMap_cons, List.filterMap_nil, finalIdx] using h.place sg i
  · simp [List.countP_append, isZeroOut, h.zero]
  · simp [List.countP_append, isZeroOut, isRecorded, h.count]

theorem PInv.zeroStep {p : Expo} {outs : List Out} (h : PInv p outs) (v : Val) :
    PInv { p.countMinMaxSum v with zero := p.zero + 1 } (outs ++ [Out.zero]) := by
  refine ⟨?_, ?_, ?_, ?_⟩
  · intro n sb ib sa ia hm
    simp only [List.mem_append, List.mem_singleton, reduceCtorEq, or_false] at hm
    exact h.sa_ge n sb ib sa ia hm
  · intro sg i
    rw [List.filterMap_append]
    have := h.place sg i
    cases sg <;> simpa [List.filterMap_cons, List.filterMap_nil, finalIdx, Expo.bucketOf, Expo.countMinMaxSum] using this
  · simp [List.countP_append, isZeroOut, h.zero]
  · simp [List.countP_append, isZeroOut, isRecorded, Expo.countMinMaxSum, h.count]; omega

theorem PInv.rescale {p : Expo} {outs : List Out} (h : PInv p outs) (δ : Nat) : PInv (p.rescale δ) outs := by
  refine ⟨?_, ?_, h.zero, h.count⟩
  · intro n sb ib sa ia hm
    have := h.sa_ge n sb ib sa ia hm
    simp only [Expo.rescale]; omega
  · intro sg i
    have hb : (p.rescale δ).bucketOf sg = (p.bucketOf sg).downscale δ := by
      cases sg <;> simp [Expo.rescale, Expo.bucketOf]
    have hf : outs.filterMap (finalIdx sg (p.rescale δ).scale) =
        (outs.filterMap (finalIdx sg p.scale)).map (fun j : Int => j >>> δ) := by
      rw [List.map_filterMap]
      apply filterMap_congr'
      intro o ho
      have : (p.rescale δ).scale = p.scale - (δ : Int) := rfl
      rw [this]
      exact finalIdx_shift sg p.scale δ o (fun n sb ib sa ia e => h.sa_ge n sb ib sa ia (e ▸ ho))
    rw [hb, hf]
    exact downscale_tracks _ _ δ (h.place sg) i

theorem PInv.recordBin {p : Expo} {outs : List Out} (h : PInv p outs) (v : Val) (bin sb ib : Int) :
    PInv (p.recordBin v bin) (outs ++ [Out.val v.neg sb ib p.scale bin true]) := by
  have hsc : (p.recordBin v bin).scale = p.scale := by
    simp only [Expo.recordBin, Expo.countMinMaxSum]; split <;> rfl
  have hz : (p.recordBin v bin).zero = p.zero := by
    simp only [Expo.recordBin, Expo.countMinMaxSum]; split <;> rfl
  have hc : (p.recordBin v bin).count = p.count + 1 := by
    simp only [Expo.recordBin, Expo.countMinMaxSum]; split <;> rfl
  have hb : ∀ sg, (p.recordBin v bin).bucketOf sg =
      if v.neg = sg then (p.bucketOf sg).record bin else p.bucketOf sg := by
    intro sg
    simp only [Expo.recordBin, Expo.countMinMaxSum, Expo.bucketOf]
    cases hn : v.neg <;> cases sg <;> simp
  refine ⟨?_, ?_, ?_, ?_⟩
  · intro n sb' ib' sa ia hm
    rw [hsc]
    simp only [List.mem_append, List.mem_singleton, Out.val.injEq] at hm
    rcases hm with hm | hm
    · exact h.sa_ge n sb' ib' sa ia hm
    · rw [hm.2.2.2.1]; exact Int.le_refl _
  · intro sg i
    rw [hsc, hb, List.filterMap_append, List.count_append, ← h.place sg i]
    by_cases hsg : v.neg = sg
    · rw [if_pos hsg, record_get]
      congr 1
      simp only [List.filterMap_cons, List.filterMap_nil, finalIdx, hsg, beq_self_eq_true, if_true,
        Int.sub_self, Int.toNat_zero, Int.shiftRight_zero]
      by_cases hi : i = bin
      · subst hi; simp
      · have hbi : (bin == i) = false := by simpa using (Ne.symm hi)
        simp [List.count_cons, hi, hbi]
    · rw [if_neg hsg]
      have : (v.neg == sg) = false := by simpa using hsg
      simp [finalIdx, this]
  · rw [hz]; simp [List.countP_append, isZeroOut, h.zero]
  · rw [hc]; simp [List.countP_append, isZeroOut, isRecorded, h.count]; omega

/-- one `record` keeps the invariant (all four branches: zero bucket, underflow drop, downscale + record,
plain record) — for every index function `L` -/
theorem PInv.step (L : Int → Val → Int) (ms : Nat) {p : Expo} {outs : List Out} (h : PInv p outs) (v : Val) :
    PInv (record L ms p v).1 (outs ++ [(record L ms p v).2]) := by
  unfold record
  by_cases hz : v.mant = 0
  · simp only [hz, if_true]; exact h.zeroStep v
  · simp only [hz, if_false]
    split
    · split
      · exact h.dropped _ _ _ _ _
      · exact (h.rescale _).recordBin v _ _ _
    · exact h.recordBin v _ _ _

/-- invariants over (accumulator, log) of `measure` are invariants of every run -/
theorem run_inv2 (L : Int → Val → Int) (ms : Nat) (I : Expo → List Out → Prop)
    (hskip : ∀ p outs, I p outs → I p (outs ++ [Out.skipped]))
    (hstep : ∀ p outs v, I p outs → I (record L ms p v).1 (outs ++ [(record L ms p v).2]))
    (vs : List (Option Val)) : ∀ (p : Expo) (acc : List Out), I p acc →
      I (vs.foldl (measure L ms) (p, acc)).1 (vs.foldl (measure L ms) (p, acc)).2 := by
  induction vs with
  | nil => intro p acc h; exact h
  | cons v r ih =>
    intro p acc h
    rw [List.foldl_cons]
    cases v with
    | none => exact ih p _ (hskip p acc h)
    | some v => exact ih _ _ (hstep p acc v h)

theorem run_PInv (L : Int → Val → Int) (ms : Nat) (maxScale : Int) (vs : List (Option Val)) :
    PInv (run L ms maxScale vs).1 (run L ms maxScale vs).2 :=
  run_inv2 L ms PInv (fun _ _ h => h.skip) (fun _ _ v h => h.step L ms v) vs _ _ (PInv.init maxScale)

/-! ## from the invariant to the oracle predicates -/

theorem placedOK_of_get (sg : Bool) (s : Int) (outs : List Out) (b : Buckets)
    (h : ∀ i, Buckets.get b i = (outs.filterMap (finalIdx sg s)).count i) : placedOK sg s outs b = true := by
  unfold placedOK
  simp only [Bool.and_eq_true, List.all_eq_true, decide_eq_true_eq, List.mem_range, beq_iff_eq]
  constructor
  · intro i hi
    have hc : 0 < (outs.filterMap (finalIdx sg s)).count i := List.count_pos_iff.mpr hi
    rw [← h i] at hc
    refine ⟨Int.not_lt.mp fun hlt => ?_, Int.not_le.mp fun hge => ?_⟩
    · rw [get_outside b i (Or.inl hlt)] at hc; omega
    · rw [get_outside b i (Or.inr hge)] at hc; omega
  · intro k _
    rw [← h, get_inside, List.getD_eq_getElem?_getD]

theorem PInv.tally {p : Expo} {outs : List Out} (h : PInv p outs) : tallyOK outs p = true := by
  simp [tallyOK, h.zero, h.count]

end Otel.C07
