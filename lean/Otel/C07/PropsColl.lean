/-
C07 — property theorems about the collection step: the exponential histogram aggregator with several attribute
sets (cardinality limiter included), collected any number of times, delta or cumulative, into a destination that
is re-used from earlier collections (of this or of another aggregator). Helper lemmas are in LemmasColl.lean.
-/
import Otel.C07.Lemmas
import Otel.C07.LemmasColl
import Otel.C07.LemmasDown
import Otel.C07.LemmasRefine
import Otel.C07.Props
namespace Otel.C07
open Spec

/-- output re-use, one collection: whatever the destination held before — any number of stale points, with any
bucket counts, offsets, sums and extrema, visible or hidden behind the slice length — the points a collection
reports are exactly the exports of the accumulators, in the iteration order of the map: a function of the
aggregator state only. (`reset` re-slices recycled memory; every field of every point is then assigned, and the
bucket counts are re-sliced to the source length and overwritten in full — also when the source is empty.) -/
theorem coll_independent_of_dest (noMinMax noSum : Bool) (order : List (Nat × Expo)) (dest : Slice DPoint) :
    (collectInto noMinMax noSum order dest).vis.map DPoint.view =
      order.map (fun av => exportPoint noMinMax noSum av.1 av.2) :=
  collectInto_view noMinMax noSum order dest

/-- the same for one recycled point: all it shows afterwards is the accumulator it was written from -/
theorem coll_point_overwritten (noMinMax noSum : Bool) (old : DPoint) (a : Nat) (p : Expo) :
    (writePoint noMinMax noSum old a p).view = exportPoint noMinMax noSum a p :=
  writePoint_view noMinMax noSum old a p

private theorem aggStep_dest_irrelevant (L : Int → Val → Int) (c : Cfg) (s t : AggSt) (op : Op)
    (h : s.vals = t.vals ∧ s.outs = t.outs ∧ s.reports = t.reports) :
    (aggStep L c s op).vals = (aggStep L c t op).vals ∧ (aggStep L c s op).outs = (aggStep L c t op).outs ∧
    (aggStep L c s op).reports = (aggStep L c t op).reports := by
  obtain ⟨hv, ho, hr⟩ := h
  cases op with
  | meas a v => simp [aggStep, hv, ho, hr]
  | collect order => simp [aggStep, hv, ho, hr, collectInto_view]
  | fresh => simp [aggStep, ho, hr]

/-- output re-use, whole runs: for every sequence of measurements (any attribute sets), collections and
aggregator replacements, everything that is ever reported — and the aggregator state itself — is the same
whatever the destination contained at the beginning -/
theorem coll_run_independent_of_dest (L : Int → Val → Int) (c : Cfg) (ops : List Op) (d₁ d₂ : Slice DPoint) :
    (aggRun L c (AggSt.init d₁) ops).reports = (aggRun L c (AggSt.init d₂) ops).reports ∧
    (aggRun L c (AggSt.init d₁) ops).outs = (aggRun L c (AggSt.init d₂) ops).outs := by
  have key : ∀ (ops : List Op) (s t : AggSt), (s.vals = t.vals ∧ s.outs = t.outs ∧ s.reports = t.reports) →
      (aggRun L c s ops).vals = (aggRun L c t ops).vals ∧ (aggRun L c s ops).outs = (aggRun L c t ops).outs ∧
      (aggRun L c s ops).reports = (aggRun L c t ops).reports := by
    intro ops
    induction ops with
    | nil => intro s t h; exact h
    | cons op r ih =>
      intro s t h
      simp only [aggRun, List.foldl_cons]
      exact ih _ _ (aggStep_dest_irrelevant L c s t op h)
  have := key ops (AggSt.init d₁) (AggSt.init d₂) ⟨rfl, rfl, rfl⟩
  exact ⟨this.2.2, this.2.1⟩

/-- every point ever reported is the export of an accumulator reached by `record` from a fresh one: for any
property `I` of accumulators that holds of `Expo.init maxScale` and is kept by `record` — in particular every
run invariant proved in Props.lean — each reported point is `exportPoint` of an accumulator with `I` -/
theorem coll_points_are_accumulators (L : Int → Val → Int) (c : Cfg) (I : Expo → Prop)
    (h0 : I (Expo.init c.maxScale)) (hrec : ∀ p v, I p → I (record L c.maxSize p v).1)
    (ops : List Op) (dest : Slice DPoint) :
    ∀ r ∈ (aggRun L c (AggSt.init dest) ops).reports, ∀ pv ∈ r,
      ∃ a p, I p ∧ pv = exportPoint c.noMinMax c.noSum a p :=
  (AggInv.run L I c h0 hrec ops _ (AggInv.init I c dest)).reported

/-- "count = zero count + positive counts + negative counts" for every point of every collection, delta or
cumulative, any number of attribute sets, any cardinality limit, any previous content of the destination -/
theorem coll_count (L : Int → Val → Int) (c : Cfg) (ops : List Op) (dest : Slice DPoint) :
    ∀ r ∈ (aggRun L c (AggSt.init dest) ops).reports, ∀ pv ∈ r,
      pv.count = pv.zero + pv.pos.counts.sum + pv.neg.counts.sum := by
  intro r hr pv hpv
  obtain ⟨a, p, hp, rfl⟩ := coll_points_are_accumulators L c (fun p => countOK p = true)
    (by simp [countOK, Expo.init]) (fun p v h => record_countOK L c.maxSize p v h) ops dest r hr pv hpv
  simpa [countOK, exportPoint] using hp

/-- "a scale that never exceeds the configured maximum, never goes below −10" for every reported point -/
theorem coll_scale (L : Int → Val → Int) (c : Cfg) (hm : -10 ≤ c.maxScale) (ops : List Op) (dest : Slice DPoint) :
    ∀ r ∈ (aggRun L c (AggSt.init dest) ops).reports, ∀ pv ∈ r, -10 ≤ pv.scale ∧ pv.scale ≤ c.maxScale := by
  intro r hr pv hpv
  obtain ⟨a, p, hp, rfl⟩ := coll_points_are_accumulators L c (fun p => -10 ≤ p.scale ∧ p.scale ≤ c.maxScale)
    ⟨hm, Int.le_refl _⟩
    (fun p v h => by
      rcases record_scale L c.maxSize p v with ⟨_, hs⟩ | ⟨_, _, _, _, hle, hfl⟩
      · rw [hs]; exact h
      · exact ⟨hfl h.1, Int.le_trans hle h.2⟩) ops dest r hr pv hpv
  exact hp

/-- "holds at most the configured number of buckets per sign" for every reported point (same hypotheses as
`expo_size_bound`) -/
theorem coll_size (L : Int → Val → Int) (hL : Coherent L) (c : Cfg) (hms : 1 ≤ c.maxSize) (hsc : c.maxScale ≤ 20)
    (ops : List Op) (dest : Slice DPoint) :
    ∀ r ∈ (aggRun L c (AggSt.init dest) ops).reports, ∀ pv ∈ r,
      pv.pos.counts.length ≤ c.maxSize ∧ pv.neg.counts.length ≤ c.maxSize := by
  intro r hr pv hpv
  obtain ⟨a, p, hp, rfl⟩ := coll_points_are_accumulators L c (fun p => p.scale ≤ 20 ∧ sizeOK c.maxSize p = true)
    ⟨hsc, by simp [sizeOK, Expo.init]⟩
    (fun p v h => by
      refine ⟨?_, record_sizeOK L hL c.maxSize hms p v h.1 h.2⟩
      rcases record_scale L c.maxSize p v with ⟨_, hs⟩ | ⟨_, _, _, _, hle, _⟩
      · rw [hs]; exact h.1
      · exact Int.le_trans hle h.1) ops dest r hr pv hpv
  simpa [sizeOK, exportPoint] using hp.2

/-- `NoMinMax` / `noSum` (up-down counters, gauges, their observable forms): a point reports no extrema resp. a
zero sum — never what the recycled destination point held -/
theorem coll_flags (L : Int → Val → Int) (c : Cfg) (ops : List Op) (dest : Slice DPoint) :
    ∀ r ∈ (aggRun L c (AggSt.init dest) ops).reports, ∀ pv ∈ r,
      (c.noMinMax = true → pv.min = none ∧ pv.max = none) ∧ (c.noSum = true → pv.sum = (0, 0)) ∧
      (c.noMinMax = false → pv.min.isSome ∧ pv.max.isSome) := by
  intro r hr pv hpv
  obtain ⟨a, p, _, rfl⟩ := coll_points_are_accumulators L c (fun _ => True) trivial (fun _ _ _ => trivial)
    ops dest r hr pv hpv
  refine ⟨?_, ?_, ?_⟩ <;> intro h <;> simp [exportPoint, h]

/-- `expoBuckets.downscale` as written — one array, read and written by the same loop
(`c[idx/steps] = c[i]` when `idx % steps == 0`, else `c[idx/steps] += c[i]`, then the re-slice) — computes exactly
the array the model `Buckets.downscale` states, for every window and every `δ`: the write position never overtakes
the read position, so no count is read after it has been overwritten. Every theorem about `downscale`
(`expo_rescale_conserves`, `expo_placement`, …) is thereby a theorem about the in-place code -/
theorem expo_downscale_in_place (b : Buckets) (δ : Nat) : b.downscaleInPlace δ = b.downscale δ :=
  downscaleInPlace_eq b δ

example : Buckets.downscaleInPlace ⟨-6, [3, 1, 2, 3, 4, 5, 6, 7, 8, 9, 10]⟩ 2 = ⟨-2, [4, 14, 30, 10]⟩ ∧
    downLoop 4 2 10 1 [3, 1, 2, 3, 4, 5, 6, 7, 8, 9, 10] = [4, 14, 30, 10, 4, 5, 6, 7, 8, 9, 10] := by decide

/-- the aggregator with several attribute sets is a family of independent single-set runs: every point ever
reported — any attribute set, any collection, delta or cumulative, any cardinality limit — is the export of
`run L maxSize maxScale vs` for some list `vs` of measurements, i.e. of exactly the single-set model all theorems
of Props.lean are about (`expo_placement`, `expo_drops_only_on_underflow`, `expo_window_tight`, … apply to it) -/
theorem coll_points_are_runs (L : Int → Val → Int) (c : Cfg) (ops : List Op) (dest : Slice DPoint) :
    ∀ r ∈ (aggRun L c (AggSt.init dest) ops).reports, ∀ pv ∈ r,
      ∃ a vs, pv = exportPoint c.noMinMax c.noSum a (run L c.maxSize c.maxScale vs).1 := by
  intro r hr pv hpv
  obtain ⟨a, p, ⟨vs, hp⟩, rfl⟩ := coll_points_are_accumulators L c
    (fun p => ∃ vs, p = (run L c.maxSize c.maxScale vs).1) ⟨[], rfl⟩
    (fun p v h => by
      obtain ⟨vs, rfl⟩ := h
      exact ⟨vs ++ [some v], by simp [run, runFrom, List.foldl_append, measure]⟩) ops dest r hr pv hpv
  exact ⟨a, vs, by rw [hp]⟩

/-- refinement, exact form: the aggregator with several attribute sets IS a family of independent single-set
runs. For every operation sequence, cardinality limit, temporality and initial destination, the list of all
reports equals `specReports`: the specification that files each finite measurement under its (limited) attribute
set and reports, for each live set, the export of `run L maxSize maxScale` on exactly the measurements of that set
since the last reset (delta: since the last collection; cumulative: since the aggregator was created; NaN/±Inf
never reach an attribute set) -/
theorem coll_refines_independent_runs (L : Int → Val → Int) (c : Cfg) (ops : List Op) (dest : Slice DPoint) :
    (aggRun L c (AggSt.init dest) ops).reports = specReports L c ops := by
  have key : ∀ (ops : List Op) (st : AggSt) (g : GSt),
      (st.vals = g.live.map (gPt L c) ∧ st.reports = g.reports) →
      (aggRun L c st ops).reports = (ops.foldl (gStep L c) g).reports := by
    intro ops
    induction ops with
    | nil => intro st g h; exact h.2
    | cons op r ih =>
      intro st g h
      simp only [aggRun, List.foldl_cons]
      exact ih _ _ (aggStep_refines L c st g op h)
  exact key ops (AggSt.init dest) ⟨[], []⟩ ⟨rfl, rfl⟩

/-- the specification on an example: delta, two sets; set 2 is reported in the second cycle with only its own
second-cycle value -/
example : specReports (fun _ v => v.ex) ⟨true, 2, 3, 0, false, false⟩
      [.meas 1 (some ⟨false, 3, 0⟩), .meas 2 (some ⟨true, 3, 1⟩), .collect [2, 1], .meas 2 (some ⟨false, 5, 0⟩),
       .meas 2 none, .collect [1, 2]] =
    [[exportPoint false false 2 (run (fun _ v => v.ex) 2 3 [some ⟨true, 3, 1⟩]).1,
      exportPoint false false 1 (run (fun _ v => v.ex) 2 3 [some ⟨false, 3, 0⟩]).1],
     [exportPoint false false 2 (run (fun _ v => v.ex) 2 3 [some ⟨false, 5, 0⟩]).1]] := by
  simp [specReports, gStep, gAdd, gLimit, gLookup]

/-! ## explicit-bucket histogram: collection into a re-used destination -/

/-- output re-use for the explicit-bucket histogram: the points of a collection are the accumulators written
over default points — nothing of the recycled destination (stale Sum/Min/Max of an aggregator with other
`NoMinMax`/`noSum` flags, stale bounds and counts) survives -/
theorem hcoll_independent_of_dest (noMinMax noSum : Bool) (bounds : List Int) (order : List (Nat × Hist))
    (dest : Slice HDPoint) :
    (hCollectInto noMinMax noSum bounds order dest).vis =
      order.map (fun av => writeHPoint noMinMax noSum bounds default av.1 av.2) :=
  hCollectInto_vis noMinMax noSum bounds order dest

/-- the explicit-bucket aggregator with several attribute sets is a family of independent single-set runs (while
the sum is collected): every point ever reported into any destination is the export of `histRun raw vs` for a
non-empty list `vs` of measurements, and therefore satisfies every explicit-bucket clause of the statement
(`histOK`: one more bucket than boundaries, counts sum to count, each value in its `(lower, upper]` bucket, exact
sum/min/max) -/
theorem hcoll_points_are_runs (delta : Bool) (limit : Nat) (raw : List Int) (noMinMax : Bool) (dest : Slice HDPoint)
    (ops : List HOp) (hops : ∀ op ∈ ops, ∀ x y, op = HOp.fresh x y → y = false) :
    ∀ r ∈ (hRun delta limit raw noMinMax false dest ops).reports, ∀ pt ∈ r,
      ∃ a h vs nmm, vs ≠ [] ∧ histRun raw vs = some h ∧
        pt = writeHPoint nmm false (sortBounds raw) default a h ∧
        histOK raw (sortBounds raw) vs (some h) = true := by
  have key : ∀ (ops : List HOp) (st : HSt), (∀ op ∈ ops, ∀ x y, op = HOp.fresh x y → y = false) →
      HInv (sortBounds raw) st → HInv (sortBounds raw) (ops.foldl (hStep delta limit (sortBounds raw)) st) := by
    intro ops
    induction ops with
    | nil => intro st _ h; exact h
    | cons op r ih =>
      intro st ho h
      simp only [List.foldl_cons]
      exact ih _ (fun o hm => ho o (List.mem_cons_of_mem _ hm))
        (h.step delta limit _ st op (ho op List.mem_cons_self))
  have inv := key ops ⟨[], dest, noMinMax, false, []⟩ hops
    ⟨rfl, by intro x hx; simp at hx, by intro r hr; simp at hr⟩
  intro r hr pt hpt
  obtain ⟨a, h, vs, nmm, hne, hrun, hpt⟩ := inv.reported r hr pt hpt
  refine ⟨a, h, vs, nmm, hne, hrun, hpt, ?_⟩
  have := hist_ok raw vs
  rw [show histRun raw vs = some h from hrun] at this
  exact this

/-- refinement, exact form, explicit buckets, every flag combination (also `noSum`, also aggregators with other
flags taking over the destination): the list of all reports equals `hSpecReports` — for each live attribute set
the export, with the flags in force, of the single-set accumulator `hAcc` (= `histRun`, `histRunSorted_cons_acc`)
of exactly that set's measurements since the last reset. The right-hand side does not mention the destination -/
theorem hcoll_refines_independent_runs (delta : Bool) (limit : Nat) (raw : List Int) (noMinMax noSum : Bool)
    (dest : Slice HDPoint) (ops : List HOp) :
    (hRun delta limit raw noMinMax noSum dest ops).reports = hSpecReports delta limit raw noMinMax noSum ops := by
  have key : ∀ (ops : List HOp) (st : HSt) (g : HGSt),
      (st.vals = g.live.map (hgPt (sortBounds raw) st.noSum) ∧ st.noMinMax = g.noMinMax ∧ st.noSum = g.noSum ∧
        st.reports = g.reports) →
      (ops.foldl (hStep delta limit (sortBounds raw)) st).reports =
        (ops.foldl (hgStep delta limit (sortBounds raw)) g).reports := by
    intro ops
    induction ops with
    | nil => intro st g h; exact h.2.2.2
    | cons op r ih =>
      intro st g h
      simp only [List.foldl_cons]
      exact ih _ _ (hStep_refines delta limit _ st g op h)
  exact key ops ⟨[], dest, noMinMax, noSum, []⟩ ⟨[], noMinMax, noSum, []⟩ ⟨rfl, rfl, rfl, rfl⟩

/-- output re-use over whole runs, explicit buckets: everything ever reported is the same whatever the
destination contained at the beginning -/
theorem hcoll_run_independent_of_dest (delta : Bool) (limit : Nat) (raw : List Int) (noMinMax noSum : Bool)
    (d₁ d₂ : Slice HDPoint) (ops : List HOp) :
    (hRun delta limit raw noMinMax noSum d₁ ops).reports = (hRun delta limit raw noMinMax noSum d₂ ops).reports := by
  rw [hcoll_refines_independent_runs, hcoll_refines_independent_runs]

/-- every point ever reported by the explicit-bucket aggregator — any flags, `noSum` included — is the export of
`histRun raw (v0 :: rest)` for the (non-empty) measurements of one attribute set, which satisfies every
explicit-bucket clause of the statement (`hist_ok`); with `noSum` the export shows a zero sum, with `NoMinMax`
no extrema, the bucket counts and the count are those of the run -/
theorem hcoll_points_are_runs_all_flags (delta : Bool) (limit : Nat) (raw : List Int) (noMinMax noSum : Bool)
    (dest : Slice HDPoint) (ops : List HOp) :
    ∀ r ∈ (hRun delta limit raw noMinMax noSum dest ops).reports, ∀ pt ∈ r,
      ∃ a v0 rest nmm ns h, histRun raw (v0 :: rest) = some h ∧
        pt = writeHPoint nmm ns (sortBounds raw) default a h ∧
        histOK raw (sortBounds raw) (v0 :: rest) (some h) = true := by
  rw [hcoll_refines_independent_runs]
  have key : ∀ (ops : List HOp) (g : HGSt),
      (∀ r ∈ g.reports, ∀ pt ∈ r, ∃ a x nmm ns, pt = writeHPoint nmm ns (sortBounds raw) default a (hAcc (sortBounds raw) x)) →
      ∀ r ∈ (ops.foldl (hgStep delta limit (sortBounds raw)) g).reports, ∀ pt ∈ r,
        ∃ a x nmm ns, pt = writeHPoint nmm ns (sortBounds raw) default a (hAcc (sortBounds raw) x) := by
    intro ops
    induction ops with
    | nil => intro g h; exact h
    | cons op r ih =>
      intro g h
      simp only [List.foldl_cons]
      apply ih
      cases op with
      | meas a v => exact h
      | fresh x y => exact h
      | collect order =>
        intro rr hrr pt hpt
        simp only [hgStep] at hrr
        rcases List.mem_append.mp hrr with hrr | hrr
        · exact h rr hrr pt hpt
        · simp only [List.mem_singleton] at hrr
          subst hrr
          rcases List.mem_filterMap.mp hpt with ⟨a, _, ha⟩
          cases hl : hgLookup g.live a with
          | none => simp [hl] at ha
          | some x =>
            simp [hl] at ha
            exact ⟨a, x, g.noMinMax, g.noSum, ha.symm⟩
  intro r hr pt hpt
  obtain ⟨a, x, nmm, ns, hp⟩ := key ops ⟨[], noMinMax, noSum, []⟩ (by intro r hr; simp at hr) r hr pt hpt
  have hrun : histRun raw (x.1 :: x.2) = some (hAcc (sortBounds raw) x) := histRunSorted_cons_acc _ _ _
  refine ⟨a, x.1, x.2, nmm, ns, _, hrun, hp, ?_⟩
  have := hist_ok raw (x.1 :: x.2)
  rw [hrun] at this
  exact this

/-- `hcoll_points_are_runs` is not vacuous: two attribute sets, a cardinality limit of 2 (the second set is folded
into the overflow set 0), cumulative, two collections in different slot orders into a stale destination -/
example : (hRun false 2 [10, 0] false false ⟨[⟨9, 9, [1], [9, 9], 99, some 1, some 2⟩], []⟩
      [.meas 1 5, .meas 2 11, .meas 1 0, .collect [1, 0], .meas 2 (-3), .collect [0, 1]]).reports =
    [[⟨1, 2, [0, 10], [1, 1, 0], 5, some 0, some 5⟩, ⟨0, 1, [0, 10], [0, 0, 1], 11, some 11, some 11⟩],
     [⟨0, 2, [0, 10], [1, 0, 1], 8, some (-3), some 11⟩, ⟨1, 2, [0, 10], [1, 1, 0], 5, some 0, some 5⟩]] := by decide

/-- another aggregator with `NoMinMax`/`noSum` takes over the destination: no stale sum or extrema -/
example : (hRun true 0 [0] false false default
      [.meas 1 5, .collect [1], .fresh true true, .meas 1 7, .collect [1]]).reports =
    [[⟨1, 1, [0], [0, 1], 5, some 5, some 5⟩], [⟨1, 1, [0], [0, 1], 0, none, none⟩]] := by decide

/-! ### non-vacuity -/

/-- a stale destination: two points with buckets on both sides, one more hidden behind the length -/
def exDest : Slice DPoint :=
  ⟨[⟨7, 9, 3, 1, 4, ⟨[5, 6], [7]⟩, -2, ⟨[8, 9], []⟩, (99, 0), some ⟨false, 3, 0⟩, some ⟨false, 5, 0⟩⟩,
    ⟨8, 2, 0, 0, 1, ⟨[1, 1], []⟩, 1, ⟨[2], []⟩, (5, 0), none, none⟩],
   [⟨9, 1, 1, 1, 1, ⟨[4], []⟩, 1, ⟨[4], []⟩, (1, 0), none, none⟩]⟩

def exCfg (delta : Bool) : Cfg := ⟨delta, 2, 3, 0, false, false⟩

set_option maxRecDepth 16000 in
set_option exponentiation.threshold 2000 in
/-- delta temporality, one attribute set: cycle 1 has a negative and a positive value, cycle 2 only a positive
one and a zero; the second point is written over the first one and over the stale destination, and reports no
negative bucket; the third collection (nothing measured) reports nothing although the destination is full -/
example : (aggRun (fun _ v => v.ex) (exCfg true) (AggSt.init exDest)
      [.meas 1 (some ⟨true, 3, 1⟩), .meas 1 (some ⟨false, 3, 0⟩), .collect [1],
       .meas 1 (some ⟨false, 5, 0⟩), .meas 1 (some ⟨false, 0, 0⟩), .collect [1], .collect []]).reports =
    [[⟨1, 2, 3, 0, ⟨0, [1]⟩, ⟨1, [1]⟩, (-3, 0), some ⟨true, 3, 1⟩, some ⟨false, 3, 0⟩⟩],
     [⟨1, 2, 3, 1, ⟨0, [1]⟩, ⟨0, []⟩, (5, 0), some ⟨false, 0, 0⟩, some ⟨false, 5, 0⟩⟩], []] := by decide

set_option maxRecDepth 16000 in
set_option exponentiation.threshold 2000 in
/-- cumulative temporality, two attribute sets reported in a different slot order in the second collection; a
cardinality limit of 2 folds the second set into the overflow set 0 -/
example : (aggRun (fun _ v => v.ex) (exCfg false) (AggSt.init exDest)
      [.meas 1 (some ⟨true, 3, 1⟩), .meas 2 (some ⟨false, 3, 0⟩), .collect [1, 2], .collect [2, 1]]).reports.map
        (fun r => r.map (fun pv => (pv.attr, pv.pos.counts, pv.neg.counts))) =
    [[(1, [], [1]), (2, [1], [])], [(2, [1], []), (1, [], [1])]] := by decide

set_option maxRecDepth 16000 in
set_option exponentiation.threshold 2000 in
example : (aggRun (fun _ v => v.ex) ⟨false, 2, 3, 2, true, true⟩ (AggSt.init exDest)
      [.meas 1 (some ⟨true, 3, 1⟩), .meas 2 (some ⟨false, 3, 0⟩), .collect [0, 1]]).reports =
    [[⟨0, 1, 3, 0, ⟨0, [1]⟩, ⟨0, []⟩, (0, 0), none, none⟩, ⟨1, 1, 3, 0, ⟨0, []⟩, ⟨1, [1]⟩, (0, 0), none, none⟩]] := by decide

/-- what the theorems exclude: a collection step that skips the bucket copy when the source side is empty keeps
the stale counts of the recycled point — `coll_point_overwritten` does not hold for it -/
example :
    let skipEmpty (old : Slice Nat) (b : Buckets) : Slice Nat := if b.counts.length = 0 then old else writeBuckets old b
    (skipEmpty ⟨[5, 6], [7]⟩ ⟨0, []⟩).vis = [5, 6] ∧ (writeBuckets ⟨[5, 6], [7]⟩ ⟨0, []⟩).vis = [] ∧
    (writeBuckets ⟨[5], [6, 7]⟩ ⟨0, [1, 2]⟩).vis = [1, 2] ∧ (writeBuckets ⟨[5], []⟩ ⟨0, [1, 2]⟩).vis = [1, 2] := by
  decide

end Otel.C07
