/-
C07 — helper lemmas for the exact bucket index (`Spec.exactIdx` satisfies `Spec.inExpoBucket`) and for the
int32 range of the indices of finite doubles (core Lean only).
-/
import Otel.C07.Lemmas
namespace Otel.C07
open Spec

/-! ## powers of two -/

/-- a perfect `N`-th power that is a power of two is the power of a power of two -/
theorem pow_eq_two_pow (N : Nat) (hN : 1 ≤ N) : ∀ (m k : Nat), m ^ N = 2 ^ k → ∃ j, m = 2 ^ j := by
  intro m
  induction m using Nat.strongRecOn with
  | _ m ih =>
    intro k h
    by_cases h0 : m = 0
    · subst h0
      have : (0 : Nat) ^ N = 0 := Nat.zero_pow (by omega)
      have := Nat.two_pow_pos k
      omega
    by_cases h1 : m = 1
    · exact ⟨0, by simp [h1]⟩
    have hm2 : 2 ≤ m := by omega
    have hmN : m ≤ m ^ N := Nat.le_self_pow (by omega) m
    by_cases hodd : m % 2 = 1
    · exfalso
      have e1 : m ^ N % 2 = 1 := by rw [Nat.pow_mod, hodd]; simp
      cases k with
      | zero => simp at h; omega
      | succ k' =>
        have : 2 ^ (k' + 1) % 2 = 0 := by rw [Nat.pow_succ]; simp
        omega
    · have hm : m = 2 * (m / 2) := by omega
      have hm' : 1 ≤ m / 2 := by omega
      rw [hm, Nat.mul_pow] at h
      have hpos : 0 < (m / 2) ^ N := Nat.pow_pos (by omega)
      have hle : 2 ^ N ≤ 2 ^ k := by
        rw [← h]; exact Nat.le_mul_of_pos_right _ hpos
      have hNk : N ≤ k := (Nat.pow_le_pow_iff_right (by omega)).mp hle
      have hk : 2 ^ k = 2 ^ N * 2 ^ (k - N) := by rw [← Nat.pow_add]; congr 1; omega
      rw [hk] at h
      have h' : (m / 2) ^ N = 2 ^ (k - N) := Nat.eq_of_mul_eq_mul_left (Nat.two_pow_pos N) h
      obtain ⟨j, hj⟩ := ih (m / 2) (by omega) (k - N) h'
      exact ⟨j + 1, by rw [hm, hj, Nat.pow_succ]; omega⟩

theorem isPow2_iff (m : Nat) : isPow2 m = true ↔ ∃ j, m = 2 ^ j := by
  unfold isPow2
  constructor
  · intro h; exact ⟨m.log2, by simpa using h⟩
  · rintro ⟨j, rfl⟩; simp

/-- not a power of two: strictly between two consecutive powers -/
theorem not_pow2_lt (m : Nat) (hm : m ≠ 0) (h : isPow2 m = false) : 2 ^ m.log2 < m := by
  have h1 := Nat.log2_self_le hm
  have h2 : m ≠ 2 ^ m.log2 := by
    intro e
    have : isPow2 m = true := by unfold isPow2; simpa using e
    rw [h] at this; exact absurd this (by simp)
  omega

theorem pow2_eq (m : Nat) (h : isPow2 m = true) : m = 2 ^ m.log2 := by
  unfold isPow2 at h; simpa using h

/-- powers keep "is a power of two" in both directions -/
theorem isPow2_pow (m N : Nat) (hN : 1 ≤ N) : isPow2 (m ^ N) = isPow2 m := by
  cases hp : isPow2 m with
  | true =>
    obtain ⟨j, hj⟩ := (isPow2_iff m).mp hp
    exact (isPow2_iff _).mpr ⟨j * N, by rw [hj, Nat.pow_mul]⟩
  | false =>
    cases hq : isPow2 (m ^ N) with
    | false => rfl
    | true =>
      obtain ⟨k, hk⟩ := (isPow2_iff _).mp hq
      have := (isPow2_iff m).mpr (pow_eq_two_pow N hN m k hk)
      rw [hp] at this; exact absurd this (by simp)

/-! ## the exact index satisfies the literal bucket inequality -/

/-- `2^e < m ≤ 2^(e+1)` for `e = log2 m − [m is a power of two]` (as an integer: `e = −1` for `m = 1`) -/
theorem log2_bracket (m : Nat) (hm : m ≠ 0) :
    (∀ a : Nat, (a : Int) ≤ (m.log2 : Int) - (if isPow2 m then 1 else 0) → 2 ^ a < m) ∧
    (∀ b : Nat, (m.log2 : Int) - (if isPow2 m then 1 else 0) + 1 ≤ (b : Int) → m ≤ 2 ^ b) := by
  cases hp : isPow2 m with
  | false =>
    have h1 := not_pow2_lt m hm hp
    have h2 := @Nat.lt_log2_self m
    simp only [Bool.false_eq_true, if_false, Int.sub_zero]
    constructor
    · intro a ha
      have : 2 ^ a ≤ 2 ^ m.log2 := Nat.pow_le_pow_right (by omega) (by omega)
      omega
    · intro b hb
      have : 2 ^ (m.log2 + 1) ≤ 2 ^ b := Nat.pow_le_pow_right (by omega) (by omega)
      omega
  | true =>
    have h1 := pow2_eq m hp
    simp only [if_true]
    constructor
    · intro a ha
      have : 2 ^ a < 2 ^ m.log2 := Nat.pow_lt_pow_right (by omega) (by omega)
      omega
    · intro b hb
      have : 2 ^ m.log2 ≤ 2 ^ b := Nat.pow_le_pow_right (by omega) (by omega)
      omega

theorem exactIdx_nonneg_ok (s : Int) (hs : s ≥ 0) (v : Val) (hm : v.mant ≠ 0) :
    inExpoBucket s v (exactIdx s v) = true := by
  unfold inExpoBucket exactIdx
  simp only [hs, if_true]
  have hN : 1 ≤ 2 ^ s.toNat := Nat.two_pow_pos _
  have hP : v.mant ^ 2 ^ s.toNat ≠ 0 := Nat.ne_of_gt (Nat.pow_pos (by omega))
  have hb := log2_bracket (v.mant ^ 2 ^ s.toNat) hP
  rw [isPow2_pow v.mant _ hN] at hb
  have ht : v.ex * ((2 ^ s.toNat : Nat) : Int) + ((v.mant ^ 2 ^ s.toNat).log2 : Int) - (if isPow2 v.mant then 1 else 0)
      - v.ex * ((2 ^ s.toNat : Nat) : Int) + 1 =
      ((v.mant ^ 2 ^ s.toNat).log2 : Int) - (if isPow2 v.mant then 1 else 0) + 1 := by omega
  rw [ht]
  generalize hT : ((v.mant ^ 2 ^ s.toNat).log2 : Int) - (if isPow2 v.mant then 1 else 0) + 1 = T at *
  have hT0 : 0 ≤ T := by rw [← hT]; split <;> omega
  simp only [Bool.and_eq_true, decide_eq_true_eq]
  refine ⟨⟨hT0, ?_⟩, ?_⟩
  · by_cases hz : T = 0
    · rw [hz]; simp; omega
    · have h1 := hb.1 (T.toNat - 1) (by omega)
      have e : 2 ^ T.toNat = 2 * 2 ^ (T.toNat - 1) := by
        rw [← Nat.pow_succ']; congr 1; omega
      omega
  · have h2 := hb.2 T.toNat (by omega)
    rw [Nat.pow_succ]; omega

theorem exactIdx_neg_ok (s : Int) (hs : ¬ s ≥ 0) (v : Val) (hm : v.mant ≠ 0) :
    inExpoBucket s v (exactIdx s v) = true := by
  unfold inExpoBucket exactIdx log2Idx
  simp only [hs, if_false]
  have hb := log2_bracket v.mant hm
  rw [Int.shiftRight_eq_div_pow]
  generalize (-s).toNat = k at *
  have hK : (0 : Int) < ((2 ^ k : Nat) : Int) := by exact_mod_cast Nat.two_pow_pos k
  generalize ((2 ^ k : Nat) : Int) = K at *
  generalize hE : v.ex + (v.mant.log2 : Int) - (if isPow2 v.mant then 1 else 0) = E at *
  have h1 := Int.mul_ediv_add_emod E K
  have h2 := Int.emod_nonneg E (Int.ne_of_gt hK)
  have h3 := Int.emod_lt_of_pos E hK
  have e1 : E / K * K = K * (E / K) := Int.mul_comm _ _
  have e2 : (E / K + 1) * K = K * (E / K) + K := by rw [Int.add_mul, Int.one_mul, Int.mul_comm]
  rw [e1, e2]
  generalize K * (E / K) = X at *
  simp only [Bool.and_eq_true, Bool.or_eq_true, decide_eq_true_eq]
  refine ⟨⟨?_, by omega⟩, ?_⟩
  · by_cases hlo : X - v.ex < 0
    · exact Or.inl hlo
    · exact Or.inr (hb.1 (X - v.ex).toNat (by omega))
  · exact hb.2 (X + K - v.ex).toNat (by omega)

/-! ## the bucket of a value is unique -/

theorem inExpoBucket_lt_absurd (s : Int) (v : Val) (i j : Int) (hij : i < j)
    (hi : inExpoBucket s v i = true) (hj : inExpoBucket s v j = true) : False := by
  unfold inExpoBucket at hi hj
  by_cases hs : s ≥ 0
  · simp only [hs, if_true, Bool.and_eq_true, decide_eq_true_eq] at hi hj
    obtain ⟨⟨hi0, _⟩, hi2⟩ := hi
    obtain ⟨⟨hj0, hj1⟩, _⟩ := hj
    generalize v.ex * ((2 ^ s.toNat : Nat) : Int) = A at *
    have : 2 ^ ((i - A + 1).toNat + 1) ≤ 2 ^ (j - A + 1).toNat := Nat.pow_le_pow_right (by omega) (by omega)
    omega
  · simp only [hs, if_false, Bool.and_eq_true, Bool.or_eq_true, decide_eq_true_eq] at hi hj
    obtain ⟨⟨_, hi0⟩, hi2⟩ := hi
    obtain ⟨⟨hj1, _⟩, _⟩ := hj
    have hK : (0 : Int) ≤ ((2 ^ (-s).toNat : Nat) : Int) := Int.natCast_nonneg _
    generalize ((2 ^ (-s).toNat : Nat) : Int) = K at *
    have hmul : (i + 1) * K ≤ j * K := Int.mul_le_mul_of_nonneg_right (by omega) hK
    generalize (i + 1) * K = X at *
    generalize j * K = Y at *
    rcases hj1 with hj1 | hj1
    · omega
    · have : 2 ^ (X - v.ex).toNat ≤ 2 ^ (Y - v.ex).toNat := Nat.pow_le_pow_right (by omega) (by omega)
      omega

theorem inExpoBucket_iff (s : Int) (v : Val) (hm : v.mant ≠ 0) (i : Int) :
    inExpoBucket s v i = true ↔ i = exactIdx s v := by
  have hex : inExpoBucket s v (exactIdx s v) = true := by
    by_cases hs : s ≥ 0
    · exact exactIdx_nonneg_ok s hs v hm
    · exact exactIdx_neg_ok s hs v hm
  constructor
  · intro hi
    rcases Int.lt_trichotomy i (exactIdx s v) with h | h | h
    · exact absurd (inExpoBucket_lt_absurd s v _ _ h hi hex) id
    · exact h
    · exact absurd (inExpoBucket_lt_absurd s v _ _ h hex hi) id
  · intro h; rw [h]; exact hex

/-! ## the indices of finite doubles fit in int32 -/

/-- a non-zero finite binary64 magnitude: `2^-1074 ≤ mant·2^ex < 2^1024` -/
def FiniteNZ (v : Val) : Prop := v.mant ≠ 0 ∧ -1074 ≤ v.ex ∧ frexpExp v ≤ 1024

theorem stripZeros_spec : ∀ (f m : Nat) (e : Int), m ≠ 0 →
    (stripZeros f m e).1 ≠ 0 ∧ e ≤ (stripZeros f m e).2 ∧
    (stripZeros f m e).2 + ((stripZeros f m e).1.log2 : Int) = e + (m.log2 : Int) := by
  intro f
  induction f with
  | zero => intro m e hm; exact ⟨hm, Int.le_refl _, rfl⟩
  | succ k ih =>
    intro m e hm
    simp only [stripZeros]
    split
    · rename_i hc
      have h2 : 2 ≤ m := by omega
      have := ih (m / 2) (e + 1) (by omega)
      have hl : m.log2 = (m / 2).log2 + 1 := by rw [Nat.log2_def m, if_pos h2]
      refine ⟨this.1, by omega, ?_⟩
      rw [this.2.2, hl]; omega
    · exact ⟨hm, Int.le_refl _, rfl⟩

/-- every value `decode` produces is zero or in the finite binary64 range -/
theorem decode_finite (bits : Nat) (v : Val) (h : decode bits = some v) : v.mant = 0 ∨ FiniteNZ v := by
  unfold decode at h
  simp only at h
  split at h
  · exact absurd h (by simp)
  · rename_i he
    have hnorm : ∀ (w : Val), w.mant ≠ 0 → -1074 ≤ w.ex → w.ex + (w.mant.log2 : Int) + 1 ≤ 1024 →
        FiniteNZ (Val.norm w) := by
      intro w hw h1 h2
      have sp := stripZeros_spec 64 w.mant w.ex hw
      unfold Val.norm FiniteNZ frexpExp
      simp only [hw, if_false]
      refine ⟨sp.1, by omega, ?_⟩
      have := sp.2.2
      simp only [Int.natCast_add, Int.natCast_one]
      omega
    split at h
    · rename_i h0
      injection h with h
      subst h
      by_cases hm : bits % 2 ^ 52 = 0
      · left; simp [Val.norm, hm]
      · right
        apply hnorm _ hm (Int.le_refl _)
        have : (bits % 2 ^ 52).log2 < 52 := (Nat.log2_lt hm).mpr (Nat.mod_lt _ (by decide))
        simp only; omega
    · rename_i h0
      injection h with h
      subst h
      right
      have hlt : bits % 2 ^ 52 < 2 ^ 52 := Nat.mod_lt _ (by decide)
      have hm : 2 ^ 52 + bits % 2 ^ 52 ≠ 0 := by omega
      have hl : (2 ^ 52 + bits % 2 ^ 52).log2 = 52 := (Nat.log2_eq_iff hm).mpr ⟨by omega, by omega⟩
      have he2 : bits / 2 ^ 52 % 2048 < 2048 := Nat.mod_lt _ (by decide)
      apply hnorm _ hm
      · simp only; omega
      · simp only [hl]; omega

theorem mul_bounds (a N lo hi M : Int) (hlo : lo ≤ a) (hhi : a ≤ hi) (hlo0 : lo ≤ 0) (hhi0 : 0 ≤ hi)
    (hN1 : 1 ≤ N) (hNM : N ≤ M) : lo * M ≤ a * N ∧ a * N ≤ hi * M := by
  have hneg : (-lo) * M ≥ 0 := Int.mul_nonneg (by omega) (by omega)
  have hpos : hi * M ≥ 0 := Int.mul_nonneg (by omega) (by omega)
  rw [Int.neg_mul] at hneg
  by_cases ha : 0 ≤ a
  · have h1 : a * N ≤ hi * M := Int.mul_le_mul hhi hNM (by omega) hhi0
    have h2 : 0 ≤ a * N := Int.mul_nonneg ha (by omega)
    omega
  · have h1 : (-a) * N ≤ (-lo) * M := Int.mul_le_mul (by omega) hNM (by omega) (by omega)
    have h2 : 0 ≤ (-a) * N := Int.mul_nonneg (by omega) (by omega)
    rw [Int.neg_mul] at h1 h2
    rw [Int.neg_mul] at h1
    omega

/-- `⌊log2 (m^N)⌋` lies between `N·⌊log2 m⌋` and `N·(⌊log2 m⌋+1) − 1` -/
theorem log2_pow_bounds (m N : Nat) (hm : m ≠ 0) (hN : 1 ≤ N) :
    m.log2 * N ≤ (m ^ N).log2 ∧ (m ^ N).log2 < (m.log2 + 1) * N := by
  have hP : m ^ N ≠ 0 := Nat.ne_of_gt (Nat.pow_pos (by omega))
  constructor
  · rw [Nat.le_log2 hP, Nat.pow_mul]
    exact Nat.pow_le_pow_left (Nat.log2_self_le hm) N
  · rw [Nat.log2_lt hP, Nat.pow_mul]
    exact Nat.pow_lt_pow_left (@Nat.lt_log2_self m) (by omega)

theorem exactIdx_range (s : Int) (hs : s ≤ 20) (v : Val) (hf : FiniteNZ v) :
    -1126170625 ≤ exactIdx s v ∧ exactIdx s v ≤ 1073741823 := by
  obtain ⟨hm, hex, hfr⟩ := hf
  unfold frexpExp at hfr
  simp only [Int.natCast_add, Int.natCast_one] at hfr
  unfold exactIdx
  by_cases h0 : s ≥ 0
  · simp only [h0, if_true]
    have hN1 : 1 ≤ 2 ^ s.toNat := Nat.two_pow_pos _
    have hNM : 2 ^ s.toNat ≤ 2 ^ 20 := Nat.pow_le_pow_right (by omega) (by omega)
    obtain ⟨hl1, hl2⟩ := log2_pow_bounds v.mant (2 ^ s.toNat) hm hN1
    have hl1' : (v.mant.log2 : Int) * ((2 ^ s.toNat : Nat) : Int) ≤ ((v.mant ^ 2 ^ s.toNat).log2 : Int) := by
      exact_mod_cast hl1
    have hl2' : ((v.mant ^ 2 ^ s.toNat).log2 : Int) < ((v.mant.log2 : Int) + 1) * ((2 ^ s.toNat : Nat) : Int) := by
      exact_mod_cast hl2
    have hb1 := mul_bounds (v.ex + (v.mant.log2 : Int)) ((2 ^ s.toNat : Nat) : Int) (-1074) 1024 ((2 ^ 20 : Nat) : Int)
      (by omega) (by omega) (by omega) (by omega) (by exact_mod_cast hN1) (by exact_mod_cast hNM)
    have hb2 := mul_bounds (v.ex + (v.mant.log2 : Int) + 1) ((2 ^ s.toNat : Nat) : Int) (-1074) 1024 ((2 ^ 20 : Nat) : Int)
      (by omega) (by omega) (by omega) (by omega) (by exact_mod_cast hN1) (by exact_mod_cast hNM)
    rw [Int.add_mul] at hb1 hb2
    rw [Int.add_mul] at hb2 hl2'
    rw [Int.one_mul] at hb2 hl2'
    generalize ((2 ^ s.toNat : Nat) : Int) = N at *
    generalize v.ex * N = A at *
    generalize (v.mant.log2 : Int) * N = B at *
    generalize ((v.mant ^ 2 ^ s.toNat).log2 : Int) = Q at *
    have e20 : ((2 ^ 20 : Nat) : Int) = 1048576 := by decide
    rw [e20] at hb1 hb2
    split <;> omega
  · simp only [h0, if_false]
    unfold log2Idx
    rw [Int.shiftRight_eq_div_pow]
    have hK : (1 : Int) ≤ ((2 ^ (-s).toNat : Nat) : Int) := by exact_mod_cast Nat.two_pow_pos _
    generalize ((2 ^ (-s).toNat : Nat) : Int) = K at *
    generalize hE : v.ex + (v.mant.log2 : Int) - (if isPow2 v.mant then 1 else 0) = E
    have hE1 : -1075 ≤ E := by rw [← hE]; split <;> omega
    have hE2 : E ≤ 1023 := by rw [← hE]; split <;> omega
    have hb := mul_bounds (-1075) K (-1075) 0 K (by omega) (by omega) (by omega) (by omega) hK (Int.le_refl _)
    have hb' := mul_bounds 1024 K 0 1024 K (by omega) (by omega) (by omega) (by omega) hK (Int.le_refl _)
    have h1 : -1075 ≤ E / K := Int.le_ediv_of_mul_le (by omega) (by
      have hk := mul_bounds 1075 K 0 1075 K (by omega) (by omega) (by omega) (by omega) hK (Int.le_refl _)
      have : (-1075 : Int) * K = -(1075 * K) := Int.neg_mul ..
      have h1K : 1075 ≤ 1075 * K := by
        have := Int.mul_le_mul (Int.le_refl (1075 : Int)) hK (by omega) (by omega)
        omega
      omega)
    have h2 : E / K < 1024 := Int.ediv_lt_of_lt_mul (by omega) (by
      have h1K : 1024 ≤ 1024 * K := by
        have := Int.mul_le_mul (Int.le_refl (1024 : Int)) hK (by omega) (by omega)
        omega
      omega)
    omega

end Otel.C07
