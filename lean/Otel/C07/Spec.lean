/-
C07 — the property restated independently of the model's internals, as executable Bool-valued predicates.
The same definitions are the conclusions of the theorems in `Props.lean` and the oracle that `Main.lean`
evaluates on the implementation's observed data points.
-/
import Otel.C07.Model
import Otel.C07.Path
namespace Otel.C07
namespace Spec

/-! ## explicit-bucket histogram -/

/-- value `v` belongs to bucket `i` of `bounds`: `(bounds[i-1], bounds[i]]`, with `-∞`/`+∞` at the ends -/
def inBucket (bounds : List Int) (i : Nat) (v : Int) : Bool :=
  (i == 0 || (match bounds[i - 1]? with
              | some b => decide (b < v)
              | none => false)) &&
  (match bounds[i]? with
   | some b => decide (v ≤ b)
   | none => i == bounds.length)

def isSorted : List Int → Bool
  | [] => true
  | [_] => true
  | a :: b :: r => decide (a ≤ b) && isSorted (b :: r)

def minList : List Int → Int
  | [] => 0
  | a :: r => r.foldl min a

def maxList : List Int → Int
  | [] => 0
  | a :: r => r.foldl max a

/-- the explicit-bucket clauses of the statement, for the sorted boundary list `bounds`, the measured values
`vs` and the reported point `h` -/
def histPointOK (bounds : List Int) (vs : List Int) (h : Hist) : Bool :=
  h.counts.length == bounds.length + 1 &&
  h.counts.sum == h.count &&
  h.count == vs.length &&
  (List.range h.counts.length).all (fun i => h.counts.getD i 0 == vs.countP (inBucket bounds i)) &&
  h.total == vs.sum &&
  h.min == minList vs && h.max == maxList vs

/-- no measurement ⇒ no data point; otherwise `histPointOK`; the reported boundaries are the sorted input -/
def histOK (rawBounds bounds : List Int) (vs : List Int) (h : Option Hist) : Bool :=
  isSorted bounds && bounds.length == rawBounds.length &&
  rawBounds.all (fun b => bounds.count b == rawBounds.count b) &&
  (match h with
   | none => vs.isEmpty
   | some h => !vs.isEmpty && histPointOK bounds vs h)

/-! ## exponential histogram: structure -/

def Buckets.get (b : Buckets) (j : Int) : Nat :=
  if j < b.start then 0 else b.counts.getD (j - b.start).toNat 0

/-- `count = zero count + positive counts + negative counts` -/
def countOK (p : Expo) : Bool := p.count == p.zero + p.pos.counts.sum + p.neg.counts.sum

/-- at most `maxSize` buckets per sign -/
def sizeOK (maxSize : Nat) (p : Expo) : Bool :=
  decide (p.pos.counts.length ≤ maxSize) && decide (p.neg.counts.length ≤ maxSize)

/-- scale within `[-10, maxScale]` -/
def scaleOK (maxScale : Int) (p : Expo) : Bool := decide (p.scale ≤ maxScale) && decide (-10 ≤ p.scale)

/-- the scale history along a run: starts at `cur`, every measurement sees the scale the previous one left,
never increases, ends at `fin` -/
def chainOK : Int → List Out → Int → Bool
  | cur, [], fin => cur == fin
  | cur, .val _ sb _ sa _ _ :: r, fin => sb == cur && decide (sa ≤ sb) && chainOK sa r fin
  | cur, _ :: r, fin => chainOK cur r fin

/-- the bucket (at scale `s`) of a recorded value that was put into bucket `ia` at scale `sa ≥ s` -/
def finalIdx (neg : Bool) (s : Int) : Out → Option Int
  | .val n _ _ sa ia true => if n == neg then some (ia >>> (sa - s).toNat) else none
  | _ => none

/-- re-scaling loses and misplaces nothing: bucket `i` holds exactly the recorded values whose index, shifted
to the final scale, is `i` -/
def placedOK (neg : Bool) (s : Int) (outs : List Out) (b : Buckets) : Bool :=
  let idxs := outs.filterMap (finalIdx neg s)
  idxs.all (fun i => decide (b.start ≤ i) && decide (i < b.start + (b.counts.length : Int))) &&
  (List.range b.counts.length).all (fun k => b.counts.getD k 0 == idxs.count (b.start + (k : Int)))

def isZeroOut : Out → Bool
  | .zero => true
  | _ => false

def isRecorded : Out → Bool
  | .val _ _ _ _ _ true => true
  | _ => false

def minI : List Int → Int → Int
  | [], a => a
  | x :: r, a => minI r (min x a)

def maxI : List Int → Int → Int
  | [], a => a
  | x :: r, a => maxI r (max x a)

/-- a value may be left out only when keeping it would need a scale below −10: the buckets of its sign
(reconstructed from the earlier recorded values `seen`) together with its own index still span at least
`maxSize` buckets at scale −10. The first value of a sign is never left out. -/
def dropsOK (maxSize : Nat) : List Out → List Out → Bool
  | _, [] => true
  | seen, (.val neg sb ib sa ia false) :: r =>
    let idxs := seen.filterMap (finalIdx neg sb)
    let d := (sb + 10).toNat
    (!idxs.isEmpty && decide ((maxI idxs ib >>> d) - (minI idxs ib >>> d) ≥ (maxSize : Int))) &&
      dropsOK maxSize (seen ++ [.val neg sb ib sa ia false]) r
  | seen, o :: r => dropsOK maxSize (seen ++ [o]) r

def tallyOK (outs : List Out) (p : Expo) : Bool :=
  p.zero == outs.countP isZeroOut && p.count == outs.countP isZeroOut + outs.countP isRecorded

/-! ## exponential histogram: exact bucket index -/

/-- largest `E` with `2^E < v` -/
def log2Idx (v : Val) : Int := v.ex + (v.mant.log2 : Int) - (if isPow2 v.mant then 1 else 0)

/-- the bucket index demanded by the statement, in integer arithmetic: for `s ≥ 0`
`base^i < v ⇔ 2^i < v^(2^s)`; for `s < 0` the index is the binary one shifted. -/
def exactIdx (s : Int) (v : Val) : Int :=
  if s ≥ 0 then
    let N : Nat := 2 ^ s.toNat
    let P : Nat := v.mant ^ N
    v.ex * (N : Int) + (P.log2 : Int) - (if isPow2 v.mant then 1 else 0)
  else (log2Idx v) >>> (-s).toNat

/-- literal form of `base^i < v ≤ base^(i+1)` with `base = 2^(2^-s)`, for a non-zero `v` (sign ignored) -/
def inExpoBucket (s : Int) (v : Val) (i : Int) : Bool :=
  if s ≥ 0 then
    -- 2^i < mant^N · 2^(ex·N) ≤ 2^(i+1); with t = i − ex·N + 1: 2^t < 2·P ≤ 2^(t+1)
    let N : Nat := 2 ^ s.toNat
    let P : Nat := v.mant ^ N
    let t := i - v.ex * (N : Int) + 1
    decide (0 ≤ t) && decide (2 ^ t.toNat < 2 * P) && decide (2 * P ≤ 2 ^ (t.toNat + 1))
  else
    -- 2^(i·2^k) < mant · 2^ex ≤ 2^((i+1)·2^k)
    let K : Int := ((2 ^ (-s).toNat : Nat) : Int)
    let lo := i * K - v.ex
    let hi := (i + 1) * K - v.ex
    (decide (lo < 0) || decide (2 ^ lo.toNat < v.mant)) && decide (0 ≤ hi) && decide (v.mant ≤ 2 ^ hi.toNat)

/-- F14: the value (given by the IEEE bits of its magnitude) is within two ulps of a bucket boundary at the
positive scale `s` -/
def F14_applies (s : Int) (absBits : Nat) : Bool :=
  decide (s > 0) && decide (absBits ≥ 3) &&
  (match decode (absBits - 2), decode (absBits + 2) with
   | some a, some b => exactIdx s a != exactIdx s b
   | _, _ => false)

inductive Place
  | ok
  | f14
  | bad
deriving DecidableEq, Repr

/-- classification of one index `idx` the implementation computed for `|v|` at scale `s` -/
def classify (s : Int) (absBits : Nat) (idx : Int) : Place :=
  match decode absBits with
  | none => .bad
  | some v =>
    let e := exactIdx s v
    if idx == e then .ok
    else if (idx - e).natAbs == 1 && F14_applies s absBits then .f14
    else .bad

/-! ## configuration paths -/

/-- F46: the view is a hand-written `View` function and the aggregation it returns is an exponential histogram
whose parameters `AggregationBase2ExponentialHistogram.err()` would reject — nothing on that path calls `err()` -/
def custom_view_unvalidated (vk : ViewKind) (va : Option ACfg) : Bool :=
  vk == .custom && (match va with
                    | some (.expo ms sc _) => !validExpo ms sc
                    | _ => false)

end Spec
end Otel.C07
