/-
C07 — the int64 instantiation of the explicit-bucket histogram (`histValues[int64]`): the accumulator `total` is
an int64 (two's-complement wrap-around), count/min/max are exact, and the bucket is found with
`sort.SearchFloat64s(bounds, float64(value))`, i.e. after rounding the value to the nearest binary64.
Core Lean only.
-/
import Otel.C07.Model
namespace Otel.C07

/-- `float64(v)` for an int64 `v`, as the integer it denotes: exact below 2^53, otherwise round to nearest, ties
to even, at 53 significant bits -/
def f64OfInt (v : Int) : Int :=
  let n := v.natAbs
  if n < 2 ^ 53 then v
  else
    let sh := n.log2 + 1 - 53
    let q := n / 2 ^ sh
    let r := n % 2 ^ sh
    let half := 2 ^ (sh - 1)
    let q' := if r > half ∨ (r = half ∧ q % 2 = 1) then q + 1 else q
    (if v < 0 then -1 else 1) * ((q' * 2 ^ sh : Nat) : Int)

/-- int64 addition: the result modulo 2^64 in [−2^63, 2^63) -/
def wrap64 (x : Int) : Int := (x + 9223372036854775808) % 18446744073709551616 - 9223372036854775808

/-- `histValues[int64].measure` for one attribute set -/
def histMeasureI64 (bounds : List Int) (st : Option Hist) (v : Int) : Option Hist :=
  let idx := searchIdx bounds (f64OfInt v)
  let h := match st with
    | some h => h
    | none => Hist.new bounds.length v
  some { h.bin idx v with total := wrap64 (h.total + v) }

def histRunI64 (rawBounds : List Int) (vs : List Int) : Option Hist :=
  vs.foldl (histMeasureI64 (sortBounds rawBounds)) none

namespace Spec

/-- F49: an int64 measurement of magnitude ≥ 2^53 whose rounding to binary64 moves it across a boundary of the
(sorted) boundary list — the bucket found for `float64(value)` is not the bucket of the value -/
def int64_beyond_2p53_at_boundary (bounds : List Int) (vs : List Int) : Bool :=
  vs.any (fun v => decide (v.natAbs ≥ 2 ^ 53) && (searchIdx bounds (f64OfInt v) != searchIdx bounds v))

end Spec

end Otel.C07
