/-
C07 — the exact bucket index is consistent across the positive scales: one halving of the resolution halves the
index (floor). With `getBin_nonpos_coherent` this gives `exactIdx (s − δ) v = exactIdx s v >>> δ` for all scales.
-/
import Otel.C07.LemmasIdx
namespace Otel.C07
open Spec

/-- `E(x) = log2 x − [x is a power of two]`, the integer with `2^E < x ≤ 2^(E+1)`: `E(Q²) / 2 = E(Q)` (floor) -/
theorem bracket_sq_half (Q : Nat) (hQ : Q ≠ 0) (c : Int) (hc : c = if isPow2 Q then 1 else 0)
    (hc2 : c = if isPow2 (Q * Q) then 1 else 0) :
    (((Q * Q).log2 : Int) - c) / 2 = (Q.log2 : Int) - c := by
  have hQQ : Q * Q ≠ 0 := Nat.mul_ne_zero hQ hQ
  have h1 := log2_bracket Q hQ
  have h2 := log2_bracket (Q * Q) hQQ
  rw [← hc] at h1
  rw [← hc2] at h2
  have hc01 : c = 0 ∨ c = 1 := by rw [hc]; split <;> simp
  generalize hf : ((Q * Q).log2 : Int) - c = f at *
  generalize he : (Q.log2 : Int) - c = e at *
  have hf1 : -1 ≤ f := by omega
  have he1 : -1 ≤ e := by omega
  -- upper: f < 2e + 2
  have hup : f < 2 * e + 2 := by
    apply Classical.byContradiction
    intro hn
    have hb := h1.2 (e + 1).toNat (by omega)
    have hsq : Q * Q ≤ 2 ^ (e + 1).toNat * 2 ^ (e + 1).toNat := Nat.mul_le_mul hb hb
    rw [← Nat.pow_add] at hsq
    have := h2.1 ((e + 1).toNat + (e + 1).toNat) (by omega)
    omega
  -- lower: 2e ≤ f
  have hlo : 2 * e ≤ f := by
    apply Classical.byContradiction
    intro hn
    have he0 : 0 ≤ e := by omega
    have ha := h1.1 e.toNat (by omega)
    have hsq : 2 ^ e.toNat * 2 ^ e.toNat < Q * Q := Nat.mul_lt_mul'' ha ha
    rw [← Nat.pow_add] at hsq
    have := h2.2 (e.toNat + e.toNat) (by omega)
    omega
  omega

/-- one halving step on the positive scales -/
theorem exactIdx_step (s : Int) (hs : 1 ≤ s) (v : Val) (hm : v.mant ≠ 0) :
    exactIdx (s - 1) v = exactIdx s v >>> 1 := by
  unfold exactIdx
  have h1 : s ≥ 0 := by omega
  have h2 : s - 1 ≥ 0 := by omega
  simp only [h1, h2, if_true]
  have hk : s.toNat = (s - 1).toNat + 1 := by omega
  rw [hk]
  generalize (s - 1).toNat = k
  have hN : 2 ^ (k + 1) = 2 ^ k * 2 := Nat.pow_succ 2 k
  have hP : v.mant ^ 2 ^ (k + 1) = v.mant ^ 2 ^ k * v.mant ^ 2 ^ k := by
    rw [hN, Nat.pow_mul, Nat.pow_two]
  have hQ : v.mant ^ 2 ^ k ≠ 0 := Nat.ne_of_gt (Nat.pow_pos (by omega))
  have hp1 : isPow2 (v.mant ^ 2 ^ k) = isPow2 v.mant := isPow2_pow _ _ (Nat.two_pow_pos k)
  have hp2 : isPow2 (v.mant ^ 2 ^ k * v.mant ^ 2 ^ k) = isPow2 v.mant := by
    rw [← hP]; exact isPow2_pow _ _ (Nat.two_pow_pos _)
  have key := bracket_sq_half (v.mant ^ 2 ^ k) hQ (if isPow2 v.mant then 1 else 0) (by rw [hp1]) (by rw [hp2])
  rw [hP, Int.shiftRight_eq_div_pow]
  have e2 : ((2 ^ (k + 1) : Nat) : Int) = 2 * ((2 ^ k : Nat) : Int) := by
    rw [hN]; push_cast; omega
  rw [e2]
  generalize ((2 ^ k : Nat) : Int) = N' at *
  generalize (((v.mant ^ 2 ^ k * v.mant ^ 2 ^ k).log2 : Nat) : Int) = A at *
  generalize (((v.mant ^ 2 ^ k).log2 : Nat) : Int) = B at *
  generalize (if isPow2 v.mant then (1 : Int) else 0) = c at *
  have e3 : v.ex * (2 * N') = 2 * (v.ex * N') := by
    rw [Int.mul_left_comm]
  rw [e3]
  generalize v.ex * N' = X at *
  simp only [Nat.pow_one]
  omega

/-- consistency across the non-negative scales -/
theorem exactIdx_coherent_nonneg (v : Val) (hm : v.mant ≠ 0) : ∀ (δ : Nat) (s : Int), (δ : Int) ≤ s →
    exactIdx (s - (δ : Int)) v = exactIdx s v >>> δ
  | 0, s, _ => by simp
  | δ + 1, s, h => by
    have ih := exactIdx_coherent_nonneg v hm δ s (by omega)
    have st := exactIdx_step (s - (δ : Int)) (by omega) v hm
    have e : s - ((δ + 1 : Nat) : Int) = s - (δ : Int) - 1 := by omega
    rw [e, st, ih, ← Int.shiftRight_add]

end Otel.C07
