/-
C07 — executable model of sdk/metric/internal/aggregate/{histogram.go, exponential_histogram.go} and of the
parameter validation in sdk/metric/aggregation.go (core Lean only; no `Float`).

Numbers: the explicit-bucket model works on integers (the harness sends bounds and values as integers on one
common dyadic scale, so that every float operation of the implementation is exact). The exponential model
works on exact dyadic values `Val = ±mant·2^ex` decoded from IEEE-754 bit patterns.
The positive-scale bucket index (`math.Log` based, finding F14) is the parameter `L`.
-/
namespace Otel.C07

/-! ## explicit-bucket histogram (histogram.go) -/

/-- `slices.Sort` on the cloned boundaries, modelled by insertion sort (contract: sorted permutation). -/
def insertSorted (x : Int) : List Int → List Int
  | [] => [x]
  | y :: ys => if x ≤ y then x :: y :: ys else y :: insertSorted x ys

def sortBounds (l : List Int) : List Int := l.foldr insertSorted []

/-- `sort.SearchFloat64s(bounds, v)`: least `i` with `bounds[i] ≥ v`, `len` if none (contract on a sorted list). -/
def searchIdx : List Int → Int → Nat
  | [], _ => 0
  | b :: bs, v => if b ≥ v then 0 else searchIdx bs v + 1

structure Hist where
  counts : List Nat
  count : Nat
  total : Int
  min : Int
  max : Int
deriving DecidableEq, Repr

/-- `newBuckets(attr, len(bounds)+1)` followed by `b.min, b.max = value, value` -/
def Hist.new (nb : Nat) (v : Int) : Hist := ⟨List.replicate (nb + 1) 0, 0, 0, v, v⟩

/-- `buckets.bin`: note the `else if` between the min and the max update -/
def Hist.bin (h : Hist) (idx : Nat) (v : Int) : Hist :=
  { h with
    counts := h.counts.modify idx (· + 1)
    count := h.count + 1
    min := if v < h.min then v else h.min
    max := if v < h.min then h.max else if v > h.max then v else h.max }

def Hist.addSum (h : Hist) (v : Int) : Hist := { h with total := h.total + v }

/-- `histValues.measure` for one attribute set (`none` = no data point yet) -/
def histMeasure (bounds : List Int) (st : Option Hist) (v : Int) : Option Hist :=
  let idx := searchIdx bounds v
  let h := match st with
    | some h => h
    | none => Hist.new bounds.length v
  some ((h.bin idx v).addSum v)

def histRunSorted (bounds : List Int) (vs : List Int) : Option Hist :=
  vs.foldl (histMeasure bounds) none

/-- `newHistValues` (clone + sort) then the measurements -/
def histRun (rawBounds : List Int) (vs : List Int) : Option Hist :=
  histRunSorted (sortBounds rawBounds) vs

/-- `AggregationExplicitBucketHistogram.err`: `true` = accepted (strictly increasing, or ≤ 1 boundary) -/
def validBounds : List Int → Bool
  | [] => true
  | [_] => true
  | a :: b :: rest => if a ≥ b then false else validBounds (b :: rest)

/-! ## base-2 exponential histogram (exponential_histogram.go) -/

/-- exact finite value `(-1)^neg · mant · 2^ex`; zero is `mant = 0` -/
structure Val where
  neg : Bool
  mant : Nat
  ex : Int
deriving DecidableEq, Repr

def stripZeros : Nat → Nat → Int → Nat × Int
  | 0, m, e => (m, e)
  | f + 1, m, e => if m ≠ 0 ∧ m % 2 = 0 then stripZeros f (m / 2) (e + 1) else (m, e)

def Val.norm (v : Val) : Val :=
  if v.mant = 0 then ⟨v.neg, 0, 0⟩
  else let r := stripZeros 64 v.mant v.ex; ⟨v.neg, r.1, r.2⟩

/-- IEEE-754 binary64 bit pattern → exact value; `none` for NaN/±Inf (`measure` ignores those) -/
def decode (bits : Nat) : Option Val :=
  let s : Nat := bits / 2 ^ 63 % 2
  let e : Nat := bits / 2 ^ 52 % 2048
  let m : Nat := bits % 2 ^ 52
  if e = 2047 then none
  else if e = 0 then some (Val.norm ⟨s = 1, m, -1074⟩)
  else some (Val.norm ⟨s = 1, 2 ^ 52 + m, (e : Int) - 1075⟩)

def ofInt (k : Int) : Val := Val.norm ⟨k < 0, k.natAbs, 0⟩

def isPow2 (m : Nat) : Bool := m == 2 ^ m.log2

/-- exponent returned by `math.Frexp` (fraction in [½,1)) -/
def frexpExp (v : Val) : Int := v.ex + ((v.mant.log2 + 1 : Nat) : Int)

/-- `getBin`. Non-positive scales: the integer computation of the code. Positive scales: the parameter `L`. -/
def getBin (L : Int → Val → Int) (scale : Int) (v : Val) : Int :=
  if scale ≤ 0 then
    let correction : Int := if isPow2 v.mant then 2 else 1
    (frexpExp v - correction) >>> (-scale).toNat
  else L scale v

/-- the `for high-low >= p.maxSize` loop of `scaleChange` with its `count > 30` escape -/
def scaleLoop (maxSize : Nat) : Nat → Int → Int → Nat → Nat
  | 0, _, _, c => c
  | f + 1, low, high, c =>
    if high - low ≥ (maxSize : Int) then
      if c + 1 > 30 then c + 1
      else scaleLoop maxSize f (low >>> 1) (high >>> 1) (c + 1)
    else c

def scaleChange (maxSize : Nat) (bin start : Int) (length : Nat) : Nat :=
  if length = 0 then 0
  else
    let low := if start ≥ bin then bin else start
    let high := if start ≥ bin then start + (length : Int) - 1 else bin
    scaleLoop maxSize 32 low high 0

structure Buckets where
  start : Int
  counts : List Nat
deriving DecidableEq, Repr

/-- `expoBuckets.record`: empty / inside the window / before the start / after the end -/
def Buckets.record (b : Buckets) (bin : Int) : Buckets :=
  if b.counts.length = 0 then ⟨bin, [1]⟩
  else
    let endBin := b.start + (b.counts.length : Int) - 1
    if bin ≥ b.start ∧ bin ≤ endBin then
      ⟨b.start, b.counts.modify (bin - b.start).toNat (· + 1)⟩
    else if bin < b.start then
      ⟨bin, 1 :: (List.replicate ((b.start - bin).toNat - 1) 0 ++ b.counts)⟩
    else
      ⟨b.start, b.counts ++ (List.replicate ((bin - endBin).toNat - 1) 0 ++ [1])⟩

def sumTo : Nat → (Nat → Nat) → Nat
  | 0, _ => 0
  | n + 1, h => sumTo n h + h n

/-- `expoBuckets.downscale`: `steps = 2^δ`, `offset = startBin mod steps` (non-negative); old position `p` goes to
new position `(p + offset) / steps`; new length `(len − 1 + offset) / steps + 1`; `startBin >>= δ`.
(The code does this in place; the model states the resulting array.) -/
def Buckets.downscale (b : Buckets) (δ : Nat) : Buckets :=
  if b.counts.length ≤ 1 ∨ δ < 1 then ⟨b.start >>> δ, b.counts⟩
  else
    let steps := 2 ^ δ
    let offset := (b.start % ((2 ^ δ : Nat) : Int)).toNat
    let n := b.counts.length
    let a := b.counts.toArray
    let newLen := (n - 1 + offset) / steps + 1
    ⟨b.start >>> δ,
     (List.range newLen).map (fun k => sumTo n (fun p => if (p + offset) / steps = k then a[p]?.getD 0 else 0))⟩

/-- exact dyadic number `num · 2^ex` -/
abbrev Dy := Int × Int

def dyLt (a b : Dy) : Bool :=
  let m := min a.2 b.2
  decide (a.1 * 2 ^ (a.2 - m).toNat < b.1 * 2 ^ (b.2 - m).toNat)

def dyAdd (a b : Dy) : Dy :=
  let m := min a.2 b.2
  (a.1 * 2 ^ (a.2 - m).toNat + b.1 * 2 ^ (b.2 - m).toNat, m)

def Val.toDy (v : Val) : Dy := (if v.neg then -(v.mant : Int) else (v.mant : Int), v.ex)

def Val.lt (a b : Val) : Bool := dyLt a.toDy b.toDy

structure Expo where
  scale : Int
  pos : Buckets
  neg : Buckets
  zero : Nat
  count : Nat
  min : Val
  max : Val
  sum : Dy
deriving DecidableEq, Repr

/-- what one `measure` call did: ignored (NaN/Inf) | zero bucket | non-zero value evaluated at scale `sb`
(index `ib`), scale afterwards `sa` (index `ia`), `recorded = false` on the scale-underflow return -/
inductive Out
  | skipped
  | zero
  | val (neg : Bool) (sb ib sa ia : Int) (recorded : Bool)
deriving DecidableEq, Repr

def maxFloat : Val := ⟨false, 2 ^ 53 - 1, 971⟩
def minFloat : Val := ⟨true, 2 ^ 53 - 1, 971⟩

/-- `newExpoHistogramDataPoint` (float64 sentinels; the int64 ones are passed explicitly) -/
def Expo.init (maxScale : Int) (lo : Val := maxFloat) (hi : Val := minFloat) : Expo :=
  ⟨maxScale, ⟨0, []⟩, ⟨0, []⟩, 0, 0, lo, hi, (0, 0)⟩

/-- `minMaxSum` (two independent `if`s) together with `count++` -/
def Expo.countMinMaxSum (p : Expo) (v : Val) : Expo :=
  { p with
    count := p.count + 1
    min := if v.lt p.min then v else p.min
    max := if p.max.lt v then v else p.max
    sum := dyAdd p.sum v.toDy }

def expoMinScale : Int := -10

/-- `bucket := &p.posBuckets; if v < 0 { bucket = &p.negBuckets }` -/
def Expo.bucketOf (p : Expo) (neg : Bool) : Buckets := if neg then p.neg else p.pos

/-- `p.scale -= scaleDelta; p.posBuckets.downscale(scaleDelta); p.negBuckets.downscale(scaleDelta)` -/
def Expo.rescale (p : Expo) (δ : Nat) : Expo :=
  { p with scale := p.scale - (δ : Int), pos := p.pos.downscale δ, neg := p.neg.downscale δ }

/-- `p.count++; p.minMaxSum(v); bucket.record(bin)` -/
def Expo.recordBin (p : Expo) (v : Val) (bin : Int) : Expo :=
  if v.neg then { p.countMinMaxSum v with neg := p.neg.record bin }
  else { p.countMinMaxSum v with pos := p.pos.record bin }

/-- `expoHistogramDataPoint.record` as it is now (count/min/max/sum only when the value is recorded) -/
def record (L : Int → Val → Int) (maxSize : Nat) (p : Expo) (v : Val) : Expo × Out :=
  if v.mant = 0 then
    ({ p.countMinMaxSum v with zero := p.zero + 1 }, .zero)
  else
    let bin := getBin L p.scale v
    let δ := scaleChange maxSize bin (p.bucketOf v.neg).start (p.bucketOf v.neg).counts.length
    if δ > 0 then
      if p.scale - (δ : Int) < expoMinScale then
        (p, .val v.neg p.scale bin p.scale bin false)
      else
        ((p.rescale δ).recordBin v (getBin L (p.scale - (δ : Int)) v),
         .val v.neg p.scale bin (p.scale - (δ : Int)) (getBin L (p.scale - (δ : Int)) v) true)
    else
      (p.recordBin v bin, .val v.neg p.scale bin p.scale bin true)

/-- `expoHistogram.measure` for one attribute set: NaN/Inf (`none`) are ignored -/
def measure (L : Int → Val → Int) (maxSize : Nat) (st : Expo × List Out) (v : Option Val) : Expo × List Out :=
  match v with
  | none => (st.1, st.2 ++ [Out.skipped])
  | some v => let r := record L maxSize st.1 v; (r.1, st.2 ++ [r.2])

def runFrom (L : Int → Val → Int) (maxSize : Nat) (p : Expo) (vs : List (Option Val)) : Expo × List Out :=
  vs.foldl (measure L maxSize) (p, [])

def run (L : Int → Val → Int) (maxSize : Nat) (maxScale : Int) (vs : List (Option Val)) : Expo × List Out :=
  runFrom L maxSize (Expo.init maxScale) vs

/-- `AggregationBase2ExponentialHistogram.err` (after the F13 repair): `true` = accepted -/
def validExpo (maxSize maxScale : Int) : Bool :=
  if maxScale > 20 then false
  else if maxScale < -10 then false
  else if maxSize ≤ 0 then false
  else true

end Otel.C07
