/-
C07 — helper lemmas for `Spec.dropsOK` over whole runs: a value is left out of an exponential histogram only on
the scale-underflow return, and then the window of its sign together with its own index still spans at least
`maxSize` buckets at scale −10. Two ingredients besides the placement invariant `PInv`:
  * `EndsNZ`: the first and the last bucket of a non-empty window are non-zero (kept by `expoBuckets.record` and
    `downscale`), so the window IS the span of the recorded indices;
  * `scaleLoop_gt`: when the loop of `scaleChange` returns more than `k`, the span was still `≥ maxSize` after `k`
    halvings (the `count > 30` escape returns 31, so this covers every `k ≤ 30`).
Core Lean only.
-/
import Otel.C07.LemmasPlace
namespace Otel.C07
open Spec

/-! ## min / max of an index list -/

theorem minI_le (l : List Int) (a : Int) : minI l a ≤ a ∧ ∀ x ∈ l, minI l a ≤ x := by
  induction l generalizing a with
  | nil => simp [minI]
  | cons y r ih =>
    simp only [minI]
    have h := ih (min y a)
    refine ⟨by omega, ?_⟩
    intro x hx
    rcases List.mem_cons.mp hx with hx | hx
    · subst hx; omega
    · exact h.2 x hx

theorem le_maxI (l : List Int) (a : Int) : a ≤ maxI l a ∧ ∀ x ∈ l, x ≤ maxI l a := by
  induction l generalizing a with
  | nil => simp [maxI]
  | cons y r ih =>
    simp only [maxI]
    have h := ih (max y a)
    refine ⟨by omega, ?_⟩
    intro x hx
    rcases List.mem_cons.mp hx with hx | hx
    · subst hx; omega
    · exact h.2 x hx

/-! ## the loop of `scaleChange`, from below -/

/-- if the loop returns more than `c + k`, the span was still at least `maxSize` after `k` more halvings -/
theorem scaleLoop_gt (ms : Nat) : ∀ (fuel : Nat) (low high : Int) (c k : Nat), c + fuel ≥ 32 → c ≤ 30 →
    scaleLoop ms fuel low high c > c + k → (high >>> k) - (low >>> k) ≥ (ms : Int) := by
  intro fuel
  induction fuel with
  | zero => intro low high c k h1 h2; omega
  | succ f ih =>
    intro low high c k h1 h2
    simp only [scaleLoop]
    by_cases hge : high - low ≥ (ms : Int)
    · simp only [hge, if_true]
      by_cases h30 : c + 1 > 30
      · simp only [h30, if_true]
        intro hk
        have : k = 0 := by omega
        subst this
        simpa using hge
      · simp only [h30, if_false]
        intro hk
        cases k with
        | zero => simpa using hge
        | succ k' =>
          have := ih (low >>> 1) (high >>> 1) (c + 1) k' (by omega) (by omega) (by omega)
          rw [← Int.shiftRight_add, ← Int.shiftRight_add] at this
          rw [Nat.add_comm k' 1]
          exact this
    · simp only [hge, if_false]
      intro hk; omega

/-- `scaleChange` returning more than `k`: the window is not empty and the span `high − low` the code looks at
is still at least `maxSize` after `k` halvings -/
theorem scaleChange_gt (ms : Nat) (bin start : Int) (n k : Nat) (h : scaleChange ms bin start n > k) :
    n ≠ 0 ∧
    ((if start ≥ bin then start + (n : Int) - 1 else bin) >>> k) - ((if start ≥ bin then bin else start) >>> k)
      ≥ (ms : Int) := by
  unfold scaleChange at h
  by_cases hn : n = 0
  · simp [hn] at h
  · simp only [hn, if_false] at h
    exact ⟨hn, scaleLoop_gt ms 32 _ _ 0 k (by omega) (by omega) (by omega)⟩

/-! ## the first and the last bucket of a window are non-zero -/

def EndsNZ (b : Buckets) : Prop :=
  b.counts.length ≠ 0 → 0 < Buckets.get b b.start ∧ 0 < Buckets.get b (b.start + (b.counts.length : Int) - 1)

theorem record_start (b : Buckets) (bin : Int) :
    (b.record bin).start = if b.counts.length = 0 then bin else min b.start bin := by
  by_cases h0 : b.counts.length = 0
  · simp [Buckets.record, h0]
  · by_cases hin : bin ≥ b.start ∧ bin ≤ b.start + (b.counts.length : Int) - 1
    · simp only [Buckets.record, h0, hin, if_false, and_self, if_true]; omega
    · by_cases hl : bin < b.start
      · simp only [Buckets.record, h0, hin, hl, if_false, if_true]; omega
      · simp only [Buckets.record, h0, hin, hl, if_false]; omega

theorem EndsNZ.record {b : Buckets} (h : EndsNZ b) (bin : Int) : EndsNZ (b.record bin) := by
  intro _
  have hs := record_start b bin
  by_cases h0 : b.counts.length = 0
  · have hl := (record_len b bin).1 h0
    rw [if_pos h0] at hs
    rw [hl, record_get, record_get, hs]
    simp
  · have hl := (record_len b bin).2 h0
    have he := h h0
    rw [if_neg h0] at hs
    rw [record_get, record_get]
    constructor
    · by_cases hb : (b.record bin).start = bin
      · rw [if_pos hb]; omega
      · have e : (b.record bin).start = b.start := by omega
        rw [e]; omega
    · by_cases hb : (b.record bin).start + ((b.record bin).counts.length : Int) - 1 = bin
      · rw [if_pos hb]; omega
      · have e : (b.record bin).start + ((b.record bin).counts.length : Int) - 1 =
            b.start + (b.counts.length : Int) - 1 := by omega
        rw [e]; omega

theorem le_sumTo (n : Nat) (f : Nat → Nat) (p : Nat) (hp : p < n) : f p ≤ sumTo n f := by
  induction n with
  | zero => omega
  | succ k ih =>
    simp only [sumTo]
    by_cases hk : p = k
    · subst hk; omega
    · have := ih (by omega); omega

theorem EndsNZ.downscale {b : Buckets} (h : EndsNZ b) (δ : Nat) : EndsNZ (b.downscale δ) := by
  intro hn'
  have hn : b.counts.length ≠ 0 := by
    have := downscale_len_le b δ; omega
  have he := h hn
  rw [downscale_len b δ hn, downscale_start, downscale_get, downscale_get]
  constructor
  · have := le_sumTo b.counts.length
      (fun p => if (b.start + (p : Int)) >>> δ = b.start >>> δ then b.counts[p]?.getD 0 else 0) 0 (by omega)
    simp only [Int.natCast_zero, Int.add_zero, if_true] at this
    have e := get_inside b 0
    simp only [Int.natCast_zero, Int.add_zero] at e
    omega
  · have := le_sumTo b.counts.length
      (fun p => if (b.start + (p : Int)) >>> δ =
          b.start >>> δ + ((b.start + (b.counts.length : Int) - 1) >>> δ - b.start >>> δ + 1) - 1
        then b.counts[p]?.getD 0 else 0) (b.counts.length - 1) (by omega)
    have e := get_inside b (b.counts.length - 1)
    have e2 : b.start + ((b.counts.length - 1 : Nat) : Int) = b.start + (b.counts.length : Int) - 1 := by omega
    rw [e2] at e
    simp only [e2] at this
    rw [if_pos (by omega)] at this
    omega

/-! ## `dropsOK` step by step -/

/-- the check `dropsOK` makes for one output, given the outputs before it -/
def dropCheck (ms : Nat) (seen : List Out) : Out → Bool
  | .val neg sb ib _ _ false =>
    let idxs := seen.filterMap (finalIdx neg sb)
    let d := (sb + 10).toNat
    !idxs.isEmpty && decide ((maxI idxs ib >>> d) - (minI idxs ib >>> d) ≥ (ms : Int))
  | _ => true

theorem dropsOK_cons (ms : Nat) (seen : List Out) (o : Out) (r : List Out) :
    dropsOK ms seen (o :: r) = (dropCheck ms seen o && dropsOK ms (seen ++ [o]) r) := by
  cases o with
  | skipped => simp [dropsOK, dropCheck]
  | zero => simp [dropsOK, dropCheck]
  | val n sb ib sa ia rec =>
    cases rec <;> simp [dropsOK, dropCheck]

theorem dropsOK_append (ms : Nat) (a b seen : List Out) :
    dropsOK ms seen (a ++ b) = (dropsOK ms seen a && dropsOK ms (seen ++ a) b) := by
  induction a generalizing seen with
  | nil => simp [dropsOK]
  | cons o r ih =>
    rw [List.cons_append, dropsOK_cons, dropsOK_cons, ih, Bool.and_assoc]
    simp

theorem dropsOK_snoc (ms : Nat) (outs : List Out) (o : Out) :
    dropsOK ms [] (outs ++ [o]) = (dropsOK ms [] outs && dropCheck ms outs o) := by
  rw [dropsOK_append, dropsOK_cons]
  simp [dropsOK]

/-! ## the underflow return -/

/-- the heart: on the scale-underflow return the check of `dropsOK` holds — for every index function, every
`maxSize`, every scale -/
theorem dropCheck_underflow (ms : Nat) (b : Buckets) (idxs : List Int) (bin scale : Int)
    (hplace : ∀ i, Buckets.get b i = idxs.count i) (hends : EndsNZ b)
    (hpos : scaleChange ms bin b.start b.counts.length > 0)
    (hu : scale - ((scaleChange ms bin b.start b.counts.length : Nat) : Int) < expoMinScale) :
    (!idxs.isEmpty && decide ((maxI idxs bin >>> (scale + 10).toNat) - (minI idxs bin >>> (scale + 10).toNat)
      ≥ (ms : Int))) = true := by
  simp only [expoMinScale] at hu
  have hd : scaleChange ms bin b.start b.counts.length > (scale + 10).toNat := by omega
  obtain ⟨hn, hspan⟩ := scaleChange_gt ms bin b.start b.counts.length _ hd
  obtain ⟨h1, h2⟩ := hends hn
  rw [hplace] at h1 h2
  have m1 : b.start ∈ idxs := List.count_pos_iff.mp h1
  have m2 : b.start + (b.counts.length : Int) - 1 ∈ idxs := List.count_pos_iff.mp h2
  have hne : idxs.isEmpty = false := by
    cases idxs with
    | nil => simp at m1
    | cons _ _ => rfl
  have hmin := minI_le idxs bin
  have hmax := le_maxI idxs bin
  have a1 := hmin.2 _ m1
  have a2 := hmax.2 _ m2
  simp only [hne, Bool.not_false, Bool.true_and, decide_eq_true_eq]
  by_cases hsb : b.start ≥ bin
  · simp only [hsb, if_true] at hspan
    have s1 := shr_mono _ _ (scale + 10).toNat hmin.1
    have s2 := shr_mono _ _ (scale + 10).toNat a2
    omega
  · simp only [hsb, if_false] at hspan
    have s1 := shr_mono _ _ (scale + 10).toNat a1
    have s2 := shr_mono _ _ (scale + 10).toNat hmax.1
    omega

/-! ## the run-level invariant -/

structure DInv (ms : Nat) (p : Expo) (outs : List Out) : Prop where
  pinv : PInv p outs
  ends : ∀ sg, EndsNZ (p.bucketOf sg)
  drops : dropsOK ms [] outs = true

theorem DInv.init (ms : Nat) (maxScale : Int) : DInv ms (Expo.init maxScale) [] := by
  refine ⟨PInv.init maxScale, ?_, rfl⟩
  intro sg h
  cases sg <;> simp [Expo.init, Expo.bucketOf] at h

theorem DInv.skip {ms : Nat} {p : Expo} {outs : List Out} (h : DInv ms p outs) :
    DInv ms p (outs ++ [Out.skipped]) :=
  ⟨h.pinv.skip, h.ends, by rw [dropsOK_snoc, h.drops]; rfl⟩

theorem recordBin_bucketOf (p : Expo) (v : Val) (bin : Int) (sg : Bool) :
    (p.recordBin v bin).bucketOf sg = if v.neg = sg then (p.bucketOf sg).record bin else p.bucketOf sg := by
  simp only [Expo.recordBin, Expo.countMinMaxSum, Expo.bucketOf]
  cases hn : v.neg <;> cases sg <;> simp

theorem rescale_bucketOf (p : Expo) (δ : Nat) (sg : Bool) :
    (p.rescale δ).bucketOf sg = (p.bucketOf sg).downscale δ := by
  cases sg <;> simp [Expo.rescale, Expo.bucketOf]

theorem ends_recordBin {p : Expo} (h : ∀ sg, EndsNZ (p.bucketOf sg)) (v : Val) (bin : Int) :
    ∀ sg, EndsNZ ((p.recordBin v bin).bucketOf sg) := by
  intro sg
  rw [recordBin_bucketOf]
  split
  · exact (h sg).record bin
  · exact h sg

theorem ends_rescale {p : Expo} (h : ∀ sg, EndsNZ (p.bucketOf sg)) (δ : Nat) :
    ∀ sg, EndsNZ ((p.rescale δ).bucketOf sg) := by
  intro sg
  rw [rescale_bucketOf]
  exact (h sg).downscale δ

/-- one `record` keeps the invariant — for every index function `L` -/
theorem DInv.step (L : Int → Val → Int) (ms : Nat) {p : Expo} {outs : List Out} (h : DInv ms p outs) (v : Val) :
    DInv ms (record L ms p v).1 (outs ++ [(record L ms p v).2]) := by
  refine ⟨h.pinv.step L ms v, ?_, ?_⟩
  · unfold record
    by_cases hz : v.mant = 0
    · simp only [hz, if_true]
      intro sg
      have : ({ p.countMinMaxSum v with zero := p.zero + 1 } : Expo).bucketOf sg = p.bucketOf sg := by
        cases sg <;> rfl
      rw [this]; exact h.ends sg
    · simp only [hz, if_false]
      split
      · split
        · exact h.ends
        · exact ends_recordBin (ends_rescale h.ends _) v _
      · exact ends_recordBin h.ends v _
  · rw [dropsOK_snoc, h.drops, Bool.true_and]
    unfold record
    by_cases hz : v.mant = 0
    · simp only [hz, if_true]; rfl
    · simp only [hz, if_false]
      split
      · rename_i hpos
        split
        · rename_i hu
          exact dropCheck_underflow ms (p.bucketOf v.neg) _ _ p.scale (h.pinv.place v.neg) (h.ends v.neg) hpos hu
        · rfl
      · rfl

theorem run_DInv (L : Int → Val → Int) (ms : Nat) (maxScale : Int) (vs : List (Option Val)) :
    DInv ms (run L ms maxScale vs).1 (run L ms maxScale vs).2 :=
  run_inv2 L ms (DInv ms) (fun _ _ h => h.skip) (fun _ _ v h => h.step L ms v) vs _ _ (DInv.init ms maxScale)

end Otel.C07
