/-
C07 — helper lemmas for Props.lean (core Lean only).
-/
import Otel.C07.Spec
namespace Otel.C07
open Spec

/-! ## explicit-bucket histogram -/

def histStep (bounds : List Int) (h : Hist) (v : Int) : Hist := (h.bin (searchIdx bounds v) v).addSum v

theorem histMeasure_some (bounds : List Int) (h : Hist) (v : Int) :
    histMeasure bounds (some h) v = some (histStep bounds h v) := rfl

theorem histMeasure_none (bounds : List Int) (v : Int) :
    histMeasure bounds none v = some (histStep bounds (Hist.new bounds.length v) v) := rfl

theorem fold_some (bounds : List Int) (vs : List Int) (h : Hist) :
    vs.foldl (histMeasure bounds) (some h) = some (vs.foldl (histStep bounds) h) := by
  induction vs generalizing h with
  | nil => rfl
  | cons v r ih => simp [List.foldl_cons, histMeasure_some, ih]

theorem searchIdx_le (bounds : List Int) (v : Int) : searchIdx bounds v ≤ bounds.length := by
  induction bounds with
  | nil => simp [searchIdx]
  | cons b bs ih => simp only [searchIdx]; split <;> simp <;> omega

theorem fold_len (bounds : List Int) (vs : List Int) (h : Hist) :
    (vs.foldl (histStep bounds) h).counts.length = h.counts.length := by
  induction vs generalizing h with
  | nil => rfl
  | cons v r ih => simp [List.foldl_cons, ih, histStep, Hist.bin, Hist.addSum]

theorem fold_count (bounds : List Int) (vs : List Int) (h : Hist) :
    (vs.foldl (histStep bounds) h).count = h.count + vs.length := by
  induction vs generalizing h with
  | nil => rfl
  | cons v r ih => simp [List.foldl_cons, ih, histStep, Hist.bin, Hist.addSum]; omega

theorem fold_total (bounds : List Int) (vs : List Int) (h : Hist) :
    (vs.foldl (histStep bounds) h).total = h.total + vs.sum := by
  induction vs generalizing h with
  | nil => simp
  | cons v r ih => simp [List.foldl_cons, ih, histStep, Hist.bin, Hist.addSum]; omega

theorem getD_modify_succ (l : List Nat) (i j : Nat) (hi : i < l.length) :
    (l.modify i (· + 1)).getD j 0 = l.getD j 0 + (if i = j then 1 else 0) := by
  simp only [List.getD_eq_getElem?_getD, List.getElem?_modify]
  by_cases hij : i = j
  · subst hij; simp [List.getElem?_eq_getElem hi]
  · simp [hij]

theorem sum_modify_succ (l : List Nat) (i : Nat) (hi : i < l.length) :
    (l.modify i (· + 1)).sum = l.sum + 1 := by
  induction l generalizing i with
  | nil => simp at hi
  | cons a r ih =>
    cases i with
    | zero => simp [List.modify_cons]; omega
    | succ k =>
      simp only [List.length_cons] at hi
      simp [ih k (by omega)]; omega

theorem fold_get (bounds : List Int) (vs : List Int) (h : Hist) (hl : h.counts.length = bounds.length + 1) (i : Nat) :
    (vs.foldl (histStep bounds) h).counts.getD i 0 =
      h.counts.getD i 0 + vs.countP (fun v => searchIdx bounds v == i) := by
  induction vs generalizing h with
  | nil => simp
  | cons v r ih =>
    have hlt : searchIdx bounds v < h.counts.length := by have := searchIdx_le bounds v; omega
    have hl' : (histStep bounds h v).counts.length = bounds.length + 1 := by
      simp [histStep, Hist.bin, Hist.addSum, hl]
    rw [List.foldl_cons, ih _ hl']
    have : (histStep bounds h v).counts = h.counts.modify (searchIdx bounds v) (· + 1) := rfl
    rw [this, getD_modify_succ _ _ _ hlt, List.countP_cons]
    by_cases hij : searchIdx bounds v = i <;> simp [hij] <;> omega

theorem fold_sum (bounds : List Int) (vs : List Int) (h : Hist) (hl : h.counts.length = bounds.length + 1) :
    (vs.foldl (histStep bounds) h).counts.sum = h.counts.sum + vs.length := by
  induction vs generalizing h with
  | nil => simp
  | cons v r ih =>
    have hlt : searchIdx bounds v < h.counts.length := by have := searchIdx_le bounds v; omega
    have hl' : (histStep bounds h v).counts.length = bounds.length + 1 := by
      simp [histStep, Hist.bin, Hist.addSum, hl]
    rw [List.foldl_cons, ih _ hl']
    have : (histStep bounds h v).counts = h.counts.modify (searchIdx bounds v) (· + 1) := rfl
    rw [this, sum_modify_succ _ _ hlt]; simp; omega

theorem fold_minmax (bounds : List Int) (vs : List Int) (h : Hist) (hm : h.min ≤ h.max) :
    (vs.foldl (histStep bounds) h).min = vs.foldl min h.min ∧
    (vs.foldl (histStep bounds) h).max = vs.foldl max h.max := by
  induction vs generalizing h with
  | nil => simp
  | cons v r ih =>
    have h1 : (histStep bounds h v).min = min h.min v := by
      simp only [histStep, Hist.bin, Hist.addSum]; split <;> omega
    have h2 : (histStep bounds h v).max = max h.max v := by
      simp only [histStep, Hist.bin, Hist.addSum]; split
      · omega
      · split <;> omega
    have hm' : (histStep bounds h v).min ≤ (histStep bounds h v).max := by rw [h1, h2]; omega
    rw [List.foldl_cons, List.foldl_cons, List.foldl_cons]
    have := ih _ hm'
    rw [h1, h2] at this
    exact this


/-! ### sorting and the bucket of a value -/

theorem isSorted_cons (a : Int) (l : List Int) :
    isSorted (a :: l) = true ↔ (∀ x ∈ l, a ≤ x) ∧ isSorted l = true := by
  induction l generalizing a with
  | nil => simp [isSorted]
  | cons b r ih =>
    simp only [isSorted, Bool.and_eq_true, decide_eq_true_eq, List.mem_cons, forall_eq_or_imp]
    rw [ih b]
    constructor
    · rintro ⟨hab, hb, hs⟩
      exact ⟨⟨hab, fun x hx => by have := hb x hx; omega⟩, hb, hs⟩
    · rintro ⟨⟨hab, _⟩, hb, hs⟩
      exact ⟨hab, hb, hs⟩

theorem mem_insertSorted (x y : Int) (l : List Int) : y ∈ insertSorted x l ↔ y = x ∨ y ∈ l := by
  induction l with
  | nil => simp [insertSorted]
  | cons b r ih =>
    simp only [insertSorted]; split
    · simp
    · simp [ih]; constructor <;> (intro h; rcases h with h | h | h <;> simp [h])

theorem insertSorted_sorted (x : Int) (l : List Int) (h : isSorted l = true) :
    isSorted (insertSorted x l) = true := by
  induction l with
  | nil => simp [insertSorted, isSorted]
  | cons b r ih =>
    simp only [insertSorted]
    rw [isSorted_cons] at h
    split
    · rename_i hxb
      rw [isSorted_cons]
      refine ⟨?_, by rw [isSorted_cons]; exact h⟩
      intro y hy
      simp only [List.mem_cons] at hy
      rcases hy with hy | hy
      · omega
      · have := h.1 y hy; omega
    · rename_i hxb
      rw [isSorted_cons]
      refine ⟨?_, ih h.2⟩
      intro y hy
      rw [mem_insertSorted] at hy
      rcases hy with hy | hy
      · omega
      · exact h.1 y hy

theorem sortBounds_sorted (l : List Int) : isSorted (sortBounds l) = true := by
  induction l with
  | nil => rfl
  | cons a r ih => exact insertSorted_sorted a _ ih

theorem length_insertSorted (x : Int) (l : List Int) : (insertSorted x l).length = l.length + 1 := by
  induction l with
  | nil => rfl
  | cons b r ih => simp only [insertSorted]; split <;> simp [ih]

theorem count_insertSorted (x b : Int) (l : List Int) : (insertSorted x l).count b = (x :: l).count b := by
  induction l with
  | nil => rfl
  | cons c r ih =>
    simp only [insertSorted]; split
    · rfl
    · simp only [List.count_cons] at ih ⊢; omega

theorem sortBounds_length (l : List Int) : (sortBounds l).length = l.length := by
  induction l with
  | nil => rfl
  | cons a r ih => simp [sortBounds, length_insertSorted] at ih ⊢; exact ih

theorem sortBounds_count (l : List Int) (b : Int) : (sortBounds l).count b = l.count b := by
  induction l with
  | nil => rfl
  | cons a r ih =>
    have : sortBounds (a :: r) = insertSorted a (sortBounds r) := rfl
    rw [this, count_insertSorted]; simp only [List.count_cons, ih]

theorem inBucket_cons_succ (b : Int) (bs : List Int) (k : Nat) (v : Int) (hb : b < v) :
    inBucket (b :: bs) (k + 1) v = inBucket bs k v := by
  cases k with
  | zero => simp [inBucket, hb]; cases bs <;> simp
  | succ j => simp [inBucket]

theorem inBucket_iff (bounds : List Int) (hs : isSorted bounds = true) (i : Nat) (v : Int) :
    inBucket bounds i v = true ↔ i = searchIdx bounds v := by
  induction bounds generalizing i with
  | nil =>
    cases i with
    | zero => simp [inBucket, searchIdx]
    | succ k => simp [inBucket, searchIdx]
  | cons b bs ih =>
    rw [isSorted_cons] at hs
    simp only [searchIdx]
    by_cases hbv : b ≥ v
    · simp only [hbv, if_true]
      cases i with
      | zero => simp [inBucket]; omega
      | succ k =>
        simp only [Nat.add_one_ne_zero, iff_false, Bool.not_eq_true]
        have : ∀ x, (b :: bs)[k]? = some x → ¬ x < v := by
          intro x hx
          have hm : x ∈ b :: bs := List.mem_of_getElem? hx
          simp only [List.mem_cons] at hm
          rcases hm with hm | hm
          · omega
          · have := hs.1 x hm; omega
        simp only [inBucket, Nat.add_sub_cancel]
        cases hx : (b :: bs)[k]? with
        | none => simp
        | some x => simp [this x hx]
    · simp only [hbv, if_false]
      cases i with
      | zero => simp [inBucket]; omega
      | succ k =>
        rw [inBucket_cons_succ b bs k v (by omega), ih hs.2 k]
        omega

/-! ## exponential histogram: runs -/

theorem foldl_measure_acc (L : Int → Val → Int) (ms : Nat) (vs : List (Option Val)) (p : Expo) (acc : List Out) :
    vs.foldl (measure L ms) (p, acc) =
      ((vs.foldl (measure L ms) (p, [])).1, acc ++ (vs.foldl (measure L ms) (p, [])).2) := by
  induction vs generalizing p acc with
  | nil => simp
  | cons v r ih =>
    simp only [List.foldl_cons]
    cases v with
    | none =>
      simp only [measure]
      rw [ih p (acc ++ [Out.skipped]), ih p ([] ++ [Out.skipped])]
      simp
    | some v =>
      simp only [measure]
      rw [ih _ (acc ++ [_]), ih _ ([] ++ [_])]
      simp

theorem runFrom_nil (L : Int → Val → Int) (ms : Nat) (p : Expo) : runFrom L ms p [] = (p, []) := rfl

theorem runFrom_none (L : Int → Val → Int) (ms : Nat) (p : Expo) (vs : List (Option Val)) :
    runFrom L ms p (none :: vs) = ((runFrom L ms p vs).1, Out.skipped :: (runFrom L ms p vs).2) := by
  simp only [runFrom, List.foldl_cons, measure]
  rw [foldl_measure_acc]; simp

theorem runFrom_some (L : Int → Val → Int) (ms : Nat) (p : Expo) (v : Val) (vs : List (Option Val)) :
    runFrom L ms p (some v :: vs) =
      ((runFrom L ms (record L ms p v).1 vs).1, (record L ms p v).2 :: (runFrom L ms (record L ms p v).1 vs).2) := by
  simp only [runFrom, List.foldl_cons, measure]
  rw [foldl_measure_acc]; simp

/-- invariants of `record` are invariants of every run -/
theorem run_inv (L : Int → Val → Int) (ms : Nat) (I : Expo → Prop)
    (hstep : ∀ p v, I p → I (record L ms p v).1) (p : Expo) (h0 : I p) (vs : List (Option Val)) :
    I (runFrom L ms p vs).1 := by
  induction vs generalizing p with
  | nil => exact h0
  | cons v r ih =>
    cases v with
    | none => rw [runFrom_none]; exact ih p h0
    | some v => rw [runFrom_some]; exact ih _ (hstep p v h0)

/-- what `record` does to the scale, and the shape of its output -/
theorem record_scale (L : Int → Val → Int) (ms : Nat) (p : Expo) (v : Val) :
    ((record L ms p v).2 = Out.zero ∧ (record L ms p v).1.scale = p.scale) ∨
    (∃ ib ia r, (record L ms p v).2 = Out.val v.neg p.scale ib (record L ms p v).1.scale ia r ∧
      (record L ms p v).1.scale ≤ p.scale ∧ (-10 ≤ p.scale → -10 ≤ (record L ms p v).1.scale)) := by
  unfold record
  by_cases hz : v.mant = 0
  · left; simp [hz, Expo.countMinMaxSum]
  · right
    simp only [hz, if_false]
    by_cases hd : scaleChange ms (getBin L p.scale v) (p.bucketOf v.neg).start (p.bucketOf v.neg).counts.length > 0
    · simp only [hd, if_true]
      by_cases hu : p.scale - ((scaleChange ms (getBin L p.scale v) (p.bucketOf v.neg).start (p.bucketOf v.neg).counts.length : Nat) : Int) < expoMinScale
      · simp only [hu, if_true]
        exact ⟨_, _, _, rfl, by omega, fun h => h⟩
      · simp only [hu, if_false]
        have hs : ∀ δ bin, ((p.rescale δ).recordBin v bin).scale = p.scale - (δ : Int) := by
          intro δ bin; simp only [Expo.recordBin, Expo.rescale, Expo.countMinMaxSum]; split <;> rfl
        rw [hs]
        simp only [expoMinScale] at hu
        exact ⟨_, _, _, rfl, by omega, fun _ => by omega⟩
    · simp only [hd, if_false]
      have hs : ∀ bin, (p.recordBin v bin).scale = p.scale := by
        intro bin; simp only [Expo.recordBin, Expo.countMinMaxSum]; split <;> rfl
      rw [hs]
      exact ⟨_, _, _, rfl, by omega, fun h => h⟩


/-! ## sums -/

theorem sumTo_congr (n : Nat) (f g : Nat → Nat) (h : ∀ p, p < n → f p = g p) : sumTo n f = sumTo n g := by
  induction n with
  | zero => rfl
  | succ k ih =>
    simp only [sumTo]
    rw [ih (fun p hp => h p (by omega)), h k (by omega)]

theorem sumTo_add (n : Nat) (f g : Nat → Nat) : sumTo n (fun p => f p + g p) = sumTo n f + sumTo n g := by
  induction n with
  | zero => rfl
  | succ k ih => simp only [sumTo, ih]; omega

theorem sumTo_zero (n : Nat) : sumTo n (fun _ => 0) = 0 := by
  induction n with
  | zero => rfl
  | succ k ih => simp [sumTo, ih]

theorem sumTo_comm (n m : Nat) (F : Nat → Nat → Nat) :
    sumTo n (fun k => sumTo m (fun p => F k p)) = sumTo m (fun p => sumTo n (fun k => F k p)) := by
  induction n with
  | zero => simp [sumTo, sumTo_zero]
  | succ k ih => simp only [sumTo, ih, sumTo_add]

theorem sumTo_indicator (n k0 a : Nat) (h : k0 < n) : sumTo n (fun k => if k0 = k then a else 0) = a := by
  induction n with
  | zero => omega
  | succ k ih =>
    simp only [sumTo]
    by_cases hk : k0 = k
    · subst hk
      rw [sumTo_congr k0 _ (fun _ => 0) (fun p hp => by simp; omega), sumTo_zero]; simp
    · rw [ih (by omega)]; simp [hk]

theorem sumTo_succ_front (n : Nat) (f : Nat → Nat) : sumTo (n + 1) f = f 0 + sumTo n (fun p => f (p + 1)) := by
  induction n with
  | zero => simp [sumTo]
  | succ k ih =>
    have : sumTo (k + 1 + 1) f = sumTo (k + 1) f + f (k + 1) := rfl
    rw [this, ih]; simp only [sumTo]; omega

theorem sum_eq_sumTo (l : List Nat) : l.sum = sumTo l.length (fun p => l[p]?.getD 0) := by
  induction l with
  | nil => rfl
  | cons a r ih =>
    rw [List.length_cons, sumTo_succ_front, List.sum_cons, ih]
    simp

theorem map_range_sum (n : Nat) (h : Nat → Nat) : ((List.range n).map h).sum = sumTo n h := by
  induction n with
  | zero => rfl
  | succ k ih => simp [List.range_succ, sumTo, ih]

/-- `downscale` keeps the total -/
theorem downscale_sum (b : Buckets) (δ : Nat) : (b.downscale δ).counts.sum = b.counts.sum := by
  unfold Buckets.downscale
  split
  · rfl
  · rename_i hc
    simp only [map_range_sum, List.getElem?_toArray]
    rw [sumTo_comm]
    rw [sum_eq_sumTo b.counts]
    apply sumTo_congr
    intro p hp
    have hpos : 0 < 2 ^ δ := Nat.two_pow_pos δ
    have hlt : (p + (b.start % ((2 ^ δ : Nat) : Int)).toNat) / 2 ^ δ <
        (b.counts.length - 1 + (b.start % ((2 ^ δ : Nat) : Int)).toNat) / 2 ^ δ + 1 := by
      have : (p + (b.start % ((2 ^ δ : Nat) : Int)).toNat) / 2 ^ δ ≤
          (b.counts.length - 1 + (b.start % ((2 ^ δ : Nat) : Int)).toNat) / 2 ^ δ :=
        Nat.div_le_div_right (by omega)
      omega
    exact sumTo_indicator _ _ _ hlt

theorem sum_replicate_zero' (n : Nat) : (List.replicate n 0).sum = 0 := by
  induction n with
  | zero => rfl
  | succ k ih => simp [List.replicate_succ, ih]

/-- `expoBuckets.record` adds exactly one -/
theorem record_sum (b : Buckets) (bin : Int) : (b.record bin).counts.sum = b.counts.sum + 1 := by
  by_cases h0 : b.counts.length = 0
  · have : b.counts = [] := List.eq_nil_of_length_eq_zero h0
    simp [Buckets.record, this]
  · by_cases hin : bin ≥ b.start ∧ bin ≤ b.start + (b.counts.length : Int) - 1
    · simp only [Buckets.record, h0, hin, if_false, and_self, if_true]
      exact sum_modify_succ _ _ (by omega)
    · by_cases hl : bin < b.start
      · simp only [Buckets.record, h0, hin, hl, if_false, if_true]
        simp; omega
      · simp only [Buckets.record, h0, hin, hl, if_false]
        simp


theorem recordBin_fields (p : Expo) (v : Val) (bin : Int) :
    (p.recordBin v bin).count = p.count + 1 ∧ (p.recordBin v bin).zero = p.zero ∧
    (p.recordBin v bin).scale = p.scale ∧
    (p.recordBin v bin).pos.counts.sum + (p.recordBin v bin).neg.counts.sum =
      p.pos.counts.sum + p.neg.counts.sum + 1 := by
  unfold Expo.recordBin
  split <;> simp [Expo.countMinMaxSum, record_sum] <;> omega

theorem rescale_fields (p : Expo) (δ : Nat) :
    (p.rescale δ).count = p.count ∧ (p.rescale δ).zero = p.zero ∧
    (p.rescale δ).pos.counts.sum = p.pos.counts.sum ∧ (p.rescale δ).neg.counts.sum = p.neg.counts.sum := by
  simp [Expo.rescale, downscale_sum]

theorem record_countOK (L : Int → Val → Int) (ms : Nat) (p : Expo) (v : Val) (h : countOK p = true) :
    countOK (record L ms p v).1 = true := by
  simp only [countOK, beq_iff_eq] at h ⊢
  unfold record
  by_cases hz : v.mant = 0
  · simp [hz, Expo.countMinMaxSum]; omega
  · simp only [hz, if_false]
    split
    · split
      · exact h
      · have h1 := recordBin_fields (p.rescale (scaleChange ms (getBin L p.scale v) (p.bucketOf v.neg).start (p.bucketOf v.neg).counts.length)) v
          (getBin L (p.scale - ((scaleChange ms (getBin L p.scale v) (p.bucketOf v.neg).start (p.bucketOf v.neg).counts.length : Nat) : Int)) v)
        have h2 := rescale_fields p (scaleChange ms (getBin L p.scale v) (p.bucketOf v.neg).start (p.bucketOf v.neg).counts.length)
        simp only [] at h1 h2 ⊢
        omega
    · have h1 := recordBin_fields p v (getBin L p.scale v)
      simp only [] at h1 ⊢
      omega

theorem chain_run (L : Int → Val → Int) (ms : Nat) (p : Expo) (vs : List (Option Val)) :
    chainOK p.scale (runFrom L ms p vs).2 (runFrom L ms p vs).1.scale = true := by
  induction vs generalizing p with
  | nil => simp [runFrom_nil, chainOK]
  | cons v r ih =>
    cases v with
    | none => rw [runFrom_none]; simp only [chainOK]; exact ih p
    | some v =>
      rw [runFrom_some]
      rcases record_scale L ms p v with ⟨ho, hs⟩ | ⟨ib, ia, rr, ho, hle, _⟩
      · rw [ho]; simp only [chainOK]; rw [← hs]; exact ih _
      · rw [ho]; simp only [chainOK, beq_self_eq_true, Bool.true_and, Bool.and_eq_true, decide_eq_true_eq]
        exact ⟨hle, ih _⟩


/-! ## window arithmetic -/

theorem shr_mono (a b : Int) (δ : Nat) (h : a ≤ b) : a >>> δ ≤ b >>> δ := by
  rw [Int.shiftRight_eq_div_pow, Int.shiftRight_eq_div_pow]
  exact Int.ediv_le_ediv (by exact_mod_cast Nat.two_pow_pos δ) h

theorem scaleLoop_spec (ms : Nat) : ∀ (fuel : Nat) (low high : Int) (c : Nat), c + fuel ≥ 32 → c ≤ 30 →
    c ≤ scaleLoop ms fuel low high c ∧ scaleLoop ms fuel low high c ≤ 31 ∧
    (scaleLoop ms fuel low high c ≤ 30 →
      (high >>> (scaleLoop ms fuel low high c - c)) - (low >>> (scaleLoop ms fuel low high c - c)) < (ms : Int)) := by
  intro fuel
  induction fuel with
  | zero => intro low high c h1 h2; omega
  | succ f ih =>
    intro low high c h1 h2
    simp only [scaleLoop]
    by_cases hge : high - low ≥ (ms : Int)
    · simp only [hge, if_true]
      by_cases h30 : c + 1 > 30
      · simp only [h30, if_true]
        refine ⟨by omega, by omega, by omega⟩
      · simp only [h30, if_false]
        have := ih (low >>> 1) (high >>> 1) (c + 1) (by omega) (by omega)
        refine ⟨by omega, this.2.1, ?_⟩
        intro hle
        have h3 := this.2.2 hle
        have e : scaleLoop ms f (low >>> 1) (high >>> 1) (c + 1) - c =
            1 + (scaleLoop ms f (low >>> 1) (high >>> 1) (c + 1) - (c + 1)) := by omega
        rw [e, Int.shiftRight_add, Int.shiftRight_add]
        exact h3
    · simp only [hge, if_false]
      refine ⟨by omega, by omega, ?_⟩
      intro _
      simp only [Nat.sub_self, Int.shiftRight_zero]
      omega

/-- the result of `scaleChange`: at most 31, and when it is at most 30 the relevant span fits after shifting -/
theorem scaleChange_spec (ms : Nat) (bin start : Int) (n : Nat) (hn : n ≠ 0) :
    scaleChange ms bin start n ≤ 31 ∧
    (scaleChange ms bin start n ≤ 30 →
      (start ≥ bin → ((start + (n : Int) - 1) >>> scaleChange ms bin start n) -
          (bin >>> scaleChange ms bin start n) < (ms : Int)) ∧
      (¬ start ≥ bin → (bin >>> scaleChange ms bin start n) - (start >>> scaleChange ms bin start n) < (ms : Int))) := by
  unfold scaleChange
  simp only [hn, if_false]
  have := scaleLoop_spec ms 32 (if start ≥ bin then bin else start) (if start ≥ bin then start + (n : Int) - 1 else bin) 0
    (by omega) (by omega)
  refine ⟨this.2.1, ?_⟩
  intro hle
  have h3 := this.2.2 hle
  simp only [Nat.sub_zero] at h3
  by_cases hsb : start ≥ bin
  · simp only [hsb, if_true] at h3 ⊢
    exact ⟨fun _ => h3, fun h => absurd trivial h⟩
  · simp only [hsb, if_false] at h3 ⊢
    exact ⟨fun h => absurd h (by simp), fun _ => h3⟩

theorem record_len (b : Buckets) (bin : Int) :
    (b.counts.length = 0 → (b.record bin).counts.length = 1) ∧
    (b.counts.length ≠ 0 → ((b.record bin).counts.length : Int) =
      max (b.start + (b.counts.length : Int) - 1) bin - min b.start bin + 1) := by
  constructor
  · intro h0; simp [Buckets.record, h0]
  · intro h0
    by_cases hin : bin ≥ b.start ∧ bin ≤ b.start + (b.counts.length : Int) - 1
    · simp only [Buckets.record, h0, hin, if_false, and_self, if_true, List.length_modify]
      rw [Int.max_eq_left (by omega), Int.min_eq_left (by omega)]; omega
    · by_cases hl : bin < b.start
      · simp only [Buckets.record, h0, hin, hl, if_false, if_true]
        simp only [List.length_cons, List.length_append, List.length_replicate]
        rw [Int.max_eq_left (by omega), Int.min_eq_right (by omega)]; omega
      · simp only [Buckets.record, h0, hin, hl, if_false]
        simp only [List.length_cons, List.length_append, List.length_replicate, List.length_nil]
        rw [Int.max_eq_right (by omega), Int.min_eq_left (by omega)]; omega

theorem downscale_start (b : Buckets) (δ : Nat) : (b.downscale δ).start = b.start >>> δ := by
  unfold Buckets.downscale; split <;> rfl

theorem downscale_len_le (b : Buckets) (δ : Nat) : (b.downscale δ).counts.length ≤ b.counts.length := by
  unfold Buckets.downscale
  split
  · exact Nat.le_refl _
  · rename_i hc
    simp only [List.length_map, List.length_range]
    have hpos : 0 < 2 ^ δ := Nat.two_pow_pos δ
    have hoff : (b.start % ((2 ^ δ : Nat) : Int)).toNat < 2 ^ δ := by
      have := Int.emod_lt_of_pos b.start (show (0 : Int) < ((2 ^ δ : Nat) : Int) by exact_mod_cast hpos)
      have := Int.emod_nonneg b.start (show ((2 ^ δ : Nat) : Int) ≠ 0 by exact_mod_cast (Nat.ne_of_gt hpos))
      omega
    have h1 : b.counts.length - 1 ≤ 2 ^ δ * (b.counts.length - 1) := Nat.le_mul_of_pos_left _ hpos
    have h2 : 2 ^ δ * b.counts.length = 2 ^ δ * (b.counts.length - 1) + 2 ^ δ := by
      rw [← Nat.mul_succ]; congr 1; omega
    have : (b.counts.length - 1 + (b.start % ((2 ^ δ : Nat) : Int)).toNat) / 2 ^ δ < b.counts.length :=
      Nat.div_lt_of_lt_mul (by omega)
    omega

theorem downscale_len (b : Buckets) (δ : Nat) (hn : b.counts.length ≠ 0) :
    ((b.downscale δ).counts.length : Int) =
      ((b.start + (b.counts.length : Int) - 1) >>> δ) - (b.start >>> δ) + 1 := by
  unfold Buckets.downscale
  split
  · rename_i hc
    rcases hc with hc | hc
    · have : b.counts.length = 1 := by omega
      simp [this]
    · have : δ = 0 := by omega
      subst this; simp; omega
  · rename_i hc
    simp only [List.length_map, List.length_range, Int.shiftRight_eq_div_pow]
    have hpos : 0 < 2 ^ δ := Nat.two_pow_pos δ
    have hS : (0 : Int) < ((2 ^ δ : Nat) : Int) := by exact_mod_cast hpos
    have hr0 := Int.emod_nonneg b.start (Int.ne_of_gt hS)
    have hdm := Int.mul_ediv_add_emod b.start ((2 ^ δ : Nat) : Int)
    have e1 : b.start + (b.counts.length : Int) - 1 =
        (b.start % ((2 ^ δ : Nat) : Int) + ((b.counts.length : Int) - 1)) + ((2 ^ δ : Nat) : Int) * (b.start / ((2 ^ δ : Nat) : Int)) := by
      omega
    rw [e1, Int.add_mul_ediv_left _ _ (Int.ne_of_gt hS)]
    have e2 : b.start % ((2 ^ δ : Nat) : Int) + ((b.counts.length : Int) - 1) =
        ((b.counts.length - 1 + (b.start % ((2 ^ δ : Nat) : Int)).toNat : Nat) : Int) := by omega
    rw [e2, ← Int.natCast_ediv]
    omega


/-! ## size bound -/

/-- the index function is consistent across scales: the index at a lower scale is the shifted index. True of
the exact index and of the integer computation used for non-positive scales; for the float computation of
the positive scales it is observed by the harness on every run (tag `incoherent` if it ever fails). -/
def Coherent (L : Int → Val → Int) : Prop :=
  ∀ (s : Int) (δ : Nat) (v : Val), getBin L (s - (δ : Int)) v = getBin L s v >>> δ

theorem downscale_zero (b : Buckets) : b.downscale 0 = b := by
  unfold Buckets.downscale; simp

theorem bucket_step (ms : Nat) (hms : 1 ≤ ms) (b : Buckets) (bin : Int) (hb : b.counts.length ≤ ms)
    (hδ : scaleChange ms bin b.start b.counts.length ≤ 30) :
    ((b.downscale (scaleChange ms bin b.start b.counts.length)).record
      (bin >>> scaleChange ms bin b.start b.counts.length)).counts.length ≤ ms := by
  by_cases hn : b.counts.length = 0
  · have hl := downscale_len_le b (scaleChange ms bin b.start b.counts.length)
    have := (record_len (b.downscale (scaleChange ms bin b.start b.counts.length))
      (bin >>> scaleChange ms bin b.start b.counts.length)).1 (by omega)
    omega
  · have hspec := (scaleChange_spec ms bin b.start b.counts.length hn).2 hδ
    have hl := downscale_len_le b (scaleChange ms bin b.start b.counts.length)
    have hlen := downscale_len b (scaleChange ms bin b.start b.counts.length) hn
    have hst := downscale_start b (scaleChange ms bin b.start b.counts.length)
    have hm1 := shr_mono b.start (b.start + (b.counts.length : Int) - 1) (scaleChange ms bin b.start b.counts.length) (by omega)
    have hn' : (b.downscale (scaleChange ms bin b.start b.counts.length)).counts.length ≠ 0 := by omega
    have hr := (record_len (b.downscale (scaleChange ms bin b.start b.counts.length))
      (bin >>> scaleChange ms bin b.start b.counts.length)).2 hn'
    rw [hst] at hr
    by_cases hsb : b.start ≥ bin
    · have h1 := hspec.1 hsb
      have hm2 := shr_mono bin b.start (scaleChange ms bin b.start b.counts.length) hsb
      omega
    · have h1 := hspec.2 hsb
      have hm2 := shr_mono b.start bin (scaleChange ms bin b.start b.counts.length) (by omega)
      omega

theorem record_sizeOK (L : Int → Val → Int) (hL : Coherent L) (ms : Nat) (hms : 1 ≤ ms) (p : Expo) (v : Val)
    (hs : p.scale ≤ 20) (h : sizeOK ms p = true) : sizeOK ms (record L ms p v).1 = true := by
  simp only [sizeOK, Bool.and_eq_true, decide_eq_true_eq] at h ⊢
  unfold record
  by_cases hz : v.mant = 0
  · simp [hz, Expo.countMinMaxSum]; exact h
  · simp only [hz, if_false]
    have hb : (p.bucketOf v.neg).counts.length ≤ ms := by
      unfold Expo.bucketOf; split <;> omega
    have hsp := scaleChange_spec ms (getBin L p.scale v) (p.bucketOf v.neg).start (p.bucketOf v.neg).counts.length
    split
    · rename_i hpos
      split
      · exact h
      · rename_i hu
        simp only [expoMinScale] at hu
        have hn : (p.bucketOf v.neg).counts.length ≠ 0 := by
          intro h0; simp [scaleChange, h0] at hpos
        have hδ : scaleChange ms (getBin L p.scale v) (p.bucketOf v.neg).start (p.bucketOf v.neg).counts.length ≤ 30 := by
          omega
        have step := bucket_step ms hms (p.bucketOf v.neg) (getBin L p.scale v) hb hδ
        rw [hL p.scale _ v]
        have hlp := downscale_len_le p.pos (scaleChange ms (getBin L p.scale v) (p.bucketOf v.neg).start (p.bucketOf v.neg).counts.length)
        have hln := downscale_len_le p.neg (scaleChange ms (getBin L p.scale v) (p.bucketOf v.neg).start (p.bucketOf v.neg).counts.length)
        cases hneg : v.neg
        · simp only [Expo.bucketOf, hneg, Bool.false_eq_true, if_false, if_true] at step hlp hln ⊢
          simp only [Expo.recordBin, hneg, Expo.rescale, Expo.countMinMaxSum, Bool.false_eq_true, if_false]
          exact ⟨step, by omega⟩
        · simp only [Expo.bucketOf, hneg, Bool.false_eq_true, if_false, if_true] at step hlp hln ⊢
          simp only [Expo.recordBin, hneg, Expo.rescale, Expo.countMinMaxSum, if_true]
          exact ⟨by omega, step⟩
    · rename_i hpos
      have h0 : scaleChange ms (getBin L p.scale v) (p.bucketOf v.neg).start (p.bucketOf v.neg).counts.length = 0 := by omega
      have step := bucket_step ms hms (p.bucketOf v.neg) (getBin L p.scale v) hb (by omega)
      rw [h0, downscale_zero, Int.shiftRight_zero] at step
      cases hneg : v.neg
      · simp only [Expo.bucketOf, hneg, Bool.false_eq_true, if_false, if_true] at step ⊢
        simp only [Expo.recordBin, hneg, Expo.countMinMaxSum, Bool.false_eq_true, if_false]
        exact ⟨step, h.2⟩
      · simp only [Expo.bucketOf, hneg, Bool.false_eq_true, if_false, if_true] at step ⊢
        simp only [Expo.recordBin, hneg, Expo.countMinMaxSum, if_true]
        exact ⟨h.1, step⟩

/-- the integer index computation of the non-positive scales is coherent -/
theorem getBin_nonpos_coherent (L : Int → Val → Int) (s : Int) (hs : s ≤ 0) (δ : Nat) (v : Val) :
    getBin L (s - (δ : Int)) v = getBin L s v >>> δ := by
  unfold getBin
  have h1 : s - (δ : Int) ≤ 0 := by omega
  simp only [hs, h1, if_true]
  rw [← Int.shiftRight_add]
  congr 1
  omega


/-! ## per-bucket re-scaling -/

theorem sumTo_single (n k0 : Nat) (g : Nat → Nat) :
    sumTo n (fun p => if p = k0 then g p else 0) = if k0 < n then g k0 else 0 := by
  induction n with
  | zero => simp [sumTo]
  | succ k ih =>
    simp only [sumTo, ih]
    by_cases h1 : k0 < k
    · have : ¬ k = k0 := by omega
      simp [h1, this]; omega
    · by_cases h2 : k = k0
      · subst h2; simp
      · have : ¬ k0 < k + 1 := by omega
        simp [h1, h2, this]

theorem shr_add_nat (start : Int) (δ p : Nat) :
    (start + (p : Int)) >>> δ =
      (start >>> δ) + (((p + (start % ((2 ^ δ : Nat) : Int)).toNat) / 2 ^ δ : Nat) : Int) := by
  simp only [Int.shiftRight_eq_div_pow]
  have hpos : 0 < 2 ^ δ := Nat.two_pow_pos δ
  have hS : (0 : Int) < ((2 ^ δ : Nat) : Int) := by exact_mod_cast hpos
  have hr0 := Int.emod_nonneg start (Int.ne_of_gt hS)
  have hdm := Int.mul_ediv_add_emod start ((2 ^ δ : Nat) : Int)
  have e1 : start + (p : Int) =
      (start % ((2 ^ δ : Nat) : Int) + (p : Int)) + ((2 ^ δ : Nat) : Int) * (start / ((2 ^ δ : Nat) : Int)) := by
    omega
  rw [e1, Int.add_mul_ediv_left _ _ (Int.ne_of_gt hS)]
  have e2 : start % ((2 ^ δ : Nat) : Int) + (p : Int) =
      ((p + (start % ((2 ^ δ : Nat) : Int)).toNat : Nat) : Int) := by omega
  rw [e2, ← Int.natCast_ediv]
  have e3 : ((2 ^ δ : Nat) : Int) * (start / ((2 ^ δ : Nat) : Int)) / ((2 ^ δ : Nat) : Int) = start / ((2 ^ δ : Nat) : Int) :=
    Int.mul_ediv_cancel_left _ (Int.ne_of_gt hS)
  have e4 : (((p + (start % ((2 ^ δ : Nat) : Int)).toNat : Nat) : Int) + ((2 ^ δ : Nat) : Int) * (start / ((2 ^ δ : Nat) : Int))) / ((2 ^ δ : Nat) : Int)
      = ((p + (start % ((2 ^ δ : Nat) : Int)).toNat : Nat) : Int) / ((2 ^ δ : Nat) : Int) + start / ((2 ^ δ : Nat) : Int) :=
    Int.add_mul_ediv_left _ _ (Int.ne_of_gt hS)
  omega

/-- per-bucket form of re-scaling -/
theorem downscale_get (b : Buckets) (δ : Nat) (i : Int) :
    Buckets.get (b.downscale δ) i =
      sumTo b.counts.length (fun p => if (b.start + (p : Int)) >>> δ = i then b.counts[p]?.getD 0 else 0) := by
  have key : ∀ p : Nat, (b.start + (p : Int)) >>> δ = i ↔
      (¬ i < b.start >>> δ ∧ (p + (b.start % ((2 ^ δ : Nat) : Int)).toNat) / 2 ^ δ = (i - b.start >>> δ).toNat) := by
    intro p; rw [shr_add_nat]
    generalize (p + (b.start % ((2 ^ δ : Nat) : Int)).toNat) / 2 ^ δ = q
    omega
  unfold Buckets.downscale
  split
  · -- counts unchanged
    simp only [Buckets.get, List.getD_eq_getElem?_getD]
    by_cases hi : i < b.start >>> δ
    · simp only [hi, if_true]
      rw [sumTo_congr _ _ (fun _ => 0) (fun p _ => by rw [if_neg]; rw [key]; omega), sumTo_zero]
    · simp only [hi, if_false]
      rename_i hc
      have hk : ∀ p, p < b.counts.length → (p + (b.start % ((2 ^ δ : Nat) : Int)).toNat) / 2 ^ δ = p := by
        intro p hp
        rcases hc with hc | hc
        · have hp0 : p = 0 := by omega
          subst hp0
          have hpos : 0 < 2 ^ δ := Nat.two_pow_pos δ
          have := Int.emod_lt_of_pos b.start (show (0 : Int) < ((2 ^ δ : Nat) : Int) by exact_mod_cast hpos)
          have := Int.emod_nonneg b.start (show ((2 ^ δ : Nat) : Int) ≠ 0 by exact_mod_cast (Nat.ne_of_gt hpos))
          rw [Nat.zero_add]; exact Nat.div_eq_of_lt (by omega)
        · have : δ = 0 := by omega
          subst this; simp [Int.emod_one]
      rw [sumTo_congr _ _ (fun p => if p = (i - b.start >>> δ).toNat then b.counts[p]?.getD 0 else 0)
        (fun p hp => by
          by_cases hq : (b.start + (p : Int)) >>> δ = i
          · rw [if_pos hq]; rw [key, hk p hp] at hq; rw [if_pos hq.2]
          · rw [if_neg hq]; rw [key, hk p hp] at hq; rw [if_neg (by omega)])]
      rw [sumTo_single]
      split
      · rfl
      · rw [List.getElem?_eq_none (by omega)]; rfl
  · simp only [Buckets.get, List.getD_eq_getElem?_getD, List.getElem?_toArray]
    by_cases hi : i < b.start >>> δ
    · simp only [hi, if_true]
      rw [sumTo_congr _ _ (fun _ => 0) (fun p _ => by rw [if_neg]; rw [key]; omega), sumTo_zero]
    · simp only [hi, if_false]
      by_cases hk : (i - b.start >>> δ).toNat < (b.counts.length - 1 + (b.start % ((2 ^ δ : Nat) : Int)).toNat) / 2 ^ δ + 1
      · rw [List.getElem?_map, List.getElem?_range hk]
        simp only [Option.map_some, Option.getD_some]
        apply sumTo_congr
        intro p _
        by_cases hq : (b.start + (p : Int)) >>> δ = i
        · rw [if_pos hq]; rw [key] at hq; rw [if_pos hq.2]
        · rw [if_neg hq]; rw [key] at hq; rw [if_neg (by omega)]
      · rw [List.getElem?_eq_none (by rw [List.length_map, List.length_range]; omega)]
        simp only [Option.getD_none]
        rw [sumTo_congr _ _ (fun _ => 0) (fun p hp => by
          rw [if_neg]; rw [key]
          have : (p + (b.start % ((2 ^ δ : Nat) : Int)).toNat) / 2 ^ δ ≤
              (b.counts.length - 1 + (b.start % ((2 ^ δ : Nat) : Int)).toNat) / 2 ^ δ :=
            Nat.div_le_div_right (by omega)
          omega), sumTo_zero]


end Otel.C07
