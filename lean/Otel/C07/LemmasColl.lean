/-
C07 — lemmas about the collection step (Collect.lean): slices, the destination point, the aggregator invariant.
-/
import Otel.C07.Collect
namespace Otel.C07

theorem Slice.reset_len {α : Type} (s : Slice α) (n : Nat) (z : α) : (s.reset n z).vis.length = n := by
  unfold Slice.reset
  split
  · simp
  · rename_i h
    simp only [Slice.cap, Nat.not_lt] at h
    simp [List.length_take]
    omega

theorem Slice.copy_full {α : Type} (s : Slice α) (src : List α) (h : s.vis.length = src.length) :
    (s.copy src).vis = src := by
  unfold Slice.copy
  simp [h, List.drop_eq_nil_of_le (Nat.le_of_eq h)]

theorem writeBuckets_vis (old : Slice Nat) (b : Buckets) : (writeBuckets old b).vis = b.counts := by
  unfold writeBuckets
  exact Slice.copy_full _ _ (Slice.reset_len old _ 0)

theorem writePoint_view (noMinMax noSum : Bool) (old : DPoint) (a : Nat) (p : Expo) :
    (writePoint noMinMax noSum old a p).view = exportPoint noMinMax noSum a p := by
  simp only [writePoint, DPoint.view, exportPoint, writeBuckets_vis]
  cases noMinMax <;> cases noSum <;> rfl

theorem zipWrite_view (noMinMax noSum : Bool) :
    ∀ (ds : List DPoint) (order : List (Nat × Expo)), ds.length = order.length →
      (zipWrite noMinMax noSum ds order).map DPoint.view =
        order.map (fun av => exportPoint noMinMax noSum av.1 av.2)
  | [], [], _ => rfl
  | [], _ :: _, h => by simp at h
  | _ :: _, [], h => by simp at h
  | d :: ds, av :: r, h => by
    simp only [zipWrite, List.map_cons, writePoint_view]
    rw [zipWrite_view noMinMax noSum ds r (by simpa using h)]

theorem collectInto_view (noMinMax noSum : Bool) (order : List (Nat × Expo)) (dest : Slice DPoint) :
    (collectInto noMinMax noSum order dest).vis.map DPoint.view =
      order.map (fun av => exportPoint noMinMax noSum av.1 av.2) := by
  unfold collectInto
  exact zipWrite_view noMinMax noSum _ order (Slice.reset_len dest _ default)

/-! ## the attribute map -/

theorem lookupA_mem : ∀ (vals : List (Nat × Expo)) (a : Nat) (p : Expo), lookupA vals a = some p → (a, p) ∈ vals
  | [], _, _, h => by simp [lookupA] at h
  | (k, q) :: r, a, p, h => by
    unfold lookupA at h
    split at h
    · rename_i hk
      injection h with h
      subst h; subst hk
      exact List.mem_cons_self
    · exact List.mem_cons_of_mem _ (lookupA_mem r a p h)

theorem upsertA_mem : ∀ (vals : List (Nat × Expo)) (a : Nat) (p : Expo) (x : Nat × Expo),
    x ∈ upsertA vals a p → x ∈ vals ∨ x = (a, p)
  | [], a, p, x, h => by simp [upsertA] at h; exact Or.inr h
  | (k, q) :: r, a, p, x, h => by
    unfold upsertA at h
    split at h
    · rename_i hk
      rcases List.mem_cons.mp h with h | h
      · subst hk; exact Or.inr h
      · exact Or.inl (List.mem_cons_of_mem _ h)
    · rcases List.mem_cons.mp h with h | h
      · exact Or.inl (h ▸ List.mem_cons_self)
      · rcases upsertA_mem r a p x h with h | h
        · exact Or.inl (List.mem_cons_of_mem _ h)
        · exact Or.inr h

theorem inOrder_mem (vals : List (Nat × Expo)) (order : List Nat) (x : Nat × Expo) (h : x ∈ inOrder vals order) :
    x ∈ vals := by
  unfold inOrder at h
  rcases List.mem_filterMap.mp h with ⟨a, _, ha⟩
  cases hl : lookupA vals a with
  | none => simp [hl] at ha
  | some p =>
    simp [hl] at ha
    subst ha
    exact lookupA_mem vals a p hl

/-- the invariant of the aggregator for a property `I` of accumulator states that holds initially and is kept
by `record`: every live accumulator has it, and every point ever reported is the export of an accumulator that
has it -/
structure AggInv (I : Expo → Prop) (c : Cfg) (st : AggSt) : Prop where
  live : ∀ x ∈ st.vals, I x.2
  reported : ∀ r ∈ st.reports, ∀ pv ∈ r, ∃ a p, I p ∧ pv = exportPoint c.noMinMax c.noSum a p

theorem AggInv.step (L : Int → Val → Int) (I : Expo → Prop) (c : Cfg) (h0 : I (Expo.init c.maxScale))
    (hrec : ∀ p v, I p → I (record L c.maxSize p v).1) (st : AggSt) (op : Op) (h : AggInv I c st) :
    AggInv I c (aggStep L c st op) := by
  cases op with
  | meas a v =>
    cases v with
    | none => exact ⟨h.live, h.reported⟩
    | some v =>
      refine ⟨?_, h.reported⟩
      intro x hx
      simp only [aggStep, aggMeasure] at hx
      rcases upsertA_mem _ _ _ x hx with hx | hx
      · exact h.live x hx
      · subst hx
        apply hrec
        cases hl : lookupA st.vals (limitAttr c.limit st.vals a) with
        | none => simpa using h0
        | some p => simpa using h.live _ (lookupA_mem _ _ _ hl)
  | collect order =>
    constructor
    · intro x hx
      simp only [aggStep] at hx
      split at hx
      · simp at hx
      · exact h.live x hx
    · intro r hr pv hpv
      simp only [aggStep] at hr
      rcases List.mem_append.mp hr with hr | hr
      · exact h.reported r hr pv hpv
      · simp only [List.mem_singleton] at hr
        subst hr
        rw [collectInto_view] at hpv
        rcases List.mem_map.mp hpv with ⟨x, hx, hxe⟩
        exact ⟨x.1, x.2, h.live x (inOrder_mem _ _ x hx), hxe.symm⟩
  | fresh =>
    exact ⟨by intro x hx; simp [aggStep] at hx, h.reported⟩

theorem AggInv.run (L : Int → Val → Int) (I : Expo → Prop) (c : Cfg) (h0 : I (Expo.init c.maxScale))
    (hrec : ∀ p v, I p → I (record L c.maxSize p v).1) (ops : List Op) :
    ∀ (st : AggSt), AggInv I c st → AggInv I c (aggRun L c st ops) := by
  induction ops with
  | nil => intro st h; exact h
  | cons op r ih =>
    intro st h
    simp only [aggRun, List.foldl_cons]
    exact ih _ (h.step L I c h0 hrec st op)

theorem AggInv.init (I : Expo → Prop) (c : Cfg) (dest : Slice DPoint) : AggInv I c (AggSt.init dest) :=
  ⟨by intro x hx; simp [AggSt.init] at hx, by intro r hr; simp [AggSt.init] at hr⟩

/-! ## explicit-bucket histogram -/

theorem zipWriteH_eq (noMinMax noSum : Bool) (bounds : List Int) :
    ∀ (ds : List HDPoint) (order : List (Nat × Hist)), ds.length = order.length →
      zipWriteH noMinMax noSum bounds ds order =
        order.map (fun av => writeHPoint noMinMax noSum bounds default av.1 av.2)
  | [], [], _ => rfl
  | [], _ :: _, h => by simp at h
  | _ :: _, [], h => by simp at h
  | d :: ds, av :: r, h => by
    simp only [zipWriteH, List.map_cons]
    rw [zipWriteH_eq noMinMax noSum bounds ds r (by simpa using h)]
    rfl

theorem hCollectInto_vis (noMinMax noSum : Bool) (bounds : List Int) (order : List (Nat × Hist))
    (dest : Slice HDPoint) :
    (hCollectInto noMinMax noSum bounds order dest).vis =
      order.map (fun av => writeHPoint noMinMax noSum bounds default av.1 av.2) := by
  unfold hCollectInto
  exact zipWriteH_eq noMinMax noSum bounds _ order (Slice.reset_len dest _ default)

theorem lookupH_mem : ∀ (vals : List (Nat × Hist)) (a : Nat) (p : Hist), lookupH vals a = some p → (a, p) ∈ vals
  | [], _, _, h => by simp [lookupH] at h
  | (k, q) :: r, a, p, h => by
    unfold lookupH at h
    split at h
    · rename_i hk
      injection h with h
      subst h; subst hk
      exact List.mem_cons_self
    · exact List.mem_cons_of_mem _ (lookupH_mem r a p h)

theorem upsertH_mem : ∀ (vals : List (Nat × Hist)) (a : Nat) (p : Hist) (x : Nat × Hist),
    x ∈ upsertH vals a p → x ∈ vals ∨ x = (a, p)
  | [], a, p, x, h => by simp [upsertH] at h; exact Or.inr h
  | (k, q) :: r, a, p, x, h => by
    unfold upsertH at h
    split at h
    · rename_i hk
      rcases List.mem_cons.mp h with h | h
      · subst hk; exact Or.inr h
      · exact Or.inl (List.mem_cons_of_mem _ h)
    · rcases List.mem_cons.mp h with h | h
      · exact Or.inl (h ▸ List.mem_cons_self)
      · rcases upsertH_mem r a p x h with h | h
        · exact Or.inl (List.mem_cons_of_mem _ h)
        · exact Or.inr h

theorem hInOrder_mem (vals : List (Nat × Hist)) (order : List Nat) (x : Nat × Hist) (h : x ∈ hInOrder vals order) :
    x ∈ vals := by
  unfold hInOrder at h
  rcases List.mem_filterMap.mp h with ⟨a, _, ha⟩
  cases hl : lookupH vals a with
  | none => simp [hl] at ha
  | some p =>
    simp [hl] at ha
    subst ha
    exact lookupH_mem vals a p hl

/-- with the sum collected, one more measurement of an attribute set is one more step of the single-set run -/
theorem histRunSorted_snoc (bounds : List Int) (vs : List Int) (v : Int) :
    histRunSorted bounds (vs ++ [v]) = histMeasure bounds (histRunSorted bounds vs) v := by
  simp [histRunSorted, List.foldl_append]

/-- invariant of the explicit-bucket aggregator while the sum is collected (`noSum = false` throughout): every
live accumulator and every reported point comes from a single-set run over a non-empty list of values -/
structure HInv (bounds : List Int) (st : HSt) : Prop where
  flag : st.noSum = false
  live : ∀ x ∈ st.vals, ∃ vs, vs ≠ [] ∧ histRunSorted bounds vs = some x.2
  reported : ∀ r ∈ st.reports, ∀ pt ∈ r, ∃ a h vs nmm, vs ≠ [] ∧ histRunSorted bounds vs = some h ∧
    pt = writeHPoint nmm false bounds default a h

theorem HInv.step (delta : Bool) (limit : Nat) (bounds : List Int) (st : HSt) (op : HOp)
    (hop : ∀ x y, op = .fresh x y → y = false) (h : HInv bounds st) : HInv bounds (hStep delta limit bounds st op) := by
  cases op with
  | meas a v =>
    refine ⟨h.flag, ?_, h.reported⟩
    intro x hx
    simp only [hStep, hMeasure, h.flag] at hx
    rcases upsertH_mem _ _ _ x hx with hx | hx
    · exact h.live x hx
    · subst hx
      cases hl : lookupH st.vals (hLimitAttr limit st.vals a) with
      | none => exact ⟨[v], by simp, by simp [histRunSorted, histMeasure]⟩
      | some p =>
        obtain ⟨vs, hne, hr⟩ := h.live _ (lookupH_mem _ _ _ hl)
        refine ⟨vs ++ [v], by simp, ?_⟩
        rw [histRunSorted_snoc, hr]
        simp [histMeasure]
  | collect order =>
    refine ⟨h.flag, ?_, ?_⟩
    · intro x hx
      simp only [hStep] at hx
      split at hx
      · simp at hx
      · exact h.live x hx
    · intro r hr pt hpt
      simp only [hStep] at hr
      rcases List.mem_append.mp hr with hr | hr
      · exact h.reported r hr pt hpt
      · simp only [List.mem_singleton] at hr
        subst hr
        rw [hCollectInto_vis] at hpt
        rcases List.mem_map.mp hpt with ⟨x, hx, hxe⟩
        obtain ⟨vs, hne, hrn⟩ := h.live x (hInOrder_mem _ _ x hx)
        exact ⟨x.1, x.2, vs, st.noMinMax, hne, hrn, by rw [← hxe, h.flag]⟩
  | fresh x y =>
    have := hop x y rfl
    subst this
    exact ⟨rfl, by intro z hz; simp [hStep] at hz, h.reported⟩

end Otel.C07
