/-
C07 — how a histogram configuration reaches the aggregator (sdk/metric: meter.go `histogramAggs`, pipeline.go
`resolver.HistogramAggregators`, `inserter.readerDefaultAggregation`, `inserter.Instrument`,
`inserter.cachedAggregator`, `inserter.aggregateFunc`, view.go `NewView`, reader.go `DefaultAggregationSelector`,
aggregation.go `err()`), for one reader and at most one (match-all) view. Core Lean only.
-/
import Otel.C07.Model
namespace Otel.C07

inductive Kind
  | counter | updown | histogram | gauge | obsCounter | obsUpDown | obsGauge
deriving DecidableEq, Repr

def Kind.ofCode : Nat → Option Kind
  | 0 => some .counter | 1 => some .updown | 2 => some .histogram | 3 => some .gauge
  | 4 => some .obsCounter | 5 => some .obsUpDown | 6 => some .obsGauge | _ => none

/-- an `Aggregation` value (boundaries as integers) -/
inductive ACfg
  | dflt | drop | sum | lastValue
  | hist (b : List Int) (noMinMax : Bool)
  | expo (maxSize maxScale : Int) (noMinMax : Bool)
deriving DecidableEq, Repr

/-- `Aggregation.err() != nil` -/
def ACfg.bad : ACfg → Bool
  | .hist b _ => !validBounds b
  | .expo ms sc _ => !validExpo ms sc
  | _ => false

def defaultBounds : List Int := [0, 5, 10, 25, 50, 75, 100, 250, 500, 750, 1000, 2500, 5000, 7500, 10000]

/-- `DefaultAggregationSelector` -/
def defaultSel : Kind → ACfg
  | .histogram => .hist defaultBounds false
  | .gauge => .lastValue
  | .obsGauge => .lastValue
  | _ => .sum

/-- `inserter.readerDefaultAggregation`: nil/default → default selector; otherwise copy, validate, and fall back
to the default selector on error (`sel = none`: the reader was built without `WithAggregationSelector`) -/
def readerDefault (sel : Option ACfg) (k : Kind) : ACfg :=
  match sel with
  | none => defaultSel k
  | some .dflt => defaultSel k
  | some a => if a.bad then defaultSel k else a

inductive ViewKind
  | none | newView | custom
deriving DecidableEq, Repr

/-- the `Stream.Aggregation` of the view: `NewView` copies and validates the mask's aggregation and drops it
(nil) on error; a hand-written `View` function returns whatever it likes -/
def viewAgg (vk : ViewKind) (a : Option ACfg) : Option ACfg :=
  match vk with
  | .none => none
  | .newView =>
    match a with
    | some a => if a.bad then none else some a
    | none => none
  | .custom => a

/-- `histogramAggs` (the boundaries option is validated, invalid ones are ignored and reported as an error of the
instrument creation) and `HistogramAggregators` (valid non-empty boundaries replace those of an explicit-bucket
reader aggregation); other kinds: `Aggregators` -/
def readerAggFor (sel : Option ACfg) (k : Kind) (inst : Option (List Int)) : ACfg × Bool :=
  let agg := readerDefault sel k
  match k, inst with
  | .histogram, some b =>
    let bad := !validBounds b
    let b' := if bad then [] else b
    (match agg with
     | .hist _ nmm => if b'.length > 0 then .hist b' nmm else agg
     | _ => agg, bad)
  | _, _ => (agg, false)

/-- `cachedAggregator`: nil → the reader aggregation, `AggregationDefault` → the default selector; then
`aggregateFunc` (which resolves `AggregationDefault` once more) -/
def effective (k : Kind) (streamAgg : Option ACfg) (readerAgg : ACfg) : ACfg :=
  let a := match streamAgg with
    | none => readerAgg
    | some .dflt => defaultSel k
    | some a => a
  match a with
  | .dflt => defaultSel k
  | a => a

/-- `aggregateFunc`: no sum for instruments that can make negative measurements -/
def noSumKind : Kind → Bool
  | .updown => true | .obsUpDown => true | .obsGauge => true | .gauge => true | _ => false

/-- what `Builder.ExplicitBucketHistogram` / `Builder.ExponentialBucketHistogram` is finally called with -/
inductive Resolved
  | drop | sum | lastValue
  | hist (bounds : List Int) (noMinMax noSum : Bool)
  | expo (maxSize maxScale : Int) (noMinMax noSum : Bool)
deriving DecidableEq, Repr

def resolve (k : Kind) (inst : Option (List Int)) (sel : Option ACfg) (vk : ViewKind) (va : Option ACfg) :
    Resolved × Bool :=
  let ra := readerAggFor sel k inst
  (match effective k (viewAgg vk va) ra.1 with
   | .dflt => .drop
   | .drop => .drop
   | .sum => .sum
   | .lastValue => .lastValue
   | .hist b nmm => .hist b nmm (noSumKind k)
   | .expo ms sc nmm => .expo ms sc nmm (noSumKind k), ra.2)

/-- how recording goes with an exponential histogram created with `(MaxSize, MaxScale)` and the default exemplar
reservoir selector (pipeline.go `cachedAggregator`, exemplar.go): the reservoir of size `min(20, MaxSize)` is made
when the first finite value of an attribute set arrives — `make` with a negative length panics —, and the first
non-zero value calls `getBin`, which indexes `scaleFactors[scale]` (21 entries) when the scale is positive -/
inductive ExpoOutcome
  | panicMakeslice | panicIndex | runs
deriving DecidableEq, Repr

def expoOutcome (ms sc : Int) (vals : List Int) : ExpoOutcome :=
  if vals.isEmpty then .runs
  else if ms < 0 then .panicMakeslice
  else if sc > 20 ∧ vals.any (· != 0) then .panicIndex
  else .runs

/-- the explicit-bucket point as reported with the `NoMinMax` / `noSum` flags: no extrema, zero sum -/
def histExport (noMinMax noSum : Bool) (h : Hist) : List Nat × Nat × Int × Option Int × Option Int :=
  (h.counts, h.count, if noSum then 0 else h.total, if noMinMax then none else some h.min,
   if noMinMax then none else some h.max)

end Otel.C07
