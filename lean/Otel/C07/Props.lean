/-
C07 — property theorems. Explicit-bucket histogram first, then the base-2 exponential histogram.
Helper lemmas are in Lemmas.lean, LemmasPlace.lean (run-level placement invariant), LemmasIdx.lean (exact index)
and LemmasDrop.lean (window ends non-zero, the scale-underflow return).
-/
import Otel.C07.Lemmas
import Otel.C07.LemmasPlace
import Otel.C07.LemmasIdx
import Otel.C07.LemmasDrop
namespace Otel.C07
open Spec

/-! ## explicit-bucket histogram: for every boundary list and every sequence of measurements -/

private theorem histRun_cons (raw : List Int) (v : Int) (r : List Int) :
    histRun raw (v :: r) =
      some ((v :: r).foldl (histStep (sortBounds raw)) (Hist.new (sortBounds raw).length v)) := by
  simp [histRun, histRunSorted, List.foldl_cons, histMeasure_none, fold_some]

private theorem sum_replicate_zero (n : Nat) : (List.replicate n 0).sum = 0 := by
  induction n with
  | zero => rfl
  | succ k ih => simp [List.replicate_succ, ih]

/-- no measurement, no data point; otherwise there is one -/
theorem hist_point_exists (raw : List Int) (vs : List Int) :
    (histRun raw vs).isSome = !vs.isEmpty := by
  cases vs with
  | nil => rfl
  | cons v r => rw [histRun_cons]; rfl

/-- "one more bucket than boundaries" (and the reported boundaries are the sorted input) -/
theorem hist_len (raw : List Int) (vs : List Int) (h : Hist) (hr : histRun raw vs = some h) :
    h.counts.length = raw.length + 1 ∧ isSorted (sortBounds raw) = true ∧
    (sortBounds raw).length = raw.length ∧ ∀ b, (sortBounds raw).count b = raw.count b := by
  refine ⟨?_, sortBounds_sorted raw, sortBounds_length raw, sortBounds_count raw⟩
  cases vs with
  | nil => simp [histRun, histRunSorted] at hr
  | cons v r =>
    rw [histRun_cons] at hr
    injection hr with hr
    subst hr
    rw [fold_len]; simp [Hist.new, sortBounds_length]

/-- "bucket counts that sum to its count", and the count is the number of measurements -/
theorem hist_sum_counts (raw : List Int) (vs : List Int) (h : Hist) (hr : histRun raw vs = some h) :
    h.counts.sum = h.count ∧ h.count = vs.length := by
  cases vs with
  | nil => simp [histRun, histRunSorted] at hr
  | cons v r =>
    rw [histRun_cons] at hr
    injection hr with hr
    subst hr
    rw [fold_sum _ _ _ (by simp [Hist.new]), fold_count]
    simp [Hist.new]

/-- "each value counted in the bucket (lower bound, upper bound]": bucket `i` counts exactly the measured
values `v` with `bounds[i-1] < v ≤ bounds[i]` (−∞/+∞ at the ends), `bounds` being the sorted boundaries -/
theorem hist_bucket_of_value (raw : List Int) (vs : List Int) (h : Hist) (hr : histRun raw vs = some h)
    (i : Nat) : h.counts.getD i 0 = vs.countP (inBucket (sortBounds raw) i) := by
  have hcp : vs.countP (inBucket (sortBounds raw) i) = vs.countP (fun v => searchIdx (sortBounds raw) v == i) := by
    apply List.countP_congr
    intro v _
    have := inBucket_iff _ (sortBounds_sorted raw) i v
    by_cases hq : i = searchIdx (sortBounds raw) v
    · rw [this.mpr hq]; simp [hq]
    · have h1 : inBucket (sortBounds raw) i v = false := by
        cases hb : inBucket (sortBounds raw) i v with
        | false => rfl
        | true => exact absurd (this.mp hb) hq
      rw [h1]; simp; omega
  rw [hcp]
  cases vs with
  | nil => simp [histRun, histRunSorted] at hr
  | cons v r =>
    rw [histRun_cons] at hr
    injection hr with hr
    subst hr
    rw [fold_get _ _ _ (by simp [Hist.new])]
    simp [Hist.new, List.getD_eq_getElem?_getD, List.getElem?_replicate]
    split <;> simp

/-- every value has exactly one bucket, the one `sort.SearchFloat64s` returns -/
theorem hist_bucket_unique (bounds : List Int) (hs : isSorted bounds = true) (i : Nat) (v : Int) :
    inBucket bounds i v = true ↔ i = searchIdx bounds v := inBucket_iff bounds hs i v

/-- "exact sum, minimum and maximum" (the `else if` between the min and max updates loses nothing) -/
theorem hist_sum_min_max (raw : List Int) (vs : List Int) (h : Hist) (hr : histRun raw vs = some h) :
    h.total = vs.sum ∧ h.min = minList vs ∧ h.max = maxList vs := by
  cases vs with
  | nil => simp [histRun, histRunSorted] at hr
  | cons v r =>
    rw [histRun_cons] at hr
    injection hr with hr
    subst hr
    have hmm := fold_minmax (sortBounds raw) (v :: r) (Hist.new (sortBounds raw).length v) (by simp [Hist.new])
    refine ⟨?_, ?_, ?_⟩
    · rw [fold_total]; simp [Hist.new]
    · rw [hmm.1]; simp [Hist.new, minList, List.foldl_cons]
    · rw [hmm.2]; simp [Hist.new, maxList, List.foldl_cons]

/-- all explicit-bucket clauses at once, in the form the run-time oracle evaluates on the implementation -/
theorem hist_ok (raw : List Int) (vs : List Int) :
    histOK raw (sortBounds raw) vs (histRun raw vs) = true := by
  unfold histOK
  have h0 := sortBounds_sorted raw
  have h1 := sortBounds_length raw
  have h2 := sortBounds_count raw
  cases hr : histRun raw vs with
  | none =>
    have := hist_point_exists raw vs
    rw [hr] at this
    simp at this
    simp [h0, h1, h2, this]
  | some h =>
    have he := hist_point_exists raw vs
    rw [hr] at he
    have hl := hist_len raw vs h hr
    have hsc := hist_sum_counts raw vs h hr
    have hb := hist_bucket_of_value raw vs h hr
    have hm := hist_sum_min_max raw vs h hr
    simp at he
    simp [h0, h1, h2, he, histPointOK, hl.1, hsc.1, hsc.2, hm.1, hm.2.1, hm.2.2]
    intro i _
    have := hb i
    simpa [List.getD_eq_getElem?_getD] using this

example : histRun [10, 0, 5] [-1, 0, 1, 5, 6, 10, 11] = some ⟨[2, 2, 2, 1], 7, 32, -1, 11⟩ := by decide

/-! ## base-2 exponential histogram: for every index function `L` for the positive scales (finding F14 lives in
`L`), every `maxSize`, every `maxScale` and every sequence of measurements (`none` = NaN/±Inf, ignored) -/

/-- "count = zero count + positive counts + negative counts" — in full, after the F12 repair -/
theorem expo_count (L : Int → Val → Int) (maxSize : Nat) (maxScale : Int) (vs : List (Option Val)) :
    countOK (run L maxSize maxScale vs).1 = true :=
  run_inv L maxSize (fun p => countOK p = true) (fun p v h => record_countOK L maxSize p v h) _ (by simp [countOK, Expo.init]) vs

/-- "a scale that never exceeds the configured maximum … and only ever decreases": every measurement sees the
scale its predecessor left (the first one sees `maxScale`) and leaves a scale that is not larger -/
theorem expo_scale_monotone (L : Int → Val → Int) (maxSize : Nat) (maxScale : Int) (vs : List (Option Val)) :
    chainOK maxScale (run L maxSize maxScale vs).2 (run L maxSize maxScale vs).1.scale = true ∧
    (run L maxSize maxScale vs).1.scale ≤ maxScale := by
  refine ⟨chain_run L maxSize (Expo.init maxScale) vs, ?_⟩
  exact run_inv L maxSize (fun p => p.scale ≤ maxScale)
    (fun p v h => by
      rcases record_scale L maxSize p v with ⟨_, hs⟩ | ⟨_, _, _, _, hle, _⟩
      · rw [hs]; exact h
      · exact Int.le_trans hle h) _ (Int.le_refl _) vs

/-- "never goes below −10", for every accepted `maxScale` (validation rejects `maxScale < −10` after the F13
repair, `validExpo_iff`) -/
theorem expo_scale_floor (L : Int → Val → Int) (maxSize : Nat) (maxScale : Int) (hm : -10 ≤ maxScale)
    (vs : List (Option Val)) : -10 ≤ (run L maxSize maxScale vs).1.scale :=
  run_inv L maxSize (fun p => -10 ≤ p.scale)
    (fun p v h => by
      rcases record_scale L maxSize p v with ⟨_, hs⟩ | ⟨_, _, _, _, _, hfl⟩
      · rw [hs]; exact h
      · exact hfl h) _ hm vs

/-- "holds at most the configured number of buckets per sign", for `maxSize ≥ 1`, `maxScale ≤ 20` and every index
function that is consistent across scales (`Coherent L`: the index at scale `s − δ` is the index at scale `s`
shifted by `δ` — true of the exact index, proved below for the integer computation of the non-positive
scales, and monitored on the implementation's float computation by the driver on every run) -/
theorem expo_size_bound (L : Int → Val → Int) (hL : Coherent L) (maxSize : Nat) (hms : 1 ≤ maxSize)
    (maxScale : Int) (hsc : maxScale ≤ 20) (vs : List (Option Val)) :
    sizeOK maxSize (run L maxSize maxScale vs).1 = true :=
  (run_inv L maxSize (fun p => p.scale ≤ 20 ∧ sizeOK maxSize p = true)
    (fun p v h => by
      refine ⟨?_, record_sizeOK L hL maxSize hms p v h.1 h.2⟩
      rcases record_scale L maxSize p v with ⟨_, hs⟩ | ⟨_, _, _, _, hle, _⟩
      · rw [hs]; exact h.1
      · exact Int.le_trans hle h.1) _ ⟨hsc, by simp [sizeOK, Expo.init]⟩ vs).2

/-- the hypothesis of `expo_size_bound` holds outright on the non-positive scales (no `L` involved) -/
theorem expo_index_coherent_nonpos (L : Int → Val → Int) (s : Int) (hs : s ≤ 0) (δ : Nat) (v : Val) :
    getBin L (s - (δ : Int)) v = getBin L s v >>> δ := getBin_nonpos_coherent L s hs δ v

/-- "re-scaling without losing … counts": `downscale δ` moves the window to `[start >>> δ, end >>> δ]` and keeps
the total of every sign (per bucket: `expo_rescale_conserves`) -/
theorem expo_rescale_conserves_total (b : Buckets) (δ : Nat) :
    (b.downscale δ).counts.sum = b.counts.sum ∧ (b.downscale δ).start = b.start >>> δ ∧
    (b.counts.length ≠ 0 → ((b.downscale δ).counts.length : Int) =
      ((b.start + (b.counts.length : Int) - 1) >>> δ) - (b.start >>> δ) + 1) :=
  ⟨downscale_sum b δ, downscale_start b δ, downscale_len b δ⟩

/-- "re-scaling without … misplacing counts": bucket `i` after `downscale δ` is the sum of the buckets `j`
before with `j >>> δ = i` (every old bucket `j = start + p` goes to `j >>> δ`, nothing else arrives) -/
theorem expo_rescale_conserves (b : Buckets) (δ : Nat) (i : Int) :
    Buckets.get (b.downscale δ) i =
      sumTo b.counts.length (fun p => if (b.start + (p : Int)) >>> δ = i then b.counts[p]?.getD 0 else 0) :=
  downscale_get b δ i

example : (Buckets.downscale ⟨-6, [3, 1, 2, 3, 4, 5, 6, 7, 8, 9, 10]⟩ 2) = ⟨-2, [4, 14, 30, 10]⟩ := by decide

/-- "places each non-zero value v in the bucket i with base^i < |v| ≤ base^(i+1)" — exactly, for the
non-positive scales: the integer computation of `getBin` is the exact index -/
theorem expo_placement_nonpos (L : Int → Val → Int) (s : Int) (hs : s ≤ 0) (v : Val) :
    getBin L s v = exactIdx s v := by
  unfold getBin exactIdx log2Idx frexpExp
  simp only [hs, if_true]
  by_cases h0 : s = 0
  · subst h0
    simp only [Int.le_refl, ge_iff_le, if_true, Int.toNat_zero, Nat.pow_zero, Nat.pow_one, Int.neg_zero,
      Int.shiftRight_zero]
    split <;> simp <;> omega
  · have : ¬ s ≥ 0 := by omega
    simp only [this, if_false]
    congr 1
    split <;> simp <;> omega

/-! ### placement over whole runs and the exact index (proved; the oracle also checks them on every
implementation result) -/

/-- "places each non-zero value … re-scaling without losing or misplacing counts", relative to the index
function `L`, over whole runs: at the end of every run (every `L` — no coherence needed —, every `maxSize`,
`maxScale` and measurement sequence) each bucket of each sign holds exactly the recorded values whose index —
as computed when they were recorded, at the scale `sa` in force then — shifted to the final scale `s`
(`ia >>> (sa − s)`) is that bucket, every such index lies inside the bucket window, the zero count is the number
of zero measurements and the count is zeros + recorded values (values left out by the scale-underflow return
are counted nowhere). Proof: the multiset invariant `PInv` (LemmasPlace.lean) is kept by all four branches of
`record` (zero bucket, underflow drop, downscale followed by `expoBuckets.record`, plain record). -/
theorem expo_placement (L : Int → Val → Int) (maxSize : Nat) (maxScale : Int) (vs : List (Option Val)) :
    placedOK false (run L maxSize maxScale vs).1.scale (run L maxSize maxScale vs).2 (run L maxSize maxScale vs).1.pos = true ∧
    placedOK true (run L maxSize maxScale vs).1.scale (run L maxSize maxScale vs).2 (run L maxSize maxScale vs).1.neg = true ∧
    tallyOK (run L maxSize maxScale vs).2 (run L maxSize maxScale vs).1 = true := by
  have h := run_PInv L maxSize maxScale vs
  exact ⟨placedOK_of_get false _ _ _ (h.place false), placedOK_of_get true _ _ _ (h.place true), h.tally⟩

/-- the same fact per bucket, as an equation (the form the invariant has): for every sign and every absolute
index `i`, the content of bucket `i` is the number of recorded values of that sign whose shifted index is `i` -/
theorem expo_placement_get (L : Int → Val → Int) (maxSize : Nat) (maxScale : Int) (vs : List (Option Val))
    (neg : Bool) (i : Int) :
    Buckets.get ((run L maxSize maxScale vs).1.bucketOf neg) i =
      ((run L maxSize maxScale vs).2.filterMap (finalIdx neg (run L maxSize maxScale vs).1.scale)).count i :=
  (run_PInv L maxSize maxScale vs).place neg i

/-- "the bucket i with base^i < |v| ≤ base^(i+1) for base = 2^(2^-scale)": the exact index `exactIdx s v`
satisfies the literal inequality, in exact integer arithmetic (`inExpoBucket`: for `s ≥ 0`, with `N = 2^s`,
`2^i < mant^N · 2^(ex·N) ≤ 2^(i+1)`; for `s < 0`, with `K = 2^-s`, `2^(i·K) < mant · 2^ex ≤ 2^((i+1)·K)`),
for every scale and every non-zero value -/
theorem expo_exact_index (s : Int) (v : Val) (hm : v.mant ≠ 0) : inExpoBucket s v (exactIdx s v) = true := by
  by_cases hs : s ≥ 0
  · exact exactIdx_nonneg_ok s hs v hm
  · exact exactIdx_neg_ok s hs v hm

/-- the bucket of the statement is unique: `i` satisfies `base^i < |v| ≤ base^(i+1)` exactly when it is the
exact index — so comparing an observed index with `exactIdx` (what the oracle `classify` does) is the same as
checking the literal inequality -/
theorem expo_exact_index_unique (s : Int) (v : Val) (hm : v.mant ≠ 0) (i : Int) :
    inExpoBucket s v i = true ↔ i = exactIdx s v := inExpoBucket_iff s v hm i

/-- no int32 overflow: for every scale `≤ 20` and every non-zero finite binary64 magnitude
(`2^-1074 ≤ |v| < 2^1024`, which is what `decode` produces: `expo_decode_finite`) the exact index lies in
`[−1074·2^20 − 1, 2^30 − 1]` (the lower end is attained by the smallest subnormal at scale 20, example below),
well inside int32; an index that is off by one (finding F14) still is -/
theorem expo_no_int32_overflow (s : Int) (hs : s ≤ 20) (v : Val) (hf : FiniteNZ v) :
    -1126170625 ≤ exactIdx s v ∧ exactIdx s v ≤ 1073741823 ∧
    -2147483648 < exactIdx s v - 1 ∧ exactIdx s v + 1 < 2147483647 := by
  have := exactIdx_range s hs v hf
  omega

/-- the hypothesis of `expo_no_int32_overflow` holds for every decoded IEEE-754 bit pattern that is not ±0 -/
theorem expo_decode_finite (bits : Nat) (v : Val) (h : decode bits = some v) : v.mant = 0 ∨ FiniteNZ v :=
  decode_finite bits v h

/-! ### non-vacuity -/

/-- a coherent index function for the examples: "exponent in units of 1/8" -/
def exL (s : Int) (v : Val) : Int := (v.ex * 8) >>> (6 - s).toNat

set_option maxRecDepth 8000 in
example : (run exL 2 3 [some ⟨false, 3, 0⟩, some ⟨false, 3, 5⟩, none, some ⟨true, 3, 1⟩, some ⟨false, 0, 0⟩]).1
    = ⟨1, ⟨0, [1, 1]⟩, ⟨0, [1]⟩, 1, 4, ⟨true, 3, 1⟩, ⟨false, 3, 5⟩, (93, 0)⟩ := by decide

/-- `expo_placement` on a run with a 2-step downscale: the indices 1 and 2 recorded at scale 3 end in bucket 0
at scale 1, the index 1 recorded at scale 1 is bucket 1 -/
example : (run exL 2 3 [some ⟨false, 3, 1⟩, some ⟨false, 3, 2⟩, some ⟨false, 3, 5⟩]).1.pos = ⟨0, [2, 1]⟩ ∧
    (run exL 2 3 [some ⟨false, 3, 1⟩, some ⟨false, 3, 2⟩, some ⟨false, 3, 5⟩]).2 =
      [.val false 3 1 3 1 true, .val false 3 2 3 2 true, .val false 3 5 1 1 true] ∧
    (run exL 2 3 [some ⟨false, 3, 1⟩, some ⟨false, 3, 2⟩, some ⟨false, 3, 5⟩]).2.filterMap (finalIdx false 1) =
      [0, 0, 1] := by decide

/-- `expo_exact_index` / `expo_no_int32_overflow`: 3 at scale 2 is in bucket 6 only (2^(6/4) < 3 ≤ 2^(7/4));
5·2^10 at scale −3 is in bucket 1 only (2^8 < 5120 ≤ 2^16); the smallest subnormal (a `FiniteNZ` value) at
scale 20 attains the lower end of the range -/
example : exactIdx 2 ⟨false, 3, 0⟩ = 6 ∧ [5, 6, 7].map (inExpoBucket 2 ⟨false, 3, 0⟩) = [false, true, false] ∧
    exactIdx (-3) ⟨false, 5, 10⟩ = 1 ∧ [0, 1, 2].map (inExpoBucket (-3) ⟨false, 5, 10⟩) = [false, true, false] ∧
    decode 1 = some ⟨false, 1, -1074⟩ := by decide

example : FiniteNZ ⟨false, 1, -1074⟩ ∧ exactIdx 20 ⟨false, 1, -1074⟩ = -1126170625 := by
  refine ⟨⟨by decide, by decide, by decide⟩, ?_⟩
  have h1 : Nat.log2 1 = 0 := by decide
  simp [exactIdx, isPow2, Nat.one_pow, h1]

/-- the coherence hypothesis of `expo_size_bound` is needed: with an index function that ignores the scale the
same run ends with six positive buckets although `maxSize = 2` -/
theorem expo_size_bound_needs_coherence :
    sizeOK 2 (run (fun _ v => v.ex) 2 3 [some ⟨false, 3, 0⟩, some ⟨false, 3, 5⟩]).1 = false := by decide

/-- the underflow branch: maxSize 1, two values 31 halvings apart — not counted (F12 repaired) -/
example : (run (fun _ v => v.ex) 1 20 [some ⟨false, 3, 1000000000⟩, some ⟨false, 3, -1000000000⟩]).1.count = 1 ∧
    (run (fun _ v => v.ex) 1 20 [some ⟨false, 3, 1000000000⟩, some ⟨false, 3, -1000000000⟩]).2.getLast? =
      some (Out.val false 20 (-1000000000) 20 (-1000000000) false) := by decide

/-! ### values are left out only on scale underflow -/

/-- "re-scaling without losing … counts", the remaining case: a measurement is left out (counted nowhere) only
on the scale-underflow return, and then rightly so. For every run — every index function `L` (no coherence
needed: on this return `L` is consulted at the current scale only), every `maxSize`, every `maxScale` (no bound
needed: `scaleChange` returns at most 31, so it exceeds `scale + 10` only when `scale + 10 ≤ 30`, and then its
loop condition was evaluated — and true — after exactly `scale + 10` halvings; the `count > 30` escape is never
what decides a drop) and every measurement sequence — the oracle predicate `dropsOK` holds of the log: whenever a
value is left out, values of its sign have been recorded before (the first value of a sign is never left out),
and the indices of those values (as recorded, shifted to the current scale) together with the index of the new
value still span at least `maxSize` buckets after being shifted to scale −10, i.e. no scale ≥ −10 can hold
them in `maxSize` buckets. Proof: invariant `DInv` (LemmasDrop.lean) = placement invariant + "the first and the
last bucket of a non-empty window are non-zero" (so the window the code looks at is the span of the recorded
indices) + `scaleLoop_gt`. -/
theorem expo_drops_only_on_underflow (L : Int → Val → Int) (maxSize : Nat) (maxScale : Int)
    (vs : List (Option Val)) : dropsOK maxSize [] (run L maxSize maxScale vs).2 = true :=
  (run_DInv L maxSize maxScale vs).drops

/-- the auxiliary invariant, a fact about the data point in its own right: the bucket window of each sign is
tight — a non-empty window begins and ends with a non-zero bucket (`expoBuckets.record` grows the window only up
to the new index, `downscale` merges the ends into the new ends) -/
theorem expo_window_tight (L : Int → Val → Int) (maxSize : Nat) (maxScale : Int) (vs : List (Option Val))
    (neg : Bool) (hne : ((run L maxSize maxScale vs).1.bucketOf neg).counts.length ≠ 0) :
    0 < Buckets.get ((run L maxSize maxScale vs).1.bucketOf neg) ((run L maxSize maxScale vs).1.bucketOf neg).start ∧
    0 < Buckets.get ((run L maxSize maxScale vs).1.bucketOf neg)
      (((run L maxSize maxScale vs).1.bucketOf neg).start +
        (((run L maxSize maxScale vs).1.bucketOf neg).counts.length : Int) - 1) :=
  (run_DInv L maxSize maxScale vs).ends neg hne

/-- `expo_drops_only_on_underflow` on runs that do leave a value out (maxSize 1 resp. 2, an index function that is
not even coherent; in the second run the window [0, 1] and the index 5000 still span 2 ≥ 2 buckets after the 11
halvings from scale 1 to scale −10), and the oracle is not trivially true: it rejects a log in which the first
value of a sign, or a value that would have fitted at scale −10, is left out -/
example : dropsOK 1 [] (run (fun _ v => v.ex) 1 20 [some ⟨false, 3, 1000000000⟩, some ⟨false, 3, -1000000000⟩]).2 = true ∧
    (run (fun _ v => v.ex) 2 1 [some ⟨false, 3, 0⟩, some ⟨false, 3, 1⟩, some ⟨false, 3, 5000⟩]).2 =
      [.val false 1 0 1 0 true, .val false 1 1 1 1 true, .val false 1 5000 1 5000 false] ∧
    dropsOK 2 [] [.val false 1 0 1 0 true, .val false 1 1 1 1 true, .val false 1 5000 1 5000 false] = true ∧
    dropsOK 2 [] [.val false 1 5000 1 5000 false] = false ∧
    dropsOK 2 [] [.val false 1 0 1 0 true, .val false 1 1 1 1 true, .val false 1 1500 1 1500 false] = false := by
  decide

/-! ## parameter validation -/

/-- accepted configurations have `MaxSize ≥ 1` and `−10 ≤ MaxScale ≤ 20` (after the F13 repair) -/
theorem validExpo_iff (ms sc : Int) : validExpo ms sc = true ↔ (1 ≤ ms ∧ -10 ≤ sc ∧ sc ≤ 20) := by
  unfold validExpo
  split
  · simp; omega
  · split
    · simp; omega
    · split
      · simp; omega
      · simp; omega

end Otel.C07
