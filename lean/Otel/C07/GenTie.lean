/-
C07 — generated tie.  `Otel.Gen.C07` is regenerated from /repo's current source by tools/go2lean on every run of
bin/check (checks/gentie.json); the theorems below are re-checked against the regenerated text.
Sites: the scale bounds of the exponential histogram (aggregate/exponential_histogram.go and the copy in
sdk/metric/aggregation.go), the validation `AggregationBase2ExponentialHistogram.err` as a skeleton over
e.MaxScale / e.MaxSize, the int64 limits used for the min/max seeds, and the default explicit bucket boundaries of
`DefaultAggregationSelector` (sdk/metric/reader.go).  Tied to `Otel.C07.validExpo`, `Otel.C07.expoMinScale`,
`Otel.C07.validBounds`.
Also, for the view/aggregation path model (Path.lean) and the collection model (Collect.lean):
`DefaultAggregationSelector` as a skeleton over the kind (→ `defaultSel`, `defaultBounds`), the two `noSum` kind
switches of `inserter.aggregateFunc` (sdk/metric/pipeline.go; the value of the local `noSum` is tracked into the
builder call) → `noSumKind`, and `limiter.Attributes` (aggregate/limit.go) → `limitAttr`.
-/
import Otel.Gen.C07
import Otel.C07.Model
import Otel.C07.Path
import Otel.C07.Collect

namespace Otel.C07.GenTie
open Otel.C07

theorem gen_scale_bounds_values : Otel.Gen.C07.expoMaxScale = 20 ∧ Otel.Gen.C07.expoMinScale = -10 := by decide

/-- the aggregate package and the metric package (which validates the option) use the same bounds, and the lower
bound is the model's `expoMinScale` -/
theorem gen_scale_bounds_agree :
    Otel.Gen.C07.expoMaxScale = Otel.Gen.C07.metric_expoMaxScale ∧ Otel.Gen.C07.expoMinScale = Otel.Gen.C07.metric_expoMinScale ∧
    Otel.Gen.C07.expoMinScale = Otel.C07.expoMinScale := by decide

/-- characterisation of the validation: accepted iff minScale ≤ MaxScale ≤ maxScale and MaxSize > 0 -/
theorem gen_expo_err_nil_iff (maxScale maxSize : Int) :
    Otel.Gen.C07.expoHistogramErr maxScale maxSize = "nil" ↔
      (Otel.Gen.C07.expoMinScale ≤ maxScale ∧ maxScale ≤ Otel.Gen.C07.expoMaxScale ∧ 0 < maxSize) := by
  unfold Otel.Gen.C07.expoHistogramErr Otel.Gen.C07.expoMinScale Otel.Gen.C07.expoMaxScale
  (repeat' split) <;> (try simp_all) <;> omega

/-- the validation in the source accepts exactly the configurations the model's `validExpo` accepts -/
theorem gen_expo_err_eq_model (maxSize maxScale : Int) :
    (Otel.Gen.C07.expoHistogramErr maxScale maxSize == "nil") = validExpo maxSize maxScale := by
  have h := gen_expo_err_nil_iff maxScale maxSize
  have hm : validExpo maxSize maxScale = true ↔ (-10 ≤ maxScale ∧ maxScale ≤ 20 ∧ 0 < maxSize) := by
    unfold validExpo
    (repeat' split) <;> (try simp_all) <;> omega
  simp only [Otel.Gen.C07.expoMinScale, Otel.Gen.C07.expoMaxScale] at h
  by_cases hv : validExpo maxSize maxScale = true
  · have := h.mpr (hm.mp hv); simp [this, hv]
  · have hn : ¬ Otel.Gen.C07.expoHistogramErr maxScale maxSize = "nil" := fun x => hv (hm.mpr (h.mp x))
    simp [hn, hv]

/-- the scale range is never empty and contains the documented default MaxScale 20 -/
theorem gen_scale_range_nonempty :
    Otel.Gen.C07.expoMinScale ≤ Otel.Gen.C07.expoMaxScale ∧ Otel.Gen.C07.expoHistogramErr 20 160 = "nil" := by decide

/-- the int64 limits used to seed min/max -/
theorem gen_int64_limits : Otel.Gen.C07.maxInt64 = 2 ^ 63 - 1 ∧ Otel.Gen.C07.minInt64 = -(2 ^ 63) := by decide

/-- the default explicit bucket boundaries are accepted by the model's boundary validation (strictly increasing)
and there are 15 of them (16 buckets) -/
theorem gen_default_boundaries_valid :
    validBounds Otel.Gen.C07.defaultBoundaries = true ∧ Otel.Gen.C07.defaultBoundaries.length = 15 ∧
    Otel.Gen.C07.defaultBoundaries.head? = some 0 ∧ Otel.Gen.C07.defaultBoundaries.getLast? = some 10000 := by decide

/-! ### Path.lean: default selector, noSum kinds -/

def kindCode : Kind → Int
  | .counter => Otel.Gen.C07.InstrumentKindCounter
  | .updown => Otel.Gen.C07.InstrumentKindUpDownCounter
  | .histogram => Otel.Gen.C07.InstrumentKindHistogram
  | .gauge => Otel.Gen.C07.InstrumentKindGauge
  | .obsCounter => Otel.Gen.C07.InstrumentKindObservableCounter
  | .obsUpDown => Otel.Gen.C07.InstrumentKindObservableUpDownCounter
  | .obsGauge => Otel.Gen.C07.InstrumentKindObservableGauge

def cfgTag : ACfg → String
  | .sum => "Sum"
  | .lastValue => "LastValue"
  | .hist _ false => "ExplicitBucketHistogram{Boundaries,NoMinMax:false}"
  | .hist _ true => "ExplicitBucketHistogram{Boundaries,NoMinMax:true}"
  | .dflt => "Default"
  | .drop => "Drop"
  | .expo _ _ _ => "Base2ExponentialHistogram"

/-- `DefaultAggregationSelector` as written today is the path model's `defaultSel`, kind by kind, and the
boundaries of its histogram arm are `defaultBounds` -/
theorem gen_default_selector_eq_path_model (k : Kind) :
    Otel.Gen.C07.defaultAggregationSelector (kindCode k) = cfgTag (defaultSel k) ∧
    defaultSel .histogram = .hist Otel.Gen.C07.defaultBoundaries false := by
  constructor
  · cases k <;> decide
  · decide

theorem gen_default_boundaries_eq_path_model : Otel.Gen.C07.defaultBoundaries = Otel.C07.defaultBounds := by decide

/-- the kinds for which `aggregateFunc` builds a histogram without a sum — explicit-bucket and exponential alike —
are exactly the model's `noSumKind` -/
theorem gen_no_sum_kind_eq_model (k : Kind) :
    Otel.Gen.C07.explicitNoSum (kindCode k) =
      ("<end>", [if noSumKind k then "build(noSum=true)" else "build(noSum=false)"]) ∧
    Otel.Gen.C07.expoNoSum (kindCode k) =
      ("<end>", [if noSumKind k then "build(noSum=true)" else "build(noSum=false)"]) := by
  cases k <;> exact ⟨by decide, by decide⟩

/-- the two switches are the same function of the kind, for every value (valid kind or not) -/
theorem gen_no_sum_switches_agree (kind : Int) :
    Otel.Gen.C07.explicitNoSum kind = Otel.Gen.C07.expoNoSum kind := by
  have h1 : Otel.Gen.C07.explicitNoSum kind =
      (if kind = 2 ∨ kind = 5 ∨ kind = 6 ∨ kind = 7 then ("<end>", ["build(noSum=true)"]) else ("<end>", ["build(noSum=false)"])) := by
    unfold Otel.Gen.C07.explicitNoSum
    (repeat' split) <;> (try simp_all) <;> omega
  have h2 : Otel.Gen.C07.expoNoSum kind =
      (if kind = 2 ∨ kind = 5 ∨ kind = 6 ∨ kind = 7 then ("<end>", ["build(noSum=true)"]) else ("<end>", ["build(noSum=false)"])) := by
    unfold Otel.Gen.C07.expoNoSum
    (repeat' split) <;> (try simp_all) <;> omega
  rw [h1, h2]

/-! ### Collect.lean: the limiter -/

theorem gen_limiter_overflow_iff (found : Bool) (aggLimit len : Int) :
    Otel.Gen.C07.limiterAttributes found aggLimit len = "overflow" ↔
      (aggLimit > 0 ∧ found = false ∧ len ≥ aggLimit - 1) := by
  unfold Otel.Gen.C07.limiterAttributes
  cases found <;> simp <;> (repeat' split) <;> simp <;> omega

theorem gen_limiter_total (found : Bool) (aggLimit len : Int) :
    Otel.Gen.C07.limiterAttributes found aggLimit len = "overflow" ∨
    Otel.Gen.C07.limiterAttributes found aggLimit len = "attrs" := by
  unfold Otel.Gen.C07.limiterAttributes
  (repeat' split) <;> simp

/-- `limiter.Attributes` as written today is the collection model's `limitAttr` -/
theorem gen_limiter_eq_collect_model (limit : Nat) (vals : List (Nat × Expo)) (a : Nat) :
    limitAttr limit vals a =
      (if Otel.Gen.C07.limiterAttributes (lookupA vals a).isSome (limit : Int) (vals.length : Int) = "overflow"
       then overflowAttr else a) := by
  have hc := gen_limiter_overflow_iff (lookupA vals a).isSome (limit : Int) (vals.length : Int)
  unfold limitAttr
  by_cases h : Otel.Gen.C07.limiterAttributes (lookupA vals a).isSome (limit : Int) (vals.length : Int) = "overflow"
  · obtain ⟨h1, h2, h3⟩ := hc.mp h
    have hl : limit > 0 := by omega
    have hn : (lookupA vals a).isNone = true := by
      cases hx : lookupA vals a <;> simp_all
    have hg : vals.length ≥ limit - 1 := by omega
    rw [if_pos h]; simp [hl, hn, hg]
  · rw [if_neg h]
    by_cases hl : limit > 0
    · by_cases hn : (lookupA vals a).isNone = true
      · have hs : (lookupA vals a).isSome = false := by cases hx : lookupA vals a <;> simp_all
        have hg : ¬ (vals.length ≥ limit - 1) := by
          intro hg; exact h (hc.mpr ⟨by omega, hs, by omega⟩)
        simp [hl, hg]
      · simp [hl, hn]
    · simp [hl]

end Otel.C07.GenTie
