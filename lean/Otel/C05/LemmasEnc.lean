/-
C05 — lemmas about the default encoder's escaping (`copyAndEscape`): it is bytewise escaping of the
string with every invalid UTF-8 byte replaced by U+FFFD, and bytewise escaping is invertible.
(The three `rune*_ge` facts are also proved in Otel/C11/Lemmas.lean; repeated here so that the two
properties' files stay independent.)
-/
import Otel.C05.Lemmas
namespace Otel.C05
open Otel Otel.Utf8

/-- the bytes `copyAndEscape` puts a backslash in front of: `=`, `,`, `\` -/
def specialB (b : UInt8) : Bool := b == 0x3D || b == 0x2C || b == 0x5C

/-- bytewise escaping -/
def escB (s : Bytes) : Bytes := s.flatMap (fun b => if specialB b then [0x5C, b] else [b])

/-- its inverse: a backslash makes the next byte literal -/
def unescB : Bytes → Bytes
  | [] => []
  | [b] => [b]
  | b :: c :: r => if b == 0x5C then c :: unescB r else b :: unescB (c :: r)

/-- what `range s` yields for a chunk: its bytes, or U+FFFD for an invalid byte -/
def chunkOut (c : Chunk) : Bytes := if c.invalid then [0xEF, 0xBF, 0xBD] else c.bytes

/-- `strings.ToValidUTF8(s, "�")` per invalid byte: the string `range s` sees -/
def sanitize (s : Bytes) : Bytes := (chunks s).flatMap chunkOut

theorem escB_cons (b : UInt8) (r : Bytes) :
    escB (b :: r) = (if specialB b then [0x5C, b] else [b]) ++ escB r := by
  simp [escB]

theorem escB_append (a b : Bytes) : escB (a ++ b) = escB a ++ escB b := by
  simp [escB]

theorem escB_eq_nil {s : Bytes} (h : escB s = []) : s = [] := by
  cases s with
  | nil => rfl
  | cons b r => rw [escB_cons] at h; split at h <;> simp at h

theorem unescB_escB (s : Bytes) : unescB (escB s) = s := by
  induction s with
  | nil => rfl
  | cons b r ih =>
    rw [escB_cons]
    by_cases hs : specialB b = true
    · simp only [hs, if_true, List.cons_append, List.nil_append]
      show (if (0x5C : UInt8) == 0x5C then b :: unescB (escB r) else _) = _
      simp [ih]
    · have hb : (b == 0x5C) = false := by
        simp only [specialB, Bool.or_eq_true, not_or] at hs
        simpa using hs.2
      simp only [hs, Bool.false_eq_true, if_false, List.cons_append, List.nil_append]
      cases he : escB r with
      | nil =>
        have : r = [] := escB_eq_nil he
        subst this; rfl
      | cons c r' =>
        show (if b == 0x5C then _ else b :: unescB (c :: r')) = _
        rw [hb, ← he, ih]; rfl

theorem escB_injective {s t : Bytes} (h : escB s = escB t) : s = t := by
  rw [← unescB_escB s, ← unescB_escB t, h]

theorem escB_of_no_special {s : Bytes} (h : ∀ b ∈ s, specialB b = false) : escB s = s := by
  induction s with
  | nil => rfl
  | cons b r ih =>
    rw [escB_cons, h b (by simp), ih (fun x hx => h x (by simp [hx]))]
    rfl

theorem not_special_of_ge {b : UInt8} (h : 0x80 ≤ b.toNat) : specialB b = false := by
  have h1 : b ≠ 0x3D := fun e => by rw [e] at h; revert h; decide
  have h2 : b ≠ 0x2C := fun e => by rw [e] at h; revert h; decide
  have h3 : b ≠ 0x5C := fun e => by rw [e] at h; revert h; decide
  simp [specialB, h1, h2, h3]

set_option maxRecDepth 100000 in
private theorem r2 : ∀ n : Nat, n < 256 → 0xC2 ≤ n → n < 0xE0 → 0x80 ≤ (n &&& 0x1F) <<< 6 := by decide
set_option maxRecDepth 100000 in
private theorem r3a : ∀ n : Nat, n < 256 → 0xA0 ≤ n → n ≤ 0xBF → 0x80 ≤ (n &&& 0x3F) <<< 6 := by decide
set_option maxRecDepth 100000 in
private theorem r3b : ∀ n : Nat, n < 256 → 0xE1 ≤ n → n < 0xF0 → 0x80 ≤ (n &&& 0x0F) <<< 12 := by decide
set_option maxRecDepth 100000 in
private theorem r4a : ∀ n : Nat, n < 256 → 0x90 ≤ n → n ≤ 0xBF → 0x80 ≤ (n &&& 0x3F) <<< 12 := by decide
set_option maxRecDepth 100000 in
private theorem r4b : ∀ n : Nat, n < 256 → 0xF1 ≤ n → n < 0xF5 → 0x80 ≤ (n &&& 0x07) <<< 18 := by decide

theorem rune2_ge' (b0 b1 : UInt8) (h : valid2 b0 b1) : 0x80 ≤ rune2 b0 b1 := by
  simp only [valid2, Bool.and_eq_true, decide_eq_true_eq] at h
  exact Nat.le_trans (r2 b0.toNat (UInt8.toNat_lt b0) h.1.1 h.1.2) Nat.left_le_or

theorem rune3_ge' (b0 b1 b2 : UInt8) (h : valid3 b0 b1 b2) : 0x80 ≤ rune3 b0 b1 b2 := by
  simp only [valid3, Bool.and_eq_true, decide_eq_true_eq] at h
  obtain ⟨⟨⟨⟨h1, h2⟩, h3⟩, h4⟩, _⟩ := h
  unfold rune3
  by_cases he : b0.toNat = 0xE0
  · simp only [he, if_true] at h3
    have h5 : b1.toNat ≤ 0xBF := by
      have := h4; split at this <;> omega
    exact Nat.le_trans (Nat.le_trans (r3a b1.toNat (UInt8.toNat_lt b1) h3 h5) Nat.right_le_or) Nat.left_le_or
  · exact Nat.le_trans (Nat.le_trans (r3b b0.toNat (UInt8.toNat_lt b0) (by omega) h2) Nat.left_le_or) Nat.left_le_or

theorem rune4_ge' (b0 b1 b2 b3 : UInt8) (h : valid4 b0 b1 b2 b3) : 0x80 ≤ rune4 b0 b1 b2 b3 := by
  simp only [valid4, Bool.and_eq_true, decide_eq_true_eq] at h
  obtain ⟨⟨⟨⟨⟨h1, h2⟩, h3⟩, h4⟩, _⟩, _⟩ := h
  unfold rune4
  by_cases he : b0.toNat = 0xF0
  · simp only [he, if_true] at h3
    have h5 : b1.toNat ≤ 0xBF := by
      have := h4; split at this <;> omega
    exact Nat.le_trans (Nat.le_trans (Nat.le_trans (r4a b1.toNat (UInt8.toNat_lt b1) h3 h5) Nat.right_le_or) Nat.left_le_or) Nat.left_le_or
  · exact Nat.le_trans (Nat.le_trans (Nat.le_trans (r4b b0.toNat (UInt8.toNat_lt b0) (by omega) h2) Nat.left_le_or) Nat.left_le_or) Nat.left_le_or

/-- a non-ASCII lead byte: the rune is not ASCII and every byte of the chunk is ≥ 0x80 -/
theorem decode_nonascii (b : UInt8) (r : Bytes) (h : 0x80 ≤ b.toNat) :
    0x80 ≤ (decode (b :: r)).1 ∧ ∀ x ∈ (b :: r).take (decode (b :: r)).2, 0x80 ≤ x.toNat := by
  have hb : ¬ b.toNat < 0x80 := by omega
  unfold decode
  simp only [hb, if_false]
  split
  · simp [h]
  · rename_i b1 rest1
    split
    · rename_i h2
      refine ⟨rune2_ge' _ _ h2, ?_⟩
      simp only [valid2, isCont, Bool.and_eq_true, decide_eq_true_eq] at h2
      intro x hx
      simp only [List.take_succ_cons, List.take_zero, List.mem_cons, List.mem_nil_iff, or_false] at hx
      rcases hx with e | e <;> subst e <;> omega
    · split
      · simp [h]
      · rename_i b2 rest2
        split
        · rename_i h3
          refine ⟨rune3_ge' _ _ _ h3, ?_⟩
          simp only [valid3, isCont, Bool.and_eq_true, decide_eq_true_eq] at h3
          obtain ⟨⟨⟨⟨_, _⟩, h31⟩, _⟩, h33, _⟩ := h3
          have : 0x80 ≤ b1.toNat := by split at h31 <;> omega
          intro x hx
          simp only [List.take_succ_cons, List.take_zero, List.mem_cons, List.mem_nil_iff, or_false] at hx
          rcases hx with e | e | e <;> subst e <;> omega
        · split
          · simp [h]
          · rename_i b3 rest3
            split
            · rename_i h4
              refine ⟨rune4_ge' _ _ _ _ h4, ?_⟩
              simp only [valid4, isCont, Bool.and_eq_true, decide_eq_true_eq] at h4
              obtain ⟨⟨⟨⟨⟨_, _⟩, h41⟩, _⟩, h43, _⟩, h44, _⟩ := h4
              have : 0x80 ≤ b1.toNat := by split at h41 <;> omega
              intro x hx
              simp only [List.take_succ_cons, List.take_zero, List.mem_cons, List.mem_nil_iff, or_false] at hx
              rcases hx with e | e | e | e <;> subst e <;> omega
            · simp [h]

/-- what `copyAndEscape` writes for one rune of `range s` -/
def escChunk (c : Chunk) : Bytes :=
  let out : Bytes := if c.invalid then [0xEF, 0xBF, 0xBD] else c.bytes
  if c.rune = 0x3D ∨ c.rune = 0x2C ∨ c.rune = 0x5C then 0x5C :: out else out

theorem escape_eq_flatMap (s : Bytes) : escape s = (chunks s).flatMap escChunk := rfl

/-- per rune, `copyAndEscape` is bytewise escaping of what `range` yields -/
theorem escChunk_head (b : UInt8) (r : Bytes) :
    let d := decode (b :: r)
    let c : Chunk := ⟨(b :: r).take d.2, d.1, d.1 == 0xFFFD && d.2 == 1⟩
    escChunk c = escB (chunkOut c) := by
  intro d c
  by_cases hb : b.toNat < 0x80
  · have hd : d = (b.toNat, 1) := by simp [d, decode, hb]
    have hne : b.toNat ≠ 0xFFFD := by omega
    have hc : c = ⟨[b], b.toNat, false⟩ := by simp [c, hd, hne]
    rw [hc]
    have e1 : (b.toNat = 0x3D) ↔ b = 0x3D := by rw [← UInt8.toNat_inj]; rfl
    have e2 : (b.toNat = 0x2C) ↔ b = 0x2C := by rw [← UInt8.toNat_inj]; rfl
    have e3 : (b.toNat = 0x5C) ↔ b = 0x5C := by rw [← UInt8.toNat_inj]; rfl
    simp only [escChunk, chunkOut, Bool.false_eq_true, if_false, escB, List.flatMap_cons, List.flatMap_nil,
      List.append_nil, specialB, Bool.or_eq_true, beq_iff_eq, e1, e2, e3, or_assoc]
  · obtain ⟨hr, hbytes⟩ := decode_nonascii b r (by omega)
    have hns : ¬ (c.rune = 0x3D ∨ c.rune = 0x2C ∨ c.rune = 0x5C) := by
      show ¬ (d.1 = 0x3D ∨ d.1 = 0x2C ∨ d.1 = 0x5C)
      have : 0x80 ≤ d.1 := hr
      omega
    have hout : ∀ x ∈ chunkOut c, specialB x = false := by
      intro x hx
      unfold chunkOut at hx
      split at hx
      · simp only [List.mem_cons, List.mem_nil_iff, or_false] at hx
        rcases hx with e | e | e <;> subst e <;> decide
      · exact not_special_of_ge (hbytes x hx)
    rw [escB_of_no_special hout]
    simp only [escChunk, hns, if_false, chunkOut]

theorem escChunk_all (s : Bytes) : ∀ c ∈ chunks s, escChunk c = escB (chunkOut c) := by
  induction h : s.length using Nat.strongRecOn generalizing s with
  | _ n ih =>
    cases s with
    | nil => simp
    | cons b r =>
      rw [chunks_cons]
      intro c hc
      rcases List.mem_cons.mp hc with e | hc'
      · rw [e]; exact escChunk_head b r
      · have hp := decode_size_pos b r
        exact ih ((b :: r).drop (decode (b :: r)).2).length
          (by rw [← h]; simp only [List.length_drop, List.length_cons]; omega) _ rfl c hc'

/-- **`copyAndEscape` = bytewise escaping of the sanitized string** -/
theorem escape_eq_escB_sanitize (s : Bytes) : escape s = escB (sanitize s) := by
  rw [escape_eq_flatMap, sanitize]
  have h := escChunk_all s
  generalize chunks s = cs at h
  induction cs with
  | nil => rfl
  | cons c cs ih =>
    simp only [List.flatMap_cons, escB_append]
    rw [h c (by simp), ih (fun x hx => h x (by simp [hx]))]

theorem sanitize_of_valid {s : Bytes} (h : validString s = true) : sanitize s = s := by
  have hf := flat_chunks s
  unfold sanitize
  unfold validString at h
  rw [List.all_eq_true] at h
  conv => rhs; rw [← hf]
  generalize chunks s = cs at h
  induction cs with
  | nil => rfl
  | cons c cs ih =>
    have hc : c.invalid = false := by simpa using h c (by simp)
    simp only [List.flatMap_cons, flat, List.map_cons, List.flatten_cons, chunkOut, hc, Bool.false_eq_true, if_false]
    congr 1
    exact ih (fun x hx => h x (by simp [hx]))

/-! ### unique parsing of escaped fields joined by unescaped separators -/

/-- the separators the encoder writes unescaped: `=` and `,` -/
def sepB (b : UInt8) : Bool := b == 0x3D || b == 0x2C

/-- what may follow an escaped field: the end, or an unescaped separator and anything -/
def TailOK (t : Bytes) : Prop := t = [] ∨ ∃ s r, t = s :: r ∧ sepB s = true

theorem sepB_special {b : UInt8} (h : sepB b = true) : specialB b = true := by
  simp only [sepB, specialB, Bool.or_eq_true] at h ⊢; exact Or.inl h

theorem sepB_bs : sepB 0x5C = false := by decide

/-- an escaped non-empty field followed by anything never starts with an unescaped separator -/
theorem escB_head_not_sep (c : UInt8) (y t : Bytes) :
    ∃ h rest, escB (c :: y) ++ t = h :: rest ∧ sepB h = false := by
  rw [escB_cons]
  by_cases hc : specialB c = true
  · exact ⟨0x5C, c :: (escB y ++ t), by simp [hc], sepB_bs⟩
  · refine ⟨c, escB y ++ t, by simp [hc], ?_⟩
    cases hs : sepB c with
    | false => rfl
    | true => exact absurd (sepB_special hs) hc

theorem tail_not_head {t : Bytes} (ht : TailOK t) {h : UInt8} {rest : Bytes} (e : t = h :: rest)
    (hh : sepB h = false) : False := by
  rcases ht with e0 | ⟨s, r, e1, hs⟩
  · rw [e0] at e; cases e
  · rw [e1] at e; cases e; rw [hs] at hh; cases hh

theorem escB_prefix_unique (x y t1 t2 : Bytes) (h1 : TailOK t1) (h2 : TailOK t2)
    (h : escB x ++ t1 = escB y ++ t2) : x = y ∧ t1 = t2 := by
  induction x generalizing y with
  | nil =>
    cases y with
    | nil => exact ⟨rfl, by simpa [escB] using h⟩
    | cons c y' =>
      obtain ⟨hd, rest, e, hh⟩ := escB_head_not_sep c y' t2
      rw [e] at h
      exact (tail_not_head h1 (by simpa [escB] using h) hh).elim
  | cons b x' ih =>
    cases y with
    | nil =>
      obtain ⟨hd, rest, e, hh⟩ := escB_head_not_sep b x' t1
      rw [e] at h
      exact (tail_not_head h2 (by simpa [escB] using h.symm) hh).elim
    | cons c y' =>
      rw [escB_cons, escB_cons] at h
      by_cases hb : specialB b = true <;> by_cases hc : specialB c = true
      · simp only [hb, hc, if_true, List.cons_append, List.nil_append, List.cons.injEq, true_and] at h
        obtain ⟨e, h'⟩ := h
        obtain ⟨i1, i2⟩ := ih y' h'
        exact ⟨by rw [e, i1], i2⟩
      · simp only [hb, hc, if_true, Bool.false_eq_true, if_false, List.cons_append, List.nil_append,
          List.cons.injEq] at h
        have : specialB c = true := by rw [← h.1]; decide
        exact absurd this hc
      · simp only [hb, hc, if_true, Bool.false_eq_true, if_false, List.cons_append, List.nil_append,
          List.cons.injEq] at h
        have : specialB b = true := by rw [h.1]; decide
        exact absurd this hb
      · simp only [hb, hc, Bool.false_eq_true, if_false, List.cons_append, List.nil_append, List.cons.injEq] at h
        obtain ⟨e, h'⟩ := h
        obtain ⟨i1, i2⟩ := ih y' h'
        exact ⟨by rw [e, i1], i2⟩

/-- escaped fields, each followed by its separator, then a last escaped field -/
def joinF : List (Bytes × UInt8) → Bytes → Bytes
  | [], last => escB last
  | (f, s) :: rest, last => escB f ++ s :: joinF rest last

theorem joinF_injective (fs gs : List (Bytes × UInt8)) (l1 l2 : Bytes)
    (hf : ∀ p ∈ fs, sepB p.2 = true) (hg : ∀ p ∈ gs, sepB p.2 = true)
    (h : joinF fs l1 = joinF gs l2) : fs = gs ∧ l1 = l2 := by
  induction fs generalizing gs with
  | nil =>
    cases gs with
    | nil => exact ⟨rfl, escB_injective h⟩
    | cons g gs' =>
      obtain ⟨gf, gsep⟩ := g
      have := escB_prefix_unique l1 gf [] (gsep :: joinF gs' l2) (Or.inl rfl)
        (Or.inr ⟨_, _, rfl, hg (gf, gsep) (by simp)⟩) (by simpa [joinF] using h)
      cases this.2
  | cons f fs' ih =>
    obtain ⟨ff, fsep⟩ := f
    cases gs with
    | nil =>
      have := escB_prefix_unique ff l2 (fsep :: joinF fs' l1) [] (Or.inr ⟨_, _, rfl, hf (ff, fsep) (by simp)⟩)
        (Or.inl rfl) (by simpa [joinF] using h)
      cases this.2
    | cons g gs' =>
      obtain ⟨gf, gsep⟩ := g
      have hu := escB_prefix_unique ff gf (fsep :: joinF fs' l1) (gsep :: joinF gs' l2)
        (Or.inr ⟨_, _, rfl, hf (ff, fsep) (by simp)⟩) (Or.inr ⟨_, _, rfl, hg (gf, gsep) (by simp)⟩)
        (by simpa [joinF] using h)
      obtain ⟨e1, e2⟩ := hu
      obtain ⟨e3, e4⟩ := List.cons.inj e2
      obtain ⟨i1, i2⟩ := ih gs' (fun p hp => hf p (by simp [hp])) (fun p hp => hg p (by simp [hp])) e4
      exact ⟨by rw [e1, e3, i1], i2⟩

/-- the fields of an encoded list of `key=value` pairs: `k1 = v1 , k2 = v2 … kn =` and the last value -/
def fieldsOf : List (Bytes × Bytes) → List (Bytes × UInt8) × Bytes
  | [] => ([], [])
  | (k, v) :: r =>
    match r with
    | [] => ([(k, 0x3D)], v)
    | _ :: _ => ((k, 0x3D) :: (v, 0x2C) :: (fieldsOf r).1, (fieldsOf r).2)

theorem fieldsOf_seps (ps : List (Bytes × Bytes)) : ∀ p ∈ (fieldsOf ps).1, sepB p.2 = true := by
  induction ps with
  | nil => simp [fieldsOf]
  | cons kv r ih =>
    obtain ⟨k, v⟩ := kv
    cases r with
    | nil => intro p hp; simp [fieldsOf] at hp; subst hp; rfl
    | cons q r' =>
      intro p hp
      simp only [fieldsOf, List.mem_cons] at hp
      rcases hp with e | e | hp'
      · subst e; rfl
      · subst e; rfl
      · exact ih p hp'

theorem fieldsOf_injective (a b : List (Bytes × Bytes)) (h : fieldsOf a = fieldsOf b) : a = b := by
  induction a generalizing b with
  | nil =>
    cases b with
    | nil => rfl
    | cons q r => obtain ⟨k, v⟩ := q; cases r <;> simp [fieldsOf] at h
  | cons p r ih =>
    obtain ⟨k, v⟩ := p
    cases b with
    | nil => cases r <;> simp [fieldsOf] at h
    | cons q r2 =>
      obtain ⟨k2, v2⟩ := q
      cases r with
      | nil =>
        cases r2 with
        | nil =>
          simp only [fieldsOf, Prod.mk.injEq, List.cons.injEq, and_true] at h
          rw [h.1, h.2]
        | cons _ _ => simp [fieldsOf] at h
      | cons p2 r' =>
        cases r2 with
        | nil => simp [fieldsOf] at h
        | cons q2 r2' =>
          simp only [fieldsOf, Prod.mk.injEq, List.cons.injEq] at h
          obtain ⟨⟨⟨e1, _⟩, ⟨e2, _⟩, e3⟩, e4⟩ := h
          have := ih (q2 :: r2') (Prod.ext e3 e4)
          rw [e1, e2, this]

/-- the joined escaped items of a list of pairs -/
def encPairs (ps : List (Bytes × Bytes)) : Bytes :=
  ((ps.map (fun p => escB p.1 ++ 0x3D :: escB p.2)).intersperse [0x2C]).flatten

theorem encPairs_eq_joinF (ps : List (Bytes × Bytes)) : encPairs ps = joinF (fieldsOf ps).1 (fieldsOf ps).2 := by
  induction ps with
  | nil => rfl
  | cons p r ih =>
    obtain ⟨k, v⟩ := p
    cases r with
    | nil => simp [encPairs, fieldsOf, joinF]
    | cons q r' =>
      have : encPairs ((k, v) :: q :: r') = (escB k ++ 0x3D :: escB v) ++ 0x2C :: encPairs (q :: r') := by
        simp [encPairs, List.intersperse_cons_cons]
      rw [this, ih]
      simp [fieldsOf, joinF]

theorem encPairs_injective (a b : List (Bytes × Bytes)) (h : encPairs a = encPairs b) : a = b := by
  rw [encPairs_eq_joinF, encPairs_eq_joinF] at h
  obtain ⟨h1, h2⟩ := joinF_injective _ _ _ _ (fieldsOf_seps a) (fieldsOf_seps b) h
  exact fieldsOf_injective a b (Prod.ext h1 h2)

end Otel.C05
